(** The Writer at the level of Python data: Writer.write(record) = optional validation gate, then
    elaboration (write_data into the pending buffer; rolled back when it raises), then the block logic of
    model/Container.v.  Generic in the codec. *)
From Coq Require Import String.
From FA Require Import model.Base model.Varint model.Value model.Schema model.Codec model.Validate model.Write model.Container.
Open Scope Z_scope.

Inductive pop :=
| PWrite (v : pyval)                (* Writer.write(record) *)
| PFlush
| PBlock (ls : list lval)           (* Writer.write_block(block) *)
| PReopen (si : Z).

Inductive pstatus := POk | PRaised | PUnspecified | PNoFuel.

Section PyWriter.
  Variable compress : bytes -> bytes.
  Variable sync : bytes.
  Variables (fuel : nat) (wo : wopts) (validator : bool) (e : env) (s : schema).

  (* which container-level operation a Python-level operation amounts to *)
  Definition lower (o : pop) : option wop * pstatus :=
    match o with
    | PWrite v =>
        let gate := if validator then validate fuel wo e s (Some v) else Ok true in
        match gate with
        | Ok true =>
            match elab fuel wo e s v with
            | WOk a => (Some (OWrite a), POk)
            | WErr => (Some OWriteBad, PRaised)
            | WUnspec => (None, PUnspecified)
            | WFuel => (None, PNoFuel)
            end
        | Ok false => (Some OWriteBad, PRaised)        (* ValidationError before anything is encoded *)
        | Err => (Some OWriteBad, PRaised)
        | OutOfFuel => (None, PNoFuel)
        end
    | PFlush => (Some OFlush, POk)
    | PBlock ls => (Some (OBlock ls), POk)
    | PReopen si => (Some (OReopen si), POk)
    end.

  Definition pstep (st : wstate) (o : pop) : wstate * pstatus :=
    match lower o with
    | (Some w, status) => (wstep compress sync st w, status)
    | (None, status) => (st, status)
    end.

  Fixpoint lower_all (ops : list pop) : option (list wop) :=
    match ops with
    | [] => Some []
    | o :: ops => match fst (lower o), lower_all ops with
                  | Some w, Some ws => Some (w :: ws)
                  | _, _ => None
                  end
    end.

  Definition prun (st : wstate) (ops : list pop) : wstate := fold_left (fun st o => fst (pstep st o)) ops st.
End PyWriter.
