(** Python data as the harness abstracts it (purely syntactic abstraction):
    int -> Z, float -> its 64-bit pattern, str -> its UTF-8 bytes, bytes -> byte list,
    dict -> list of pairs in insertion order (keys unique), list/tuple -> list. *)
From Coq Require Import String.
From FA Require Import model.Base.

Inductive pyval :=
| PNone
| PBool (b : bool)
| PInt (z : Z)
| PFloat (bits : Z)
| PStr (s : str)
| PBytes (b : bytes)
| PByteArray (b : bytes)
| PList (l : list pyval)
| PTuple (l : list pyval)
| PDict (kv : list (pyval * pyval)).

(** canonical text for the correspondence protocol *)
Fixpoint show_py (v : pyval) : string :=
  match v with
  | PNone => "N"
  | PBool true => "T"
  | PBool false => "F"
  | PInt z => "I" ++ show_Z z
  | PFloat b => "D" ++ show_Z b
  | PStr s => "S" ++ tohex s
  | PBytes b => "B" ++ tohex b
  | PByteArray b => "A" ++ tohex b
  | PList l => "[" ++ (fix go l := match l with [] => "" | x :: l => show_py x ++ "," ++ go l end) l ++ "]"
  | PTuple l => "(" ++ (fix go l := match l with [] => "" | x :: l => show_py x ++ "," ++ go l end) l ++ ")"
  | PDict kv => "{" ++ (fix go l := match l with [] => "" | (k, x) :: l => show_py k ++ ":" ++ show_py x ++ "," ++ go l end) kv ++ "}"
  end%string.

Fixpoint py_eqb (a b : pyval) {struct a} : bool :=
  match a, b with
  | PNone, PNone => true
  | PBool x, PBool y => Bool.eqb x y
  | PInt x, PInt y => x =? y
  | PFloat x, PFloat y => x =? y
  | PStr x, PStr y => bytes_eqb x y
  | PBytes x, PBytes y => bytes_eqb x y
  | PByteArray x, PByteArray y => bytes_eqb x y
  | PList x, PList y | PTuple x, PTuple y =>
      (fix go x y := match x, y with
                     | [], [] => true
                     | a :: x, b :: y => py_eqb a b && go x y
                     | _, _ => false end) x y
  | PDict x, PDict y =>
      (fix go x y := match x, y with
                     | [], [] => true
                     | (k, a) :: x, (k', b) :: y => py_eqb k k' && py_eqb a b && go x y
                     | _, _ => false end) x y
  | _, _ => false
  end.

(** dict helpers: lookup by string key; insertion keeps first position, last value *)
Fixpoint dict_get (kv : list (pyval * pyval)) (k : str) : option pyval :=
  match kv with
  | [] => None
  | (PStr k', v) :: kv => if bytes_eqb k' k then Some v else dict_get kv k
  | _ :: kv => dict_get kv k
  end.

Fixpoint dict_set (kv : list (pyval * pyval)) (k : str) (v : pyval) : list (pyval * pyval) :=
  match kv with
  | [] => [(PStr k, v)]
  | (PStr k', v') :: kv => if bytes_eqb k' k then (PStr k', v) :: kv else (PStr k', v') :: dict_set kv k v
  | x :: kv => x :: dict_set kv k v
  end.
