(** Object container files: header, blocks, the lazy reader (_read_py.py file_reader / reader /
    _iter_avro_records), the block reader (_iter_avro_blocks), is_avro, and the Writer state machine
    (_write_py.py Writer: write / dump / flush / write_block / append).  The block codec is abstract:
    [compress]/[decompress] are Section variables (zlib, bz2, lzma are the standard library's). *)
From Coq Require Import String.
From FA Require Import model.Base model.Varint model.Value model.Schema model.Utf8 model.Codec.
Open Scope Z_scope.

Definition MAGIC : bytes := [79; 98; 106; 1].
Definition SYNC_SIZE : Z := 16.

Definition HEADER_SCHEMA : schema :=
  SRecord (s2b "org.apache.avro.file.Header") []
    [ mkField (s2b "magic") (SFixed (s2b "magic") [] 4) None [];
      mkField (s2b "meta") (SMap SBytes) None [];
      mkField (s2b "sync") (SFixed (s2b "sync") [] SYNC_SIZE) None [] ].

Definition meta_val (meta : list (bytes * bytes)) : aval :=
  AMap (map (fun kv => (fst kv, ABytes (snd kv))) meta).
Definition header_val (meta : list (bytes * bytes)) (sync : bytes) : aval :=
  ARecord [AFixed MAGIC; meta_val meta; AFixed sync].
Definition header_bytes (meta : list (bytes * bytes)) (sync : bytes) : bytes := wire (header_val meta sync).

(* fp.read(len(MAGIC)) == MAGIC *)
Definition is_avro (bs : bytes) : bool := bytes_eqb (firstn 4 bs) MAGIC.

Inductive outcome := EndOK | Raised | NoFuel.

Section Container.
  Variable compress : bytes -> bytes.
  Variable decompress : bytes -> res bytes.
  Variable e : env.
  Variable s : schema.
  Variable fuel : nat.                       (* fuel for decoding one record *)

  (* one block as the writer emits it: count, length-prefixed codec payload, marker *)
  Definition block_bytes (sync : bytes) (count : Z) (raw : bytes) : bytes :=
    long_enc count ++ enc_bytes (compress raw) ++ sync.

  (* for i in range(count): read_data(block_fo) -- all or nothing here: partial yields out of a corrupt
     payload are not modelled (no property speaks about them, the harness never produces one) *)
  Definition block_records (count : Z) (raw : bytes) : res (list aval) :=
    let* (l, _) := items_Z (dec fuel e s) count raw in Ok l.

  (* _iter_avro_records: records yielded so far and how iteration ended; k bounds the number of blocks *)
  Fixpoint read_blocks (k : nat) (sync : bytes) (bs : bytes) : list aval * outcome :=
    match k with
    | O => ([], NoFuel)
    | S k =>
      match bs with
      | [] => ([], EndOK)                                           (* EOFError on the count: normal end *)
      | _ =>
        match long_dec bs with
        | Ok (count, bs1) =>
          match dec_bytes bs1 with
          | Ok (payload, bs2) =>
            match decompress payload with
            | Ok raw =>
              match block_records count raw with
              | Ok l =>
                match take 16 bs2 with
                | Some (m, bs3) =>
                    if bytes_eqb m sync
                    then let (l', oc) := read_blocks k sync bs3 in (l ++ l', oc)
                    else (l, Raised)                                  (* expected sync marker not found *)
                | None => (l, Raised)
                end
              | Err => ([], Raised) | OutOfFuel => ([], NoFuel)
              end
            | _ => ([], Raised)
            end
          | _ => ([], Raised)
          end
        | _ => ([], Raised)
        end
      end
    end.

  (* _iter_avro_blocks: (offset, size, num_records) of each block; a block is reported only after its marker matched *)
  Fixpoint read_block_infos (k : nat) (sync : bytes) (off : Z) (bs : bytes) : list (Z * Z * Z) * outcome :=
    match k with
    | O => ([], NoFuel)
    | S k =>
      match bs with
      | [] => ([], EndOK)
      | _ =>
        match long_dec bs with
        | Ok (count, bs1) =>
          match dec_bytes bs1 with
          | Ok (payload, bs2) =>
            match decompress payload with
            | Ok raw =>
              match take 16 bs2 with
              | Some (m, bs3) =>
                  if bytes_eqb m sync
                  then let size := len bs - len bs3 in
                       let (l', oc) := read_block_infos k sync (off + size) bs3 in ((off, size, count) :: l', oc)
                  else ([], Raised)
              | None => ([], Raised)
              end
            | _ => ([], Raised)
            end
          | _ => ([], Raised)
          end
        | _ => ([], Raised)
        end
      end
    end.

  Definition read_header (hf : nat) (bs : bytes) : res (list (bytes * aval) * bytes * bytes) :=
    let* (h, rest) := dec hf [] HEADER_SCHEMA bs in
    match h with
    | ARecord [AFixed _; AMap meta; AFixed sync] => Ok (meta, sync, rest)
    | _ => Err
    end.

  (* fastavro.reader(fo): header, then the lazy record iterator *)
  Definition read_container (hf k : nat) (bs : bytes) : list aval * outcome :=
    match read_header hf bs with
    | Ok (_, sync, rest) => read_blocks k sync rest
    | Err => ([], Raised)
    | OutOfFuel => ([], NoFuel)
    end.

  (** ---- the Writer ---- *)
  (* out: the underlying stream; buf/cnt: pending block buffer and its record count; sint: this Writer's sync_interval *)
  Record wstate := mkW { out : bytes; buf : bytes; cnt : Z; sint : Z }.

  Variable sync : bytes.

  Definition dump (st : wstate) : wstate :=
    mkW (out st ++ block_bytes sync (cnt st) (buf st)) [] 0 (sint st).

  Definition pending (st : wstate) : bool := negb (len (buf st) =? 0) || (0 <? cnt st).

  Definition flush (st : wstate) : wstate := if pending st then dump st else st.

  Inductive wop :=
  | OWrite (a : aval)          (* a record the writer accepts: elaborated to the wire value a *)
  | OWriteBad                  (* a record that does not fit the schema: write raises *)
  | OFlush
  | OBlock (ls : list lval)    (* write_block: a donor block holding these records in any valid layout *)
  | OReopen (si : Z).          (* flush, then a new Writer (with its own sync_interval) on the same stream in append mode *)

  Definition wstep (st : wstate) (o : wop) : wstate :=
    match o with
    | OWrite a =>
        let st' := mkW (out st) (buf st ++ wire a) (cnt st + 1) (sint st) in
        if sint st <=? len (buf st') then dump st' else st'
    | OWriteBad => st                                   (* the pending buffer is restored: nothing is contributed *)
    | OFlush => flush st
    | OBlock ls =>
        let st' := flush st in
        mkW (out st' ++ block_bytes sync (len ls) (flat_map wire_l ls)) [] 0 (sint st)
    | OReopen si => let st' := flush st in mkW (out st') (buf st') (cnt st') si   (* same marker, codec and schema: they come from the header *)
    end.

  Definition wcreate (meta : list (bytes * bytes)) (si : Z) : wstate := mkW (header_bytes meta sync) [] 0 si.

  (* what has been successfully submitted *)
  Definition submitted_of (o : wop) : list aval :=
    match o with OWrite a => [a] | OBlock ls => map erase ls | _ => [] end.
End Container.
