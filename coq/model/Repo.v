(** fastavro/_schema_py.py load_schema / _load_schema / _parse_schema_with_repo / _inject_schema /
    load_schema_ordered over a repository [repo := list (string * json)] (subject name ->
    raw JSON of the file <name>.avsc), and the specification side [inline_first_use].
    Executable definitions only.

    In-place mutation made explicit:
    - parse_schema mutates the caller's named_schemas; a FAILED parse leaves the entries written
      before the failure ([PErrUnknown name tbl] carries them);
    - _parse_schema_with_repo takes schema_copy = deepcopy(named_schemas) before parsing, hands
      schema_copy to the load of the missing subject (which mutates it) and retries with it; the
      object the CALLER passed keeps what the failed attempt wrote;
    - _inject_schema mutates the outer dict; its result (first component) is that dict. *)
From Coq Require Import String Ascii.
From FA Require Import model.Base model.Json model.Parse model.SchemaSpec model.Inline model.Canon.
Open Scope string_scope.

Definition repo := list (string * json).

(** ---- parse_schema with the _write_hint argument ---- *)
Fixpoint parse_schema_rec_g (wh : bool) (f : nat) (j : json) (st : pstate) : pres (json * pstate) :=
  match f with
  | O => PFuel
  | S f =>
      match j with
      | JObj kv =>
          if jhas "__fastavro_parsed" kv then
            match jget "__named_schemas" kv with
            | Some (JObj emb) => POk (j, mkst (st_names st) (jupdate emb (st_tbl st)))
            | Some _ => PErrOther
            | None => parse_rec f j "" wh st None
            end
          else parse_rec f j "" wh st None
      | JArr l =>
          let+ (ps, st1) := parse_tops (parse_schema_rec_g wh f) l st in
          POk (JArr ps, st1)
      | _ => parse_rec f j "" wh st None
      end
  end.

Definition parse_schema_g (wh : bool) (f : nat) (j : json) (t : named) : pres (json * named) :=
  let+ (p, st1) := parse_schema_rec_g wh f j (mkst [] t) in
  POk (tie (st_tbl st1) p, st_tbl st1).

(** ---- _inject_schema(outer, inner, ns, is_injected) = (schema, is_injected) ---- *)
Definition injfun := json -> string -> bool -> pres (json * bool).

Section Inject.
  Variable inner : json.            (* the parsed sub-schema *)
  Variable inner_name : json.       (* inner_schema["name"] *)
  Variable rec : injfun.

  Fixpoint inject_members (ns : string) (l : list json) (inj : bool) : pres (list json * bool) :=
    match l with
    | [] => POk ([], inj)
    | s :: r =>
        if inj then let+ (ps, i2) := inject_members ns r inj in POk (s :: ps, i2)
        else
          let+ (p, i1) := rec s ns inj in
          let+ (ps, i2) := inject_members ns r (if i1 then true else inj) in
          POk (p :: ps, i2)
    end.

  Fixpoint inject_fields (ns : string) (l : list json) (inj : bool) : pres (list json * bool) :=
    match l with
    | [] => POk ([], inj)
    | fd :: r =>
        if inj then let+ (ps, i2) := inject_fields ns r inj in POk (fd :: ps, i2)
        else
          match fd with
          | JObj fkv =>
              match jget "type" fkv with
              | None => PErrOther
              | Some ty =>
                  let+ (p, i1) := rec ty ns inj in
                  let+ (ps, i2) := inject_fields ns r (if i1 then true else inj) in
                  POk (JObj (jset "type" p fkv) :: ps, i2)
              end
          | _ => PErrOther
          end
    end.

  Definition inject_node (outer : json) (ns : string) (inj : bool) : pres (json * bool) :=
    if inj then POk (outer, inj)
    else
      match outer with
      | JArr l => let+ (ps, i) := inject_members ns l inj in POk (JArr ps, i)
      | JStr s =>
          if is_prim s then POk (outer, inj)
          else
            let q := qualify ns s in
            if json_eqb (JStr q) inner_name then POk (inner, true) else POk (JStr q, inj)
      | JObj kv =>
          match jget "type" kv with
          | None => PErrOther
          | Some (JStr t) =>
              if String.eqb t "array" then
                match jget "items" kv with
                | None => PErrOther
                | Some it => let+ (p, i) := rec it ns inj in POk (JObj (jset "items" p kv), i)
                end
              else if String.eqb t "map" then
                match jget "values" kv with
                | None => PErrOther
                | Some it => let+ (p, i) := rec it ns inj in POk (JObj (jset "values" p kv), i)
                end
              else if String.eqb t "enum" || String.eqb t "fixed" then POk (outer, inj)
              else if String.eqb t "record" || String.eqb t "error" then
                let+ (ns', _) := schema_name kv ns in
                let+ fl := match jget "fields" kv with
                           | None => POk []
                           | Some (JArr fl) => POk fl
                           | Some _ => PErrOther
                           end in
                let+ (fs, i) := inject_fields ns' fl inj in
                POk (JObj (match fs with [] => kv | _ => jset "fields" (JArr fs) kv end), i)
              else if is_prim t then POk (outer, inj)
              else PErrOther                      (* "Internal error" *)
          | Some (JArr _) | Some (JObj _) => PErrOther
          | Some _ => PErrOther
          end
      | _ => PErrOther
      end.
End Inject.

Fixpoint inject_rec (f : nat) (inner inner_name : json) : injfun :=
  match f with
  | O => fun _ _ _ => PFuel
  | S f => inject_node inner inner_name (inject_rec f inner inner_name)
  end.

Definition inject (outer inner : json) : pres (json * bool) :=
  match inner with
  | JObj ikv =>
      match jget "name" ikv with
      | Some n => inject_rec (S (S (jdepth outer))) inner n outer "" false
      | None => PErrOther
      end
  | _ => PErrOther
  end.

(** ---- _parse_schema_with_repo / _load_schema ----
    result: None = SchemaRepositoryError; Some r with r = (schema, the named_schemas ARGUMENT
    afterwards, injected_schemas afterwards) *)
Definition lres := option (pres (json * named * list string)).

Definition sub_name (sub : json) : option string :=
  match sub with
  | JObj kv => match jget "name" kv with Some (JStr n) => Some n | _ => None end
  | _ => None
  end.

Fixpoint pwr (f : nat) (rp : repo) (schema : json) (tbl : named) (wh : bool) (inj : list string) : lres :=
  match f with
  | O => Some PFuel
  | S f =>
      match parse_schema_g wh (fuel_for schema) schema tbl with
      | POk (p, tbl') => Some (POk (p, tbl', inj))
      | PErrUnknown q junk =>
          match (match jget q rp with
                 | None => None                                      (* repo.load fails *)
                 | Some raw => pwr f rp raw tbl false inj            (* against schema_copy *)
                 end) with
          | None => Some (PErrUnknown q junk)                        (* raise error *)
          | Some (POk (sub, copy', inj1)) =>
              match sub_name sub with
              | None => Some PErrOther
              | Some n =>
                  match (if mem n inj1 then POk (schema, inj1)
                         else let+ r := inject schema sub in POk (fst r, n :: inj1)) with
                  | POk (schema', inj2) =>
                      match pwr f rp schema' copy' wh inj2 with
                      | Some (POk (p, _, inj3)) => Some (POk (p, junk, inj3))
                      | other => other
                      end
                  | PErrParse => Some PErrParse
                  | PErrUnknown a b => Some (PErrUnknown a b)
                  | PErrOther => Some PErrOther
                  | PFuel => Some PFuel
                  end
              end
          | Some e => Some e                                         (* any other exception of the sub-load *)
          end
      | PErrParse => Some PErrParse
      | PErrOther => Some PErrOther
      | PFuel => Some PFuel
      end
  end.

(* load_schema(<dir>/<name>.avsc, named_schemas=tbl, _write_hint=wh) *)
Definition load_g (f : nat) (rp : repo) (name : string) (tbl : named) (wh : bool) : lres :=
  match jget name rp with
  | None => None
  | Some raw => pwr f rp raw tbl wh []
  end.

Definition LOAD_FUEL : nat := 64.
Definition load (rp : repo) (name : string) : lres := load_g LOAD_FUEL rp name [] true.

(** ---- load_schema_ordered ---- *)
Fixpoint load_all (rp : repo) (names : list string) (tbl : named) (acc : list json) : option (pres (list json * named)) :=
  match names with
  | [] => Some (POk (acc, tbl))
  | n :: r =>
      let last := match r with [] => true | _ => false end in
      match load_g LOAD_FUEL rp n tbl last with
      | None => None
      | Some (POk (p, tbl', _)) => load_all rp r tbl' (p :: acc)       (* acc is top first *)
      | Some PErrParse => Some PErrParse
      | Some (PErrUnknown a b) => Some (PErrUnknown a b)
      | Some PErrOther => Some PErrOther
      | Some PFuel => Some PFuel
      end
  end.

Fixpoint inject_all (outer : json) (subs : list json) : pres json :=
  match subs with
  | [] => POk outer
  | s :: r =>
      let+ res := inject outer s in
      (* the return value is dropped: only a dict is mutated in place *)
      inject_all (match outer with JObj _ => fst res | _ => outer end) r
  end.

Definition load_ordered (rp : repo) (names : list string) : option (pres json) :=
  match load_all rp names [] [] with
  | None => None
  | Some (POk (top :: subs, tbl)) =>
      Some (let+ o := inject_all top subs in POk (tie tbl o))
  | Some (POk ([], _)) => Some PErrOther                               (* pop from an empty list *)
  | Some PErrParse => Some PErrParse
  | Some (PErrUnknown a b) => Some (PErrUnknown a b)
  | Some PErrOther => Some PErrOther
  | Some PFuel => Some PFuel
  end.

(** ---- the specification: the named types inlined at their first use (document order) ---- *)
Definition ifufun := json -> string -> list string -> pres (json * list string).

Section Ifu.
  Variable rp : repo.
  Variable rec : ifufun.

  Fixpoint ifu_members (ns : string) (l : list json) (defined : list string) : pres (list json * list string) :=
    match l with
    | [] => POk ([], defined)
    | s :: r =>
        let+ (p, d1) := rec s ns defined in
        let+ (ps, d2) := ifu_members ns r d1 in
        POk (p :: ps, d2)
    end.

  Fixpoint ifu_fields (ns : string) (l : list json) (defined : list string) : pres (list json * list string) :=
    match l with
    | [] => POk ([], defined)
    | fd :: r =>
        match fd with
        | JObj fkv =>
            match jget "type" fkv with
            | None => PErrOther
            | Some ty =>
                let+ (p, d1) := rec ty ns defined in
                let+ (ps, d2) := ifu_fields ns r d1 in
                POk (JObj (jset "type" p fkv) :: ps, d2)
            end
        | _ => PErrOther
        end
    end.

  Definition ifu_node (j : json) (ns : string) (defined : list string) : pres (json * list string) :=
    match j with
    | JArr l => let+ (ps, d) := ifu_members ns l defined in POk (JArr ps, d)
    | JStr s =>
        if spec_is_prim s then POk (j, defined)
        else
          let q := spec_ref ns s in
          if mem q defined then POk (j, defined)
          else match jget q rp with
               | None => POk (j, defined)              (* no file: stays a reference *)
               | Some raw => rec raw ns defined         (* the file's content, at its first use *)
               end
    | JObj kv =>
        if type_is kv "array" then
          match jget "items" kv with
          | None => PErrOther
          | Some it => let+ (p, d) := rec it ns defined in POk (JObj (jset "items" p kv), d)
          end
        else if type_is kv "map" then
          match jget "values" kv with
          | None => PErrOther
          | Some it => let+ (p, d) := rec it ns defined in POk (JObj (jset "values" p kv), d)
          end
        else if type_is kv "enum" || type_is kv "fixed" then POk (j, spec_fullname ns kv :: defined)
        else if type_is kv "record" || type_is kv "error" then
          match jget "fields" kv with
          | Some (JArr fl) =>
              let+ (fs, d) := ifu_fields (spec_namespace ns kv) fl (spec_fullname ns kv :: defined) in
              POk (JObj (jset "fields" (JArr fs) kv), d)
          | _ => POk (j, spec_fullname ns kv :: defined)
          end
        else POk (j, defined)
    | _ => POk (j, defined)
    end.
End Ifu.

Fixpoint ifu_rec (f : nat) (rp : repo) : ifufun :=
  match f with
  | O => fun _ _ _ => PFuel
  | S f => ifu_node rp (ifu_rec f rp)
  end.

Definition repo_fuel (rp : repo) : nat := fold_right (fun p acc => S (jdepth (snd p)) + acc)%nat 2%nat rp.

Definition inline_first_use (rp : repo) (top : string) : pres json :=
  match jget top rp with
  | None => PErrOther
  | Some raw => let+ r := ifu_rec (repo_fuel rp) rp raw "" [] in POk (fst r)
  end.

(** ---- results as text for the correspondence ---- *)
Definition show_lres (r : option (pres json)) : string :=
  match r with
  | None => "repo-error"
  | Some (POk p) => show_pres (fun s => s) (to_canonical p)
  | Some PErrParse => "parse"
  | Some (PErrUnknown n _) => "unknown:" ++ n
  | Some PErrOther => "other"
  | Some PFuel => "fuel"
  end.

Definition lres_schema (r : lres) : option (pres json) :=
  match r with
  | None => None
  | Some (POk (p, _, _)) => Some (POk p)
  | Some PErrParse => Some PErrParse
  | Some (PErrUnknown a b) => Some (PErrUnknown a b)
  | Some PErrOther => Some PErrOther
  | Some PFuel => Some PFuel
  end.

Definition show_load (rp : repo) (top : string) : string := hexs (show_lres (lres_schema (load rp top))).
Definition show_load_ordered (rp : repo) (names : list string) : string := hexs (show_lres (load_ordered rp names)).
Definition show_inlined (rp : repo) (top : string) : string :=
  hexs (match inline_first_use rp top with
        | POk j => show_pres (fun s => s) (to_canonical j)
        | _ => "inline-error"
        end).
Definition show_inlined_valid (rp : repo) (top : string) : string :=
  match inline_first_use rp top with POk j => show_bool (valid_raw j) | _ => "inline-error" end.

(** closed boolean checks used by the evaluated instances of props/C19.v *)
Definition same_canon (a b : json) : bool :=
  match to_canonical a, to_canonical b with POk x, POk y => String.eqb x y | _, _ => false end.

Definition equiv_check (rp : repo) (top : string) (order names : list string) : bool :=
  match lres_schema (load rp top), inline_first_use rp top, load_ordered rp order with
  | Some (POk p), POk j, Some (POk po) =>
      valid_raw j && list_eqb String.eqb (spec_names "" j) names && same_canon j p && same_canon j po
  | _, _, _ => false
  end.

Definition missing_check (rp : repo) (top missing : string) : bool :=
  match lres_schema (load rp top) with
  | Some (PErrUnknown n _) => String.eqb n missing
  | _ => false
  end.
