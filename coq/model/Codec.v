(** The Avro binary encoding: wire-level values, the specification's encoder
    [wire] (one counted block per non-empty array/map), the general layout
    encoder [wire_l] (any block partition, positive- or negative-count blocks,
    any announced byte size), and fastavro's decoder / skipper
    (fastavro/_read_py.py read_data / skip_data over io/binary_decoder.py). *)
From FA Require Import model.Base model.Varint model.Value model.Schema model.Utf8.

Inductive aval :=
| ANull
| ABool (b : bool)
| AInt (z : Z)                 (* int and long *)
| AFloat (bits : Z)            (* binary32 pattern *)
| ADouble (bits : Z)           (* binary64 pattern *)
| ABytes (b : bytes)
| AString (b : bytes)          (* UTF-8 *)
| AFixed (b : bytes)
| AEnum (i : Z)
| AArray (l : list aval)
| AMap (l : list (bytes * aval))
| AUnion (i : Z) (a : aval)
| ARecord (l : list aval).

Fixpoint le_bytes (n : nat) (x : Z) : bytes :=
  match n with O => [] | S n => x mod 256 :: le_bytes n (x / 256) end.
Fixpoint le_val (l : bytes) : Z :=
  match l with [] => 0 | b :: l => b + 256 * le_val l end.

Definition enc_bytes (b : bytes) : bytes := long_enc (len b) ++ b.

(** the writer's encoding (spec: one block + terminator, or terminator alone) *)
Fixpoint wire (a : aval) : bytes :=
  match a with
  | ANull => []
  | ABool b => [if b then 1 else 0]
  | AInt z => long_enc z
  | AFloat b => le_bytes 4 b
  | ADouble b => le_bytes 8 b
  | ABytes b => enc_bytes b
  | AString b => enc_bytes b
  | AFixed b => b
  | AEnum i => long_enc i
  | AArray l =>
      match l with
      | [] => [0]
      | _ => long_enc (len l) ++ flat_map wire l ++ [0]
      end
  | AMap l =>
      match l with
      | [] => [0]
      | _ => long_enc (len l) ++ flat_map (fun kv => enc_bytes (fst kv) ++ wire (snd kv)) l ++ [0]
      end
  | AUnion i a => long_enc i ++ wire a
  | ARecord l => flat_map wire l
  end.

(** ---- every specification-valid layout ---- *)
(* a block: negative-count form?  announced byte size (ignored by fastavro)  items (non-empty) *)
Inductive lval :=
| LLeaf (a : aval)                                   (* a value without arrays/maps inside is its own layout *)
| LArray (bl : list (bool * Z * list lval))
| LMap (bl : list (bool * Z * list (bytes * lval)))
| LUnion (i : Z) (l : lval)
| LRecord (l : list lval).

Fixpoint erase (l : lval) : aval :=
  match l with
  | LLeaf a => a
  | LArray bl => AArray (flat_map (fun b => map erase (snd b)) bl)
  | LMap bl => AMap (flat_map (fun b => map (fun kv => (fst kv, erase (snd kv))) (snd b)) bl)
  | LUnion i l => AUnion i (erase l)
  | LRecord l => ARecord (map erase l)
  end.

Definition block_head (neg : bool) (sz : Z) (n : Z) : bytes :=
  if neg then long_enc (- n) ++ long_enc sz else long_enc n.

Fixpoint wire_l (l : lval) : bytes :=
  match l with
  | LLeaf a => wire a
  | LArray bl =>
      flat_map (fun b => block_head (fst (fst b)) (snd (fst b)) (len (snd b)) ++ flat_map wire_l (snd b)) bl ++ [0]
  | LMap bl =>
      flat_map (fun b => block_head (fst (fst b)) (snd (fst b)) (len (snd b))
                         ++ flat_map (fun kv => enc_bytes (fst kv) ++ wire_l (snd kv)) (snd b)) bl ++ [0]
  | LUnion i l => long_enc i ++ wire_l l
  | LRecord l => flat_map wire_l l
  end.

(** ---- decoder ---- *)
Definition read_n (n : Z) (bs : bytes) : res (bytes * bytes) :=
  if n <? 0 then Err                       (* fo.read(negative) returns everything; length test fails *)
  else match take (Z.to_nat n) bs with Some pr => Ok pr | None => Err end.

Definition dec_bytes (bs : bytes) : res (bytes * bytes) :=
  let* (n, bs) := long_dec bs in read_n n bs.

Definition dec_utf8 (bs : bytes) : res (bytes * bytes) :=
  let* (b, bs) := dec_bytes bs in if utf8_valid b then Ok (b, bs) else Err.

Section Blocks.
  Context {A : Type}.
  Variable rec : bytes -> res (A * bytes).

  (* `for i in range(count)`: iterate by the binary structure of the count so that a
     huge count on malformed input fails at the first missing item, as the code does *)
  Fixpoint items_pos (p : positive) (bs : bytes) : res (list A * bytes) :=
    match p with
    | xH => let* (a, bs) := rec bs in Ok ([a], bs)
    | xO p => let* (l1, bs) := items_pos p bs in
              let* (l2, bs) := items_pos p bs in Ok (l1 ++ l2, bs)
    | xI p => let* (a, bs) := rec bs in
              let* (l1, bs) := items_pos p bs in
              let* (l2, bs) := items_pos p bs in Ok (a :: l1 ++ l2, bs)
    end.

  Definition items_Z (c : Z) (bs : bytes) : res (list A * bytes) :=
    match c with Zpos p => items_pos p bs | _ => Ok ([], bs) end.

  (* binary_decoder._iter_array_or_map; k bounds the number of blocks *)
  Fixpoint blocks (k : nat) (bs : bytes) : res (list A * bytes) :=
    match k with
    | O => OutOfFuel
    | S k =>
        let* (c, bs) := long_dec bs in
        if c =? 0 then Ok ([], bs)
        else
          let* (c, bs) := (if c <? 0 then let* (_, bs) := long_dec bs in Ok (- c, bs) else Ok (c, bs)) in
          let* (l1, bs) := items_Z c bs in
          let* (l2, bs) := blocks k bs in Ok (l1 ++ l2, bs)
    end.
End Blocks.

Section Fields.
  Variable rec : schema -> bytes -> res (aval * bytes).
  Fixpoint fields (fs : list field) (bs : bytes) : res (list aval * bytes) :=
    match fs with
    | [] => Ok ([], bs)
    | f :: fs => let* (a, bs) := rec (ftype f) bs in
                 let* (l, bs) := fields fs bs in Ok (a :: l, bs)
    end.
End Fields.

Definition map_item (rec : bytes -> res (aval * bytes)) (bs : bytes) : res ((bytes * aval) * bytes) :=
  let* (k, bs) := dec_utf8 bs in
  let* (v, bs) := rec bs in Ok ((k, v), bs).

Fixpoint dec (f : nat) (e : env) (s : schema) (bs : bytes) {struct f} : res (aval * bytes) :=
  match f with
  | O => OutOfFuel
  | S f =>
    match s with
    | SNull => Ok (ANull, bs)
    | SBool => match bs with [] => Err | b :: bs => Ok (ABool (negb (b =? 0)), bs) end
    | SInt | SLong => let* (z, bs) := long_dec bs in Ok (AInt z, bs)
    | SFloat => let* (p, bs) := read_n 4 bs in Ok (AFloat (le_val p), bs)
    | SDouble => let* (p, bs) := read_n 8 bs in Ok (ADouble (le_val p), bs)
    | SBytes => let* (b, bs) := dec_bytes bs in Ok (ABytes b, bs)
    | SString => let* (b, bs) := dec_utf8 bs in Ok (AString b, bs)
    | SFixed _ _ size => let* (b, bs) := read_n size bs in Ok (AFixed b, bs)
    | SEnum _ _ syms _ =>
        let* (i, bs) := long_dec bs in
        if (0 <=? i) && (i <? len syms) then Ok (AEnum i, bs) else Err
    | SArray s => let* (l, bs) := blocks (dec f e s) (S f) bs in Ok (AArray l, bs)
    | SMap s => let* (l, bs) := blocks (map_item (dec f e s)) (S f) bs in Ok (AMap l, bs)
    | SUnion l =>
        let* (i, bs) := long_dec bs in
        match nthZ l i with
        | None => Err
        | Some s => let* (a, bs) := dec f e s bs in Ok (AUnion i a, bs)
        end
    | SRecord _ _ fs => let* (l, bs) := fields (dec f e) fs bs in Ok (ARecord l, bs)
    | SRef n => match lookup e n with None => Err | Some s => dec f e s bs end
    | SAnnot _ s => dec f e s bs
    end
  end.

(** ---- skipper (used for writer fields the reader schema drops) ---- *)
Definition skip_item (rec : bytes -> res (unit * bytes)) (bs : bytes) : res (unit * bytes) :=
  let* (_, bs) := dec_utf8 bs in rec bs.

Section SkipFields.
  Variable rec : schema -> bytes -> res (unit * bytes).
  Fixpoint skip_fields (fs : list field) (bs : bytes) : res (unit * bytes) :=
    match fs with
    | [] => Ok (tt, bs)
    | f :: fs => let* (_, bs) := rec (ftype f) bs in skip_fields fs bs
    end.
End SkipFields.

Fixpoint skip (f : nat) (e : env) (s : schema) (bs : bytes) {struct f} : res (unit * bytes) :=
  match f with
  | O => OutOfFuel
  | S f =>
    match s with
    | SNull => Ok (tt, bs)
    | SBool => match bs with [] => Err | b :: bs => Ok (tt, bs) end
    | SInt | SLong => let* (_, bs) := long_dec bs in Ok (tt, bs)
    | SFloat => let* (_, bs) := read_n 4 bs in Ok (tt, bs)
    | SDouble => let* (_, bs) := read_n 8 bs in Ok (tt, bs)
    | SBytes => let* (_, bs) := dec_bytes bs in Ok (tt, bs)
    | SString => let* (_, bs) := dec_utf8 bs in Ok (tt, bs)
    | SFixed _ _ size => let* (_, bs) := read_n size bs in Ok (tt, bs)
    | SEnum _ _ syms _ =>
        let* (i, bs) := long_dec bs in
        if (0 <=? i) && (i <? len syms) then Ok (tt, bs) else Err
    | SArray s => let* (_, bs) := blocks (skip f e s) (S f) bs in Ok (tt, bs)
    | SMap s => let* (_, bs) := blocks (skip_item (skip f e s)) (S f) bs in Ok (tt, bs)
    | SUnion l =>
        let* (i, bs) := long_dec bs in
        match nthZ l i with
        | None => Err
        | Some s => skip f e s bs
        end
    | SRecord _ _ fs => skip_fields (skip f e) fs bs
    | SRef n => match lookup e n with None => Err | Some s => skip f e s bs end
    | SAnnot _ s => skip f e s bs
    end
  end.

(** ---- typing of wire values and of layouts (height-indexed; recursion through
         by-name references needs no extra principle: everything is induction on n) ---- *)
Definition bytes_ok (b : bytes) : Prop := Forall is_byte b /\ len b < 2 ^ 63.
Definition key_ok (k : bytes) : Prop := bytes_ok k /\ utf8_valid k = true.

Fixpoint typedn (n : nat) (e : env) (s : schema) (a : aval) {struct n} : Prop :=
  match n with
  | O => False
  | S n =>
    match s, a with
    | SNull, ANull => True
    | SBool, ABool _ => True
    | SInt, AInt z => in_int32 z
    | SLong, AInt z => in_int64 z
    | SFloat, AFloat b => 0 <= b < 2 ^ 32
    | SDouble, ADouble b => 0 <= b < 2 ^ 64
    | SBytes, ABytes b => bytes_ok b
    | SString, AString b => key_ok b
    | SFixed _ _ size, AFixed b => len b = size /\ bytes_ok b
    | SEnum _ _ syms _, AEnum i => 0 <= i < len syms /\ i < 2 ^ 63
    | SArray s, AArray l => len l < 2 ^ 63 /\ Forall (typedn n e s) l
    | SMap s, AMap l => len l < 2 ^ 63 /\ Forall (fun kv => key_ok (fst kv) /\ typedn n e s (snd kv)) l
    | SUnion l, AUnion i a => i < 2 ^ 63 /\ exists s, nthZ l i = Some s /\ typedn n e s a
    | SRecord _ _ fs, ARecord l => Forall2 (fun f a => typedn n e (ftype f) a) fs l
    | SRef nm, a => exists s, lookup e nm = Some s /\ typedn n e s a
    | SAnnot _ s, a => typedn n e s a
    | _, _ => False
    end
  end.

Definition typed (e : env) (s : schema) (a : aval) : Prop := exists n, typedn n e s a.

(* layouts: every block non-empty, number of blocks bounded by the height *)
Fixpoint typedl (n : nat) (e : env) (s : schema) (l : lval) {struct n} : Prop :=
  match n with
  | O => False
  | S n =>
    match s, l with
    | SArray s, LArray bl =>
        (length bl <= n)%nat /\
        Forall (fun b => snd b <> [] /\ len (snd b) < 2 ^ 63 /\ in_int64 (snd (fst b)) /\ Forall (typedl n e s) (snd b)) bl
    | SMap s, LMap bl =>
        (length bl <= n)%nat /\
        Forall (fun b => snd b <> [] /\ len (snd b) < 2 ^ 63 /\ in_int64 (snd (fst b)) /\ Forall (fun kv => key_ok (fst kv) /\ typedl n e s (snd kv)) (snd b)) bl
    | SUnion bs, LUnion i l => i < 2 ^ 63 /\ exists s, nthZ bs i = Some s /\ typedl n e s l
    | SRecord _ _ fs, LRecord l => Forall2 (fun f a => typedl n e (ftype f) a) fs l
    | SRef nm, l => exists s, lookup e nm = Some s /\ typedl n e s l
    | SAnnot _ s, l => typedl n e s l
    | s, LLeaf a =>
        match s with
        | SArray _ | SMap _ | SUnion _ | SRecord _ _ _ => False   (* composite values use their own layout constructor *)
        | _ => typedn (S n) e s a
        end
    | _, _ => False
    end
  end.

(** canonical layout of a value: what fastavro's writer produces *)
Fixpoint layout_of (a : aval) : lval :=
  match a with
  | AArray l => LArray (match l with [] => [] | _ => [(false, 0, map layout_of l)] end)
  | AMap l => LMap (match l with [] => [] | _ => [(false, 0, map (fun kv => (fst kv, layout_of (snd kv))) l)] end)
  | AUnion i a => LUnion i (layout_of a)
  | ARecord l => LRecord (map layout_of l)
  | a => LLeaf a
  end.

(** text output for the correspondence protocol *)
From Coq Require Import String.
Fixpoint show_a (a : aval) : string :=
  match a with
  | ANull => "n"
  | ABool b => if b then "t" else "f"
  | AInt z => "i" ++ show_Z z
  | AFloat b => "f" ++ show_Z b
  | ADouble b => "d" ++ show_Z b
  | ABytes b => "b" ++ tohex b
  | AString b => "s" ++ tohex b
  | AFixed b => "x" ++ tohex b
  | AEnum i => "e" ++ show_Z i
  | AArray l => "[" ++ (fix go l := match l with [] => "" | x :: l => show_a x ++ "," ++ go l end) l ++ "]"
  | AMap l => "{" ++ (fix go l := match l with [] => "" | (k, x) :: l => tohex k ++ ":" ++ show_a x ++ "," ++ go l end) l ++ "}"
  | AUnion i a => "u" ++ show_Z i ++ ":" ++ show_a a
  | ARecord l => "(" ++ (fix go l := match l with [] => "" | x :: l => show_a x ++ "," ++ go l end) l ++ ")"
  end%string.
