(** Zig-zag base-128 varints, written with the operators of the Python source
    (fastavro/io/binary_encoder.py write_int, binary_decoder.py read_long).
    Python [int] with [& | ^ << >>] is Coq [Z] with [Z.land lor lxor shiftl shiftr]. *)
From FA Require Import model.Base.

Definition in_int32 (z : Z) : Prop := - 2 ^ 31 <= z < 2 ^ 31.
Definition in_int64 (z : Z) : Prop := - 2 ^ 63 <= z < 2 ^ 63.

(* datum = (datum << 1) ^ (datum >> 63) *)
Definition zigzag (n : Z) : Z := Z.lxor (Z.shiftl n 1) (Z.shiftr n 63).

(* return (n >> 1) ^ -(n & 1) *)
Definition unzigzag (n : Z) : Z := Z.lxor (Z.shiftr n 1) (- (Z.land n 1)).

(* while (datum & ~0x7F) != 0: write((datum & 0x7F) | 0x80); datum >>= 7
   write(datum)                      -- fuel: one unit per 7 bits *)
Fixpoint varint_go (f : nat) (z : Z) : bytes :=
  match f with
  | O => [z]
  | S f => if Z.land z (Z.lnot 127) =? 0 then [z]
           else Z.lor (Z.land z 127) 128 :: varint_go f (Z.shiftr z 7)
  end.

Definition varint_enc (z : Z) : bytes := varint_go (Z.to_nat (Z.log2 z)) z.

Definition long_enc (n : Z) : bytes := varint_enc (zigzag n).

(* b = ord(read(1)); n |= (b & 0x7F) << shift; shift += 7   while b & 0x80 *)
Fixpoint varint_dec_go (bs : bytes) (n shift : Z) : res (Z * bytes) :=
  match bs with
  | [] => Err                                  (* ord(b'') raises *)
  | b :: bs =>
      let n := Z.lor n (Z.shiftl (Z.land b 127) shift) in
      if Z.land b 128 =? 0 then Ok (n, bs) else varint_dec_go bs n (shift + 7)
  end.

Definition varint_dec (bs : bytes) : res (Z * bytes) :=
  match bs with
  | [] => Err                                  (* EOFError *)
  | _ => varint_dec_go bs 0 0
  end.

Definition long_dec (bs : bytes) : res (Z * bytes) :=
  let* (n, r) := varint_dec bs in Ok (unzigzag n, r).
