(** fastavro/_write_py.py write_data as a function from Python data to wire
    values ([elab]), then bytes ([write]).  Four-valued result:
    [WOk] written, [WErr] the code raises, [WUnspec] the code is lenient in a way no
    property speaks about (model declines to answer), [WFuel]. *)
From Coq Require Import String.
From FA Require Import model.Base model.Varint model.Value model.Schema model.Float model.Codec model.Validate.

Inductive wres (A : Type) := WOk (x : A) | WErr | WUnspec | WFuel.
Arguments WOk {A} x. Arguments WErr {A}. Arguments WUnspec {A}. Arguments WFuel {A}.

Definition wbind {A B} (r : wres A) (f : A -> wres B) : wres B :=
  match r with WOk x => f x | WErr => WErr | WUnspec => WUnspec | WFuel => WFuel end.
Notation "'let+' x ':=' e 'in' f" := (wbind e (fun x => f)) (at level 200, x pattern, right associativity).

Definition of_res {A} (r : res A) : wres A :=
  match r with Ok x => WOk x | Err => WErr | OutOfFuel => WFuel end.

(* float(datum) / pack of a number: the double the value denotes *)
Definition to_double (v : pyval) : wres Z :=
  match v with
  | PFloat b => WOk b
  | PInt z => of_res (z2d z)
  | PBool _ | PStr _ | PBytes _ | PByteArray _ => WUnspec
  | _ => WErr
  end.

(* _accepts_null(field_type): the field may be absent without default.  list -> any branch accepts null;
   dict -> field_type.get("type") == "null"; otherwise field_type == "null" (a by-name reference never does).
   (A dict whose "type" is itself a dict or list is not a schema fastavro can parse; [strip] is used for the dict form.) *)
Fixpoint nullok (s : schema) : bool :=
  match s with
  | SNull => true
  | SAnnot _ s' => match strip s' with SNull => true | _ => false end
  | SUnion bs => existsb nullok bs
  | _ => false
  end.

Definition key_in (kv : list (pyval * pyval)) (k : str) : bool :=
  match dict_get kv k with Some _ => true | None => false end.

Definition field_names (fs : list field) : list str := map (fun f => fname f) fs.

(* set(datum) - set(field names) non-empty *)
Definition has_extras (kv : list (pyval * pyval)) (fs : list field) : bool :=
  existsb (fun p => match fst p with
                    | PStr k => negb (existsb (bytes_eqb k) (field_names fs))
                    | _ => true end) kv.

(* len(candidate_fields & set(datum)) *)
Fixpoint dedup (l : list str) : list str :=
  match l with [] => [] | x :: l => if existsb (bytes_eqb x) l then dedup l else x :: dedup l end.
Definition shared_fields (kv : list (pyval * pyval)) (fs : list field) : Z :=
  len (filter (key_in kv) (dedup (field_names fs))).

Fixpoint find_named (name : str) (bs : list schema) (i : Z) : option Z :=
  match bs with
  | [] => None
  | b :: bs => if bytes_eqb (branch_name b) name then Some i else find_named name bs (i + 1)
  end.

Definition is_double (s : schema) : bool := match strip s with SDouble => true | _ => false end.

(* [type_hint], [hint_pass]: model/Validate.v (the validator's union loop applies the same filter) *)
Section Choose.
  Variable val : schema -> pyval -> res bool.          (* _validate(datum, candidate, field="") *)
  Variable e : env.
  (* the search loop of write_union without a tuple hint: best index so far, most_fields, could_be_float *)
  Fixpoint choose (v : pyval) (bs : list schema) (i best most : Z) (cbf : bool) : res Z :=
    match bs with
    | [] => Ok best
    | c :: bs =>
        if negb (hint_pass e v c) then choose v bs (i + 1) best most cbf        (* "-type" names another branch: continue *)
        else if cbf then (if is_double c then Ok i else choose v bs (i + 1) best most cbf)
        else
          let* ok := val c v in
          if negb ok then choose v bs (i + 1) best most cbf
          else
            let c' := match strip c with SRef n => match lookup e n with Some d => strip d | None => strip c end | d => d end in
            match c' with
            | SRecord _ _ fs =>
                let n := match v with PDict kv => shared_fields kv fs | _ => 0 end in
                if most <? n then choose v bs (i + 1) i n cbf else choose v bs (i + 1) best most cbf
            | SFloat => choose v bs (i + 1) i most true
            | _ => Ok i
            end
    end.
End Choose.

Section Elab.
  Variable rec : schema -> pyval -> wres aval.
  Fixpoint elab_items (s : schema) (l : list pyval) : wres (list aval) :=
    match l with
    | [] => WOk []
    | v :: l => let+ a := rec s v in let+ r := elab_items s l in WOk (a :: r)
    end.
  Fixpoint elab_map (s : schema) (kv : list (pyval * pyval)) : wres (list (bytes * aval)) :=
    match kv with
    | [] => WOk []
    | (PStr k, v) :: kv => let+ a := rec s v in let+ r := elab_map s kv in WOk ((k, a) :: r)
    | _ :: _ => WErr                                                     (* write_utf8: must be string *)
    end.
  Variable o : wopts.
  Fixpoint elab_fields (kv : list (pyval * pyval)) (fs : list field) : wres (list aval) :=
    match fs with
    | [] => WOk []
    | f :: fs =>
        let present := key_in kv (fname f) in
        let hasdef := match fdefault f with Some _ => true | None => false end in
        if negb present && (strict o || (strict_allow_default o && negb hasdef)) then WErr
        else if negb present && negb hasdef && negb (nullok (ftype f)) then WErr
        else
          let v := match dict_get kv (fname f) with
                   | Some v => v
                   | None => match fdefault f with Some d => d | None => PNone end
                   end in
          let+ v' := match ftype f with
                     | SFloat | SDouble => let+ b := to_double v in WOk (PFloat b)     (* float(datum_value) *)
                     | _ => WOk v
                     end in
          let+ a := rec (ftype f) v' in
          let+ r := elab_fields kv fs in WOk (a :: r)
    end.
End Elab.

Fixpoint elab (f : nat) (o : wopts) (e : env) (s : schema) (v : pyval) {struct f} : wres aval :=
  match f with
  | O => WFuel
  | S f =>
    match s with
    | SNull => match v with PNone => WOk ANull | _ => WUnspec end
    | SBool => match v with PBool b => WOk (ABool b) | _ => WUnspec end
    | SInt => match v with
              | PInt z => if (INT_MIN <=? z) && (z <=? INT_MAX) then WOk (AInt z) else WUnspec
              | PBool _ => WUnspec
              | _ => WErr end
    | SLong => match v with
               | PInt z => if (LONG_MIN <=? z) && (z <=? LONG_MAX) then WOk (AInt z) else WUnspec
               | PBool _ => WUnspec
               | _ => WErr end
    | SFloat => match v with
                | PFloat _ | PInt _ => let+ b := to_double v in let+ s := of_res (d2s b) in WOk (AFloat s)
                | PBool _ => WUnspec
                | _ => WErr end
    | SDouble => match v with
                 | PFloat _ | PInt _ => let+ b := to_double v in WOk (ADouble b)
                 | PBool _ => WUnspec
                 | _ => WErr end
    | SBytes => match v with PBytes b | PByteArray b => WOk (ABytes b) | _ => WErr end
    | SString => match v with PStr b => WOk (AString b) | _ => WErr end
    | SFixed _ _ size =>
        match v with
        | PBytes b => if len b =? size then WOk (AFixed b) else WErr
        | PByteArray b => if len b =? size then WUnspec else WErr
        | _ => WErr
        end
    | SEnum _ _ syms _ =>
        match v with
        | PStr x => match index_of syms x 0 with Some i => WOk (AEnum i) | None => WErr end
        | _ => WErr
        end
    | SArray it =>
        match v with
        | PList l | PTuple l => let+ r := elab_items (elab f o e) it l in WOk (AArray r)
        | PBytes b | PByteArray b => let+ r := elab_items (elab f o e) it (map PInt b) in WOk (AArray r)   (* iterating bytes yields ints *)
        | PStr _ | PDict _ => WUnspec
        | _ => WErr
        end
    | SMap vs =>
        match v with
        | PDict kv => let+ r := elab_map (elab f o e) vs kv in WOk (AMap r)
        | PList (_ :: _) | PTuple (_ :: _) => WErr           (* len > 0, then datum.items(): AttributeError *)
        | PList [] | PTuple [] | PStr _ | PBytes _ | PByteArray _ => WUnspec
        | _ => WErr
        end
    | SRecord _ _ fs =>
        match v with
        | PDict kv =>
            if (strict o || strict_allow_default o) && has_extras kv fs then WErr
            else let+ r := elab_fields (elab f o e) o kv fs in WOk (ARecord r)
        | PNone | PInt _ | PFloat _ | PBool _ => WErr
        | _ => WUnspec
        end
    | SUnion bs =>
        let go (i : Z) (v' : pyval) :=
          match nthZ bs i with
          | Some b => let+ a := elab f o e b v' in WOk (AUnion i a)
          | None => WErr
          end in
        match v with
        | PTuple l =>
            if disable_tuple o then
              let+ i := of_res (choose (fun c x => validate f o e c (Some x)) e v bs 0 (-1) (-1) false) in
              if i <? 0 then WErr else go i v
            else
              match l with
              | [PStr name; v'] => match find_named name bs 0 with Some i => go i v' | None => WErr end
              | [_; _] => WErr
              | _ => WErr
              end
        | _ =>
            let+ i := of_res (choose (fun c x => validate f o e c (Some x)) e v bs 0 (-1) (-1) false) in
            if i <? 0 then WErr else go i v
        end
    | SRef n => match lookup e n with Some s' => elab f o e s' v | None => WErr end
    | SAnnot _ s' => elab f o e s' v
    end
  end.

Definition write (f : nat) (o : wopts) (e : env) (s : schema) (v : pyval) : wres bytes :=
  let+ a := elab f o e s v in WOk (wire a).
