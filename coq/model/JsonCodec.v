(** The Avro JSON encoding of typed values (specification, "JSON Encoding") and its inverse.
    Models the OBSERVABLE behaviour of fastavro/io/json_encoder.py, json_decoder.py (driven by
    _write_py.write_data / _read_py.read_data through io/parser.py): the JSON document written for
    a record and the value read back from a document.  The push-down automaton of parser.py is
    deliberately not modelled step by step.  Executable definitions only.

    A JSON document is what Python's [json.loads] returns: numbers are [int] or [float] (a float
    by its binary64 pattern), strings are arbitrary Unicode (here: their UTF-8 bytes), objects are
    association lists in document order with distinct keys. *)
From Coq Require Import String.
From FA Require Import model.Base model.Value model.Schema model.Float model.Utf8 model.Codec
                       model.Validate model.Write model.Read model.Conform.

Inductive jv :=
| JvNull
| JvBool (b : bool)
| JvInt (z : Z)
| JvFloat (bits : Z)                 (* a finite binary64 value, by its bit pattern *)
| JvStr (s : str)
| JvArr (l : list jv)
| JvObj (kv : list (str * jv)).

(* d[k] (first match) and  {k': v for k', v in d.items() if k' != k} *)
Fixpoint jlookup (kv : list (str * jv)) (k : str) : option jv :=
  match kv with
  | [] => None
  | (k', v) :: kv => if bytes_eqb k' k then Some v else jlookup kv k
  end.

Fixpoint jremove (k : str) (kv : list (str * jv)) : list (str * jv) :=
  match kv with
  | [] => []
  | (k', v) :: kv => if bytes_eqb k' k then jremove k kv else (k', v) :: jremove k kv
  end.

(** bytes <-> the string whose code points are the bytes (ISO-8859-1), the string given by its UTF-8 bytes *)
Definition latin1_char (x : Z) : list Z := if x <? 128 then [x] else [192 + x / 64; 128 + x mod 64].
Definition latin1_enc (b : bytes) : str := flat_map latin1_char b.

Fixpoint latin1_dec (s : str) : option bytes :=
  match s with
  | [] => Some []
  | x :: r =>
      if x <? 128 then (if 0 <=? x then option_map (cons x) (latin1_dec r) else None)
      else match r with
           | y :: r' =>
               if ((x =? 194) || (x =? 195)) && cont y
               then option_map (cons ((x - 192) * 64 + (y - 128))) (latin1_dec r')
               else None                                   (* a code point above 255: .encode("iso-8859-1") raises *)
           | [] => None
           end
  end.

(** JSON numbers are finite *)
Definition finite64 (b : Z) : bool := negb (Z.land (Z.shiftr b 52) 2047 =? 2047).
Definition finite32 (b : Z) : bool := negb (Z.land (Z.shiftr b 23) 255 =? 255).

(** the name a union branch is written under: full name of a named type (also when it is reached
    through a by-name reference), the type name otherwise *)
Definition jlabel (s : schema) : str :=
  match strip s with
  | SRecord n _ _ | SEnum n _ _ _ | SFixed n _ _ => n
  | SRef n => n
  | s' => type_name s'
  end.

Definition is_null (e : env) (s : schema) : bool :=
  match resolve e s with SNull => true | _ => false end.

Section EncLoops.
  Variable rec : schema -> aval -> option jv.
  Fixpoint enc_items (s : schema) (l : list aval) : option (list jv) :=
    match l with
    | [] => Some []
    | x :: l => match rec s x, enc_items s l with Some j, Some r => Some (j :: r) | _, _ => None end
    end.
  Fixpoint enc_map (s : schema) (l : list (bytes * aval)) : option (list (str * jv)) :=
    match l with
    | [] => Some []
    | kx :: l => match rec s (snd kx), enc_map s l with Some j, Some r => Some ((fst kx, j) :: r) | _, _ => None end
    end.
  Fixpoint enc_fields (fs : list field) (l : list aval) {struct l} : option (list (str * jv)) :=
    match fs, l with
    | [], [] => Some []
    | f :: fs, x :: l =>
        match rec (ftype f) x, enc_fields fs l with Some j, Some r => Some ((fname f, j) :: r) | _, _ => None end
    | _, _ => None
    end.
End EncLoops.

(** THE SPECIFICATION's JSON encoding, one equation per type.  [wut] = json_writer's write_union_type
    (true: the specification; false: union values are written bare).  [None]: the value does not have
    the type, or a float leaf is NaN / infinite (JSON has no such numbers). *)
Fixpoint json_enc_gen (wut : bool) (e : env) (s : schema) (a : aval) {struct a} : option jv :=
  match resolve e s, a with
  | SNull, ANull => Some JvNull
  | SBool, ABool b => Some (JvBool b)
  | SInt, AInt z | SLong, AInt z => Some (JvInt z)
  | SFloat, AFloat b => if finite32 b then Some (JvFloat (s2d b)) else None
  | SDouble, ADouble b => if finite64 b then Some (JvFloat b) else None
  | SBytes, ABytes b => Some (JvStr (latin1_enc b))
  | SString, AString b => Some (JvStr b)
  | SFixed _ _ _, AFixed b => Some (JvStr (latin1_enc b))
  | SEnum _ _ syms _, AEnum i => option_map JvStr (nthZ syms i)
  | SArray it, AArray l => option_map JvArr (enc_items (json_enc_gen wut e) it l)
  | SMap vs, AMap l => option_map JvObj (enc_map (json_enc_gen wut e) vs l)
  | SUnion bs, AUnion i x =>
      match nthZ bs i with
      | None => None
      | Some b =>
          match json_enc_gen wut e b x with
          | None => None
          | Some j => Some (if is_null e b || negb wut then j else JvObj [(jlabel b, j)])
          end
      end
  | SRecord _ _ fs, ARecord l => option_map JvObj (enc_fields (json_enc_gen wut e) fs l)
  | _, _ => None
  end.

Definition json_enc : env -> schema -> aval -> option jv := json_enc_gen true.
Definition json_enc_plain : env -> schema -> aval -> option jv := json_enc_gen false.

(** ---- the meaning of a field default (a JSON value held as the Python object json.loads gave):
         specification, "default: ... the default value for union fields corresponds to the first
         schema in the union ... bytes and fixed are strings of code points 0-255" ---- *)
Section DfltLoops.
  Variable rec : schema -> pyval -> res aval.
  Fixpoint dflt_items (s : schema) (l : list pyval) : res (list aval) :=
    match l with
    | [] => Ok []
    | v :: l => let* a := rec s v in let* r := dflt_items s l in Ok (a :: r)
    end.
  Fixpoint dflt_map (s : schema) (kv : list (pyval * pyval)) : res (list (bytes * aval)) :=
    match kv with
    | [] => Ok []
    | (PStr k, v) :: kv => let* a := rec s v in let* r := dflt_map s kv in Ok ((k, a) :: r)
    | _ :: _ => Err
    end.
  Fixpoint dflt_fields (kv : list (pyval * pyval)) (fs : list field) : res (list aval) :=
    match fs with
    | [] => Ok []
    | f :: fs =>
        let* a := match dict_get kv (fname f) with
                  | Some v => rec (ftype f) v
                  | None => match fdefault f with Some d => rec (ftype f) d | None => Err end
                  end in
        let* r := dflt_fields kv fs in Ok (a :: r)
    end.
End DfltLoops.

Definition num_double (v : pyval) : res Z :=
  match v with PFloat b => Ok b | PInt z => z2d z | _ => Err end.

Fixpoint dflt (f : nat) (e : env) (s : schema) (v : pyval) {struct f} : res aval :=
  match f with
  | O => OutOfFuel
  | S f =>
    match s with
    | SNull => match v with PNone => Ok ANull | _ => Err end
    | SBool => match v with PBool b => Ok (ABool b) | _ => Err end
    | SInt => match v with PInt z => if (INT_MIN <=? z) && (z <=? INT_MAX) then Ok (AInt z) else Err | _ => Err end
    | SLong => match v with PInt z => if (LONG_MIN <=? z) && (z <=? LONG_MAX) then Ok (AInt z) else Err | _ => Err end
    | SFloat => let* d := num_double v in let* x := d2s d in Ok (AFloat x)
    | SDouble => let* d := num_double v in Ok (ADouble d)
    | SBytes => match v with PStr x => match latin1_dec x with Some b => Ok (ABytes b) | None => Err end | _ => Err end
    | SString => match v with PStr x => Ok (AString x) | _ => Err end
    | SFixed _ _ size =>
        match v with
        | PStr x => match latin1_dec x with Some b => if len b =? size then Ok (AFixed b) else Err | None => Err end
        | _ => Err
        end
    | SEnum _ _ syms _ =>
        match v with PStr x => match index_of syms x 0 with Some i => Ok (AEnum i) | None => Err end | _ => Err end
    | SArray it => match v with PList l => let* r := dflt_items (dflt f e) it l in Ok (AArray r) | _ => Err end
    | SMap vs => match v with PDict kv => let* r := dflt_map (dflt f e) vs kv in Ok (AMap r) | _ => Err end
    | SUnion bs => match bs with b :: _ => let* a := dflt f e b v in Ok (AUnion 0 a) | [] => Err end
    | SRecord _ _ fs => match v with PDict kv => let* r := dflt_fields (dflt f e) kv fs in Ok (ARecord r) | _ => Err end
    | SRef n => match lookup e n with Some s' => dflt f e s' v | None => Err end
    | SAnnot _ s' => dflt f e s' v
    end
  end.

(** ---- the decoder: inverse of [json_enc]; absent record keys take the field default; union
         objects select the branch by label ---- *)
Fixpoint find_label (k : str) (bs : list schema) (i : Z) : option Z :=
  match bs with
  | [] => None
  | b :: bs => if bytes_eqb (jlabel b) k then Some i else find_label k bs (i + 1)
  end.

Fixpoint find_null (e : env) (bs : list schema) (i : Z) : option Z :=
  match bs with
  | [] => None
  | b :: bs => if is_null e b then Some i else find_null e bs (i + 1)
  end.

Section DecLoops.
  Variable rec : schema -> jv -> res aval.
  Fixpoint dec_items (s : schema) (l : list jv) : res (list aval) :=
    match l with
    | [] => Ok []
    | j :: l => let* a := rec s j in let* r := dec_items s l in Ok (a :: r)
    end.
  Fixpoint dec_map (s : schema) (kv : list (str * jv)) : res (list (bytes * aval)) :=
    match kv with
    | [] => Ok []
    | kj :: kv => if utf8_valid (fst kj)
                  then let* a := rec s (snd kj) in let* r := dec_map s kv in Ok ((fst kj, a) :: r)
                  else Err
    end.
  Variable dfl : schema -> pyval -> res aval.
  Definition dec_field (kv : list (str * jv)) (f : field) : res aval :=
    match jlookup kv (fname f) with
    | Some j => rec (ftype f) j
    | None => match fdefault f with Some d => dfl (ftype f) d | None => Err end      (* "no value and no default" *)
    end.
  Fixpoint dec_fields (kv : list (str * jv)) (fs : list field) : res (list aval) :=
    match fs with
    | [] => Ok []
    | f :: fs => let* a := dec_field kv f in let* r := dec_fields kv fs in Ok (a :: r)
    end.
End DecLoops.

Definition jnum_double (j : jv) : res Z :=
  match j with JvFloat b => Ok b | JvInt z => z2d z | _ => Err end.

Fixpoint json_dec (f : nat) (e : env) (s : schema) (j : jv) {struct f} : res aval :=
  match f with
  | O => OutOfFuel
  | S f =>
    match s with
    | SNull => match j with JvNull => Ok ANull | _ => Err end
    | SBool => match j with JvBool b => Ok (ABool b) | _ => Err end
    | SInt => match j with JvInt z => if (INT_MIN <=? z) && (z <=? INT_MAX) then Ok (AInt z) else Err | _ => Err end
    | SLong => match j with JvInt z => if (LONG_MIN <=? z) && (z <=? LONG_MAX) then Ok (AInt z) else Err | _ => Err end
    | SFloat => let* d := jnum_double j in let* x := d2s d in Ok (AFloat x)      (* the nearest binary32 value *)
    | SDouble => let* d := jnum_double j in Ok (ADouble d)
    | SBytes => match j with JvStr x => match latin1_dec x with Some b => Ok (ABytes b) | None => Err end | _ => Err end
    | SString => match j with JvStr x => if utf8_valid x then Ok (AString x) else Err | _ => Err end
    | SFixed _ _ size =>
        match j with
        | JvStr x => match latin1_dec x with Some b => if len b =? size then Ok (AFixed b) else Err | None => Err end
        | _ => Err
        end
    | SEnum _ _ syms _ =>
        match j with JvStr x => match index_of syms x 0 with Some i => Ok (AEnum i) | None => Err end | _ => Err end
    | SArray it => match j with JvArr l => let* r := dec_items (json_dec f e) it l in Ok (AArray r) | _ => Err end
    | SMap vs => match j with JvObj kv => let* r := dec_map (json_dec f e) vs kv in Ok (AMap r) | _ => Err end
    | SUnion bs =>
        match j with
        | JvNull =>
            match find_null e bs 0 with
            | Some i => match nthZ bs i with
                        | Some b => let* a := json_dec f e b JvNull in Ok (AUnion i a)
                        | None => Err end
            | None => Err
            end
        | JvObj [(k, x)] =>
            match find_label k bs 0 with
            | Some i => match nthZ bs i with
                        | Some b => if is_null e b then Err else let* a := json_dec f e b x in Ok (AUnion i a)
                        | None => Err end
            | None => Err
            end
        | _ => Err
        end
    | SRecord _ _ fs => match j with JvObj kv => let* r := dec_fields (json_dec f e) (dflt f e) kv fs in Ok (ARecord r) | _ => Err end
    | SRef n => match lookup e n with Some s' => json_dec f e s' j | None => Err end
    | SAnnot _ s' => json_dec f e s' j
    end
  end.

(* json_reader: decode the document, build the Python value (as the binary reader does from the same wire value) *)
Definition json_read (f : nat) (ro : ropts) (e : env) (s : schema) (j : jv) : res pyval :=
  let* a := json_dec f e s j in match py_of ro e s a with Some v => Ok v | None => Err end.

(* json_reader as a generator over the documents of the text (one per line): the records yielded so far and how it ended.
   A document that does not decode ends the iteration with an exception AFTER the records of the earlier documents have been
   yielded; later documents are never looked at. *)
Fixpoint json_read_stream (f : nat) (ro : ropts) (e : env) (s : schema) (docs : list jv) : list pyval * res unit :=
  match docs with
  | [] => ([], Ok tt)
  | j :: docs =>
      match json_read f ro e s j with
      | Ok v => let (vs, r) := json_read_stream f ro e s docs in (v :: vs, r)
      | Err => ([], Err)
      | OutOfFuel => ([], OutOfFuel)
      end
  end.

(* l[i] := x *)
Fixpoint set_nth {A} (i : nat) (x : A) (l : list A) : list A :=
  match l, i with
  | [], _ => []
  | _ :: l, O => x :: l
  | y :: l, S i => y :: set_nth i x l
  end.

(* json_writer's default writer options *)
Definition wo0 : wopts := {| strict := false; strict_allow_default := false; disable_tuple := false |}.

Definition is_tuple (v : pyval) : bool := match v with PTuple _ => true | _ => false end.

(** [dflt_bin f e s d]: the binary writer can take the JSON default [d] as a datum of type [s] and elaborates it the way the
    JSON reading [dflt] does: no bytes/fixed inside (their JSON default is a str, which write_bytes rejects: DESIGN O1), and at every
    union the writer's branch search (C09) settles on the FIRST branch, which is the one a default denotes. *)
Fixpoint dflt_bin (f : nat) (e : env) (s : schema) (v : pyval) {struct f} : bool :=
  match f with
  | O => false
  | S f =>
    match s with
    | SBytes | SFixed _ _ _ => false
    | SArray it => match v with PList l => forallb (dflt_bin f e it) l | _ => true end
    | SMap vs => match v with PDict kv => forallb (fun p => dflt_bin f e vs (snd p)) kv | _ => true end
    | SUnion bs =>
        match bs with
        | b :: _ =>
            negb (is_tuple v) &&
            match choose (fun c x => validate f wo0 e c (Some x)) e v bs 0 (-1) (-1) false with Ok 0 => true | _ => false end &&
            dflt_bin f e b v
        | [] => false
        end
    | SRecord _ _ fs =>
        match v with
        | PDict kv => forallb (fun fd => match dict_get kv (fname fd) with
                                         | Some x => dflt_bin f e (ftype fd) x
                                         | None => match fdefault fd with Some d => dflt_bin f e (ftype fd) d | None => false end
                                         end) fs
        | _ => true
        end
    | SRef n => match lookup e n with Some s' => dflt_bin f e s' v | None => false end
    | SAnnot _ s' => dflt_bin f e s' v
    | _ => true
    end
  end.


(** ---- side conditions of the round trip, as booleans ---- *)
Fixpoint nodupb (l : list str) : bool :=
  match l with [] => true | x :: l => negb (existsb (bytes_eqb x) l) && nodupb l end.

(* every union has distinct branch labels, every record distinct field names, every enum distinct symbols *)
Fixpoint wfb (s : schema) : bool :=
  match s with
  | SEnum _ _ syms _ => nodupb syms
  | SArray it => wfb it
  | SMap vs => wfb vs
  | SUnion bs => nodupb (map jlabel bs) && forallb wfb bs
  | SRecord _ _ fs => nodupb (map (fun f => fname f) fs) && forallb (fun f => wfb (ftype f)) fs
  | SAnnot _ s' => wfb s'
  | _ => true
  end.

(* named_schemas holds definitions of named types (possibly under a logicalType annotation), never references *)
Definition is_def (s : schema) : bool :=
  match strip s with SRecord _ _ _ | SEnum _ _ _ _ | SFixed _ _ _ => true | _ => false end.
Definition wf_envb (e : env) : bool := forallb (fun p => is_def (snd p) && wfb (snd p)) e.

(* a float leaf must survive widening and re-narrowing ([d2s (s2d x) = Ok x] is not proved in this
   development for all x: the boolean evaluates it on each leaf) and be finite; double leaves finite *)
Definition float_leaf_ok (b : Z) : bool :=
  finite32 b && match d2s (s2d b) with Ok y => y =? b | _ => false end.

Fixpoint float_leaves_ok (a : aval) : bool :=
  match a with
  | AFloat b => float_leaf_ok b
  | ADouble b => finite64 b
  | AArray l => forallb float_leaves_ok l
  | AMap l => forallb (fun kx => float_leaves_ok (snd kx)) l
  | AUnion _ x => float_leaves_ok x
  | ARecord l => forallb float_leaves_ok l
  | _ => true
  end.

(* json_writer on a Python datum: elaborate (defaults, branch choice, coercions), then the JSON encoding *)
Definition json_write (f : nat) (e : env) (s : schema) (v : pyval) : option jv :=
  match elab f wo0 e s v with WOk a => json_enc e s a | _ => None end.

(* the computable side condition of C15_json_binary: well-formed data and schema (what the abstraction of Python objects and parsed
   schemas satisfies), distinct union labels / field names / symbols, named_schemas holds definitions, the datum is accepted by the
   writer, and every float leaf of the elaborated value is an IEEE pattern, finite, and survives widening + re-narrowing *)
Definition c15_side (f : nat) (e : env) (s : schema) (v : pyval) : bool :=
  wf_env e && wf_schema s && wf_py v && named_env e && wf_envb e && wfb s &&
  match elab f wo0 e s v with WOk a => floats_ok a && float_leaves_ok a | _ => false end.


(** ---- text protocol ---- *)

Open Scope string_scope.
Definition c15_side_bits (f : nat) (e : env) (s : schema) (v : pyval) : string :=
  let b (x : bool) := if x then "1" else "0" in
  (b (wf_env e) ++ b (wf_schema s) ++ b (wf_py v) ++ b (named_env e) ++ b (wf_envb e) ++ b (wfb s) ++
   b (match elab f wo0 e s v with WOk a => floats_ok a && float_leaves_ok a | _ => false end))%string.

Fixpoint show_jv (j : jv) : string :=
  match j with
  | JvNull => "n"
  | JvBool true => "t"
  | JvBool false => "f"
  | JvInt z => "I" ++ show_Z z
  | JvFloat b => "D" ++ show_Z b
  | JvStr s => "S" ++ tohex s
  | JvArr l => "[" ++ (fix go l := match l with [] => "" | x :: l => show_jv x ++ "," ++ go l end) l ++ "]"
  | JvObj kv => "{" ++ (fix go l := match l with [] => "" | (k, x) :: l => tohex k ++ ":" ++ show_jv x ++ "," ++ go l end) kv ++ "}"
  end.

Definition JFUEL : nat := 400.

Definition show_pyo (o : option pyval) : string := match o with Some v => show_py v | None => "?" end.

(* what json_reader returns for document j *)
Definition show_jread (e : env) (s : schema) (j : jv) : string :=
  match json_dec JFUEL e s j with
  | Ok a => "R:" ++ show_pyo (py_of ropts0 e s a)
  | Err => "E"
  | OutOfFuel => "FUEL"
  end.

(* one record through json_writer (write_union_type = wut), json_reader, and the binary codec:
   J:<document>;R:<value read from the document>;B:<value read from the binary encoding>;L:<float leaves ok> *)
Definition run_json (wut : bool) (e : env) (s : schema) (v : pyval) : string :=
  match elab JFUEL wo0 e s v with
  | WOk a =>
      match json_enc_gen wut e s a with
      | Some j =>
          "J:" ++ show_jv j ++ ";" ++ (if wut then show_jread e s j else "-") ++ ";B:"
          ++ (match dec JFUEL e s (wire a) with
              | Ok (a', []) => show_pyo (py_of ropts0 e s a')
              | _ => "E" end)
          ++ ";L:" ++ (if float_leaves_ok a then "1" else "0") ++ (if c15_side JFUEL e s v then "" else ";side-condition-false:" ++ c15_side_bits JFUEL e s v)
      | None => "NOJSON"
      end
  | WErr => "E"
  | WUnspec => "U"
  | WFuel => "FUEL"
  end.

Definition run_jread (e : env) (s : schema) (j : jv) : string := show_jread e s j.

(* json_reader iterated over the documents of a text: number of records yielded, then how the iteration ended *)
Definition run_jstream (e : env) (s : schema) (docs : list jv) : string :=
  let (vs, r) := json_read_stream JFUEL ropts0 e s docs in
  "N:" ++ show_Z (len vs) ++ ";" ++ match r with Ok _ => "end" | Err => "raised" | OutOfFuel => "FUEL" end.

(* a field default: its JSON reading, whether the binary writer elaborates it the same way (side condition of C15_defaults_binary),
   and what the binary writer elaborates *)
Definition run_dflt (e : env) (s : schema) (d : pyval) : string :=
  "A:" ++ match dflt JFUEL e s d with Ok a => show_a a | Err => "E" | OutOfFuel => "FUEL" end
  ++ ";B:" ++ (if dflt_bin JFUEL e s d then "1" else "0")
  ++ ";E:" ++ match elab JFUEL wo0 e s d with WOk a => show_a a | WErr => "E" | WUnspec => "U" | WFuel => "FUEL" end.
