(** IEEE-754 bit patterns <-> SpecFloat (axiom-free stdlib), modelling
    struct.pack("<f"/"<d"), struct.unpack and float(int).
    A Python float is represented by its 64-bit pattern (a Z in [0, 2^64)). *)
From Coq Require Import ZArith SpecFloat.
From FA Require Import model.Base.

(* mw = width of the fraction field (52 / 23), ew = width of the exponent field (11 / 8) *)
Definition fdecode (mw ew bits : Z) : spec_float :=
  let s := Z.testbit bits (mw + ew) in
  let e := Z.land (Z.shiftr bits mw) (2 ^ ew - 1) in
  let m := Z.land bits (2 ^ mw - 1) in
  let bias := 2 ^ (ew - 1) - 1 in
  if e =? 0 then
    match m with Zpos p => S754_finite s p (1 - bias - mw) | _ => S754_zero s end
  else if e =? 2 ^ ew - 1 then
    (if m =? 0 then S754_infinity s else S754_nan)
  else
    match m + 2 ^ mw with Zpos p => S754_finite s p (e - bias - mw) | _ => S754_nan end.

Definition signbit (mw ew : Z) (s : bool) : Z := if s then 2 ^ (mw + ew) else 0.

(* [x] must be canonical for the format (as binary_round returns it) *)
Definition fencode (mw ew : Z) (x : spec_float) : Z :=
  let bias := 2 ^ (ew - 1) - 1 in
  match x with
  | S754_zero s => signbit mw ew s
  | S754_infinity s => signbit mw ew s + (2 ^ ew - 1) * 2 ^ mw
  | S754_nan => (2 ^ ew - 1) * 2 ^ mw + 2 ^ (mw - 1)
  | S754_finite s m e =>
      if Zpos m <? 2 ^ mw then signbit mw ew s + Zpos m            (* subnormal *)
      else signbit mw ew s + (e + bias + mw) * 2 ^ mw + (Zpos m - 2 ^ mw)
  end.

Definition frac64 (b : Z) : Z := Z.land b (2 ^ 52 - 1).
Definition frac32 (b : Z) : Z := Z.land b (2 ^ 23 - 1).

(** pack("<f", x) for a Python float x: round to nearest even onto binary32;
    OverflowError (Err) when a finite value rounds to infinity.  NaN keeps its
    sign and the top 22 payload bits and becomes quiet (what the C cast does). *)
Definition d2s (bits : Z) : res Z :=
  match fdecode 52 11 bits with
  | S754_nan => Ok (signbit 23 8 (Z.testbit bits 63) + 255 * 2 ^ 23 + Z.lor (2 ^ 22) (Z.shiftr (frac64 bits) 29))
  | S754_finite s m e =>
      match binary_round 24 128 s m e with
      | S754_infinity _ => Err
      | y => Ok (fencode 23 8 y)
      end
  | x => Ok (fencode 23 8 x)
  end.

(** unpack("<f") : exact widening *)
Definition s2d (bits : Z) : Z :=
  match fdecode 23 8 bits with
  | S754_nan => signbit 52 11 (Z.testbit bits 31) + 2047 * 2 ^ 52 + Z.lor (2 ^ 51) (Z.shiftl (frac32 bits) 29)
  | S754_finite s m e => fencode 52 11 (binary_round 53 1024 s m e)
  | x => fencode 52 11 x
  end.

(** float(n) for a Python int: nearest even; OverflowError when too large *)
Definition z2d (z : Z) : res Z :=
  match binary_normalize 53 1024 z 0 false with
  | S754_infinity _ => Err
  | y => Ok (fencode 52 11 y)
  end.

Definition is_nan64 (b : Z) : bool :=
  (Z.land (Z.shiftr b 52) 2047 =? 2047) && negb (frac64 b =? 0).
