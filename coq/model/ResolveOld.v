(** The code of fastavro/_read_py.py match_types / match_schemas / read_data with a reader schema AS IT WAS
    before the repairs fa4e4ec, 7315827, 0f60141, 7fea917, ea123da (kind of named types not compared, int/long -> float
    not rounded, JSON defaults returned unconverted, first matching reader-union branch, by-name references not
    followed).  Kept so that the refutations of the full statement C08_factor about that code remain machine-checked
    (proofs/ResolveOldProofs.v).  Executable definitions only. *)
From Coq Require Import String.
From FA Require Import model.Base model.Varint model.Value model.Schema model.Float model.Utf8
                       model.Codec model.Validate model.Read model.Resolve.
Open Scope Z_scope.

(* `for schema in r_schema: if match_types(w, schema): return schema` *)
Fixpoint first_branch_old (mt : schema -> rres bool) (bs : list schema) : rres schema :=
  match bs with
  | [] => RErrResolution
  | b :: bs => let+ x := mt b in if x then ROk b else first_branch_old mt bs
  end.

Section MatchNames.
  Variables we re : env.
  Variable mt : schema -> schema -> rres bool.
  (* match_types_old on two strings (type names or named-type references) *)
  Definition match_names_old (a b : tag) : rres bool :=
    if tag_eqb a b then ROk true
    else if promotable a b then ROk true
    else match a, b with
         | TName n, TName m =>
             match lookup we n, lookup re m with
             | Some w', Some r' => mt w' r'
             | _, _ => ROk false
             end
         | _, _ => ROk false          (* named_schemas[...].get(<primitive or kind name>) is None *)
         end.
End MatchNames.


Fixpoint match_types_old (f : nat) (we re : env) (w r : schema) {struct f} : rres bool :=
  match f with
  | O => RFuel
  | S f =>
      if is_list w || is_list r then ROk true
      else if is_dict w || is_dict r then
        match match_schemas_old f we re w r with
        | ROk _ => ROk true
        | RErrResolution => ROk false
        | RErrOther => RErrOther
        | RFuel => RFuel
        end
      else match_names_old we re (match_types_old f we re) (tag_of w) (tag_of r)
  end
with match_schemas_old (f : nat) (we re : env) (w r : schema) {struct f} : rres schema :=
  match f with
  | O => RFuel
  | S f =>
      if is_list w then ROk r          (* writer union: checked in read_union once the branch is known *)
      else match r with
      | SUnion bs => first_branch_old (match_types_old f we re w) bs
      | _ =>
        let wt := tag_of w in
        let rt := tag_of r in
        match strip w, strip r with
        | SMap wv, SMap rv => check_match (match_types_old f we re wv rv) r
        | SArray wi, SArray ri => check_match (match_types_old f we re wi ri) r
        | sw, sr =>
          if in_named_types wt && in_named_types rt then
            match sw, sr with
            | SFixed wn _ wsz, SFixed rn ral rsz =>
                if negb (wsz =? rsz) then RErrResolution
                else if names_match wn rn ral then ROk r else RErrResolution
            | _, _ =>
                match name_of sw, name_of sr with
                | Some wn, Some rn => if names_match wn rn (aliases_of sr) then ROk r else RErrResolution
                | _, _ => RErrOther
                end
            end
          else if negb (in_avro_types wt) && in_named_types rt then
            match name_of sr with
            | Some rn => check_match (match_names_old we re (match_types_old f we re) wt (TName rn)) (SRef rn)
            | None => RErrOther
            end
          else check_match (match_names_old we re (match_types_old f we re) wt rt) r
        end
      end
  end.


Definition match_top_old (we re : env) (w r : schema) : rres schema := match_schemas_old (mfuel w) we re w r.
Definition match_types_top_old (we re : env) (w r : schema) : rres bool := match_types_old (mfuel w) we re w r.


(** maybe_promote_old(data, writer type name, reader type name) *)
Definition maybe_promote_old (v : pyval) (wt rt : tag) : rres pyval :=
  match wt, rt, v with
  | TInt, (TFloat | TDouble), PInt z | TLong, (TFloat | TDouble), PInt z =>
      let+ d := of_res (z2d z) in ROk (PFloat d)                        (* float(data) *)
  | TString, TBytes, PStr s => ROk (PBytes s)                           (* data.encode() *)
  | TBytes, TString, PBytes b => if utf8_valid b then ROk (PStr b) else RErrOther   (* data.decode() *)
  | _, _, _ => ROk v
  end.

Definition promote_with_old (wt : tag) (R : option schema) (v : pyval) : rres pyval :=
  match R with Some r => maybe_promote_old v wt (tag_of r) | None => ROk v end.


(* "fill in default values": raw JSON default, no conversion *)
Fixpoint fill_defaults_old (tbl : list (str * field)) (record : list (pyval * pyval)) : rres (list (pyval * pyval)) :=
  match tbl with
  | [] => ROk record
  | (n, fd) :: tbl =>
      match dict_get record n with
      | Some _ => fill_defaults_old tbl record
      | None =>
          match fdefault fd with
          | Some d => fill_defaults_old tbl (dict_set record (fname fd) d)
          | None => RErrResolution
          end
      end
  end.

Definition finish_record_old (rfs : list field) (record : list (pyval * pyval)) : rres pyval :=
  let tbl := field_table rfs in
  if len tbl >? len record
  then let+ record := fill_defaults_old tbl record in ROk (PDict record)
  else ROk (PDict record).


(* the reader schema handed to the by-name step: named_schemas["reader"].get(reader_schema) *)
Definition reader_by_name_old (re : env) (R : option schema) : rres (option schema) :=
  match R with
  | None => ROk None
  | Some r => if is_str r then ROk (match r with SRef m => lookup re m | _ => None end)
              else RErrOther                                           (* unhashable type: dict / list *)
  end.

(* read_data's first step: the reader schema to continue with *)
Definition matched_old (we re : env) (w : schema) (R : option schema) : rres (option schema) :=
  match truthy R with
  | Some r => let+ x := match_top_old we re w r in ROk (Some x)
  | None => ROk R
  end.

(* read_union's choice of the reader schema for the writer's branch [wb]:
   (schema handed to read_data, idx_reader_schema) *)
Definition union_reader_old (we re : env) (wb : schema) (R : option schema) : rres (option schema * option schema) :=
  match truthy R with
  | None => ROk (None, None)
  | Some (SUnion rbs) =>
      let+ b := first_branch_old (match_types_top_old we re wb) rbs in ROk (Some b, Some b)
  | Some r =>
      let+ x := match_types_top_old we re wb r in
      if x then ROk (Some r, None) else RErrResolution
  end.


(** read_data(decoder, writer_schema, named_schemas, reader_schema, options) *)
Fixpoint rdec_old (f : nat) (we re : env) (o : ropts) (w : schema) (R : option schema) (bs : bytes) {struct f}
  : rres (pyval * bytes) :=
  match f with
  | O => RFuel
  | S f =>
    let+ R' := matched_old we re w R in
    let+ (v, bs) :=
      match strip w with
      | SRef n =>                                                      (* not in READERS: by-name step *)
          match lookup we n with
          | None => RErrOther
          | Some w' => let+ R'' := reader_by_name_old re R' in rdec_old f we re o w' R'' bs
          end
      | SArray wi =>
          let item bs := match truthy R' with
                         | Some r => let+ ri := r_items r in rdec_old f we re o wi (Some ri) bs
                         | None => rdec_old f we re o wi None bs
                         end in
          let+ (l, bs) := rblocks item (S f) bs in ROk (PList l, bs)
      | SMap wv =>
          let item bs := match truthy R' with
                         | Some r => let+ rv := r_values r in rdec_old f we re o wv (Some rv) bs
                         | None => rdec_old f we re o wv None bs
                         end in
          let+ (l, bs) := rblocks (rmap_item item) (S f) bs in ROk (PDict (dict_of_items l), bs)
      | SUnion wbs =>
          let+ (i, bs) := of_res (long_dec bs) in
          match nthZ wbs i with
          | None => RErrOther
          | Some wb =>
              let+ (rb, idx_reader) := union_reader_old we re wb R' in
              let+ (v, bs) := rdec_old f we re o wb rb bs in
              let+ v := wrap_union_r o we re wbs wb idx_reader v in ROk (v, bs)
          end
      | SRecord _ _ wfs =>
          match R' with
          | None => let+ (record, bs) := rfields_plain (rdec_old f we re o) wfs [] bs in ROk (PDict record, bs)
          | Some r =>
              let+ rfs := r_fields r in
              let+ (record, bs) := rfields (rdec_old f we re o) (skip f we) rfs wfs [] bs in
              let+ v := finish_record_old rfs record in ROk (v, bs)
          end
      | SEnum _ _ syms _ =>
          let+ (i, bs) := of_res (long_dec bs) in
          match nthZ syms i with
          | None => RErrOther
          | Some sym => let+ v := enum_symbol R' sym in ROk (v, bs)
          end
      | SAnnot _ _ => RErrOther
      | s => read_leaf s bs
      end in
    match strip w with
    | SRef _ => ROk (v, bs)
    | _ => let+ v := promote_with_old (tag_of w) R' v in ROk (v, bs)
    end
  end.

