(** The bridge from the schema world (parsed schemas as [json], model/Parse.v) to the codec
    world (the AST of model/Schema.v): [schema_of_json] mirrors harness/gallina.py
    schema_to_coq, [env_of_table] mirrors env_to_coq; [schema_eqb] compares the result with the
    term the Python printer emits (validated on every run); [erase_schema] drops what the binary
    codec never looks at.  Executable definitions only. *)
From Coq Require Import String Ascii.
From FA Require Import model.Base model.Value model.Schema model.Json model.Parse model.SchemaSpec model.Inline model.Canon.
Open Scope string_scope.

(** ---- JSON default -> Python object ---- *)
Definition pyval_of_json : json -> pyval :=
  jfold
    (fun j => match j with
              | JNull => PNone
              | JBool b => PBool b
              | JInt z => PInt z
              | JFloat b => PFloat b
              | JStr s => PStr (s2b s)
              | _ => PNone
              end)
    (fun _ rs => PList rs)
    (fun _ rs => PDict (map (fun p => (PStr (s2b (fst p)), snd p)) rs)).

(* [cstr(a) for a in x.get("aliases", []) if isinstance(a, str)] *)
Definition aliases_of (kv : list (string * json)) : list str :=
  match jget "aliases" kv with
  | Some (JArr l) => concat (map (fun a => match a with JStr s => [s2b s] | _ => [] end) l)
  | _ => []
  end.

Definition prim_schema (t : string) : option schema :=
  if String.eqb t "null" then Some SNull
  else if String.eqb t "boolean" then Some SBool
  else if String.eqb t "int" then Some SInt
  else if String.eqb t "long" then Some SLong
  else if String.eqb t "float" then Some SFloat
  else if String.eqb t "double" then Some SDouble
  else if String.eqb t "bytes" then Some SBytes
  else if String.eqb t "string" then Some SString
  else None.

(* lt if isinstance(lt, str) else "" *)
Definition lt_of (kv : list (string * json)) : str :=
  match jget "logicalType" kv with Some (JStr s) => s2b s | _ => [] end.

Definition annot (kv : list (string * json)) (core : schema) : schema :=
  match lt_of kv with [] => core | lt => SAnnot lt core end.

Fixpoint strs_of (l : list json) : option (list str) :=
  match l with
  | [] => Some []
  | JStr s :: r => match strs_of r with Some t => Some (s2b s :: t) | None => None end
  | _ => None
  end.

Fixpoint all_some {A} (l : list (option A)) : option (list A) :=
  match l with
  | [] => Some []
  | Some x :: r => match all_some r with Some t => Some (x :: t) | None => None end
  | None :: _ => None
  end.

Inductive bmode := BSchema | BFields | BField.
Inductive bres := BS (s : schema) | BFs (l : list field) | BF (f : field).

Definition as_schema (r : option bres) : option schema := match r with Some (BS s) => Some s | _ => None end.
Definition as_field (r : option bres) : option field := match r with Some (BF f) => Some f | _ => None end.
Definition as_fields (r : option bres) : option (list field) := match r with Some (BFs l) => Some l | _ => None end.

Definition bsubr (k : string) (rs : list (string * (bmode -> option bres))) (m : bmode) : option bres :=
  match jget k rs with Some r => r m | None => None end.

Definition bridge_obj (kv : list (string * json)) (rs : list (string * (bmode -> option bres))) (m : bmode)
  : option bres :=
  match m with
  | BField =>
      match jget "name" kv, as_schema (bsubr "type" rs BSchema) with
      | Some (JStr n), Some ft =>
          Some (BF (mkField (s2b n) ft
                            (match jget "default" kv with Some d => Some (pyval_of_json d) | None => None end)
                            (aliases_of kv)))
      | _, _ => None
      end
  | BFields => None
  | BSchema =>
      match jget "type" kv with
      | Some (JStr t) =>
          match prim_schema t with
          | Some core => Some (BS (SAnnot (lt_of kv) core))          (* dict form: always annotated *)
          | None =>
              if String.eqb t "array" then
                match as_schema (bsubr "items" rs BSchema) with
                | Some it => Some (BS (annot kv (SArray it))) | None => None end
              else if String.eqb t "map" then
                match as_schema (bsubr "values" rs BSchema) with
                | Some it => Some (BS (annot kv (SMap it))) | None => None end
              else if String.eqb t "fixed" then
                match jget "name" kv, jget "size" kv with
                | Some (JStr n), Some (JInt z) => Some (BS (annot kv (SFixed (s2b n) (aliases_of kv) z)))
                | _, _ => None
                end
              else if String.eqb t "enum" then
                match jget "name" kv, jget "symbols" kv with
                | Some (JStr n), Some (JArr syms) =>
                    match strs_of syms with
                    | Some ss =>
                        Some (BS (annot kv (SEnum (s2b n) (aliases_of kv) ss
                                                  (match jget "default" kv with Some (JStr d) => Some (s2b d) | _ => None end))))
                    | None => None
                    end
                | _, _ => None
                end
              else if String.eqb t "record" || String.eqb t "error" then
                match jget "name" kv, as_fields (bsubr "fields" rs BFields) with
                | Some (JStr n), Some fs => Some (BS (annot kv (SRecord (s2b n) (aliases_of kv) fs)))
                | _, _ => None
                end
              else None
          end
      | Some (JArr _) | Some (JObj _) =>                              (* {"type": {...}} nesting *)
          match as_schema (bsubr "type" rs BSchema) with
          | Some inner => Some (BS (SAnnot (lt_of kv) inner)) | None => None end
      | _ => None
      end
  end.

Definition bridge_m : json -> bmode -> option bres :=
  jfold
    (fun j m => match m, j with
                | BSchema, JStr s => match prim_schema s with Some p => Some (BS p) | None => Some (BS (SRef (s2b s))) end
                | _, _ => None
                end)
    (fun _ rs m =>
       match m with
       | BSchema => match all_some (map (fun r => as_schema (r BSchema)) rs) with Some l => Some (BS (SUnion l)) | None => None end
       | BFields => match all_some (map (fun r => as_field (r BField)) rs) with Some l => Some (BFs l) | None => None end
       | BField => None
       end)
    bridge_obj.

Definition schema_of_json (p : json) : option schema := as_schema (bridge_m p BSchema).

Fixpoint env_of_table (t : named) : option env :=
  match t with
  | [] => Some []
  | (k, v) :: r =>
      match schema_of_json v, env_of_table r with
      | Some s, Some e => Some ((s2b k, s) :: e)
      | _, _ => None
      end
  end.

(** ---- equality on the codec AST ---- *)
Fixpoint strs_eqb (a b : list str) : bool :=
  match a, b with
  | [], [] => true
  | x :: a, y :: b => bytes_eqb x y && strs_eqb a b
  | _, _ => false
  end.

Definition opt_eqb {A} (eq : A -> A -> bool) (a b : option A) : bool :=
  match a, b with
  | None, None => true
  | Some x, Some y => eq x y
  | _, _ => false
  end.

Fixpoint schema_eqb (a b : schema) {struct a} : bool :=
  match a, b with
  | SNull, SNull | SBool, SBool | SInt, SInt | SLong, SLong | SFloat, SFloat | SDouble, SDouble
  | SBytes, SBytes | SString, SString => true
  | SFixed n al z, SFixed n' al' z' => bytes_eqb n n' && strs_eqb al al' && Z.eqb z z'
  | SEnum n al ss d, SEnum n' al' ss' d' => bytes_eqb n n' && strs_eqb al al' && strs_eqb ss ss' && opt_eqb bytes_eqb d d'
  | SArray x, SArray y => schema_eqb x y
  | SMap x, SMap y => schema_eqb x y
  | SUnion l, SUnion l' =>
      (fix go (l l' : list schema) : bool :=
         match l, l' with
         | [], [] => true
         | x :: l, y :: l' => schema_eqb x y && go l l'
         | _, _ => false
         end) l l'
  | SRecord n al fs, SRecord n' al' fs' =>
      bytes_eqb n n' && strs_eqb al al' &&
      (fix go (l l' : list field) : bool :=
         match l, l' with
         | [], [] => true
         | x :: l, y :: l' =>
             bytes_eqb (fname x) (fname y) && schema_eqb (ftype x) (ftype y) &&
             opt_eqb py_eqb (fdefault x) (fdefault y) && strs_eqb (faliases x) (faliases y) && go l l'
         | _, _ => false
         end) fs fs'
  | SRef n, SRef n' => bytes_eqb n n'
  | SAnnot lt x, SAnnot lt' y => bytes_eqb lt lt' && schema_eqb x y
  | _, _ => false
  end.

Fixpoint env_eqb (a b : env) : bool :=
  match a, b with
  | [], [] => true
  | (k, s) :: a, (k', s') :: b => bytes_eqb k k' && schema_eqb s s' && env_eqb a b
  | _, _ => false
  end.

(* the Python printer's terms for fastavro's parse result against the in-Coq bridge of the model's *)
Definition bridge_check (j : json) (s : schema) (e : env) : bool :=
  match parse_auto j with
  | POk (p, t) =>
      match schema_of_json p, env_of_table t with
      | Some s', Some e' => schema_eqb s' s && env_eqb e' e
      | _, _ => false
      end
  | _ => false
  end.

(** ---- what the binary codec does not look at ---- *)
Fixpoint erase_schema (s : schema) : schema :=
  match s with
  | SFixed n _ z => SFixed n [] z
  | SEnum n _ ss _ => SEnum n [] ss None
  | SArray x => SArray (erase_schema x)
  | SMap x => SMap (erase_schema x)
  | SUnion l => SUnion (map erase_schema l)
  | SRecord n _ fs => SRecord n [] (map (fun f => mkField (fname f) (erase_schema (ftype f)) None []) fs)
  | SAnnot _ x => erase_schema x
  | other => other
  end.

Definition erase_env (e : env) : env := map (fun p => (fst p, erase_schema (snd p))) e.

(** closed boolean check for the correspondence: the schema and the parse of its canonical JSON
    have the same erased codec schema and the same erased table (same names, same order) *)
Definition same_encoding_check (j : json) : bool :=
  match parse_auto j, parse_auto (pcf_json j) with
  | POk (p, t), POk (p2, t2) =>
      match schema_of_json p, schema_of_json p2, env_of_table t, env_of_table t2 with
      | Some s, Some s2, Some e, Some e2 =>
          schema_eqb (erase_schema s) (erase_schema s2) && env_eqb (erase_env e) (erase_env e2)
      | _, _, _, _ => false
      end
  | POk _, _ => false
  | _, _ => true
  end.
