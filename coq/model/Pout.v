(** The parser's output and table as FUNCTIONS of the raw schema (proved equal to what the parser
    computes whenever it accepts, proofs/PoutProofs.v):
    [pout ns j]     the parsed schema (without the markers) of raw j read in namespace ns;
    [defs_of ns j]  the named definitions of j in document order, each with its full name, the
                    namespace it is read in and its raw node (the table entry of the name is
                    [pout] of that node in that namespace).
    Executable definitions only. *)
From Coq Require Import String Ascii.
From FA Require Import model.Base model.Json model.Parse model.SchemaSpec.
Open Scope string_scope.

(* the dict every branch of _parse_schema starts from: custom attributes, "type", "doc" *)
Definition pbase (kv : list (string * json)) (ty : json) : list (string * json) :=
  copy_prop "doc" kv (jset "type" ty (jdrop RESERVED_PROPERTIES kv)).

Definition fbase (fkv : list (string * json)) : list (string * json) :=
  copy_prop "doc" fkv (copy_prop "aliases" fkv (copy_prop "default" fkv (jdrop RESERVED_FIELD_PROPERTIES fkv))).

Definition osubj (k : string) (rs : list (string * (pmode -> string -> json))) (m : pmode) (ns : string) : json :=
  match jget k rs with Some r => r m ns | None => JNull end.

Definition attrj (k : string) (kv : list (string * json)) : json :=
  match jget k kv with Some v => v | None => JNull end.

Definition pout_obj (kv : list (string * json)) (rs : list (string * (pmode -> string -> json)))
           (m : pmode) (ns : string) : json :=
  match m with
  | PField => JObj (jset "type" (osubj "type" rs PSchema ns) (jset "name" (attrj "name" kv) (fbase kv)))
  | _ =>
      match jget "type" kv with
      | Some (JStr t) =>
          let base := pbase kv (JStr t) in
          let full := spec_fullname ns kv in
          if String.eqb t "array" then JObj (jset "items" (osubj "items" rs PSchema ns) base)
          else if String.eqb t "map" then JObj (jset "values" (osubj "values" rs PSchema ns) base)
          else if String.eqb t "enum" then
            JObj (jset "symbols" (attrj "symbols" kv) (keep_null_ns full ns (jset "name" (JStr full) base)))
          else if String.eqb t "fixed" then
            JObj (jset "size" (attrj "size" kv) (keep_null_ns full ns (jset "name" (JStr full) base)))
          else if String.eqb t "record" || String.eqb t "error" then
            JObj (jset "fields" (match jget "fields" kv, jget "fields" rs with
                                 | Some (JArr _), Some r => r PFields (spec_namespace ns kv)
                                 | _, _ => JArr []
                                 end)
                       (jset "name" (JStr full) (keep_null_ns full ns base)))
          else if is_prim t then JObj base
          else JNull
      | _ => JNull
      end
  end.

Definition pout_m : json -> pmode -> string -> json :=
  jfold
    (fun j _ ns => match j with
                   | JStr s => if is_prim s then JStr s else JStr (qualify ns s)
                   | _ => j
                   end)
    (fun _ rs m ns => match m with
                      | PFields => JArr (map (fun r => r PField ns) rs)
                      | _ => JArr (map (fun r => r PSchema ns) rs)
                      end)
    pout_obj.

Definition pout (ns : string) (j : json) : json := pout_m j PSchema ns.

(** the named definitions in document order: (full name, (namespace read in, raw node)) *)
Definition dsub (k : string) (rs : list (string * (pmode -> string -> list (string * (string * json)))))
           (m : pmode) (ns : string) : list (string * (string * json)) :=
  match jget k rs with Some r => r m ns | None => [] end.

Definition defs_of_m : json -> pmode -> string -> list (string * (string * json)) :=
  jfold
    (fun _ _ _ => [])
    (fun _ rs m ns => concat (map (fun r => r (match m with PFields => PField | _ => PSchema end) ns) rs))
    (fun kv rs m ns =>
       match m with
       | PField => dsub "type" rs PSchema ns
       | _ =>
           if type_is kv "array" then dsub "items" rs PSchema ns
           else if type_is kv "map" then dsub "values" rs PSchema ns
           else if type_is kv "enum" || type_is kv "fixed" then [(spec_fullname ns kv, (ns, JObj kv))]
           else if type_is kv "record" || type_is kv "error" then
             (spec_fullname ns kv, (ns, JObj kv)) :: dsub "fields" rs PFields (spec_namespace ns kv)
           else []
       end).
Definition defs_of (ns : string) (j : json) : list (string * (string * json)) := defs_of_m j PSchema ns.
