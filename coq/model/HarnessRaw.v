(** Glue for the raw-schema route: the model parses the RAW schema JSON itself (model/Parse.v), bridges the
    parsed result to the codec AST (model/Bridge.v) and only then runs the codec model.  With it the codec
    correspondences no longer depend on fastavro's parse_schema for the meaning of a schema. *)
From Coq Require Import String.
From FA Require Import model.Base model.Value model.Schema model.Json model.Parse model.Bridge
                       model.Validate model.Write model.Read model.Harness.
Open Scope string_scope.

Definition run_wr_raw (wo : wopts) (ro : ropts) (j : json) (v : pyval) (suffix : bytes) : string :=
  match parse_auto j with
  | POk (p, tbl) =>
      match schema_of_json p, env_of_table tbl with
      | Some s, Some e => run_wr wo ro e s v suffix
      | _, _ => "BRIDGE"
      end
  | _ => "PARSE"
  end.
