(** Logical-type conversions of fastavro/_logical_writers_py.py (the prepare_ functions) and
    fastavro/_logical_readers_py.py (the read_ functions), the fixed length check of
    fastavro/_write_py.py write_fixed, over [Z].  Executable definitions only.

    Abstraction of the standard-library objects (harness/props/c16.py):
      datetime.date      -> proleptic Gregorian ordinal (date.toordinal())
      datetime.time      -> (hour, minute, second, microsecond)
      aware  datetime    -> microseconds since 1970-01-01T00:00:00Z, any sign
      naive  datetime    -> microseconds since the naive 1970-01-01T00:00:00
      decimal.Decimal    -> as_tuple(): (sign, digits, exponent)
      uuid.UUID          -> its 128-bit integer (.int)
      bytes              -> list Z

    Python operators: [//] = Z.div, [%] = Z.modulo (both floor), [>> << | ^ &] =
    Z.shiftr shiftl lor lxor land, [int(a / b)] (true division, then truncation
    toward zero) = Z.quot. *)
From Coq Require Import String Ascii.
From FA Require Import model.Base.
Open Scope Z_scope.

(** ** const.py *)
Definition MCS_PER_SECOND : Z := 1000000.
Definition MCS_PER_MINUTE : Z := 60000000.
Definition MCS_PER_HOUR : Z := 3600000000.
Definition MLS_PER_SECOND : Z := 1000.
Definition MLS_PER_MINUTE : Z := 60000.
Definition MLS_PER_HOUR : Z := 3600000.
Definition DAYS_SHIFT : Z := 719163.          (* datetime.date(1970, 1, 1).toordinal() *)
Definition INT_MIN_VALUE : Z := -2147483648.
Definition INT_MAX_VALUE : Z := 2147483647.
Definition LONG_MIN_VALUE : Z := -9223372036854775808.
Definition LONG_MAX_VALUE : Z := 9223372036854775807.

(** the keys of LOGICAL_WRITERS / LOGICAL_READERS (sorted), compared with the source in SF_time.v *)
Definition logical_keys : list string :=
  ["bytes-decimal"; "fixed-decimal"; "int-date"; "int-time-millis"; "long-local-timestamp-micros";
   "long-local-timestamp-millis"; "long-time-micros"; "long-timestamp-micros"; "long-timestamp-millis";
   "string-uuid"]%string.

(** ** domain of the standard-library types *)
Definition MIN_ORDINAL : Z := 1.              (* date.min.toordinal()  0001-01-01 *)
Definition MAX_ORDINAL : Z := 3652059.        (* date.max.toordinal()  9999-12-31 *)
Definition US_PER_DAY : Z := 86400000000.
Definition DT_MIN : Z := -62135596800000000.  (* (datetime.min - epoch) in microseconds *)
Definition DT_MAX : Z := 253402300799999999.  (* (datetime.max - epoch) in microseconds *)

(** int(a / b) for Python ints: true division, then truncation toward zero *)
Definition int_truediv (a b : Z) : Z := Z.quot a b.

(** the calendar arithmetic of datetime.date.toordinal (used only to tie the
    abstraction "date = ordinal" to (y, m, d) in the correspondence) *)
Definition is_leap (y : Z) : bool :=
  (y mod 4 =? 0) && (negb (y mod 100 =? 0) || (y mod 400 =? 0)).
Definition days_before_year (y : Z) : Z :=
  let y := y - 1 in y * 365 + y / 4 - y / 100 + y / 400.
Definition days_before_month (y m : Z) : Z :=
  nth (Z.to_nat m) [0; 0; 31; 59; 90; 120; 151; 181; 212; 243; 273; 304; 334] 0
  + (if (m >? 2) && is_leap y then 1 else 0).
Definition ymd2ord (y m d : Z) : Z := days_before_year y + days_before_month y m + d.

(** ** date:  data.toordinal() - DAYS_SHIFT ;  date.fromordinal(data + DAYS_SHIFT) *)
Definition prepare_date (ordinal : Z) : Z := ordinal - DAYS_SHIFT.

Definition read_date (data : Z) : res Z :=
  let o := data + DAYS_SHIFT in
  if (MIN_ORDINAL <=? o) && (o <=? MAX_ORDINAL) then Ok o else Err.   (* fromordinal raises outside *)

(** ** time of day *)
Definition tod := (Z * Z * Z * Z)%type.      (* hour, minute, second, microsecond *)

(* datetime.time(h, m, s, us) raises ValueError outside the ranges *)
Definition mk_time (h m s us : Z) : res tod :=
  if (0 <=? h) && (h <? 24) && (0 <=? m) && (m <? 60) && (0 <=? s) && (s <? 60)
     && (0 <=? us) && (us <? 1000000)
  then Ok (h, m, s, us) else Err.

(* int(data.hour * MLS_PER_HOUR + data.minute * MLS_PER_MINUTE + data.second * MLS_PER_SECOND
       + int(data.microsecond / 1000)) *)
Definition prepare_time_millis (h m s us : Z) : Z :=
  h * MLS_PER_HOUR + m * MLS_PER_MINUTE + s * MLS_PER_SECOND + int_truediv us 1000.

(* int(data.hour * MCS_PER_HOUR + ... + data.microsecond) *)
Definition prepare_time_micros (h m s us : Z) : Z :=
  h * MCS_PER_HOUR + m * MCS_PER_MINUTE + s * MCS_PER_SECOND + us.

(* h = int(data / MLS_PER_HOUR); m = int(data / MLS_PER_MINUTE) % 60; s = int(data / MLS_PER_SECOND) % 60
   mls = int(data % MLS_PER_SECOND) * 1000 *)
Definition read_time_millis (data : Z) : res tod :=
  mk_time (int_truediv data MLS_PER_HOUR)
          (int_truediv data MLS_PER_MINUTE mod 60)
          (int_truediv data MLS_PER_SECOND mod 60)
          ((data mod MLS_PER_SECOND) * 1000).

Definition read_time_micros (data : Z) : res tod :=
  mk_time (int_truediv data MCS_PER_HOUR)
          (int_truediv data MCS_PER_MINUTE mod 60)
          (int_truediv data MCS_PER_SECOND mod 60)
          (data mod MCS_PER_SECOND).

(** ** timestamps.  delta = data - epoch is a normalised timedelta:
       0 <= seconds < 86400, 0 <= microseconds < 10^6, days any sign *)
Definition td_days (t : Z) : Z := t / US_PER_DAY.
Definition td_seconds (t : Z) : Z := (t mod US_PER_DAY) / 1000000.
Definition td_microseconds (t : Z) : Z := (t mod US_PER_DAY) mod 1000000.

(* (delta.days * 24 * 3600 + delta.seconds) * MLS_PER_SECOND + int(delta.microseconds / 1000) *)
Definition prepare_timestamp_millis (t : Z) : Z :=
  (td_days t * 24 * 3600 + td_seconds t) * MLS_PER_SECOND + int_truediv (td_microseconds t) 1000.

(* (delta.days * 24 * 3600 + delta.seconds) * MCS_PER_SECOND + delta.microseconds *)
Definition prepare_timestamp_micros (t : Z) : Z :=
  (td_days t * 24 * 3600 + td_seconds t) * MCS_PER_SECOND + td_microseconds t.

(* delta = data.replace(tzinfo=utc) - epoch : the same arithmetic on the naive reading *)
Definition prepare_local_timestamp_millis (t : Z) : Z := prepare_timestamp_millis t.
Definition prepare_local_timestamp_micros (t : Z) : Z := prepare_timestamp_micros t.

(* naive datetime under timestamp-*, not Windows, process time zone UTC:
   int(time.mktime(data.timetuple())) * MLS_PER_SECOND + int(data.microsecond / 1000)
   mktime under TZ=UTC = whole seconds since the epoch = floor(t / 10^6); data.microsecond = t mod 10^6 *)
Definition prepare_timestamp_millis_naive_utc (t : Z) : Z :=
  (t / 1000000) * MLS_PER_SECOND + int_truediv (t mod 1000000) 1000.
Definition prepare_timestamp_micros_naive_utc (t : Z) : Z :=
  (t / 1000000) * MCS_PER_SECOND + t mod 1000000.

(* epoch + timedelta(microseconds=...) raises OverflowError outside datetime.min .. datetime.max *)
Definition mk_datetime (t : Z) : res Z :=
  if (DT_MIN <=? t) && (t <=? DT_MAX) then Ok t else Err.

Definition read_timestamp_millis (data : Z) : res Z := mk_datetime (data * 1000).
Definition read_timestamp_micros (data : Z) : res Z := mk_datetime data.
Definition read_local_timestamp_millis (data : Z) : res Z := mk_datetime (data * 1000).
Definition read_local_timestamp_micros (data : Z) : res Z := mk_datetime data.

(** ** bytes <-> integers *)

(* int.bit_length() *)
Definition bit_length (x : Z) : Z := if x =? 0 then 0 else Z.log2 (Z.abs x) + 1.

(* for index in range(n - 1, -1, -1): write(bytes([(u >> (8 * index)) & 0xFF]))
   on a negative u this is its two's complement (>> is floor, & 0xFF is mod 256) *)
Fixpoint be_loop (n : nat) (u : Z) : bytes :=
  match n with
  | O => []
  | S i => Z.land (Z.shiftr u (8 * Z.of_nat i)) 255 :: be_loop i u
  end.

Definition be_value (bs : bytes) : Z := fold_left (fun a b => a * 256 + b) bs 0.

(* int.from_bytes(data, byteorder="big", signed=True) *)
Definition from_be_signed (bs : bytes) : Z :=
  let v := be_value bs in
  let n := len bs in
  if (0 <? n) && (2 ^ (8 * n - 1) <=? v) then v - 2 ^ (8 * n) else v.

(* x.to_bytes(k, byteorder="big", signed=True): OverflowError when x does not fit *)
Definition to_bytes_signed (k x : Z) : res bytes :=
  if k <=? 0 then (if (k =? 0) && (x =? 0) then Ok [] else Err)
  else if (- 2 ^ (8 * k - 1) <=? x) && (x <? 2 ^ (8 * k - 1)) then Ok (be_loop (Z.to_nat k) x)
  else Err.

(** ** decimals.  data.as_tuple() = (sign, digits, exp) *)

(* for digit in digits: unscaled_datum = (unscaled_datum * 10) + digit *)
Definition digits_val (ds : list Z) : Z := fold_left (fun u d => u * 10 + d) ds 0.

Definition prepare_bytes_decimal (precision scale : Z) (sign : bool) (ds : list Z) (exp : Z) : res bytes :=
  if len ds >? precision then Err else                 (* ValueError *)
  let delta := exp + scale in
  if delta <? 0 then Err else                          (* ValueError *)
  let u := 10 ^ delta * digits_val ds in
  let bytes_req := (bit_length u + 8) / 8 in
  let u := if sign then - u else u in
  to_bytes_signed bytes_req u.

(* mask = 2**size_in_bits - 1; bit = 1; for i in range(bits_req): mask ^= bit; bit <<= 1 *)
Fixpoint mask_loop (n : nat) (mask bit : Z) : Z :=
  match n with
  | O => mask
  | S n => mask_loop n (Z.lxor mask bit) (Z.shiftl bit 1)
  end.

(** the part of prepare_fixed_decimal after the unscaled integer is known, as the code computes it *)
Definition fixed_core (size : Z) (sign : bool) (u : Z) : bytes :=
  let bits_req := bit_length u + 1 in
  let size_in_bits := size * 8 in
  let offset_bits := size_in_bits - bits_req in
  let mask := mask_loop (Z.to_nat bits_req) (2 ^ size_in_bits - 1) 1 in
  let bytes_req := if bits_req <? 8 then 1
                   else bits_req / 8 + (if bits_req mod 8 =? 0 then 0 else 1) in
  if sign then
    let u1 := Z.shiftl 1 bits_req - u in
    let u2 := Z.lor mask u1 in
    be_loop (Z.to_nat size) u2                         (* always [size] bytes *)
  else
    repeat 0 (Z.to_nat (offset_bits / 8)) ++ be_loop (Z.to_nat bytes_req) u.

(** prepare_fixed_decimal as it is in /repo now (after the repair eff0ba2):
      if bits_req > size_in_bits: raise ValueError(...)            (the value does not fit)
      if sign and unscaled_datum: ... two's complement ... else ...  (negative zero is zero)
    The converter before the repair is kept in model/LogicalOld.v. *)
Definition prepare_fixed_decimal (precision scale size : Z) (sign : bool) (ds : list Z) (exp : Z) : res bytes :=
  if len ds >? precision then Err else                 (* ValueError *)
  if - exp >? scale then Err else                      (* ValueError *)
  let delta := exp + scale in
  let ds := if delta >? 0 then ds ++ repeat 0 (Z.to_nat delta) else ds in
  let u := digits_val ds in
  if bit_length u + 1 >? size * 8 then Err             (* ValueError *)
  else Ok (fixed_core size (sign && negb (u =? 0)) u).

(* _write_py.write_fixed: if len(datum) != schema["size"]: raise ValueError *)
Definition write_fixed (size : Z) (datum : bytes) : res bytes :=
  if len datum =? size then Ok datum else Err.

(** what write_data does for a Decimal under a decimal schema: prepare, then the type's writer
    (bytes: length prefix + payload, only the payload is modelled here; fixed: length check) *)
Definition write_bytes_decimal (precision scale : Z) sign ds exp : res bytes :=
  prepare_bytes_decimal precision scale sign ds exp.

Definition write_fixed_decimal (precision scale size : Z) sign ds exp : res bytes :=
  let* bs := prepare_fixed_decimal precision scale size sign ds exp in
  write_fixed size bs.

(** read_decimal: int.from_bytes, then decimal_context.create_decimal(unscaled) with
    prec = precision (round-half-even to [precision] significant digits) and .scaleb(-scale).
    The result is (coefficient, exponent), denoting coefficient * 10^exponent. *)

(* least k >= 0 with a < 10^(precision + k): the number of digits that do not fit *)
Fixpoint excess_go (f : nat) (a p k : Z) : Z :=
  match f with
  | O => k
  | S f => if a <? 10 ^ (p + k) then k else excess_go f a p (k + 1)
  end.
Definition excess_digits (a p : Z) : Z := excess_go (Z.to_nat (Z.log2 a) + 2) a p 0.

(* drop the k low decimal digits of a >= 0, ROUND_HALF_EVEN *)
Definition round_half_even (a k : Z) : Z :=
  if k <=? 0 then a else
  let d := 10 ^ k in
  let q := a / d in
  let r := a mod d in
  if (d <? 2 * r) || ((d =? 2 * r) && Z.odd q) then q + 1 else q.

Definition read_decimal (precision scale : Z) (data : bytes) : res (Z * Z) :=
  if precision <? 1 then Err else                      (* Context.prec = 0 raises *)
  let u := from_be_signed data in
  let a := Z.abs u in
  let k := excess_digits a precision in
  Ok (Z.sgn u * round_half_even a k, k - scale).

(** numeric equality of two decimals  c1 * 10^e1 = c2 * 10^e2  over Z *)
Definition dec_eq (x y : Z * Z) : Prop :=
  let m := Z.min (snd x) (snd y) in
  fst x * 10 ^ (snd x - m) = fst y * 10 ^ (snd y - m).

(** the signed value (coefficient, exponent) of an as_tuple() triple *)
Definition dec_of_tuple (sign : bool) (ds : list Z) (exp : Z) : Z * Z :=
  ((if sign then - digits_val ds else digits_val ds), exp).

(** ** uuid: str(UUID) is the canonical 8-4-4-4-12 lowercase hex form of the 128 bits *)
Definition uuid_str (n : Z) : string :=
  let b := be_loop 16 n in
  (tohex (firstn 4 b) ++ "-" ++ tohex (firstn 2 (skipn 4 b)) ++ "-" ++ tohex (firstn 2 (skipn 6 b))
   ++ "-" ++ tohex (firstn 2 (skipn 8 b)) ++ "-" ++ tohex (skipn 10 b))%string.

(* uuid.UUID(s) on a canonical string: drop the hyphens, int(hex, 16) *)
Fixpoint drop_hyphens (s : string) : string :=
  match s with
  | EmptyString => EmptyString
  | String c r => if Ascii.eqb c "-"%char then drop_hyphens r else String c (drop_hyphens r)
  end.
Definition uuid_parse (s : string) : Z := be_value (hx (drop_hyphens s)).

(** ** printing for the correspondence protocol *)
Definition show_res {A} (f : A -> string) (r : res A) : string :=
  match r with Ok x => f x | Err => "ERR" | OutOfFuel => "FUEL" end.
Definition show_tod (t : tod) : string :=
  let '(h, m, s, us) := t in
  (show_Z h ++ "," ++ show_Z m ++ "," ++ show_Z s ++ "," ++ show_Z us)%string.
Definition show_dec (d : Z * Z) : string := (show_Z (fst d) ++ "," ++ show_Z (snd d))%string.
Definition show_hexbytes (b : bytes) : string := ("x" ++ tohex b)%string.
(* several cases in one evaluation, separated by ';' *)
Definition show_cases {A} (f : A -> string) (l : list A) : string :=
  (fix go l := match l with
               | [] => EmptyString
               | [x] => f x
               | x :: l => f x ++ ";" ++ go l
               end%string) l.

(** one line per case for the correspondence: "written|read back" *)
Definition bar (a b : string) : string := (a ++ "|" ++ b)%string.

Definition c_date (o : Z) : string :=
  bar (show_Z (prepare_date o)) (show_res show_Z (read_date (prepare_date o))).
Definition c_ymd (x : Z * Z * Z) : string := let '(y, m, d) := x in show_Z (ymd2ord y m d).
Definition c_time_millis (x : tod) : string :=
  let '(h, m, s, us) := x in
  let w := prepare_time_millis h m s us in bar (show_Z w) (show_res show_tod (read_time_millis w)).
Definition c_time_micros (x : tod) : string :=
  let '(h, m, s, us) := x in
  let w := prepare_time_micros h m s us in bar (show_Z w) (show_res show_tod (read_time_micros w)).

(* 0 timestamp-millis  1 timestamp-micros  2 local-timestamp-millis  3 local-timestamp-micros
   4 timestamp-millis, naive datum, TZ=UTC   5 timestamp-micros, naive datum, TZ=UTC *)
Definition c_ts (kind t : Z) : string :=
  let '(w, r) :=
    if kind =? 0 then (prepare_timestamp_millis t, read_timestamp_millis)
    else if kind =? 1 then (prepare_timestamp_micros t, read_timestamp_micros)
    else if kind =? 2 then (prepare_local_timestamp_millis t, read_local_timestamp_millis)
    else if kind =? 3 then (prepare_local_timestamp_micros t, read_local_timestamp_micros)
    else if kind =? 4 then (prepare_timestamp_millis_naive_utc t, read_timestamp_millis)
    else (prepare_timestamp_micros_naive_utc t, read_timestamp_micros) in
  bar (show_Z w) (show_res show_Z (r w)).

Definition c_read_back (precision scale : Z) (w : res bytes) : string :=
  match w with Ok bs => show_res show_dec (read_decimal precision scale bs) | _ => "-" end.
Definition c_dec_bytes (x : Z * Z * bool * list Z * Z) : string :=
  let '(p, sc, sg, ds, e) := x in
  let w := write_bytes_decimal p sc sg ds e in
  bar (show_res show_hexbytes w) (c_read_back p sc w).
Definition c_dec_fixed (x : Z * Z * Z * bool * list Z * Z) : string :=
  let '(p, sc, size, sg, ds, e) := x in
  let w := write_fixed_decimal p sc size sg ds e in
  bar (show_res show_hexbytes w) (c_read_back p sc w).
(* the converter alone, without write_fixed's length check *)
Definition c_prep_fixed (x : Z * Z * Z * bool * list Z * Z) : string :=
  let '(p, sc, size, sg, ds, e) := x in
  show_res show_hexbytes (prepare_fixed_decimal p sc size sg ds e).
Definition c_read_dec (x : Z * Z * bytes) : string :=
  let '(p, sc, bs) := x in show_res show_dec (read_decimal p sc bs).
Definition c_uuid (n : Z) : string := bar (uuid_str n) (show_Z (uuid_parse (uuid_str n))).
