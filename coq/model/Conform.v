(** C09 / C10: the declarative side of validation and of the writer's union search.

    - [conforms]      the documented Python <-> Avro mapping, clause by clause (independent of
                      the validator's control flow; height-indexed like [typedn] so that by-name and
                      recursive references need no special induction principle)
    - [validate_raise] fastavro/_validation_py.py _validate with raise_errors=True, as a function
    - [wf_py], [wf_schema], [wf_env], [floats_ok]   well-formedness side conditions of [elab_typed]
    - [wdom]          the side condition of "validate accepts => the writer encodes"
    - [kind_of], [shared_of], [first_named]        vocabulary of the union-choice statements (C09)
    No proofs here. *)
From Coq Require Import String.
From FA Require Import model.Base model.Varint model.Value model.Schema model.Utf8 model.Float model.Codec
                       model.Validate model.Write model.Read.

(** ** the documented mapping *)

(* a Python sequence that is not a str: list, tuple, bytes, bytearray (whose items are ints) *)
Definition seq_items (v : pyval) (l : list pyval) : Prop :=
  v = PList l \/ v = PTuple l \/ (exists b, (v = PBytes b \/ v = PByteArray b) /\ l = map PInt b).

(* the first union branch that answers to [name] in (name, value) notation *)
Fixpoint first_named (name : str) (bs : list schema) : option schema :=
  match bs with
  | [] => None
  | b :: bs => if bytes_eqb (branch_name b) name then Some b else first_named name bs
  end.

(* a record datum may carry a "-type" entry; it must then be the record's full name *)
Definition type_hint_ok (kv : list (pyval * pyval)) (recname : str) : Prop :=
  match dict_get kv (s2b "-type") with None => True | Some t => t = PStr recname end.

(* one field of a record schema against the mapping [kv]; [C] = conformance of the field's type *)
Definition field_conforms (C : schema -> pyval -> Prop) (o : wopts) (kv : list (pyval * pyval)) (fd : field) : Prop :=
  match dict_get kv (fname fd) with
  | Some x => C (ftype fd) x                                  (* present: the value conforms *)
  | None =>
      match fdefault fd with
      | Some d => C (ftype fd) d                              (* absent: the declared default stands in *)
      | None => strict o = false /\ C (ftype fd) PNone        (* absent, no default: the type accepts null -- never in strict mode *)
      end
  end.

Fixpoint conforms (n : nat) (o : wopts) (e : env) (s : schema) (v : pyval) {struct n} : Prop :=
  match n with
  | O => False
  | S n =>
    match s with
    | SNull => v = PNone
    | SBool => exists b, v = PBool b
    | SInt => exists z, v = PInt z /\ - 2 ^ 31 <= z <= 2 ^ 31 - 1            (* PBool is a different constructor: bool is not int *)
    | SLong => exists z, v = PInt z /\ - 2 ^ 63 <= z <= 2 ^ 63 - 1
    | SFloat | SDouble => (exists z, v = PInt z) \/ (exists b, v = PFloat b)
    | SBytes => (exists b, v = PBytes b) \/ (exists b, v = PByteArray b)
    | SString => exists x, v = PStr x
    | SFixed _ _ size => exists b, v = PBytes b /\ len b = size
    | SEnum _ _ syms _ => exists x, v = PStr x /\ In x syms
    | SArray it => exists l, seq_items v l /\ Forall (conforms n o e it) l
    | SMap vs => exists kv, v = PDict kv /\
                   Forall (fun p => (exists k, fst p = PStr k) /\ conforms n o e vs (snd p)) kv
    | SRecord nm _ fs => exists kv, v = PDict kv /\ type_hint_ok kv nm /\
                           Forall (field_conforms (conforms n o e) o kv) fs
    | SUnion bs =>
        (* some branch; a dict carrying a "-type" entry only counts for the record branch of that name ([hint_pass]) *)
        match v with
        | PTuple l =>
            if disable_tuple o then Exists (fun b => hint_pass e v b = true /\ conforms n o e b v) bs
            else exists name x b, l = [PStr name; x] /\ first_named name bs = Some b /\ conforms n o e b x
        | _ => Exists (fun b => hint_pass e v b = true /\ conforms n o e b v) bs
        end
    | SRef nm => exists s', lookup e nm = Some s' /\ conforms n o e s' v
    | SAnnot _ s' => conforms n o e s' v
    end
  end.

Definition conformsP (o : wopts) (e : env) (s : schema) (v : pyval) : Prop := exists n, conforms n o e s v.

(** ** the documented normalisation: what a reader (no named-type reporting) returns for a written datum.
    "omitted fields replaced by their defaults, union hints stripped, sequences returned as lists, numbers written under
    float/double returned as floats, 'float' values rounded to IEEE single precision" -- clause by clause, independent of
    the writer's branch search: under a union SOME admissible branch is named, not the one the search would pick. *)
(* the value a record field is written from: the supplied one, else the default, else None *)
Definition field_source (kv : list (pyval * pyval)) (fd : field) : pyval :=
  match dict_get kv (fname fd) with
  | Some x => x
  | None => match fdefault fd with Some d => d | None => PNone end
  end.

Fixpoint normalises (n : nat) (o : wopts) (e : env) (s : schema) (v out : pyval) {struct n} : Prop :=
  match n with
  | O => False
  | S n =>
    match s with
    | SNull | SBool | SInt | SLong | SString | SEnum _ _ _ _ | SFixed _ _ _ => out = v
    | SBytes => exists b, (v = PBytes b \/ v = PByteArray b) /\ out = PBytes b                 (* bytearray -> bytes *)
    | SDouble => exists b, to_double v = WOk b /\ out = PFloat b                              (* int -> float *)
    | SFloat => exists b x, to_double v = WOk b /\ d2s b = Ok x /\ out = PFloat (s2d x)         (* rounded to single *)
    | SArray it => exists l outs, seq_items v l /\ out = PList outs /\ Forall2 (normalises n o e it) l outs
    | SMap vs => exists kv outs, v = PDict kv /\ out = PDict outs /\                            (* same keys, same order *)
                   Forall2 (fun p q => exists k, fst p = PStr k /\ fst q = PStr k /\ normalises n o e vs (snd p) (snd q)) kv outs
    | SRecord _ _ fs => exists kv outs, v = PDict kv /\ out = PDict outs /\                     (* exactly the schema's fields, in order *)
                   Forall2 (fun fd q => fst q = PStr (fname fd) /\ normalises n o e (ftype fd) (field_source kv fd) (snd q)) fs outs
    | SUnion bs =>
        let plain := exists b, In b bs /\ hint_pass e v b = true /\ conformsP o e b v /\ normalises n o e b v out in
        match v with
        | PTuple l =>
            if disable_tuple o then plain
            else exists name x b, l = [PStr name; x] /\ In b bs /\ branch_name b = name /\ normalises n o e b x out
        | _ => plain
        end
    | SRef nm => exists s', lookup e nm = Some s' /\ normalises n o e s' v out
    | SAnnot _ s' => normalises n o e s' v out
    end
  end.

(** ** raise_errors=True *)
Inductive vres := VTrue | VRaised | VErr | VFuel.   (* returns True | raises ValidationError | another exception | fuel *)

Definition vres_of (r : res bool) : vres :=
  match r with Ok true => VTrue | Ok false => VRaised | Err => VErr | OutOfFuel => VFuel end.

Definition vbool (b : bool) : vres := if b then VTrue else VRaised.     (* `if raise_errors and result is False: raise` *)

Section RLoops.
  Variable rec : schema -> option pyval -> vres.
  (* all(_validate(d, ...) for d in datum): a nested False has already been raised *)
  Fixpoint rall_items (s : schema) (l : list pyval) : vres :=
    match l with
    | [] => VTrue
    | v :: l => match rec s (Some v) with VTrue => rall_items s l | r => r end
    end.
  Fixpoint rall_fields (kv : list (pyval * pyval)) (fs : list field) : vres :=
    match fs with
    | [] => VTrue
    | f :: fs =>
        let v := match dict_get kv (fname f) with Some v => Some v | None => fdefault f end in
        match rec (ftype f) v with VTrue => rall_fields kv fs | r => r end
    end.
  (* for s in schema: try: if _validate(...): return True; except ValidationError: collect
     ... raise ValidationError( errors ) *)
  Fixpoint rany_branch (pass : schema -> bool) (v : pyval) (bs : list schema) : vres :=
    match bs with
    | [] => VRaised
    | s :: bs => if negb (pass s) then rany_branch pass v bs        (* "-type" names another branch: continue *)
                 else match rec s (Some v) with VTrue => VTrue | VRaised => rany_branch pass v bs | r => r end
    end.
  Fixpoint rhinted (name : pyval) (v : pyval) (bs : list schema) : vres :=
    match bs with
    | [] => VRaised                                          (* for/else: return False; _validate raises *)
    | s :: bs =>
        match name with
        | PStr nm => if bytes_eqb (branch_name s) nm then rec s (Some v) else rhinted name v bs
        | _ => rhinted name v bs
        end
    end.
End RLoops.

Fixpoint validate_raise (f : nat) (o : wopts) (e : env) (s : schema) (ov : option pyval) {struct f} : vres :=
  match f with
  | O => VFuel
  | S f =>
    match ov with
    | None => if strict o then VRaised else validate_raise f o e s (Some PNone)
    | Some v =>
      match s with
      | SNull => vbool (match v with PNone => true | _ => false end)
      | SBool => vbool (match v with PBool _ => true | _ => false end)
      | SString => vbool (match v with PStr _ => true | _ => false end)
      | SBytes => vbool (match v with PBytes _ | PByteArray _ => true | _ => false end)
      | SInt => vbool (match v with PInt z => (INT_MIN <=? z) && (z <=? INT_MAX) | _ => false end)
      | SLong => vbool (match v with PInt z => (LONG_MIN <=? z) && (z <=? LONG_MAX) | _ => false end)
      | SFloat | SDouble => vbool (match v with PInt _ | PFloat _ => true | _ => false end)
      | SFixed _ _ size => vbool (match v with PBytes b => len b =? size | _ => false end)
      | SEnum _ _ syms _ => vbool (match v with PStr x => existsb (bytes_eqb x) syms | _ => false end)
      | SArray it =>
          match as_sequence v with
          | Some l => rall_items (validate_raise f o e) it l
          | None => VRaised
          end
      | SMap vs =>
          match v with
          | PDict kv => if forallb is_str_key kv then rall_items (validate_raise f o e) vs (map snd kv) else VRaised
          | _ => VRaised
          end
      | SRecord n _ fs =>
          match v with
          | PDict kv =>
              let hint_ok := match dict_get kv (s2b "-type") with
                             | Some (PStr t) => bytes_eqb t n
                             | Some _ => false
                             | None => true end in
              if hint_ok then rall_fields (validate_raise f o e) kv fs else VRaised
          | _ => VRaised
          end
      | SUnion bs =>
          match v with
          | PTuple l =>
              if disable_tuple o then rany_branch (validate_raise f o e) (hint_pass e v) v bs
              else match l with
                   | [name; v'] => rhinted (validate_raise f o e) name v' bs
                   | _ => VRaised                       (* len(datum) != 2: return False; _validate raises *)
                   end
          | _ => rany_branch (validate_raise f o e) (hint_pass e v) v bs
          end
      | SRef n => match lookup e n with Some s' => validate_raise f o e s' (Some v) | None => VErr end
      | SAnnot _ s' => validate_raise f o e s' (Some v)
      end
    end
  end.

(** ** well-formedness of data and schemas (what the abstraction of real Python objects always satisfies) *)
Definition bytes_okb (b : bytes) : bool := forallb is_byteb b && (len b <? 2 ^ 63).

Fixpoint nodup_keys (kv : list (pyval * pyval)) : bool :=
  match kv with
  | [] => true
  | (k, _) :: r => negb (existsb (fun p => py_eqb k (fst p)) r) && nodup_keys r
  end.

(* every byte in 0..255, every str valid UTF-8, every length below 2^63, dict keys unique.
   (Float patterns are constrained separately: [pyfloats_ok] on the input, [floats_ok] on the wire value.) *)
Fixpoint wf_py (v : pyval) : bool :=
  match v with
  | PNone | PBool _ | PInt _ | PFloat _ => true
  | PStr s => bytes_okb s && utf8_valid s
  | PBytes b | PByteArray b => bytes_okb b
  | PList l | PTuple l => (len l <? 2 ^ 63) && forallb wf_py l
  | PDict kv => (len kv <? 2 ^ 63) && nodup_keys kv && forallb (fun p => wf_py (fst p) && wf_py (snd p)) kv
  end.

Fixpoint nodup_str (l : list str) : bool :=
  match l with [] => true | x :: r => negb (existsb (bytes_eqb x) r) && nodup_str r end.

(* defaults are well-formed data; fewer than 2^63 union branches / enum symbols; field names of a record distinct *)
Fixpoint wf_schema (s : schema) : bool :=
  match s with
  | SEnum _ _ syms _ => len syms <? 2 ^ 63
  | SArray s' | SMap s' | SAnnot _ s' => wf_schema s'
  | SUnion bs => (len bs <? 2 ^ 63) && forallb wf_schema bs
  | SRecord _ _ fs =>
      nodup_str (field_names fs) &&
      forallb (fun fd => wf_schema (ftype fd) && match fdefault fd with Some d => wf_py d | None => true end) fs
  | _ => true
  end.

Definition wf_env (e : env) : bool := forallb (fun p => wf_schema (snd p)) e.

(* every Python float of the datum is a binary64 pattern (a property of the abstraction: the harness maps a float to
   struct.pack('<d', x) read as an integer) -- for the data and for the defaults of schemas / named schemas *)
Fixpoint pyfloats_ok (v : pyval) : bool :=
  match v with
  | PFloat b => (0 <=? b) && (b <? 2 ^ 64)
  | PList l | PTuple l => forallb pyfloats_ok l
  | PDict kv => forallb (fun p => pyfloats_ok (fst p) && pyfloats_ok (snd p)) kv
  | _ => true
  end.
Fixpoint dflt_floats_ok (s : schema) : bool :=
  match s with
  | SArray s' | SMap s' | SAnnot _ s' => dflt_floats_ok s'
  | SUnion bs => forallb dflt_floats_ok bs
  | SRecord _ _ fs =>
      forallb (fun fd => dflt_floats_ok (ftype fd) && match fdefault fd with Some d => pyfloats_ok d | None => true end) fs
  | _ => true
  end.
Definition env_floats_ok (e : env) : bool := forallb (fun p => dflt_floats_ok (snd p)) e.

(* every binary32 / binary64 pattern of the wire value is in range.  proofs/ElabFloats.v proves this of everything [elab]
   produces from data satisfying [pyfloats_ok] (via proofs/FloatProofs.v: d2s / z2d only produce such patterns); the
   harness still evaluates it on every case as a cross-check. *)
Fixpoint floats_ok (a : aval) : bool :=
  match a with
  | AFloat b => (0 <=? b) && (b <? 2 ^ 32)
  | ADouble b => (0 <=? b) && (b <? 2 ^ 64)
  | AArray l | ARecord l => forallb floats_ok l
  | AMap l => forallb (fun kv => floats_ok (snd kv)) l
  | AUnion _ a' => floats_ok a'
  | _ => true
  end.

(** ** vocabulary of the union search (C09) *)
(* what write_union looks at after a candidate validated: the candidate, or the named schema it refers to *)
Definition kind_of (e : env) (c : schema) : schema :=
  match strip c with
  | SRef n => match lookup e n with Some d => strip d | None => strip c end
  | d => d
  end.
Definition is_rec (s : schema) : bool := match s with SRecord _ _ _ => true | _ => false end.
Definition is_flt (s : schema) : bool := match s with SFloat => true | _ => false end.
(* len(candidate_fields & set(datum)) *)
Definition shared_of (e : env) (v : pyval) (c : schema) : Z :=
  match kind_of e c with
  | SRecord _ _ fs => match v with PDict kv => shared_fields kv fs | _ => 0 end
  | _ => 0
  end.

(** ** "validate accepts => the writer encodes": the side condition, clause by clause.
    [wdom n o e s v]: (1) every number under a float/double type converts (float(int) does not overflow,
    and narrowing to binary32 does not overflow under "float"); (2) every field that is absent without a
    default has a type write_record's _accepts_null recognises (null, dict-form null, a union with such a branch);
    (3) at every union the validator gives a verdict (no foreign exception, enough fuel [n]) on every branch
    the search may try.  Under a union the conditions are required for every branch. *)
Definition dbl_ok (v : pyval) : Prop := forall z, v = PInt z -> exists d, z2d z = Ok d.
Definition flt_ok (v : pyval) : Prop := forall b, to_double v = WOk b -> exists x, d2s b = Ok x.

Definition field_wdom (D : schema -> pyval -> Prop) (kv : list (pyval * pyval)) (fd : field) : Prop :=
  let num t x :=                                  (* `if field_type == "float" or "double": float(datum_value)` *)
    match t with
    | SFloat | SDouble => dbl_ok x /\ forall b, to_double x = WOk b -> D t (PFloat b)
    | _ => D t x
    end in
  match dict_get kv (fname fd) with
  | Some x => num (ftype fd) x
  | None =>
      match fdefault fd with
      | Some d => num (ftype fd) d
      | None => nullok (ftype fd) = true /\ D (ftype fd) PNone
      end
  end.

Fixpoint wdom (n : nat) (o : wopts) (e : env) (s : schema) (v : pyval) {struct n} : Prop :=
  match n with
  | O => False
  | S n =>
    match s with
    | SFloat => dbl_ok v /\ flt_ok v
    | SDouble => dbl_ok v
    | SArray it => forall l, seq_items v l -> Forall (wdom n o e it) l
    | SMap vs => forall kv, v = PDict kv -> Forall (fun p => wdom n o e vs (snd p)) kv
    | SRecord _ _ fs => forall kv, v = PDict kv -> Forall (field_wdom (wdom n o e) kv) fs
    | SUnion bs =>
        match v with
        | PTuple l =>
            if disable_tuple o
            then Forall (fun c => (exists b, validate n o e c (Some v) = Ok b) /\ wdom n o e c v) bs
            else forall name x b, l = [PStr name; x] -> first_named name bs = Some b -> wdom n o e b x
        | _ => Forall (fun c => (exists b, validate n o e c (Some v) = Ok b) /\ wdom n o e c v) bs
        end
    | SRef nm => forall s', lookup e nm = Some s' -> wdom n o e s' v
    | SAnnot _ s' => wdom n o e s' v
    | _ => True
    end
  end.

(** ** "validate accepts => the writer encodes", exactly.  [wneed n o e s v] lists what the writer needs BEYOND conformance,
    for any writer options (default, strict, strict_allow_default); for data validate accepts it is necessary and sufficient
    (proofs/AcceptIff.v):
    (1) numbers under float/double convert: float(int) does not overflow; narrowing to binary32 does not overflow under "float";
    (2) records: a strict / strict_allow_default writer finds no key that is not a field; a field that is absent needs
        strict = false and either a default, or (strict_allow_default = false and) a type _accepts_null recognises;
    (3) unions: the branch search answers (no foreign exception in any branch it tries, fuel n suffices) with an index i, and
        the datum is writable under THAT branch -- C09 says which one it is. *)
Definition field_wneed (D : schema -> pyval -> Prop) (o : wopts) (kv : list (pyval * pyval)) (fd : field) : Prop :=
  let num t x :=
    match t with
    | SFloat | SDouble => dbl_ok x /\ forall b, to_double x = WOk b -> D t (PFloat b)
    | _ => D t x
    end in
  match dict_get kv (fname fd) with
  | Some x => num (ftype fd) x
  | None =>
      strict o = false /\
      match fdefault fd with
      | Some d => num (ftype fd) d
      | None => strict_allow_default o = false /\ nullok (ftype fd) = true /\ D (ftype fd) PNone
      end
  end.

Fixpoint wneed (n : nat) (o : wopts) (e : env) (s : schema) (v : pyval) {struct n} : Prop :=
  match n with
  | O => False
  | S n =>
    match s with
    | SFloat => dbl_ok v /\ flt_ok v
    | SDouble => dbl_ok v
    | SArray it => forall l, seq_items v l -> Forall (wneed n o e it) l
    | SMap vs => forall kv, v = PDict kv -> Forall (fun p => wneed n o e vs (snd p)) kv
    | SRecord _ _ fs =>
        forall kv, v = PDict kv ->
          (strict o || strict_allow_default o = true -> has_extras kv fs = false) /\
          Forall (field_wneed (wneed n o e) o kv) fs
    | SUnion bs =>
        let searched :=
          exists i c, choose (fun c x => validate n o e c (Some x)) e v bs 0 (-1) (-1) false = Ok i /\
                      nthZ bs i = Some c /\ wneed n o e c v in
        match v with
        | PTuple l =>
            if disable_tuple o then searched
            else forall name x b, l = [PStr name; x] -> first_named name bs = Some b -> wneed n o e b x
        | _ => searched
        end
    | SRef nm => forall s', lookup e nm = Some s' -> wneed n o e s' v
    | SAnnot _ s' => wneed n o e s' v
    | _ => True
    end
  end.

(** ** C09 closure: the side condition, as a boolean on (options, named schemas, schema, wire value).
    [closb n o e s a] (n bounds the nesting and is the validator fuel of the re-resolution test):
    - a value under a NAMED branch of a union (record / enum / fixed inline or by name): tuple notation is enabled and the
      branch is the FIRST one answering to its name ([find_named]) -- i.e. the names of the union's named branches do not clash;
    - a value under an UNNAMED branch comes back from the reader as a plain, normalised value: it must re-resolve to the
      same branch under the writer's search (this is the exclusion the harness applies: bytearray written as "bytes" and
      read back as bytes fits an earlier fixed; primitive ambiguities);
    - an enum index is the first occurrence of its symbol; map keys and record field names are distinct.
    ("float" leaves must survive single -> double -> single: [floats_stable], a separate condition that holds of every
    written value.) *)
(* reader options: return_named_type=True *)
Definition ro_named : ropts := {| ret_rec := false; ret_rec_override := false; ret_named := true; ret_named_override := false |}.
Definition named_b (e : env) (b : schema) : bool :=
  match branch_kind e b with Some (n, _) => bytes_eqb n (branch_name b) | None => false end.
Definition optZ_eqb (x : option Z) (i : Z) : bool := match x with Some j => j =? i | None => false end.
Definition resZ_eqb (x : res Z) (i : Z) : bool := match x with Ok j => j =? i | _ => false end.
Fixpoint forall2b {A B} (p : A -> B -> bool) (l : list A) (r : list B) : bool :=
  match l, r with
  | [], [] => true
  | x :: l, y :: r => p x y && forall2b p l r
  | _, _ => false
  end.

(* every binary32 leaf survives unpack("<f") then pack("<f"): true of everything pack("<f") produces (proofs/FloatStable.v),
   hence of every value the writer wrote (proofs/ElabFloats.v) *)
Fixpoint floats_stable (a : aval) : bool :=
  match a with
  | AFloat b => match d2s (s2d b) with Ok y => y =? b | _ => false end
  | AArray l | ARecord l => forallb floats_stable l
  | AMap l => forallb (fun kv => floats_stable (snd kv)) l
  | AUnion _ a' => floats_stable a'
  | _ => true
  end.

Fixpoint closb (n : nat) (o : wopts) (e : env) (s : schema) (a : aval) {struct n} : bool :=
  match n with
  | O => false
  | S n =>
    match s, a with
    | SEnum _ _ syms _, AEnum i => match nthZ syms i with Some x => optZ_eqb (index_of syms x 0) i | None => false end
    | SArray it, AArray l => forallb (closb n o e it) l
    | SMap vs, AMap l => nodup_str (map fst l) && forallb (fun kx => closb n o e vs (snd kx)) l
    | SRecord _ _ fs, ARecord l => nodup_str (field_names fs) && forall2b (fun fd x => closb n o e (ftype fd) x) fs l
    | SUnion bs, AUnion i x =>
        match nthZ bs i with
        | None => false
        | Some b =>
            closb n o e b x &&
            match branch_kind e b with
            | Some _ => named_b e b && negb (disable_tuple o) && optZ_eqb (find_named (branch_name b) bs 0) i
            | None =>
                match py_of ro_named e b x with
                | Some pv0 =>
                    match pv0 with PTuple _ => false | _ => true end &&
                    resZ_eqb (choose (fun c y => validate n o e c (Some y)) e pv0 bs 0 (-1) (-1) false) i
                | None => false
                end
            end
        end
    | SRef nm, _ => match lookup e nm with Some s' => closb n o e s' a | None => false end
    | SAnnot _ s', _ => closb n o e s' a
    | _, _ => true
    end
  end.

(** ** every by-name reference resolves (what parse_schema guarantees): then validation raises nothing but ValidationError *)
Fixpoint closed_refs (e : env) (s : schema) : bool :=
  match s with
  | SRef n => match lookup e n with Some _ => true | None => false end
  | SArray s' | SMap s' | SAnnot _ s' => closed_refs e s'
  | SUnion bs => forallb (closed_refs e) bs
  | SRecord _ _ fs => forallb (fun fd => closed_refs e (ftype fd)) fs
  | _ => true
  end.
Definition closed_env (e : env) : bool := forallb (fun p => closed_refs e (snd p)) e.

(** ** text glue for the correspondence protocol *)
Local Open Scope string_scope.
Definition FUEL2 : nat := 400.

Definition run_validate_raise (wo : wopts) (e : env) (s : schema) (v : pyval) : string :=
  match validate_raise FUEL2 wo e s (Some v) with
  | VTrue => "T" | VRaised => "V" | VErr => "E" | VFuel => "FUEL"
  end.

(* both modes at once: "<no-raise>/<raise>" *)
Definition run_validate2 (wo : wopts) (e : env) (s : schema) (v : pyval) : string :=
  (match validate FUEL2 wo e s (Some v) with
   | Ok true => "T" | Ok false => "F" | Err => "E" | OutOfFuel => "FUEL" end)
  ++ "/" ++ run_validate_raise wo e s v.

(* elaboration with the union indices visible, the bytes, and the in-model check of the float side condition *)
Definition run_elab2 (wo : wopts) (e : env) (s : schema) (v : pyval) : string :=
  match elab FUEL2 wo e s v with
  | WOk a => "A:" ++ show_a a ++ ";W:" ++ tohex (wire a) ++ ";" ++ (if floats_ok a then "fok" else "FBAD")
             ++ (if wf_py v then "" else ";pybad") ++ (if wf_schema s && wf_env e then "" else ";schemabad")
  | WErr => "E" | WUnspec => "U" | WFuel => "FUEL"
  end.

(* C09: elaboration (indices), bytes, side-condition flags, the value a reader with options [ro] returns, and the
   closure clause evaluated in the model: read with return_named_type=True, write back, same bytes? *)
Definition run_c09 (wo : wopts) (ro : ropts) (e : env) (s : schema) (v : pyval) : string :=
  match elab FUEL2 wo e s v with
  | WOk a =>
      "A:" ++ show_a a ++ ";W:" ++ tohex (wire a) ++ ";" ++ (if floats_ok a then "fok" else "FBAD")
 ++ (if wf_py v && pyfloats_ok v then "" else "+pybad")
      ++ (if wf_schema s && wf_env e && dflt_floats_ok s && env_floats_ok e then "" else "+schemabad")
      ++ ";R:" ++ (match py_of ro e s a with Some pv => show_py pv | None => "?" end)
      ++ ";CL:" ++ (match py_of ro_named e s a with
                    | Some pv => match write FUEL2 wo e s pv with
                                 | WOk bs => if bytes_eqb bs (wire a) then "same" else "diff:" ++ tohex bs
                                 | WErr => "E" | WUnspec => "U" | WFuel => "FUEL" end
                    | None => "?" end)
      ++ ";CB:" ++ (if closb FUEL2 wo e s a then "1" else "0") ++ (if floats_stable a then "" else "FSBAD")
  | WErr => "E" | WUnspec => "U" | WFuel => "FUEL"
  end.

(* C10: both validation modes, non-strict | strict, then what the default writer, the strict writer and the
   strict_allow_default writer do with the datum *)
Definition show_written (r : wres aval) : string :=
  match r with
  | WOk a => "W:" ++ tohex (wire a) ++ (if floats_ok a then "" else ";FBAD")
  | WErr => "E" | WUnspec => "U" | WFuel => "FUEL"
  end.
Definition run_c10 (dt : bool) (e : env) (s : schema) (v : pyval) : string :=
  let o1 := {| strict := false; strict_allow_default := false; disable_tuple := dt |} in
  let o2 := {| strict := true; strict_allow_default := false; disable_tuple := dt |} in
  let o3 := {| strict := false; strict_allow_default := true; disable_tuple := dt |} in
  run_validate2 o1 e s v ++ "|" ++ run_validate2 o2 e s v ++ "|" ++ show_written (elab FUEL2 o1 e s v)
  ++ "|" ++ show_written (elab FUEL2 o2 e s v) ++ "|" ++ show_written (elab FUEL2 o3 e s v)
  ++ "|" ++ (if wf_py v && pyfloats_ok v && wf_schema s && wf_env e && dflt_floats_ok s && env_floats_ok e
                  && closed_refs e s && closed_env e then "hyp" else "HYPBAD").

(* option records as the harness writes them (same as model/Harness.v; repeated here so that the C09/C10 checks do
   not depend on that file) *)
Definition mkw (a b c : bool) : wopts := {| strict := a; strict_allow_default := b; disable_tuple := c |}.
Definition mkr (a b c d : bool) : ropts := {| ret_rec := a; ret_rec_override := b; ret_named := c; ret_named_override := d |}.

(** schemas as parse_schema produces them: a dict form {"type": t, ...} wraps a primitive or a complex/named type,
    never a union, a by-name reference or another dict form; named_schemas holds named types only *)
Fixpoint plain_type (t : schema) : bool :=
  match t with
  | SAnnot _ s' => match s' with SAnnot _ _ | SUnion _ | SRef _ => false | _ => true end
  | SUnion bs => forallb plain_type bs
  | _ => true
  end.
Definition named_env (e : env) : bool :=
  forallb (fun p => match strip (snd p) with SRecord _ _ _ | SEnum _ _ _ _ | SFixed _ _ _ => true | _ => false end) e.

(** ** C20 "generated values are written and read back": the computable side conditions.
    [safe_py v]: integers are 64-bit, every float narrows to binary32 without overflow, no tuples / bytearrays -- true of
    everything gen_data produces (floats in [0,1)), required of the JSON defaults of the schema;
    [gschb n e s]: the reference graph below s is acyclic within n steps (every reference resolves), record field types are
    of the shape parse_schema produces ([plain_type]) and their defaults are [safe_py]. *)
Local Close Scope string_scope.
Fixpoint safe_py (v : pyval) : bool :=
  match v with
  | PInt z => (- 2 ^ 63 <=? z) && (z <=? 2 ^ 63)
  | PFloat b => match d2s b with Ok _ => true | _ => false end
  | PByteArray _ | PTuple _ => false
  | PBytes b => forallb is_byteb b
  | PList l => forallb safe_py l
  | PDict kv => forallb (fun p => safe_py (fst p) && safe_py (snd p)) kv
  | _ => true
  end.

Fixpoint gschb (n : nat) (e : env) (s : schema) {struct n} : bool :=
  match n with
  | O => false
  | S n =>
      match s with
      | SArray s' | SMap s' | SAnnot _ s' => gschb n e s'
      | SUnion bs => forallb (gschb n e) bs
      | SRecord _ _ fs =>
          forallb (fun fd => gschb n e (ftype fd) && plain_type (ftype fd) &&
                             match fdefault fd with Some d => safe_py d | None => true end) fs
      | SRef nm => match lookup e nm with Some s' => gschb n e s' | None => false end
      | _ => true
      end
  end.

(* sizes and names the generator copies into its values are well-formed data: fixed sizes below 2^63, enum symbols and
   field names valid strings, fewer than 2^63 fields *)
Fixpoint genokb (s : schema) : bool :=
  match s with
  | SFixed _ _ size => size <? 2 ^ 63
  | SEnum _ _ syms _ => forallb (fun x => wf_py (PStr x)) syms
  | SArray s' | SMap s' | SAnnot _ s' => genokb s'
  | SUnion bs => forallb genokb bs
  | SRecord _ _ fs => (len fs <? 2 ^ 63) && forallb (fun fd => wf_py (PStr (fname fd)) && genokb (ftype fd)) fs
  | _ => true
  end.
Definition genok_env (e : env) : bool := forallb (fun p => genokb (snd p)) e.

(* K3: the model's readers and writers ignore logicalType annotations (stored values only).  A generated value may be filed
   by the branch search under ANOTHER branch than the one it was generated for; when that branch carries a logicalType the
   real reader applies that type's conversion (a generated enum symbol under [string-uuid, enum] is read with uuid.UUID and
   fails).  [unions_plain s]: no union branch carries a logicalType -- then "read back" in the model is "read back" by the
   real readers as far as unions are concerned. *)
Fixpoint unions_plain (s : schema) : bool :=
  match s with
  | SArray s' | SMap s' | SAnnot _ s' => unions_plain s'
  | SUnion bs => forallb (fun b => match b with SAnnot (_ :: _) _ => false | _ => true end && unions_plain b) bs
  | SRecord _ _ fs => forallb (fun fd => unions_plain (ftype fd)) fs
  | _ => true
  end.

(** C01 idempotence of the normal form: the side condition.  Like [closb], for a reader WITHOUT named-type reporting: every
    union value comes back plain and must re-resolve to the same branch under the writer's search. *)
Fixpoint closb0 (n : nat) (o : wopts) (e : env) (s : schema) (a : aval) {struct n} : bool :=
  match n with
  | O => false
  | S n =>
    match s, a with
    | SEnum _ _ syms _, AEnum i => match nthZ syms i with Some x => optZ_eqb (index_of syms x 0) i | None => false end
    | SArray it, AArray l => forallb (closb0 n o e it) l
    | SMap vs, AMap l => nodup_str (map fst l) && forallb (fun kx => closb0 n o e vs (snd kx)) l
    | SRecord _ _ fs, ARecord l => nodup_str (field_names fs) && forall2b (fun fd x => closb0 n o e (ftype fd) x) fs l
    | SUnion bs, AUnion i x =>
        match nthZ bs i with
        | None => false
        | Some b =>
            closb0 n o e b x &&
            match py_of ropts0 e b x with
            | Some pv0 =>
                match pv0 with PTuple _ => false | _ => true end &&
                resZ_eqb (choose (fun c y => validate n o e c (Some y)) e pv0 bs 0 (-1) (-1) false) i
            | None => false
            end
        end
    | SRef nm, _ => match lookup e nm with Some s' => closb0 n o e s' a | None => false end
    | SAnnot _ s', _ => closb0 n o e s' a
    | _, _ => true
    end
  end.

(* harness glue: closb0 (side condition of C01_normal_form_fixed) on the written value, and the model's own check of the
   fixed point: read without names, write back, same bytes? *)
Definition run_closb0 (wo : wopts) (e : env) (s : schema) (v : pyval) : string :=
  match elab FUEL2 wo e s v with
  | WOk a =>
      ((if closb0 FUEL2 wo e s a then "1" else "0") ++
       match py_of ropts0 e s a with
       | Some pv => match write FUEL2 wo e s pv with
                    | WOk bs => if bytes_eqb bs (wire a) then "s" else "d"
                    | _ => "x" end
       | None => "?" end)%string
  | _ => "-"%string
  end.
