(** JSON values as Python's [json.loads] produces them (schema dicts, lists,
    strings, numbers), association-list helpers mirroring dict operations, a
    generic structural recursor, string helpers and the naive compact printer.
    Executable definitions only.

    Text is Coq [string] (one [ascii] per character); the harness restricts all
    generated text to printable ASCII without double quote and backslash, so
    Python's f-string printing, [json.dumps] and the naive printer agree.
    Objects are association lists in insertion order (Python dict order);
    lookup = first match; the harness never produces duplicate keys. *)
From Coq Require Import String Ascii.
From FA Require Import model.Base.
Open Scope string_scope.

Inductive json :=
| JNull
| JBool (b : bool)
| JInt (z : Z)
| JFloat (bits : Z)            (* IEEE-754 binary64 bit pattern *)
| JStr (s : string)
| JArr (l : list json)
| JObj (kv : list (string * json)).

(** ---- dict operations on association lists ---- *)
Fixpoint jget {A} (k : string) (kv : list (string * A)) : option A :=
  match kv with
  | [] => None
  | (k', v) :: r => if String.eqb k k' then Some v else jget k r
  end.

Definition jhas {A} (k : string) (kv : list (string * A)) : bool :=
  match jget k kv with Some _ => true | None => false end.

(* d[k] = v : replaces in place (dict keeps the position of an existing key) or appends *)
Fixpoint jset {A} (k : string) (v : A) (kv : list (string * A)) : list (string * A) :=
  match kv with
  | [] => [(k, v)]
  | (k', v') :: r => if String.eqb k k' then (k, v) :: r else (k', v') :: jset k v r
  end.

Definition keys {A} (kv : list (string * A)) : list string := map fst kv.

Definition mem (s : string) (l : list string) : bool := existsb (String.eqb s) l.

(* {k: v for k, v in d.items() if k not in excluded} *)
Definition jdrop {A} (excluded : list string) (kv : list (string * A)) : list (string * A) :=
  filter (fun p => negb (mem (fst p) excluded)) kv.

(* for k, v in src.items(): dst[k] = v *)
Definition jupdate {A} (src dst : list (string * A)) : list (string * A) :=
  fold_left (fun acc p => jset (fst p) (snd p) acc) src dst.

(** ---- generic structural recursor (children are folded before the node) ---- *)
Section Fold.
  Context {A : Type}.
  Variable fatom : json -> A.
  Variable farr : list json -> list A -> A.
  Variable fobj : list (string * json) -> list (string * A) -> A.
  Fixpoint jfold (j : json) : A :=
    match j with
    | JArr l => farr l (map jfold l)
    | JObj kv => fobj kv (map (fun p => (fst p, jfold (snd p))) kv)
    | _ => fatom j
    end.
End Fold.

Definition list_max (l : list nat) : nat := fold_right Nat.max O l.

(* nesting depth; [S (jdepth j)] is enough fuel for every traversal of j *)
Definition jdepth : json -> nat :=
  jfold (fun _ => O) (fun _ ds => S (list_max ds)) (fun _ ds => S (list_max (map snd ds))).

Fixpoint list_eqb {A} (eq : A -> A -> bool) (a b : list A) : bool :=
  match a, b with
  | [], [] => true
  | x :: a, y :: b => eq x y && list_eqb eq a b
  | _, _ => false
  end.

Fixpoint json_eqb (a b : json) {struct a} : bool :=
  match a, b with
  | JNull, JNull => true
  | JBool x, JBool y => Bool.eqb x y
  | JInt x, JInt y => Z.eqb x y
  | JFloat x, JFloat y => Z.eqb x y
  | JStr x, JStr y => String.eqb x y
  | JArr x, JArr y =>
      (fix go (x y : list json) : bool :=
         match x, y with
         | [], [] => true
         | a :: x, b :: y => json_eqb a b && go x y
         | _, _ => false
         end) x y
  | JObj x, JObj y =>
      (fix go (x y : list (string * json)) : bool :=
         match x, y with
         | [], [] => true
         | (k, a) :: x, (k', b) :: y => String.eqb k k' && json_eqb a b && go x y
         | _, _ => false
         end) x y
  | _, _ => false
  end.

(** ---- string helpers ---- *)
Definition dot : ascii := "."%char.

Fixpoint has_dot (s : string) : bool :=
  match s with
  | EmptyString => false
  | String c r => Ascii.eqb c dot || has_dot r
  end.

(* s.rsplit(".", 1)[0] for a string that contains a dot: the part before the last dot *)
Fixpoint before_last_dot (s : string) : string :=
  match s with
  | EmptyString => EmptyString
  | String c r => if has_dot r then String c (before_last_dot r)
                  else EmptyString      (* c is the last dot, or there is none *)
  end.

Fixpoint join (sep : string) (l : list string) : string :=
  match l with
  | [] => ""
  | [x] => x
  | x :: r => x ++ sep ++ join sep r
  end.

Definition quote (s : string) : string := """" ++ s ++ """".

Definition bytes_of_string (s : string) : list Z :=
  map (fun c => Z.of_N (N_of_ascii c)) (list_ascii_of_string s).

(* protocol: results travel hex-encoded (they contain double quotes) *)
Definition hexs (s : string) : string := tohex (bytes_of_string s).

(** ---- the naive compact JSON printer (STRINGS / INTEGERS / WHITESPACE rules
    of the canonical form: no escapes needed on the restricted alphabet, plain
    decimal integers, no whitespace) ---- *)
Definition print_json : json -> string :=
  jfold
    (fun j => match j with
              | JNull => "null"
              | JBool true => "true"
              | JBool false => "false"
              | JInt z => show_Z z
              | JFloat _ => "<float>"
              | JStr s => quote s
              | _ => ""
              end)
    (fun _ rs => "[" ++ join "," rs ++ "]")
    (fun _ rs => "{" ++ join "," (map (fun p => quote (fst p) ++ ":" ++ snd p) rs) ++ "}").

(* Python truthiness *)
Definition truthy (j : json) : bool :=
  match j with
  | JNull => false
  | JBool b => b
  | JInt z => negb (Z.eqb z 0)
  | JFloat b => negb (Z.eqb b 0 || Z.eqb b 0x8000000000000000)
  | JStr s => negb (String.eqb s "")
  | JArr l => match l with [] => false | _ => true end
  | JObj kv => match kv with [] => false | _ => true end
  end.

(* isinstance(x, int) holds for bool as well *)
Definition as_pyint (j : json) : option Z :=
  match j with
  | JInt z => Some z
  | JBool true => Some 1
  | JBool false => Some 0
  | _ => None
  end.
