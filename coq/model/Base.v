(** Base definitions shared by every model file: result monad, bytes, hex and
    decimal printing used by the correspondence protocol.  Executable only. *)
From Coq Require Export ZArith List Bool.
From Coq Require Import String Ascii DecimalString.
Export ListNotations.
Open Scope Z_scope.

(** Three-valued result: [OutOfFuel] is never a normal-looking value. *)
Inductive res (A : Type) := Ok (x : A) | Err | OutOfFuel.
Arguments Ok {A} x. Arguments Err {A}. Arguments OutOfFuel {A}.

Definition bind {A B} (r : res A) (f : A -> res B) : res B :=
  match r with Ok x => f x | Err => Err | OutOfFuel => OutOfFuel end.
Notation "'let*' x ':=' e 'in' f" := (bind e (fun x => f))
  (at level 200, x pattern, right associativity).

Definition bytes := list Z.
Definition str := list Z.   (* a Python str, represented by its UTF-8 bytes *)

Definition is_byte (b : Z) : Prop := 0 <= b < 256.
Definition is_byteb (b : Z) : bool := (0 <=? b) && (b <? 256).

Fixpoint bytes_eqb (a b : list Z) : bool :=
  match a, b with
  | [], [] => true
  | x :: a, y :: b => (x =? y) && bytes_eqb a b
  | _, _ => false
  end.

Definition len {A} (l : list A) : Z := Z.of_nat (List.length l).

(** [take n l] = Some (first n, rest) when l has at least n elements. *)
Fixpoint take {A} (n : nat) (l : list A) : option (list A * list A) :=
  match n with
  | O => Some ([], l)
  | S n => match l with
           | [] => None
           | x :: l => match take n l with
                       | Some (p, r) => Some (x :: p, r)
                       | None => None
                       end
           end
  end.

(** ---- text protocol helpers (hex in, hex/decimal out) ---- *)
Definition hexval (c : ascii) : Z :=
  let n := Z.of_N (N_of_ascii c) in if n <? 58 then n - 48 else n - 87.

Fixpoint hx (s : string) : list Z :=
  match s with
  | String a (String b r) => (16 * hexval a + hexval b) :: hx r
  | _ => []
  end.

Definition hexdigit (n : Z) : ascii :=
  ascii_of_N (Z.to_N (if n <? 10 then n + 48 else n + 87)).

Fixpoint tohex (l : list Z) : string :=
  match l with
  | [] => EmptyString
  | b :: l => String (hexdigit (b / 16)) (String (hexdigit (b mod 16)) (tohex l))
  end.

Definition show_Z (z : Z) : string := NilZero.string_of_int (Z.to_int z).

Definition show_list {A} (f : A -> string) (l : list A) : string :=
  (fix go l := match l with
               | [] => EmptyString
               | [x] => f x
               | x :: l => f x ++ "," ++ go l
               end%string) l.

(** ASCII text constants as byte lists *)
Definition s2b (s : string) : list Z :=
  List.map (fun a => Z.of_N (N_of_ascii a)) (list_ascii_of_string s).

Fixpoint is_prefix (p l : list Z) : bool :=
  match p, l with
  | [], _ => true
  | x :: p, y :: l => (x =? y) && is_prefix p l
  | _, [] => false
  end.

(* Python:  p in l  for str *)
Fixpoint substr (p l : list Z) : bool :=
  is_prefix p l || match l with [] => false | _ :: l' => substr p l' end.
