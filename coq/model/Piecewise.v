(** Piecewise parsing: several schema documents parsed one after the other against ONE shared
    named_schemas dictionary (the later ones refer to the types of the earlier ones by name
    only), and what the public operations then see.  Executable definitions only. *)
From Coq Require Import String Ascii.
From FA Require Import model.Base model.Json model.Parse model.SchemaSpec model.Inline model.Canon model.Repo.
Open Scope string_scope.

(* parsed = [parse_schema(s, named_schemas) for s in pieces]; returns the parsed pieces (first
   first) and the dictionary afterwards *)
Fixpoint parse_pieces (l : list json) (tbl : named) : pres (list json * named) :=
  match l with
  | [] => POk ([], tbl)
  | s :: r =>
      let+ (p, t1) := parse_schema (fuel_for s) s tbl in
      let+ (ps, t2) := parse_pieces r t1 in
      POk (p :: ps, t2)
  end.

(* "__named_schemas" of every marked piece is an alias of the shared dictionary: all of them see
   the final one *)
Definition retie (t : named) : json -> json :=
  jfold (fun j => j) (fun _ rs => JArr rs)
        (fun kv _ => if jhas "__named_schemas" kv then JObj (jset "__named_schemas" (JObj t) kv) else JObj kv).

Definition piecewise (l : list json) : pres (list json * named) :=
  let+ (ps, t) := parse_pieces l [] in POk (map (retie t) ps, t).

Fixpoint last_of (l : list json) : option json :=
  match l with
  | [] => None
  | [x] => Some x
  | _ :: r => last_of r
  end.

(* the last piece (the parent), parsed after its children *)
Definition piecewise_top (l : list json) : pres (json * named) :=
  let+ (ps, t) := piecewise l in
  match last_of ps with Some p => POk (p, t) | None => PErrOther end.

(* to_parsing_canonical_form(parsed parent) *)
Definition piecewise_canonical (l : list json) : pres string :=
  let+ (p, _) := piecewise_top l in to_canonical p.

Definition show_piecewise_canon (l : list json) : string :=
  hexs (show_pres (fun s => s) (piecewise_canonical l)).

(** ---- idempotence, as closed boolean checks for the correspondence ---- *)
Definition named_eqb (a b : named) : bool :=
  list_eqb (fun x y => String.eqb (fst x) (fst y) && json_eqb (snd x) (snd y)) a b.

(* parse_schema(parse_schema(j)) returns the parsed schema unchanged and copies its table *)
Definition idem_check (j : json) : bool :=
  match parse_auto j with
  | POk (p, t) =>
      match parse_schema (fuel_for p) p [] with
      | POk (p2, t2) =>
          json_eqb p2 p && list_eqb String.eqb (keys t2) (keys t)
      | _ => false
      end
  | _ => true
  end.

(* the parsed schema without its markers (the reader's writer_schema) parses to the same names *)
Definition reparse_check (j : json) : bool :=
  match parse_auto j with
  | POk (p, t) =>
      let q := strip_markers p in
      match parse_schema (fuel_for q) q [] with
      | POk (p2, t2) =>
          String.eqb (canon p2) (canon p) && list_eqb String.eqb (keys t2) (keys t) &&
          json_eqb (strip_markers p2) q
      | _ => false
      end
  | _ => true
  end.

Definition show_idem (j : json) : string := show_bool (idem_check j) ++ "," ++ show_bool (reparse_check j).

(* the canonical form of the piecewise-parsed parent equals that of the schema written inline,
   and the inlined parent is self-contained *)
Definition pw_check (pieces : list json) (raw : json) : bool :=
  match piecewise_canonical pieces, to_canonical raw, piecewise_top pieces with
  | POk a, POk b, POk (p, t) =>
      String.eqb a b && match inline t p with POk q => closed q | _ => false end
  | _, _, _ => false
  end.

(** ---- the general statement (proofs/PiecewiseInlineProofs.v): named types parsed separately ----
    Each child piece is ONE named type (with whatever it contains) written without the parser's
    markers; the parent refers to the children by name; the all-in-one schema is the parent with
    every child written inline at its first use ([ifu_rec] over the children as a repository). *)
Definition keys_free (ex : list string) (kv : list (string * json)) : bool :=
  forallb (fun p => negb (mem (fst p) ex)) kv.

(* no "__fastavro_parsed" / "__named_schemas" key at the top level (or in the members of a top-level union) *)
Definition markerfree : json -> bool :=
  jfold (fun _ => true) (fun _ rs => forallb (fun b => b) rs) (fun kv _ => keys_free MARKER_KEYS kv).

Definition is_named_kv (kv : list (string * json)) : bool :=
  type_is kv "record" || type_is kv "error" || type_is kv "enum" || type_is kv "fixed".

Definition piece_ok (c : json) : bool :=
  match c with JObj kv => is_named_kv kv && keys_free MARKER_KEYS kv | _ => false end.
Definition piece_name (c : json) : string :=
  match c with JObj kv => spec_fullname "" kv | _ => "" end.
Definition repo_of (children : list json) : repo := map (fun c => (piece_name c, c)) children.

(* all hypotheses and the conclusion of C12_piecewise as one closed computation *)
Definition pw_inline_check (children : list json) (parent : json) : bool :=
  forallb piece_ok children && markerfree parent &&
  nodupb (concat (map (spec_names "") children) ++ spec_names "" parent) &&
  match parse_pieces children [] with
  | POk (_, t1) =>
      match parse_schema (fuel_for parent) parent t1 with
      | POk (p, t) =>
          match ifu_rec (inline_fuel t p) (repo_of children) parent "" [] with
          | POk (whole, _) =>
              match parse_auto whole, inline t p with
              | POk (pw, tw), POk q =>
                  json_eqb (strip_markers q) (strip_markers pw) && String.eqb (canon q) (canon pw) && closed q &&
                  negb (json_eqb whole parent)
              | _, _ => false
              end
          | _ => false
          end
      | _ => false
      end
  | _ => false
  end.
