(** Executable glue for the correspondence protocol: runs the model on one case
    and prints the observables as text. *)
From Coq Require Import String.
From FA Require Import model.Base model.Varint model.Value model.Schema model.Float model.Utf8
                       model.Codec model.Validate model.Write model.Read.
Open Scope string_scope.

Definition FUEL : nat := 400.

Definition show_rest (r : bytes) : string := show_Z (len r).

Definition show_read (x : res (pyval * bytes)) : string :=
  match x with
  | Ok (v, r) => "R:" ++ show_py v ++ "|" ++ show_rest r
  | Err => "E"
  | OutOfFuel => "FUEL"
  end.

(* schemaless_writer then schemaless_reader on the bytes followed by [suffix] *)
Definition run_wr (wo : wopts) (ro : ropts) (e : env) (s : schema) (v : pyval) (suffix : bytes) : string :=
  match write FUEL wo e s v with
  | WOk bs => "W:" ++ tohex bs ++ ";" ++ show_read (read FUEL ro e s (bs ++ suffix)%list)
  | WErr => "E"
  | WUnspec => "U"
  | WFuel => "FUEL"
  end.

(* elaboration only: the wire value (union indices visible) *)
Definition run_elab (wo : wopts) (e : env) (s : schema) (v : pyval) : string :=
  match elab FUEL wo e s v with
  | WOk a => "A:" ++ show_a a
  | WErr => "E" | WUnspec => "U" | WFuel => "FUEL"
  end.

(* a layout: its bytes, and what the decoder makes of them followed by [suffix] *)
Definition run_layout (ro : ropts) (e : env) (s : schema) (l : lval) (suffix : bytes) : string :=
  let bs := wire_l l in
  "W:" ++ tohex bs ++ ";" ++ show_read (read FUEL ro e s (bs ++ suffix)%list).

Definition run_read (ro : ropts) (e : env) (s : schema) (bs : bytes) : string :=
  show_read (read FUEL ro e s bs).

(* skip a value of schema s, then read a long: what a reader schema that drops the field does *)
Definition run_skip (e : env) (s : schema) (bs : bytes) : string :=
  match skip FUEL e s bs with
  | Ok (_, r) => match long_dec r with
                 | Ok (z, r') => "R:I" ++ show_Z z ++ "|" ++ show_rest r'
                 | _ => "E" end
  | Err => "E"
  | OutOfFuel => "FUEL"
  end.

Definition run_validate (wo : wopts) (e : env) (s : schema) (v : pyval) : string :=
  match validate FUEL wo e s (Some v) with
  | Ok true => "T" | Ok false => "F" | Err => "E" | OutOfFuel => "FUEL"
  end.

Definition mkw (a b c : bool) : wopts := {| strict := a; strict_allow_default := b; disable_tuple := c |}.
Definition mkr (a b c d : bool) : ropts := {| ret_rec := a; ret_rec_override := b; ret_named := c; ret_named_override := d |}.

(* decode with the model's (independent) decoder, re-encode with the specification encoder *)
Definition run_canon (ro : ropts) (e : env) (s : schema) (bs : bytes) : string :=
  match dec FUEL e s bs with
  | Ok (a, r) => "C:" ++ tohex (wire a) ++ ";" ++ show_read (match py_of ro e s a with Some v => Ok (v, r) | None => Err end)
  | Err => "E"
  | OutOfFuel => "FUEL"
  end.

Definition run_d2s (bits : Z) : string := match d2s bits with Ok s => tohex (le_bytes 4 s) | _ => "E" end.
Definition run_z2d (z : Z) : string := match z2d z with Ok s => tohex (le_bytes 8 s) | _ => "E" end.
Definition run_z2s (z : Z) : string := match z2d z with Ok d => run_d2s d | _ => "E" end.

(** ---- container glue (null codec inside the model; other codecs are re-framed by the harness) ---- *)
From FA Require Import model.Container model.ContainerPy.

Definition idc (b : bytes) : bytes := b.

Inductive hop :=
| HWrite (v : pyval)               (* Writer.write(record) *)
| HFlush
| HBlockRaw (n : Z) (raw : bytes)  (* write_block with a donor block: record count and decompressed payload *)
| HReopen (si : Z).

Definition show_status (p : pstatus) : string :=
  match p with POk => "ok" | PRaised => "raised" | PUnspecified => "U" | PNoFuel => "FUEL" end.

(* one harness-level operation = the model's Python-level step (model/ContainerPy.v); a donor block arrives
   as its record count and decompressed payload, which is what wstep's OBlock uses of its layouts *)
Definition hstep (wo : wopts) (validator : bool) (e : env) (s : schema) (sync : bytes)
                 (st : wstate) (o : hop) : wstate * string :=
  match o with
  | HWrite v => let (st', p) := pstep idc sync FUEL wo validator e s st (PWrite v) in (st', show_status p)
  | HFlush => let (st', p) := pstep idc sync FUEL wo validator e s st PFlush in (st', show_status p)
  | HBlockRaw n raw =>
      let st' := flush idc sync st in
      (mkW (out st' ++ block_bytes idc sync n raw)%list [] 0 (sint st), "ok")
  | HReopen si => let (st', p) := pstep idc sync FUEL wo validator e s st (PReopen si) in (st', show_status p)
  end.

(* after every operation: its status and the bytes it appended to the stream *)
Fixpoint run_hops (wo : wopts) (validator : bool) (e : env) (s : schema) (sync : bytes)
                  (st : wstate) (ops : list hop) : string :=
  match ops with
  | [] => ""
  | o :: ops =>
      let (st', status) := hstep wo validator e s sync st o in
      status ++ ":" ++ tohex (skipn (List.length (out st)) (out st')) ++ ";" ++ run_hops wo validator e s sync st' ops
  end.

Definition run_history (wo : wopts) (validator : bool) (e : env) (s : schema) (meta : list (bytes * bytes))
                       (sync : bytes) (si : Z) (ops : list hop) : string :=
  "H:" ++ tohex (header_bytes meta sync) ++ ";" ++ run_hops wo validator e s sync (wcreate sync meta si) ops.

Definition show_outcome (o : outcome) : string :=
  match o with EndOK => "END" | Raised => "RAISED" | NoFuel => "FUEL" end.

Fixpoint show_records (ro : ropts) (e : env) (s : schema) (l : list aval) : string :=
  match l with
  | [] => ""
  | a :: l => match py_of ro e s a with Some v => show_py v | None => "?" end ++ ";" ++ show_records ro e s l
  end.

(* fastavro.reader(file): the records yielded and how iteration ended (null codec) *)
Definition run_readfile (ro : ropts) (e : env) (s : schema) (file : bytes) : string :=
  let (l, oc) := read_container Ok e s FUEL FUEL (S (List.length file)) file in
  show_records ro e s l ++ "|" ++ show_outcome oc.

Fixpoint show_infos (l : list (Z * Z * Z)) : string :=
  match l with
  | [] => ""
  | (o, sz, c) :: l => show_Z o ++ "," ++ show_Z sz ++ "," ++ show_Z c ++ ";" ++ show_infos l
  end.

(* block_reader(file): (offset, size, num_records) of every block *)
Definition run_blockinfos (file : bytes) : string :=
  match read_header FUEL file with
  | Ok (_, sync, rest) =>
      let off := len file - len rest in
      let (l, oc) := read_block_infos Ok (S (List.length rest)) sync off rest in
      show_infos l ++ "|" ++ show_outcome oc
  | _ => "|RAISED"
  end.

Definition run_is_avro (bs : bytes) : string := if is_avro bs then "T" else "F".

(* a foreign file: header (meta map in a given layout) + blocks given as (count, list of record layouts) *)
Definition foreign_file (hdr_meta : lval) (sync : bytes) (blocks : list (Z * list lval)) : bytes :=
  (wire_l (LRecord [LLeaf (AFixed MAGIC); hdr_meta; LLeaf (AFixed sync)]) ++
   flat_map (fun b => block_bytes idc sync (fst b) (flat_map wire_l (snd b))) blocks)%list.
Definition run_foreign (hdr_meta : lval) (sync : bytes) (blocks : list (Z * list lval)) : string :=
  tohex (foreign_file hdr_meta sync blocks).
