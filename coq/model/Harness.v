(** Executable glue for the correspondence protocol: runs the model on one case
    and prints the observables as text. *)
From Coq Require Import String.
From FA Require Import model.Base model.Varint model.Value model.Schema model.Float model.Utf8
                       model.Codec model.Validate model.Write model.Read.
Open Scope string_scope.

Definition FUEL : nat := 400.

Definition show_rest (r : bytes) : string := show_Z (len r).

Definition show_read (x : res (pyval * bytes)) : string :=
  match x with
  | Ok (v, r) => "R:" ++ show_py v ++ "|" ++ show_rest r
  | Err => "E"
  | OutOfFuel => "FUEL"
  end.

(* schemaless_writer then schemaless_reader on the bytes followed by [suffix] *)
Definition run_wr (wo : wopts) (ro : ropts) (e : env) (s : schema) (v : pyval) (suffix : bytes) : string :=
  match write FUEL wo e s v with
  | WOk bs => "W:" ++ tohex bs ++ ";" ++ show_read (read FUEL ro e s (bs ++ suffix)%list)
  | WErr => "E"
  | WUnspec => "U"
  | WFuel => "FUEL"
  end.

(* elaboration only: the wire value (union indices visible) *)
Definition run_elab (wo : wopts) (e : env) (s : schema) (v : pyval) : string :=
  match elab FUEL wo e s v with
  | WOk a => "A:" ++ show_a a
  | WErr => "E" | WUnspec => "U" | WFuel => "FUEL"
  end.

(* a layout: its bytes, and what the decoder makes of them followed by [suffix] *)
Definition run_layout (ro : ropts) (e : env) (s : schema) (l : lval) (suffix : bytes) : string :=
  let bs := wire_l l in
  "W:" ++ tohex bs ++ ";" ++ show_read (read FUEL ro e s (bs ++ suffix)%list).

Definition run_read (ro : ropts) (e : env) (s : schema) (bs : bytes) : string :=
  show_read (read FUEL ro e s bs).

(* skip a value of schema s, then read a long: what a reader schema that drops the field does *)
Definition run_skip (e : env) (s : schema) (bs : bytes) : string :=
  match skip FUEL e s bs with
  | Ok (_, r) => match long_dec r with
                 | Ok (z, r') => "R:I" ++ show_Z z ++ "|" ++ show_rest r'
                 | _ => "E" end
  | Err => "E"
  | OutOfFuel => "FUEL"
  end.

Definition run_validate (wo : wopts) (e : env) (s : schema) (v : pyval) : string :=
  match validate FUEL wo e s (Some v) with
  | Ok true => "T" | Ok false => "F" | Err => "E" | OutOfFuel => "FUEL"
  end.

Definition mkw (a b c : bool) : wopts := {| strict := a; strict_allow_default := b; disable_tuple := c |}.
Definition mkr (a b c d : bool) : ropts := {| ret_rec := a; ret_rec_override := b; ret_named := c; ret_named_override := d |}.

(* decode with the model's (independent) decoder, re-encode with the specification encoder *)
Definition run_canon (ro : ropts) (e : env) (s : schema) (bs : bytes) : string :=
  match dec FUEL e s bs with
  | Ok (a, r) => "C:" ++ tohex (wire a) ++ ";" ++ show_read (match py_of ro e s a with Some v => Ok (v, r) | None => Err end)
  | Err => "E"
  | OutOfFuel => "FUEL"
  end.

Definition run_d2s (bits : Z) : string := match d2s bits with Ok s => tohex (le_bytes 4 s) | _ => "E" end.
Definition run_z2d (z : Z) : string := match z2d z with Ok s => tohex (le_bytes 8 s) | _ => "E" end.
Definition run_z2s (z : Z) : string := match z2d z with Ok d => run_d2s d | _ => "E" end.
