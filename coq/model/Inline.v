(** fastavro/_schema_py.py _inline_named_schemas (since fdcd1d1): walks a PARSED schema in
    document order with the set of names defined so far and replaces the first by-name reference
    to a type that is not yet defined (and is in named_schemas) by that type's definition
    (markers stripped, recursively inlined).  Plus the checker [closed_m]: every reference is
    preceded by its definition (then inlining changes nothing, proofs/InlineProofs.v).
    Executable definitions only. *)
From Coq Require Import String Ascii.
From FA Require Import model.Base model.Json model.Parse model.SchemaSpec.
Open Scope string_scope.

Definition MARKER_KEYS : list string := ["__fastavro_parsed"; "__named_schemas"].

Definition is_named_type (t : string) : bool :=
  String.eqb t "record" || String.eqb t "error" || String.eqb t "enum" || String.eqb t "fixed".

(* defined.add(schema["name"]) for a named dict that has a (string) name *)
Definition define (kv : list (string * json)) (t : string) (defined : list string) : list string :=
  if is_named_type t then
    match jget "name" kv with Some (JStr n) => n :: defined | _ => defined end
  else defined.

Definition inlfun := json -> list string -> pres (json * list string).

Section Open.
  Variable rec : inlfun.      (* _inline_named_schemas(schema, named_schemas, defined) *)

  Fixpoint inline_list (l : list json) (defined : list string) : pres (list json * list string) :=
    match l with
    | [] => POk ([], defined)
    | s :: r =>
        let+ (p, d1) := rec s defined in
        let+ (ps, d2) := inline_list r d1 in
        POk (p :: ps, d2)
    end.

  Definition inline_field (fd : json) (defined : list string) : pres (json * list string) :=
    match fd with
    | JObj fkv =>
        match jget "type" fkv with
        | None => PErrOther
        | Some ty => let+ (p, d1) := rec ty defined in POk (JObj (jset "type" p fkv), d1)
        end
    | _ => PErrOther
    end.

  Fixpoint inline_fields (l : list json) (defined : list string) : pres (list json * list string) :=
    match l with
    | [] => POk ([], defined)
    | fd :: r =>
        let+ (p, d1) := inline_field fd defined in
        let+ (ps, d2) := inline_fields r d1 in
        POk (p :: ps, d2)
    end.

  Definition inline_node (tbl : named) (j : json) (defined : list string) : pres (json * list string) :=
    match j with
    | JArr l => let+ (ps, d1) := inline_list l defined in POk (JArr ps, d1)
    | JStr s =>
        if is_prim s || mem s defined then POk (j, defined)
        else match jget s tbl with
             | None => POk (j, defined)
             | Some (JObj kv) => rec (JObj (jdrop MARKER_KEYS kv)) defined
             | Some _ => PErrOther
             end
    | JObj kv =>
        match jget "type" kv with
        | None => PErrOther
        | Some (JStr t) =>
            let d0 := define kv t defined in
            if String.eqb t "array" then
              match jget "items" kv with
              | None => PErrOther
              | Some it => let+ (p, d1) := rec it d0 in POk (JObj (jset "items" p kv), d1)
              end
            else if String.eqb t "map" then
              match jget "values" kv with
              | None => PErrOther
              | Some it => let+ (p, d1) := rec it d0 in POk (JObj (jset "values" p kv), d1)
              end
            else if String.eqb t "record" || String.eqb t "error" then
              let+ fl := match jget "fields" kv with
                         | None => POk []
                         | Some (JArr fl) => POk fl
                         | Some _ => PErrOther
                         end in
              let+ (fs, d1) := inline_fields fl d0 in
              POk (JObj (jset "fields" (JArr fs) kv), d1)
            else POk (j, d0)
        | Some _ => POk (j, defined)
        end
    | _ => POk (j, defined)
    end.
End Open.

Fixpoint inline_rec (f : nat) (tbl : named) : inlfun :=
  match f with
  | O => fun _ _ => PFuel
  | S f => inline_node (inline_rec f tbl) tbl
  end.

(* enough fuel: the depth of the schema plus the depths of all table entries (each is inlined at most once) *)
Definition inline_fuel (tbl : named) (j : json) : nat :=
  S (S (jdepth j + fold_right (fun p acc => S (jdepth (snd p)) + acc)%nat O tbl)).

Definition inline (tbl : named) (j : json) : pres json :=
  let+ r := inline_rec (inline_fuel tbl j) tbl j [] in POk (fst r).

(** ---- every reference is preceded by its definition (document order) ---- *)
Definition osub (k : string) (rs : list (string * (pmode -> list string -> option (list string))))
           (m : pmode) (defined : list string) : option (list string) :=
  match jget k rs with Some r => r m defined | None => None end.

Fixpoint ofold (rs : list (list string -> option (list string))) (defined : list string) : option (list string) :=
  match rs with
  | [] => Some defined
  | r :: rest => match r defined with Some d1 => ofold rest d1 | None => None end
  end.

Definition closed_m : json -> pmode -> list string -> option (list string) :=
  jfold
    (fun j m defined =>
       match m, j with
       | PSchema, JStr s => if is_prim s || mem s defined then Some defined else None
       | PSchema, _ => Some defined
       | _, _ => None
       end)
    (fun _ rs m defined =>
       match m with
       | PSchema => ofold (map (fun r => r PSchema) rs) defined
       | PFields => ofold (map (fun r => r PField) rs) defined
       | PField => None
       end)
    (fun kv rs m defined =>
       match m with
       | PField => osub "type" rs PSchema defined
       | PFields => None
       | PSchema =>
           match jget "type" kv with
           | Some (JStr t) =>
               let d0 := define kv t defined in
               if String.eqb t "array" then osub "items" rs PSchema d0
               else if String.eqb t "map" then osub "values" rs PSchema d0
               else if String.eqb t "record" || String.eqb t "error" then
                 match jget "fields" kv with
                 | Some (JArr _) => osub "fields" rs PFields d0
                 | _ => None
                 end
               else Some d0
           | Some _ => Some defined
           | None => None
           end
       end).

(* self-contained: every reference is to a name defined earlier inside the schema itself *)
Definition closed (j : json) : bool :=
  match closed_m j PSchema [] with Some _ => true | None => false end.

(** the same check relative to a table: a reference is also fine when [extra] accepts it
    (used with "is not a key of the table": nothing the inliner could have done about it) *)
Definition closed_g (extra : string -> bool) : json -> pmode -> list string -> option (list string) :=
  jfold
    (fun j m defined =>
       match m, j with
       | PSchema, JStr s => if is_prim s || mem s defined || extra s then Some defined else None
       | PSchema, _ => Some defined
       | _, _ => None
       end)
    (fun _ rs m defined =>
       match m with
       | PSchema => ofold (map (fun r => r PSchema) rs) defined
       | PFields => ofold (map (fun r => r PField) rs) defined
       | PField => None
       end)
    (fun kv rs m defined =>
       match m with
       | PField => osub "type" rs PSchema defined
       | PFields => None
       | PSchema =>
           match jget "type" kv with
           | Some (JStr t) =>
               let d0 := define kv t defined in
               if String.eqb t "array" then osub "items" rs PSchema d0
               else if String.eqb t "map" then osub "values" rs PSchema d0
               else if String.eqb t "record" || String.eqb t "error" then
                 match jget "fields" kv with
                 | Some (JArr _) => osub "fields" rs PFields d0
                 | _ => None
                 end
               else Some d0
           | Some _ => Some defined
           | None => None
           end
       end).

(* every reference follows its definition or names a type the table does not know *)
Definition closed_rel (tbl : named) (j : json) : bool :=
  match closed_g (fun s => negb (jhas s tbl)) j PSchema [] with Some _ => true | None => false end.
