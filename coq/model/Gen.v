(** fastavro/utils.py  gen_data / generate_one / generate_many  with the random source made an
    explicit input: a stream of draws.  Executable definitions only.

    Every primitive of the [random] / [uuid] modules that the code calls consumes draws in the
    code's order (the harness replaces [fastavro.utils.random] and [fastavro.utils.uuid] from the
    outside by recording proxies and hands the recorded draws to this model):

      random.randint(a, b)              one draw d;   result  a + d mod (b - a + 1)   (ValueError when b < a)
      random.random()                   one draw d;   the double with bit pattern  d mod 0x3FF0000000000000
                                        (the non-negative doubles below 1.0 are exactly the patterns below that of 1.0)
      random.choices(ascii_letters,k=10) ten draws;   letter number  d mod 52  each
      random.getrandbits(8 n)           one draw d;   d mod 2^(8n)   (ValueError when n < 0)
      uuid.uuid4()                      one draw d;   UUID(int = d mod 2^128, version = 4)

    The reductions [mod] make the model total on every stream (the theorems quantify over all
    streams); on a recorded stream every draw is already in range and they are the identity.
    An exhausted stream is [Err]; running out of fuel is [OutOfFuel], never a value. *)
From Coq Require Import String.
From FA Require Import model.Base model.Value model.Schema model.Validate model.Codec model.Logical.
Open Scope Z_scope.

Definition rand_stream := list Z.

Definition draw (rs : rand_stream) : res (Z * rand_stream) :=
  match rs with [] => Err | d :: rs => Ok (d, rs) end.

(* random.randint(a, b) *)
Definition randint (a b : Z) (rs : rand_stream) : res (Z * rand_stream) :=
  if b <? a then Err                                        (* ValueError: empty range *)
  else let* (d, rs) := draw rs in Ok (a + d mod (b - a + 1), rs).

(* random.random(): a double in [0, 1), as its bit pattern *)
Definition ONE_BITS : Z := 4607182418800017408.              (* 0x3FF0000000000000 = 1.0 *)
Definition rand_float (rs : rand_stream) : res (Z * rand_stream) :=
  let* (d, rs) := draw rs in Ok (d mod ONE_BITS, rs).

(* string.ascii_letters = lowercase + uppercase *)
Definition ascii_letter (i : Z) : Z := if i <? 26 then 97 + i else 65 + (i - 26).

(* "".join(random.choices(ascii_letters, k=10)) *)
Fixpoint rand_letters (k : nat) (rs : rand_stream) : res (str * rand_stream) :=
  match k with
  | O => Ok ([], rs)
  | S k => let* (d, rs) := draw rs in
           let* (l, rs) := rand_letters k rs in
           Ok (ascii_letter (d mod 52) :: l, rs)
  end.
Definition gen_utf8 (rs : rand_stream) : res (str * rand_stream) := rand_letters 10 rs.

(* _randbytes(num) = random.getrandbits(num * 8).to_bytes(num, "little") *)
Definition randbytes (num : Z) (rs : rand_stream) : res (bytes * rand_stream) :=
  if num <? 0 then Err                                      (* ValueError: number of bits must be non-negative *)
  else let* (d, rs) := draw rs in Ok (le_bytes (Z.to_nat num) (d mod 2 ^ (8 * num)), rs).

(* uuid.UUID(int=d, version=4):  int &= ~(0xc000 << 48); int |= 0x8000 << 48; int &= ~(0xf000 << 64); int |= 4 << 76 *)
Definition uuid4_int (d : Z) : Z :=
  let i := d mod 2 ^ 128 in
  let i := Z.land i (Z.lnot (Z.shiftl 49152 48)) in
  let i := Z.lor i (Z.shiftl 32768 48) in
  let i := Z.land i (Z.lnot (Z.shiftl 61440 64)) in
  Z.lor i (Z.shiftl 4 76).

Definition hexchar (n : Z) : Z := if n <? 10 then n + 48 else n + 87.
Definition hex_str (b : bytes) : str := flat_map (fun x => [hexchar (x / 16); hexchar (x mod 16)]) b.

(* uuid.uuid4().hex : 32 lowercase hex digits, no hyphens *)
Definition uuid4_hex (rs : rand_stream) : res (str * rand_stream) :=
  let* (d, rs) := draw rs in Ok (hex_str (be_loop 16 (uuid4_int d)), rs).

(** the ranges gen_data asks for *)
Definition DATE_LO : Z := - DAYS_SHIFT + 1.
Definition DATE_HI : Z := MAX_ORDINAL - DAYS_SHIFT.          (* datetime.date.max.toordinal() - DAYS_SHIFT *)
Definition MAX_TIMESTAMP_MILLIS : Z := 2 ^ 45.
Definition MAX_TIMESTAMP_MICROS : Z := 2 ^ 55.

Definition lt_is (lt : str) (s : string) : bool := bytes_eqb lt (s2b s).

Definition pint (r : res (Z * rand_stream)) : res (pyval * rand_stream) :=
  let* (z, rs) := r in Ok (PInt z, rs).

(* record_type == "int": the logical type is f"int-{lt}" when lt is a non-empty string *)
Definition gen_int (lt : str) (rs : rand_stream) : res (pyval * rand_stream) :=
  if lt_is lt "date" then pint (randint DATE_LO DATE_HI rs)
  else if lt_is lt "time-millis" then pint (randint 0 (MLS_PER_HOUR * 24 - 1) rs)
  else pint (randint INT_MIN_VALUE INT_MAX_VALUE rs).

Definition gen_long (lt : str) (rs : rand_stream) : res (pyval * rand_stream) :=
  if lt_is lt "time-micros" then pint (randint 0 (MCS_PER_HOUR * 24 - 1) rs)
  else if lt_is lt "timestamp-millis" || lt_is lt "local-timestamp-millis" then pint (randint 0 MAX_TIMESTAMP_MILLIS rs)
  else if lt_is lt "timestamp-micros" || lt_is lt "local-timestamp-micros" then pint (randint 0 MAX_TIMESTAMP_MICROS rs)
  else pint (randint LONG_MIN_VALUE LONG_MAX_VALUE rs).

Definition gen_string (lt : str) (rs : rand_stream) : res (pyval * rand_stream) :=
  let* (s, rs) := (if lt_is lt "uuid" then uuid4_hex rs else gen_utf8 rs) in Ok (PStr s, rs).

Definition gen_float (rs : rand_stream) : res (pyval * rand_stream) :=
  let* (b, rs) := rand_float rs in Ok (PFloat b, rs).

Definition gen_bool (rs : rand_stream) : res (pyval * rand_stream) :=
  let* (z, rs) := randint 0 1 rs in Ok (PBool (negb (z =? 0)), rs).

Definition gen_bytes (n : Z) (rs : rand_stream) : res (pyval * rand_stream) :=
  let* (b, rs) := randbytes n rs in Ok (PBytes b, rs).

(* symbols[random.randint(0, len(symbols) - 1)] *)
Definition gen_enum (syms : list str) (rs : rand_stream) : res (pyval * rand_stream) :=
  let* (i, rs) := randint 0 (len syms - 1) rs in
  match nthZ syms i with Some x => Ok (PStr x, rs) | None => Err end.

Section Loops.
  Variable rec : schema -> rand_stream -> res (pyval * rand_stream).

  (* [gen_data(items) for _ in range(n)] *)
  Fixpoint gen_items (n : nat) (s : schema) (rs : rand_stream) : res (list pyval * rand_stream) :=
    match n with
    | O => Ok ([], rs)
    | S n => let* (v, rs) := rec s rs in
             let* (l, rs) := gen_items n s rs in
             Ok (v :: l, rs)
    end.

  (* {_gen_utf8(): gen_data(values) for _ in range(n)}: key first, then value; a repeated key keeps its
     position and takes the later value *)
  Fixpoint gen_entries (n : nat) (s : schema) (acc : list (pyval * pyval)) (rs : rand_stream)
      : res (list (pyval * pyval) * rand_stream) :=
    match n with
    | O => Ok (acc, rs)
    | S n => let* (k, rs) := gen_utf8 rs in
             let* (v, rs) := rec s rs in
             gen_entries n s (dict_set acc k v) rs
    end.

  (* {field["name"]: gen_data(field["type"]) for field in fields} *)
  Fixpoint gen_fields (fs : list field) (acc : list (pyval * pyval)) (rs : rand_stream)
      : res (list (pyval * pyval) * rand_stream) :=
    match fs with
    | [] => Ok (acc, rs)
    | f :: fs => let* (v, rs) := rec (ftype f) rs in
                 gen_fields fs (dict_set acc (fname f) v) rs
    end.
End Loops.

Definition ITEMS : nat := 10.

(** gen_data(schema, named_schemas), clause by clause.
    [SAnnot lt s] is the dict form {"type": s, "logicalType": lt}: record_type = schema["type"]. *)
Fixpoint gen (f : nat) (e : env) (s : schema) (rs : rand_stream) {struct f} : res (pyval * rand_stream) :=
  match f with
  | O => OutOfFuel
  | S f =>
    match s with
    | SNull => Ok (PNone, rs)
    | SString => gen_string [] rs
    | SInt => gen_int [] rs
    | SLong => gen_long [] rs
    | SFloat | SDouble => gen_float rs
    | SBool => gen_bool rs
    | SBytes => gen_bytes 10 rs
    | SFixed _ _ size => gen_bytes size rs
    | SEnum _ _ syms _ => gen_enum syms rs
    | SArray it => let* (l, rs) := gen_items (gen f e) ITEMS it rs in Ok (PList l, rs)
    | SMap vs => let* (kv, rs) := gen_entries (gen f e) ITEMS vs [] rs in Ok (PDict kv, rs)
    | SUnion bs =>
        let* (i, rs) := randint 0 (len bs - 1) rs in
        match nthZ bs i with Some b => gen f e b rs | None => Err end
    | SRecord _ _ fs => let* (kv, rs) := gen_fields (gen f e) fs [] rs in Ok (PDict kv, rs)
    | SRef n => match lookup e n with Some s' => gen f e s' rs | None => Err end      (* KeyError *)
    | SAnnot lt s' =>
        match s' with
        | SInt => gen_int lt rs
        | SLong => gen_long lt rs
        | SString => gen_string lt rs
        | SAnnot _ _ | SUnion _ => Err       (* schema["type"] is a dict / list: named_schemas[unhashable] TypeError *)
        | _ => gen f e s' rs                 (* the annotation is not looked at *)
        end
    end
  end.

(** generate_many(schema, count): [for _ in range(count): yield gen_data(parsed_schema, named_schemas)];
    list(...) of it.  range(count) is empty for count <= 0. *)
Definition gen_many (f : nat) (e : env) (s : schema) (count : Z) (rs : rand_stream)
    : res (list pyval * rand_stream) :=
  gen_items (gen f e) (Z.to_nat count) s rs.

(** generate_one(schema) = next(generate_many(schema, 1)) *)
Definition gen_one (f : nat) (e : env) (s : schema) (rs : rand_stream) : res (pyval * rand_stream) :=
  let* (l, rs) := gen_many f e s 1 rs in
  match l with v :: _ => Ok (v, rs) | [] => Err end.             (* StopIteration *)

(** ---- text protocol for the correspondence ---- *)
Definition GEN_FUEL : nat := 200.

Definition show_gen_list (r : res (list pyval * rand_stream)) : string :=
  match r with
  | Ok (l, rs) => ("G:" ++ show_py (PList l) ++ "|" ++ show_Z (len rs))%string
  | Err => "E"%string
  | OutOfFuel => "FUEL"%string
  end.

(* list(generate_many(schema, count)) on the recorded draws; prints the values and how many draws are left *)
Definition run_gen_many (e : env) (s : schema) (count : Z) (rs : rand_stream) : string :=
  show_gen_list (gen_many GEN_FUEL e s count rs).

Definition run_gen_one (e : env) (s : schema) (rs : rand_stream) : string :=
  match gen_one GEN_FUEL e s rs with
  | Ok (v, rs) => ("G:" ++ show_py v ++ "|" ++ show_Z (len rs))%string
  | Err => "E"%string
  | OutOfFuel => "FUEL"%string
  end.

(* generate, then the model's validate on every value: "T" when all validate *)
Definition run_gen_validate (e : env) (s : schema) (count : Z) (rs : rand_stream) : string :=
  match gen_many GEN_FUEL e s count rs with
  | Ok (l, _) =>
      if forallb (fun v => match validate (2 * GEN_FUEL + 10) {| strict := false; strict_allow_default := false; disable_tuple := false |} e s (Some v)
                           with Ok true => true | _ => false end) l
      then "T"%string else "F"%string
  | Err => "E"%string
  | OutOfFuel => "FUEL"%string
  end.

Definition show_gen_consts : string :=
  (show_Z DATE_LO ++ "," ++ show_Z DATE_HI ++ "," ++ show_Z (MLS_PER_HOUR * 24 - 1) ++ "," ++ show_Z (MCS_PER_HOUR * 24 - 1)
   ++ "," ++ show_Z MAX_TIMESTAMP_MILLIS ++ "," ++ show_Z MAX_TIMESTAMP_MICROS)%string.
