(** The library's shared mutable state and the public API as steps over it.

    [gstate] has one field per shared mutable cell that some API step touches:
      - [prec]  : the precision of the module-level [decimal.Context]
                  ([fastavro/_logical_readers_py.py: decimal_context]);
      - [inexact], [rounded] : the sticky signal flags Inexact / Rounded of that same
                  Context object (set by [create_decimal] / [scaleb] whenever they
                  round; nothing in the library, and no [decimal] operation, reads
                  them back: write-only cells);
      - [other] : the abstract contents of every other cell of the regenerated
                  inventory (Srcfacts.mutable_globals / mutable_defaults: the
                  READERS / WRITERS / SKIPS / VALIDATORS / LOGICAL_* / BLOCK_*
                  tables, the [options={}] default dictionaries, ...).  No API
                  step writes them (Srcfacts.shared_write_sites lists every
                  store into module-level objects or defaulted parameters;
                  coq/srcfacts/SF_inventory.v pins that list), so the model
                  carries them through unchanged.

    Two variants of the one step that touches a shared cell:
      - [Current] : [read_decimal] as the code is today
                      decimal_context.prec = precision
                      decimal_context.create_decimal(u).scaleb(-scale, decimal_context)
      - [Fixed]   : the repaired shape, a per-call [Context(prec=precision)].
    Executable definitions only; proofs are in proofs/GlobalsProofs.v. *)
From Coq Require Import String.
From FA Require Import model.Base.

(** ---- decimal arithmetic of [decimal.Context] on integers --------------------- *)

(** number of decimal digits of [n >= 0]; [ndigits 0 = 1] (Decimal(0) has one digit) *)
Fixpoint ndigits_fuel (f : nat) (n : Z) : Z :=
  match f with
  | O => 1
  | S f => if n <? 10 then 1 else 1 + ndigits_fuel f (n / 10)
  end.
Definition ndigits (n : Z) : Z := ndigits_fuel (S (Z.to_nat (Z.log2 n))) n.

(** nearest integer to [n / d] ([n >= 0], [d > 0]), ties to even: ROUND_HALF_EVEN,
    the rounding mode of a default [Context()] *)
Definition round_half_even (n d : Z) : Z :=
  let q := n / d in
  let r := n mod d in
  match 2 * r ?= d with
  | Lt => q
  | Gt => q + 1
  | Eq => if Z.even q then q else q + 1
  end.

(** a finite [Decimal]: [as_tuple()] = (sign, digits of [dcoef], [dexp]) *)
Record dec := mkD { dsign : bool; dcoef : Z; dexp : Z }.

(** rounding a value to [p] significant digits (what every Context operation does
    with its result): coefficient with more than [p] digits is divided by the
    surplus power of ten half-even; a carry to [10^p] renormalises. *)
Definition round_to (p : Z) (d : dec) : dec :=
  let nd := ndigits (dcoef d) in
  if nd <=? p then d
  else
    let k := nd - p in
    let c := round_half_even (dcoef d) (10 ^ k) in
    if c =? 10 ^ p then mkD (dsign d) (10 ^ (p - 1)) (dexp d + k + 1)
    else mkD (dsign d) c (dexp d + k).

(** the signals that rounding raises on the context: (Inexact, Rounded).
    Rounded: digits were discarded; Inexact: some discarded digit was non-zero. *)
Definition round_flags (p : Z) (d : dec) : bool * bool :=
  let nd := ndigits (dcoef d) in
  if nd <=? p then (false, false)
  else (negb (dcoef d mod 10 ^ (nd - p) =? 0), true).

(** [ctx.create_decimal(u)] for a Python int [u] under precision [p] *)
Definition create_decimal (p u : Z) : dec := round_to p (mkD (u <? 0) (Z.abs u) 0).
Definition create_flags (p u : Z) : bool * bool := round_flags p (mkD (u <? 0) (Z.abs u) 0).

(** [d.scaleb(-scale, ctx)] under precision [p] (exponent limits of the default
    context, +-999999, are out of reach of the scales an Avro schema can carry
    together with a readable datum and are not modelled) *)
Definition scaleb (p : Z) (d : dec) (scale : Z) : dec :=
  round_to p (mkD (dsign d) (dcoef d) (dexp d - scale)).
Definition scaleb_flags (p : Z) (d : dec) (scale : Z) : bool * bool :=
  round_flags p (mkD (dsign d) (dcoef d) (dexp d - scale)).

(** ---- shared state --------------------------------------------------------------- *)

Record gstate := mkG { prec : Z; inexact : bool; rounded : bool; other : list Z }.

Definition set_prec (g : gstate) (p : Z) : gstate := mkG p (inexact g) (rounded g) (other g).

(** signal flags are sticky: raising ORs them in *)
Definition add_flags (g : gstate) (f : bool * bool) : gstate :=
  mkG (prec g) (inexact g || fst f) (rounded g || snd f) (other g).

(** state of a fresh interpreter: [Context()] has precision 28 and no flag set *)
Definition g0 : gstate := mkG 28 false false [].

(** ---- API calls ------------------------------------------------------------------ *)

(** one decimal datum met by a read: the schema's precision and scale, and the
    unscaled integer found on the wire *)
Record decfield := mkDF { df_prec : Z; df_scale : Z; df_unscaled : Z }.

(** The public calls.  Arguments other than the decimals a read decodes do not
    interact with any shared cell and are abstracted away: [CRead []] is a read
    without a decimal, [CRead [mkDF p s u]] a read that decodes one decimal of
    precision [p] whose unscaled value is [u], and so on, in decoding order.
    [CFailing c k] is the call [c] raising midway, after the first [k] of its
    shared-cell effects have happened. *)
Inductive api_call :=
| CParse | CWrite | CRead (ds : list decfield) | CValidate | CCanonical | CFingerprint
| CJsonWrite | CJsonRead (ds : list decfield) | CGenerate | CLoad
| CFailing (c : api_call) (k : nat).

(** observable result as far as shared state could influence it: the decimals a
    read returns, or "raised" *)
Inductive result := ROk (vals : list dec) | RRaised.

Inductive variant := Current | Fixed.

(** decimals decoded by a call, in order *)
Fixpoint effects (c : api_call) : list decfield :=
  match c with
  | CRead ds | CJsonRead ds => ds
  | CFailing c k => firstn k (effects c)
  | _ => []
  end.

Definition raises (c : api_call) : bool :=
  match c with CFailing _ _ => true | _ => false end.

(** [read_decimal], once per decimal; [Context.prec = p] with [p < 1] raises
    ValueError before anything is stored (so does [Context(prec=p)]) *)
Fixpoint read_decs (v : variant) (g : gstate) (ds : list decfield) (acc : list dec) : gstate * result :=
  match ds with
  | [] => (g, ROk (rev acc))
  | d :: ds =>
      if df_prec d <? 1 then (g, RRaised)
      else
        match v with
        | Current =>
            let g1 := set_prec g (df_prec d) in                      (* decimal_context.prec = precision *)
            let x := create_decimal (prec g1) (df_unscaled d) in     (* decimal_context.create_decimal(..) *)
            let g2 := add_flags g1 (create_flags (prec g1) (df_unscaled d)) in
            let y := scaleb (prec g2) x (df_scale d) in              (* .scaleb(-scale, decimal_context) *)
            let g3 := add_flags g2 (scaleb_flags (prec g2) x (df_scale d)) in
            read_decs v g3 ds (y :: acc)
        | Fixed =>
            let p := df_prec d in                                    (* ctx = Context(prec=precision) *)
            read_decs v g ds (scaleb p (create_decimal p (df_unscaled d)) (df_scale d) :: acc)
        end
  end.

Definition api_step_v (v : variant) (g : gstate) (c : api_call) : gstate * result :=
  let '(g', r) := read_decs v g (effects c) [] in
  (g', if raises c then RRaised else r).

(** the code as it is today / after the repair; SF_inventory.v says which one the
    source tree corresponds to *)
Definition api_step_current := api_step_v Current.
Definition api_step_fixed := api_step_v Fixed.
Definition api_step := api_step_current.

Definition run_history (v : variant) (g : gstate) (h : list api_call) : gstate :=
  fold_left (fun g c => fst (api_step_v v g c)) h g.

(** ---- printing (correspondence protocol) ------------------------------------------- *)
Local Open Scope string_scope.

Definition show_dec (d : dec) : string :=
  (if dsign d then "1" else "0") ++ "," ++ show_Z (dcoef d) ++ "," ++ show_Z (dexp d).

Fixpoint sep_list (f : dec -> string) (l : list dec) : string :=
  match l with
  | [] => ""
  | [x] => f x
  | x :: l => f x ++ ";" ++ sep_list f l
  end.

Definition show_result (r : result) : string :=
  match r with RRaised => "raised" | ROk vs => "ok:" ++ sep_list show_dec vs end.

Definition show_bool (b : bool) : string := if b then "1" else "0".
Definition show_gstate (g : gstate) : string :=
  show_Z (prec g) ++ "," ++ show_bool (inexact g) ++ "," ++ show_bool (rounded g).

(** one line per call of a history: "<prec,inexact,rounded after the call>|<result>", joined by "/" *)
Fixpoint show_trace (v : variant) (g : gstate) (h : list api_call) : string :=
  match h with
  | [] => ""
  | c :: h =>
      let '(g', r) := api_step_v v g c in
      show_gstate g' ++ "|" ++ show_result r ++ "/" ++ show_trace v g' h
  end.
