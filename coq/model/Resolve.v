(** Schema resolution: reading with a reader schema.

    Part 1 (the CODE): [match_types], [match_schemas], [rdec] mirror
    fastavro/_read_py.py match_types / match_schemas / read_data & read_* with a
    reader schema, quirks included; [rval] is the same algorithm applied to an
    already decoded wire value instead of to bytes.

    Part 2 (the SPECIFICATION): [resolve], the Avro resolution rules the property
    C08 lists, as one function on a value decoded under the writer schema.  It is
    structural in the value, so it needs no fuel.

    Part 3: [inline], [agree] - the computable zone in which code and specification
    provably coincide (theorem C08_factor_zone_partial).

    Executable definitions only. *)
From Coq Require Import String.
From FA Require Import model.Base model.Varint model.Value model.Schema model.Float model.Utf8
                       model.Codec model.Validate model.Read.

(** result with a distinguished resolution error;
    [RErrOther] = any other exception (KeyError, TypeError, ValueError, EOFError, UnicodeDecodeError ...) *)
Inductive rres (A : Type) := ROk (x : A) | RErrResolution | RErrOther | RFuel.
Arguments ROk {A} x. Arguments RErrResolution {A}. Arguments RErrOther {A}. Arguments RFuel {A}.

Definition rbind {A B} (r : rres A) (f : A -> rres B) : rres B :=
  match r with ROk x => f x | RErrResolution => RErrResolution | RErrOther => RErrOther | RFuel => RFuel end.
Notation "'let+' x ':=' e 'in' f" := (rbind e (fun x => f))
  (at level 200, x pattern, right associativity).

Definition of_res {A} (r : res A) : rres A :=
  match r with Ok x => ROk x | Err => RErrOther | OutOfFuel => RFuel end.

(** one step of by-name resolution + removal of annotations (Read.resolve); the name [resolve] is
    used for the specification below *)
Definition deref (e : env) (s : schema) : schema := Read.resolve e s.

(* ------------------------------------------------------------------------------------------ *)
(** * Part 1: the code *)

(** the Python shape of a parsed schema: list / dict / str *)
Definition is_list (s : schema) : bool := match s with SUnion _ => true | _ => false end.
Definition is_str (s : schema) : bool :=
  match s with
  | SNull | SBool | SInt | SLong | SFloat | SDouble | SBytes | SString | SRef _ => true
  | _ => false
  end.
Definition is_dict (s : schema) : bool := negb (is_list s) && negb (is_str s).

(** extract_record_type: schema["type"] of a dict, "union" for a list, the string itself otherwise *)
Inductive tag :=
| TNull | TBool | TInt | TLong | TFloat | TDouble | TBytes | TString
| TFixed | TEnum | TArray | TMap | TUnion | TRecord
| TName (n : str).

Definition tag_of (s : schema) : tag :=
  match strip s with
  | SNull => TNull | SBool => TBool | SInt => TInt | SLong => TLong | SFloat => TFloat | SDouble => TDouble
  | SBytes => TBytes | SString => TString
  | SFixed _ _ _ => TFixed | SEnum _ _ _ _ => TEnum | SArray _ => TArray | SMap _ => TMap
  | SUnion _ => TUnion | SRecord _ _ _ => TRecord | SRef n => TName n
  | SAnnot _ _ => TUnion   (* unreachable: strip removes annotations *)
  end.

Definition tag_eqb (a b : tag) : bool :=
  match a, b with
  | TNull, TNull | TBool, TBool | TInt, TInt | TLong, TLong | TFloat, TFloat | TDouble, TDouble
  | TBytes, TBytes | TString, TString | TFixed, TFixed | TEnum, TEnum | TArray, TArray | TMap, TMap
  | TUnion, TUnion | TRecord, TRecord => true
  | TName n, TName m => bytes_eqb n m
  | _, _ => false
  end.

(* the promotion table of match_types *)
Definition promotable (a b : tag) : bool :=
  match a, b with
  | TInt, (TLong | TFloat | TDouble) => true
  | TLong, (TFloat | TDouble) => true
  | TFloat, TDouble => true
  | TString, TBytes | TBytes, TString => true
  | _, _ => false
  end.

Definition in_named_types (t : tag) : bool := match t with TFixed | TEnum | TRecord => true | _ => false end.
Definition in_avro_types (t : tag) : bool := match t with TName _ => false | _ => true end.

Definition name_of (s : schema) : option str :=
  match strip s with SFixed n _ _ | SEnum n _ _ _ | SRecord n _ _ => Some n | _ => None end.
Definition aliases_of (s : schema) : list str :=
  match strip s with SFixed _ al _ | SEnum _ al _ _ | SRecord _ al _ => al | _ => [] end.

Definition mem (x : str) (l : list str) : bool := existsb (bytes_eqb x) l.

(* name.split(".")[-1] *)
Fixpoint unqual (n : str) : str :=
  match n with
  | [] => []
  | c :: n' => if has_dot n' then unqual n' else if c =? dot then n' else c :: n'
  end.

(* the name test of match_schemas *)
Definition names_match (wn rn : str) (ral : list str) : bool :=
  bytes_eqb (unqual wn) (unqual rn) || mem wn ral || mem (unqual wn) ral.

(* _deref: a by-name reference stands for the definition it names (any str is looked up; only names are keys) *)
Definition deref1 (e : env) (s : schema) : schema :=
  match s with
  | SRef n => match lookup e n with Some d => d | None => s end
  | _ => s
  end.

(* _match_type_names(writer_type, reader_type, level) *)
Definition match_type_names (a b : tag) (level : nat) : bool :=
  tag_eqb a b || ((2 <=? level)%nat && promotable a b).

(* `for schema in r_union: if match_types(w, schema, level): return schema` *)
Fixpoint find_branch (mt : schema -> rres bool) (bs : list schema) : rres (option schema) :=
  match bs with
  | [] => ROk None
  | b :: bs => let+ x := mt b in if x then ROk (Some b) else find_branch mt bs
  end.

(* _reader_branch: levels 0, 1, 2 in turn *)
Definition reader_branch (mt : nat -> schema -> rres bool) (bs : list schema) : rres (option schema) :=
  let+ x := find_branch (mt 0%nat) bs in
  match x with
  | Some b => ROk (Some b)
  | None => let+ x := find_branch (mt 1%nat) bs in
            match x with
            | Some b => ROk (Some b)
            | None => find_branch (mt 2%nat) bs
            end
  end.

Definition check_match (b : rres bool) (ok : schema) : rres schema :=
  let+ x := b in if x then ROk ok else RErrResolution.

(** level 0: the same type (a named type: the same full name); 1: named types also by unqualified name or
    reader alias; 2: promotions, too.  The bodies of the two mutually recursive functions, open in the other one. *)
Definition match_types_body (we re : env) (ms : nat -> schema -> schema -> rres schema) (level : nat) (w r : schema)
  : rres bool :=
  let w := deref1 we w in
  let r := deref1 re r in
  if is_list w || is_list r then ROk true
  else if is_dict w || is_dict r then
    match ms level w r with
    | ROk _ => ROk true
    | RErrResolution => ROk false
    | RErrOther => RErrOther
    | RFuel => RFuel
    end
  else ROk (match_type_names (tag_of w) (tag_of r) level).

(* two named types (dict forms): same kind, same size for fixed, names according to the level *)
Definition named_pair (level : nat) (sw sr : schema) : rres bool :=
  match sw, sr with
  | SFixed wn _ wsz, SFixed rn ral rsz =>
      ROk ((wsz =? rsz) && (bytes_eqb wn rn || ((1 <=? level)%nat && names_match wn rn ral)))
  | SEnum wn _ _ _, SEnum rn ral _ _ | SRecord wn _ _, SRecord rn ral _ =>
      ROk (bytes_eqb wn rn || ((1 <=? level)%nat && names_match wn rn ral))
  | _, _ => ROk false
  end.

(* match_schemas once both schemas are dereferenced; [None] = "the reader schema as given", [Some b] = a branch of the
   reader union *)
Definition match_schemas_core (mt : nat -> schema -> schema -> rres bool) (level : nat) (w r : schema)
  : rres (option schema) :=
  if is_list w then ROk None      (* writer union: checked in read_union once the branch is known *)
  else match r with
  | SUnion bs =>
      let+ x := reader_branch (fun l => mt l w) bs in
      match x with Some b => ROk (Some b) | None => RErrResolution end
  | _ =>
    let wt := tag_of w in
    let rt := tag_of r in
    let verdict (b : rres bool) : rres (option schema) := let+ x := b in if x then ROk None else RErrResolution in
    match strip w, strip r with
    | SMap wv, SMap rv => verdict (mt 2%nat wv rv)
    | SArray wi, SArray ri => verdict (mt 2%nat wi ri)
    | sw, sr =>
      if in_named_types wt && in_named_types rt then verdict (named_pair level sw sr)
      else verdict (ROk (match_type_names wt rt level))
    end
  end.

Definition match_schemas_body (we re : env) (mt : nat -> schema -> schema -> rres bool) (level : nat) (w r : schema)
  : rres schema :=
  let+ o := match_schemas_core mt level (deref1 we w) (deref1 re r) in
  ROk (match o with Some b => b | None => r end).   (* a by-name reference is returned as the name it is *)

Fixpoint match_types (f : nat) (we re : env) (level : nat) (w r : schema) {struct f} : rres bool :=
  match f with
  | O => RFuel
  | S f => match_types_body we re (match_schemas f we re) level w r
  end
with match_schemas (f : nat) (we re : env) (level : nat) (w r : schema) {struct f} : rres schema :=
  match f with
  | O => RFuel
  | S f => match_schemas_body we re (match_types f we re) level w r
  end.

(** the recursion of match_* descends through array items / map values of the writer schema and makes
    at most one by-name step at the end: this much fuel is always enough *)
Fixpoint amdepth (s : schema) : nat :=
  match s with SArray s | SMap s => S (amdepth s) | SAnnot _ s => amdepth s | _ => O end.   (* annotations cost no step *)
Definition mfuel (w : schema) : nat := 2 * amdepth w + 8.

Definition match_top (we re : env) (w r : schema) : rres schema := match_schemas (mfuel w) we re 2 w r.
Definition match_types_top (we re : env) (level : nat) (w r : schema) : rres bool := match_types (mfuel w) we re level w r.

(** `if reader_schema:` - an empty list is falsy *)
Definition truthy (r : option schema) : option schema :=
  match r with Some (SUnion []) => None | x => x end.

(** a Python float holding an Avro "float" is a binary32 value widened to binary64:
    unpack("<f", pack("<f", x))[0] *)
Definition round32 (d : Z) : rres Z := let+ s := of_res (d2s d) in ROk (s2d s).

(** maybe_promote(data, writer type name, reader type name) *)
Definition maybe_promote (v : pyval) (wt rt : tag) : rres pyval :=
  match wt, rt, v with
  | (TInt | TLong), TDouble, PInt z => let+ d := of_res (z2d z) in ROk (PFloat d)          (* float(data) *)
  | (TInt | TLong), TFloat, PInt z =>
      let+ d := of_res (z2d z) in let+ x := round32 d in ROk (PFloat x)                   (* rounded to binary32 *)
  | TString, TBytes, PStr s => ROk (PBytes s)                           (* data.encode() *)
  | TBytes, TString, PBytes b => if utf8_valid b then ROk (PStr b) else RErrOther   (* data.decode() *)
  | _, _, _ => ROk v
  end.

Definition promote_with (wt : tag) (R : option schema) (v : pyval) : rres pyval :=
  match R with Some r => maybe_promote v wt (tag_of r) | None => ROk v end.

(** reader fields by name, as read_record builds its two dicts (insertion order, last value wins) *)
Fixpoint tbl_set {A} (d : list (str * A)) (k : str) (v : A) : list (str * A) :=
  match d with
  | [] => [(k, v)]
  | (k', v') :: d => if bytes_eqb k' k then (k', v) :: d else (k', v') :: tbl_set d k v
  end.
Fixpoint tbl_get {A} (d : list (str * A)) (k : str) : option A :=
  match d with
  | [] => None
  | (k', v) :: d => if bytes_eqb k' k then Some v else tbl_get d k
  end.

Definition field_table (rfs : list field) : list (str * field) :=
  fold_left (fun d f => tbl_set d (fname f) f) rfs [].
Definition alias_table (rfs : list field) : list (str * field) :=
  fold_left (fun d f => fold_left (fun d a => tbl_set d a f) (faliases f) d) rfs [].

(* readers_field_dict.get(name, aliases_field_dict.get(name)) *)
Definition reader_field (rfs : list field) (n : str) : option field :=
  match tbl_get (field_table rfs) n with
  | Some f => Some f
  | None => tbl_get (alias_table rfs) n
  end.

(** _default_matches_schema(default, schema, named types): the JSON type of the default fits the schema.
    (A str default that float() accepts also fits float / double in the code; such defaults are not generated.) *)
Definition json_fits1 (ds : schema) (d : pyval) : bool :=
  match ds, d with
  | SArray _, PList _ | (SMap _ | SRecord _ _ _), PDict _ | (SEnum _ _ _ _ | SFixed _ _ _), PStr _
  | SNull, PNone | SBool, PBool _ | (SString | SBytes), PStr _
  | (SFloat | SDouble), (PInt _ | PFloat _) | (SInt | SLong), PInt _ => true
  | _, _ => false
  end.
Definition json_fits (e : env) (s : schema) (d : pyval) : bool :=
  match deref e s with
  | SUnion bs => existsb (fun b => json_fits1 (deref e b) d) bs
  | ds => json_fits1 ds d
  end.

Fixpoint latin1_of_utf8 (s : str) : option bytes :=          (* str.encode("iso-8859-1") on the UTF-8 form of the str *)
  match s with
  | [] => Some []
  | b :: s' =>
      if b <? 128 then option_map (cons b) (latin1_of_utf8 s')
      else match s' with
           | c :: s'' => if (b =? 194) || (b =? 195)
                         then option_map (cons ((b - 192) * 64 + (c - 128))) (latin1_of_utf8 s'')
                         else None
           | [] => None
           end
  end.

Definition DFUEL : nat := 40.

(** _default_value(schema, default, named types): the JSON default as a value of the field's type; what does
    not need converting is returned as it is (the parser has checked the default against the type) *)
Fixpoint code_default (f : nat) (re : env) (r : schema) (d : pyval) {struct f} : rres pyval :=
  match f with
  | O => RFuel
  | S f =>
    match deref re r with
    | SUnion rbs =>
        (fix go rbs := match rbs with
                       | [] => ROk d
                       | b :: rbs => if json_fits re b d then code_default f re b d else go rbs
                       end) rbs
    | SBytes | SFixed _ _ _ =>
        match d with
        | PStr s => match latin1_of_utf8 s with Some b => ROk (PBytes b) | None => RErrOther end
        | _ => RErrOther
        end
    | SDouble =>
        match d with PInt z => let+ x := of_res (z2d z) in ROk (PFloat x) | PFloat x => ROk (PFloat x) | _ => RErrOther end
    | SFloat =>
        match d with
        | PInt z => let+ x := of_res (z2d z) in let+ y := round32 x in ROk (PFloat y)
        | PFloat x => let+ y := round32 x in ROk (PFloat y)
        | _ => RErrOther
        end
    | SArray ri =>
        match d with
        | PList l =>
            let+ l := (fix go l := match l with
                                   | [] => ROk []
                                   | x :: l => let+ v := code_default f re ri x in let+ t := go l in ROk (v :: t)
                                   end) l in ROk (PList l)
        | _ => RErrOther
        end
    | SMap rv =>
        match d with
        | PDict kv =>
            let+ kv := (fix go kv := match kv with
                                     | [] => ROk []
                                     | (k, x) :: kv => let+ v := code_default f re rv x in
                                                       let+ t := go kv in ROk ((k, v) :: t)
                                     end) kv in ROk (PDict kv)
        | _ => RErrOther
        end
    | SRecord _ _ rfs =>
        match d with
        | PDict kv =>
            let+ kv := (fix go rfs := match rfs with
                                      | [] => ROk []
                                      | fd :: rfs =>
                                          let+ v := match dict_get kv (fname fd), fdefault fd with
                                                    | Some x, _ => code_default f re (ftype fd) x
                                                    | None, Some x => code_default f re (ftype fd) x
                                                    | None, None => RErrOther              (* KeyError 'default' *)
                                                    end in
                                          let+ t := go rfs in ROk ((PStr (fname fd), v) :: t)
                                      end) rfs in ROk (PDict kv)
        | _ => RErrOther
        end
    | _ => ROk d
    end
  end.

(* "fill in default values" *)
Fixpoint fill_defaults (re : env) (tbl : list (str * field)) (record : list (pyval * pyval)) : rres (list (pyval * pyval)) :=
  match tbl with
  | [] => ROk record
  | (n, fd) :: tbl =>
      match dict_get record n with
      | Some _ => fill_defaults re tbl record
      | None =>
          match fdefault fd with
          | Some d => let+ v := code_default DFUEL re (ftype fd) d in
                      fill_defaults re tbl (dict_set record (fname fd) v)
          | None => RErrResolution
          end
      end
  end.

Definition finish_record (re : env) (rfs : list field) (record : list (pyval * pyval)) : rres pyval :=
  let tbl := field_table rfs in
  if len tbl >? len record
  then let+ record := fill_defaults re tbl record in ROk (PDict record)
  else ROk (PDict record).

(** naming of union results under return_record_name / return_named_type with a reader schema:
    the name comes from the matched branch of a reader UNION (idx_reader_schema), else from the writer *)
Definition dict_name (s : schema) : rres str :=     (* s["name"] *)
  if is_dict s then match name_of s with Some n => ROk n | None => RErrOther end else RErrOther.
Definition table_name (e : env) (s : schema) : rres str :=    (* named_schemas[..][s]["name"] *)
  match s with
  | SRef n => match lookup e n with Some d => dict_name d | None => RErrOther end
  | _ => RErrOther       (* unhashable dict / list, or a primitive name that is not a key *)
  end.

Definition wrap_union_r (o : ropts) (we re : env) (bs : list schema) (b : schema) (rb : option schema)
                        (result : pyval) : rres pyval :=
  (* since fix 16a5a2c: the branch that was read and the matching reader branch are looked at through their definitions *)
  let idx_def := deref1 we b in                                   (* named_schemas["writer"][idx_schema] for a name *)
  let name_def : rres schema :=
    match rb with
    | None => ROk idx_def
    | Some r => if is_dict r then ROk r
                else match r with
                     | SRef m => ROk (match lookup re m with Some d => d | None => idx_def end)   (* .get(name, idx_definition) *)
                     | SUnion _ => RErrOther                                                     (* unhashable list *)
                     | _ => ROk idx_def
                     end
    end in
  let pair := let+ d := name_def in let+ n := dict_name d in ROk (PTuple [PStr n; result]) in
  let t := tag_of idx_def in
  if ret_named_override o && (count_named we bs =? 1) then ROk result
  else if ret_named o && in_named_types t then pair
  else if ret_rec_override o && (count_records we bs =? 1) then ROk result
  else if ret_rec o && (match t with TRecord => true | _ => false end) then pair
  else ROk result.

(** array / map block loop of the binary decoder, over [rres] *)
Section RBlocks.
  Context {A : Type}.
  Variable rec : bytes -> rres (A * bytes).

  Fixpoint ritems_pos (p : positive) (bs : bytes) : rres (list A * bytes) :=
    match p with
    | xH => let+ (a, bs) := rec bs in ROk ([a], bs)
    | xO p => let+ (l1, bs) := ritems_pos p bs in
              let+ (l2, bs) := ritems_pos p bs in ROk (l1 ++ l2, bs)
    | xI p => let+ (a, bs) := rec bs in
              let+ (l1, bs) := ritems_pos p bs in
              let+ (l2, bs) := ritems_pos p bs in ROk (a :: l1 ++ l2, bs)
    end.

  Definition ritems_Z (c : Z) (bs : bytes) : rres (list A * bytes) :=
    match c with Zpos p => ritems_pos p bs | _ => ROk ([], bs) end.

  Fixpoint rblocks (k : nat) (bs : bytes) : rres (list A * bytes) :=
    match k with
    | O => RFuel
    | S k =>
        let+ (c, bs) := of_res (long_dec bs) in
        if c =? 0 then ROk ([], bs)
        else
          let+ (c, bs) := (if c <? 0 then let+ (_, bs) := of_res (long_dec bs) in ROk (- c, bs) else ROk (c, bs)) in
          let+ (l1, bs) := ritems_Z c bs in
          let+ (l2, bs) := rblocks k bs in ROk (l1 ++ l2, bs)
    end.
End RBlocks.

Definition rmap_item (rec : bytes -> rres (pyval * bytes)) (bs : bytes) : rres ((str * pyval) * bytes) :=
  let+ (k, bs) := of_res (dec_utf8 bs) in
  let+ (v, bs) := rec bs in ROk ((k, v), bs).

Definition dict_of_items (l : list (str * pyval)) : list (pyval * pyval) :=
  fold_left (fun d kv => dict_set d (fst kv) (snd kv)) l [].

(* a primitive or fixed value: what READERS[type] returns (reader schema not consulted) *)
Definition leaf_py (s : schema) (a : aval) : rres pyval :=
  match py_of ropts0 [] s a with Some v => ROk v | None => RErrOther end.
Definition read_leaf (s : schema) (bs : bytes) : rres (pyval * bytes) :=
  let+ (a, bs) := of_res (dec 1 [] s bs) in
  let+ v := leaf_py s a in ROk (v, bs).

(* read_enum's reader part, given the writer's symbol *)
Definition enum_symbol (R : option schema) (sym : str) : rres pyval :=
  match truthy R with
  | None => ROk (PStr sym)
  | Some r =>
      match r with
      | SUnion _ => RErrOther
      | _ => if is_dict r then
               match strip r with
               | SEnum _ _ rsyms rd =>
                   if mem sym rsyms then ROk (PStr sym)
                   else match rd with
                        | Some (c :: d) => ROk (PStr (c :: d))       (* `if default:` *)
                        | _ => RErrResolution
                        end
               | _ => RErrOther                                        (* KeyError 'symbols' *)
               end
             else RErrOther                                            (* str indices *)
      end
  end.

(* reader_schema["items"] / ["values"] / ["fields"] *)
Definition r_items (r : schema) : rres schema :=
  if is_dict r then match strip r with SArray ri => ROk ri | _ => RErrOther end else RErrOther.
Definition r_values (r : schema) : rres schema :=
  if is_dict r then match strip r with SMap rv => ROk rv | _ => RErrOther end else RErrOther.
Definition r_fields (r : schema) : rres (list field) :=
  if is_dict r then match strip r with SRecord _ _ rfs => ROk rfs | _ => RErrOther end else RErrOther.

(* read_data's first step: the reader schema to continue with - matched, then dereferenced *)
Definition matched (we re : env) (w : schema) (R : option schema) : rres (option schema) :=
  match truthy R with
  | Some r => let+ x := match_top we re w r in ROk (Some (deref1 re x))
  | None => ROk R
  end.

(* read_union's choice of the reader schema for the writer's branch [wb]:
   (schema handed to read_data, idx_reader_schema) *)
Definition union_reader (we re : env) (wb : schema) (R : option schema) : rres (option schema * option schema) :=
  match truthy R with
  | None => ROk (None, None)
  | Some (SUnion rbs) =>
      let+ x := reader_branch (fun l => match_types_top we re l wb) rbs in
      match x with Some b => ROk (Some b, Some b) | None => RErrResolution end
  | Some r =>
      let+ x := match_types_top we re 2 wb r in
      if x then ROk (Some r, None) else RErrResolution
  end.

Section RFields.
  (* rec writer-type reader-type bytes *)
  Variable rec : schema -> option schema -> bytes -> rres (pyval * bytes).
  Variable skp : schema -> bytes -> res (unit * bytes).

  Fixpoint rfields_plain (wfs : list field) (record : list (pyval * pyval)) (bs : bytes)
    : rres (list (pyval * pyval) * bytes) :=
    match wfs with
    | [] => ROk (record, bs)
    | wf :: wfs => let+ (v, bs) := rec (ftype wf) None bs in
                   rfields_plain wfs (dict_set record (fname wf) v) bs
    end.

  Fixpoint rfields (rfs : list field) (wfs : list field) (record : list (pyval * pyval)) (bs : bytes)
    : rres (list (pyval * pyval) * bytes) :=
    match wfs with
    | [] => ROk (record, bs)
    | wf :: wfs =>
        match reader_field rfs (fname wf) with
        | Some rf => let+ (v, bs) := rec (ftype wf) (Some (ftype rf)) bs in
                     rfields rfs wfs (dict_set record (fname rf) v) bs
        | None => let+ (_, bs) := of_res (skp (ftype wf) bs) in rfields rfs wfs record bs
        end
    end.
End RFields.

(** read_data(decoder, writer_schema, named_schemas, reader_schema, options) *)
Fixpoint rdec (f : nat) (we re : env) (o : ropts) (w : schema) (R : option schema) (bs : bytes) {struct f}
  : rres (pyval * bytes) :=
  match f with
  | O => RFuel
  | S f =>
    let+ R' := matched we re w R in
    let+ (v, bs) :=
      match strip w with
      | SRef n =>                                                      (* not in READERS: by-name step *)
          match lookup we n with
          | None => RErrOther
          | Some w' => rdec f we re o w' R' bs
          end
      | SArray wi =>
          let item bs := match truthy R' with
                         | Some r => let+ ri := r_items r in rdec f we re o wi (Some ri) bs
                         | None => rdec f we re o wi None bs
                         end in
          let+ (l, bs) := rblocks item (S f) bs in ROk (PList l, bs)
      | SMap wv =>
          let item bs := match truthy R' with
                         | Some r => let+ rv := r_values r in rdec f we re o wv (Some rv) bs
                         | None => rdec f we re o wv None bs
                         end in
          let+ (l, bs) := rblocks (rmap_item item) (S f) bs in ROk (PDict (dict_of_items l), bs)
      | SUnion wbs =>
          let+ (i, bs) := of_res (long_dec bs) in
          match nthZ wbs i with
          | None => RErrOther
          | Some wb =>
              let+ (rb, idx_reader) := union_reader we re wb R' in
              let+ (v, bs) := rdec f we re o wb rb bs in
              let+ v := wrap_union_r o we re wbs wb idx_reader v in ROk (v, bs)
          end
      | SRecord _ _ wfs =>
          match R' with
          | None => let+ (record, bs) := rfields_plain (rdec f we re o) wfs [] bs in ROk (PDict record, bs)
          | Some r =>
              let+ rfs := r_fields r in
              let+ (record, bs) := rfields (rdec f we re o) (skip f we) rfs wfs [] bs in
              let+ v := finish_record re rfs record in ROk (v, bs)
          end
      | SEnum _ _ syms _ =>
          let+ (i, bs) := of_res (long_dec bs) in
          match nthZ syms i with
          | None => RErrOther
          | Some sym => let+ v := enum_symbol R' sym in ROk (v, bs)
          end
      | SAnnot _ _ => RErrOther
      | s => read_leaf s bs
      end in
    match strip w with
    | SRef _ => ROk (v, bs)
    | _ => let+ v := promote_with (tag_of w) R' v in ROk (v, bs)
    end
  end.

(** the same algorithm on a value already decoded under the writer schema *)
Section VFields.
  Variable rec : schema -> option schema -> aval -> rres pyval.
  Fixpoint vfields_plain (wfs : list field) (l : list aval) (record : list (pyval * pyval))
    : rres (list (pyval * pyval)) :=
    match wfs, l with
    | [], [] => ROk record
    | wf :: wfs, a :: l => let+ v := rec (ftype wf) None a in vfields_plain wfs l (dict_set record (fname wf) v)
    | _, _ => RErrOther
    end.
  Fixpoint vfields (rfs : list field) (wfs : list field) (l : list aval) (record : list (pyval * pyval))
    : rres (list (pyval * pyval)) :=
    match wfs, l with
    | [], [] => ROk record
    | wf :: wfs, a :: l =>
        match reader_field rfs (fname wf) with
        | Some rf => let+ v := rec (ftype wf) (Some (ftype rf)) a in
                     vfields rfs wfs l (dict_set record (fname rf) v)
        | None => vfields rfs wfs l record
        end
    | _, _ => RErrOther
    end.
  Fixpoint vitems (rec1 : aval -> rres pyval) (l : list aval) : rres (list pyval) :=
    match l with
    | [] => ROk []
    | a :: l => let+ v := rec1 a in let+ r := vitems rec1 l in ROk (v :: r)
    end.
  Fixpoint vmap_items (rec1 : aval -> rres pyval) (l : list (bytes * aval)) : rres (list (str * pyval)) :=
    match l with
    | [] => ROk []
    | (k, a) :: l => let+ v := rec1 a in let+ r := vmap_items rec1 l in ROk ((k, v) :: r)
    end.
End VFields.

Fixpoint rval (f : nat) (we re : env) (o : ropts) (w : schema) (R : option schema) (a : aval) {struct f}
  : rres pyval :=
  match f with
  | O => RFuel
  | S f =>
    let+ R' := matched we re w R in
    let+ v :=
      match strip w, a with
      | SRef n, _ =>
          match lookup we n with
          | None => RErrOther
          | Some w' => rval f we re o w' R' a
          end
      | SArray wi, AArray l =>
          let item a := match truthy R' with
                        | Some r => let+ ri := r_items r in rval f we re o wi (Some ri) a
                        | None => rval f we re o wi None a
                        end in
          let+ l := vitems item l in ROk (PList l)
      | SMap wv, AMap l =>
          let item a := match truthy R' with
                        | Some r => let+ rv := r_values r in rval f we re o wv (Some rv) a
                        | None => rval f we re o wv None a
                        end in
          let+ l := vmap_items item l in ROk (PDict (dict_of_items l))
      | SUnion wbs, AUnion i x =>
          match nthZ wbs i with
          | None => RErrOther
          | Some wb =>
              let+ (rb, idx_reader) := union_reader we re wb R' in
              let+ v := rval f we re o wb rb x in
              wrap_union_r o we re wbs wb idx_reader v
          end
      | SRecord _ _ wfs, ARecord l =>
          match R' with
          | None => let+ record := vfields_plain (rval f we re o) wfs l [] in ROk (PDict record)
          | Some r =>
              let+ rfs := r_fields r in
              let+ record := vfields (rval f we re o) rfs wfs l [] in
              finish_record re rfs record
          end
      | SEnum _ _ syms _, AEnum i =>
          match nthZ syms i with
          | None => RErrOther
          | Some sym => enum_symbol R' sym
          end
      | SAnnot _ _, _ => RErrOther
      | (SArray _ | SMap _ | SUnion _ | SRecord _ _ _ | SEnum _ _ _ _), _ => RErrOther
      | s, a => leaf_py s a
      end in
    match strip w with
    | SRef _ => ROk v
    | _ => promote_with (tag_of w) R' v
    end
  end.

(* ------------------------------------------------------------------------------------------ *)
(** * Part 2: the specification

    [resolve we re w r a]: the Python value the Avro resolution rules prescribe for the value [a]
    (decoded under the writer schema [w], names in [we]) when it is read with the reader schema [r]
    (names in [re]); [RErrResolution] when no rule applies.  By-name references are followed on both
    sides before anything is compared, so inline definitions and references are interchangeable. *)

(** promotions ([round32]: to single precision and back) *)
Definition int_to_float (z : Z) : rres pyval := let+ d := of_res (z2d z) in let+ x := round32 d in ROk (PFloat x).
Definition int_to_double (z : Z) : rres pyval := let+ d := of_res (z2d z) in ROk (PFloat d).

(** "the schemas match" (Avro specification, Schema Resolution); [promo = false]: same type only.
    References are followed one step on each side; named types match by unqualified name or reader alias. *)
Definition named_match (dw dr : schema) : bool :=
  match dw, dr with
  | SEnum wn _ _ _, SEnum rn ral _ _ => names_match wn rn ral
  | SFixed wn _ wsz, SFixed rn ral rsz => names_match wn rn ral && (wsz =? rsz)
  | SRecord wn _ _, SRecord rn ral _ => names_match wn rn ral
  | _, _ => false
  end.

Definition prim_match (promo : bool) (dw dr : schema) : bool :=
  match dw, dr with
  | SNull, SNull | SBool, SBool | SInt, SInt | SLong, SLong | SFloat, SFloat | SDouble, SDouble
  | SBytes, SBytes | SString, SString => true
  | SInt, (SLong | SFloat | SDouble) | SLong, (SFloat | SDouble) | SFloat, SDouble
  | SString, SBytes | SBytes, SString => promo
  | _, _ => false
  end.

Fixpoint smatch (we re : env) (promo : bool) (w r : schema) {struct w} : bool :=
  match deref re r with
  | SUnion _ => true
  | dr =>
      match w with
      | SAnnot _ w' => smatch we re promo w' r
      | SUnion _ => true
      | SArray wi => match dr with SArray ri => smatch we re true wi ri | _ => false end
      | SMap wv => match dr with SMap rv => smatch we re true wv rv | _ => false end
      | SRef _ => named_match (deref we w) dr
      | SFixed _ _ _ | SEnum _ _ _ _ | SRecord _ _ _ => named_match w dr
      | _ => prim_match promo w dr
      end
  end.

(** the very same named type: same kind and same full name *)
Definition same_named (we re : env) (w b : schema) : bool :=
  match deref we w, deref re b with
  | SEnum wn _ _ _, SEnum rn _ _ _ | SRecord wn _ _, SRecord rn _ _ => bytes_eqb wn rn
  | SFixed wn _ wsz, SFixed rn _ rsz => bytes_eqb wn rn && (wsz =? rsz)
  | _, _ => false
  end.

(** writer not a union, reader a union: the first branch of the same type (a named type of the same
    full name first, then one that matches by unqualified name or alias), otherwise the first
    reachable by promotion *)
Definition pick_branch (we re : env) (w : schema) (rbs : list schema) : option schema :=
  match find (same_named we re w) rbs with
  | Some b => Some b
  | None =>
      match find (smatch we re false w) rbs with
      | Some b => Some b
      | None => find (smatch we re true w) rbs
      end
  end.

(** the reader schema a non-union writer schema is resolved against *)
Definition reader_side (we re : env) (w r : schema) : option schema :=
  match deref re r with
  | SUnion rbs => match pick_branch we re w rbs with
                  | Some b => match deref re b with SUnion _ => None | db => Some db end
                  | None => None
                  end
  | dr => Some dr
  end.

(** JSON default of a reader field as a value of the field's type; for a union: of the first branch the
    default's JSON type fits *)
Fixpoint default_value (f : nat) (re : env) (r : schema) (d : pyval) {struct f} : rres pyval :=
  match f with
  | O => RFuel
  | S f =>
    match deref re r, d with
    | SNull, PNone => ROk PNone
    | SBool, PBool b => ROk (PBool b)
    | (SInt | SLong), PInt z => ROk (PInt z)
    | SFloat, PInt z => int_to_float z
    | SFloat, PFloat x => let+ y := round32 x in ROk (PFloat y)
    | SDouble, PInt z => int_to_double z
    | SDouble, PFloat x => ROk (PFloat x)
    | SString, PStr s => ROk (PStr s)
    | (SBytes | SFixed _ _ _), PStr s =>
        match latin1_of_utf8 s with Some b => ROk (PBytes b) | None => RErrOther end
    | SEnum _ _ _ _, PStr s => ROk (PStr s)
    | SArray ri, PList l =>
        let+ l := (fix go l := match l with
                               | [] => ROk []
                               | x :: l => let+ v := default_value f re ri x in let+ t := go l in ROk (v :: t)
                               end) l in ROk (PList l)
    | SMap rv, PDict kv =>
        let+ kv := (fix go kv := match kv with
                                 | [] => ROk []
                                 | (k, x) :: kv => let+ v := default_value f re rv x in
                                                   let+ t := go kv in ROk ((k, v) :: t)
                                 end) kv in ROk (PDict kv)
    | SRecord _ _ rfs, PDict kv =>
        let+ kv := (fix go rfs := match rfs with
                                  | [] => ROk []
                                  | fd :: rfs =>
                                      let+ v := match dict_get kv (fname fd), fdefault fd with
                                                | Some x, _ => default_value f re (ftype fd) x
                                                | None, Some x => default_value f re (ftype fd) x
                                                | None, None => RErrOther
                                                end in
                                      let+ t := go rfs in ROk ((PStr (fname fd), v) :: t)
                                  end) rfs in ROk (PDict kv)
    | SUnion rbs, d =>
        (fix go rbs := match rbs with
                       | [] => RErrOther
                       | b :: rbs => if json_fits re b d then default_value f re b d else go rbs
                       end) rbs
    | _, _ => RErrOther
    end
  end.

(** reader-only fields: every reader field whose name is not yet a key gets its default *)
Fixpoint spec_defaults (re : env) (tbl : list (str * field)) (record : list (pyval * pyval))
  : rres (list (pyval * pyval)) :=
  match tbl with
  | [] => ROk record
  | (n, fd) :: tbl =>
      match dict_get record n, fdefault fd with
      | Some _, _ => spec_defaults re tbl record
      | None, Some d => let+ v := default_value DFUEL re (ftype fd) d in
                        spec_defaults re tbl (dict_set record (fname fd) v)
      | None, None => RErrResolution
      end
  end.

(** the loops of [resolve] over array items, map entries and record fields *)
Section SpecLoops.
  Variable rec : schema -> schema -> aval -> rres pyval.

  Fixpoint res_items (wi ri : schema) (l : list aval) : rres (list pyval) :=
    match l with
    | [] => ROk []
    | x :: l => let+ v := rec wi ri x in let+ t := res_items wi ri l in ROk (v :: t)
    end.

  Fixpoint res_entries (wv rv : schema) (l : list (bytes * aval)) : rres (list (str * pyval)) :=
    match l with
    | [] => ROk []
    | (k, x) :: l => let+ v := rec wv rv x in let+ t := res_entries wv rv l in ROk ((k, v) :: t)
    end.

  (* writer fields in turn: resolved against the reader field of that name (or alias), or dropped *)
  Fixpoint res_fields (rfs wfs : list field) (l : list aval) (record : list (pyval * pyval)) {struct l}
    : rres (list (pyval * pyval)) :=
    match wfs, l with
    | [], [] => ROk record
    | wf :: wfs, x :: l =>
        match reader_field rfs (fname wf) with
        | Some rf => let+ v := rec (ftype wf) (ftype rf) x in
                     res_fields rfs wfs l (dict_set record (fname rf) v)
        | None => res_fields rfs wfs l record
        end
    | _, _ => RErrOther
    end.
End SpecLoops.

(** the reader options return_named_type / return_record_name (and their _override variants): the value read from a
    writer union is paired with the name of its type - the name the READER calls it by when the reader schema is a
    union, too.  The decision looks at the definition of the branch that was written. *)
Definition union_pick (we re : env) (wb r : schema) : option schema :=     (* the branch of a reader union the rules pick *)
  match deref re r with
  | SUnion rbs => pick_branch we re (deref we wb) rbs
  | _ => None
  end.

Definition wrap_spec (o : ropts) (we re : env) (wbs : list schema) (wb : schema) (rb : option schema) (result : pyval)
  : rres pyval :=
  let k := branch_kind we wb in
  let name := match rb with
              | Some b => option_map fst (branch_kind re b)
              | None => option_map fst k
              end in
  let pair := match name with Some n => ROk (PTuple [PStr n; result]) | None => RErrOther end in
  if ret_named_override o && (count_named we wbs =? 1) then ROk result
  else match (if ret_named o then k else None) with
       | Some _ => pair
       | None =>
           if ret_rec_override o && (count_records we wbs =? 1) then ROk result
           else match (if ret_rec o then k else None) with
                | Some (_, true) => pair
                | _ => ROk result
                end
       end.

Fixpoint resolve (o : ropts) (we re : env) (w r : schema) (a : aval) {struct a} : rres pyval :=
  let dw := deref we w in
  let dr := reader_side we re dw r in        (* None: no branch of a reader union matches *)
  match dw, a with
  (* writer union: the branch the datum was written with is resolved against the reader schema *)
  | SUnion wbs, AUnion i x =>
      match nthZ wbs i with
      | Some wb => let+ v := resolve o we re wb r x in
                   wrap_spec o we re wbs wb (union_pick we re wb r) v      (* (name, value) under the reader options *)
      | None => RErrOther
      end
  (* primitive types: the same type, or a promotion *)
  | SNull, ANull => match dr with Some SNull => ROk PNone | _ => RErrResolution end
  | SBool, ABool b => match dr with Some SBool => ROk (PBool b) | _ => RErrResolution end
  | SInt, AInt z =>
      match dr with
      | Some (SInt | SLong) => ROk (PInt z)
      | Some SFloat => int_to_float z
      | Some SDouble => int_to_double z
      | _ => RErrResolution
      end
  | SLong, AInt z =>
      match dr with
      | Some SLong => ROk (PInt z)
      | Some SFloat => int_to_float z
      | Some SDouble => int_to_double z
      | _ => RErrResolution
      end
  | SFloat, AFloat b => match dr with Some (SFloat | SDouble) => ROk (PFloat (s2d b)) | _ => RErrResolution end
  | SDouble, ADouble b => match dr with Some SDouble => ROk (PFloat b) | _ => RErrResolution end
  | SBytes, ABytes b =>
      match dr with
      | Some SBytes => ROk (PBytes b)
      | Some SString => if utf8_valid b then ROk (PStr b) else RErrOther
      | _ => RErrResolution
      end
  | SString, AString s =>
      match dr with
      | Some SString => ROk (PStr s)
      | Some SBytes => ROk (PBytes s)
      | _ => RErrResolution
      end
  (* named types: same kind, unqualified name or reader alias; fixed: same size *)
  | SFixed wn _ wsz, AFixed b =>
      match dr with
      | Some (SFixed rn ral rsz) =>
          if names_match wn rn ral && (wsz =? rsz) then ROk (PBytes b) else RErrResolution
      | _ => RErrResolution
      end
  | SEnum wn _ wsyms _, AEnum i =>
      match dr with
      | Some (SEnum rn ral rsyms rdflt) =>
          if names_match wn rn ral then
            match nthZ wsyms i with
            | None => RErrOther
            | Some sym => if mem sym rsyms then ROk (PStr sym)
                          else match rdflt with
                               | Some d => ROk (PStr d)             (* the reader's enum default *)
                               | None => RErrResolution
                               end
            end
          else RErrResolution
      | _ => RErrResolution
      end
  | SRecord wn _ wfs, ARecord l =>
      match dr with
      | Some (SRecord rn ral rfs) =>
          if names_match wn rn ral then
            let+ record := res_fields (resolve o we re) rfs wfs l [] in
            (* reader-only fields from their defaults *)
            let+ record := spec_defaults re (field_table rfs) record in
            ROk (PDict record)
          else RErrResolution
      | _ => RErrResolution
      end
  (* arrays and maps: the item schemas must match; items are resolved one by one *)
  | SArray wi, AArray l =>
      match dr with
      | Some (SArray ri) =>
          if smatch we re true wi ri then
            let+ l := res_items (resolve o we re) wi ri l in ROk (PList l)
          else RErrResolution
      | _ => RErrResolution
      end
  | SMap wv, AMap l =>
      match dr with
      | Some (SMap rv) =>
          if smatch we re true wv rv then
            let+ l := res_entries (resolve o we re) wv rv l in ROk (PDict (dict_of_items l))
          else RErrResolution
      | _ => RErrResolution
      end
  | _, _ => RErrOther              (* the value does not fit the writer schema / undefined reference *)
  end.


(* ------------------------------------------------------------------------------------------ *)
(** * Part 3: the agreement zone (computable side condition of theorem C08_factor_zone_partial) *)

Definition is_union (s : schema) : bool := match s with SUnion _ => true | _ => false end.


Definition is_prim (s : schema) : bool :=
  match s with SNull | SBool | SInt | SLong | SFloat | SDouble | SBytes | SString => true | _ => false end.

(** schemas without by-name references; annotations only as the dict form of a primitive ({"type": "int", ...});
    unions are not nested *)
Fixpoint inline (s : schema) : bool :=
  match s with
  | SRef _ => false
  | SAnnot _ p => is_prim p
  | SArray s | SMap s => inline s
  | SUnion bs => forallb (fun b => negb (is_union b) && inline b) bs
  | SRecord _ _ fs => forallb (fun f => inline (ftype f)) fs
  | _ => true
  end.

(** positions instead of schemas: which reader branch is picked *)
Fixpoint find_idx {A} (P : A -> bool) (l : list A) : option nat :=
  match l with
  | [] => None
  | x :: l => if P x then Some O else option_map S (find_idx P l)
  end.


Definition spec_idx (we re : env) (w : schema) (rbs : list schema) : option nat :=
  match find_idx (same_named we re w) rbs with
  | Some k => Some k
  | None => match find_idx (smatch we re false w) rbs with
            | Some k => Some k
            | None => find_idx (smatch we re true w) rbs
            end
  end.


(** the JSON defaults of the reader's fields are well-formed defaults of their types *)
Definition defaults_ok_tbl (re : env) (tbl : list (str * field)) : bool :=
  forallb (fun e => match fdefault (snd e) with
                    | Some d => match default_value DFUEL re (ftype (snd e)) d with ROk _ => true | _ => false end
                    | None => true end) tbl.
Definition defaults_ok (re : env) (rfs : list field) : bool := defaults_ok_tbl re (field_table rfs).

Definition truthy_ok (r : schema) : bool := match r with SUnion [] => false | _ => true end.

(** *** the agreement zone.  It follows the SPECIFICATION's own traversal of the two schemas (which reader branch
    [spec_idx] picks, which pairs [smatch]) and asks, at the pairs reached, for the three things in which the code
    still differs from the rules on well-formed input: the reader schema is not the empty union (which the code takes
    for "no reader schema"), a reader enum's default is not the empty string (`if default:`), and the JSON defaults
    of the reader's fields are well-formed (on a malformed one the code returns the JSON object, the rules nothing). *)
Fixpoint agree (we re : env) (w r : schema) {struct w} : bool :=
  let sub (b : schema) : bool :=
    match w, b with
    | SEnum _ _ _ _, SEnum _ _ _ (Some []) => false
    | SArray wi, SArray ri => agree we re wi ri
    | SMap wv, SMap rv => agree we re wv rv
    | SRecord _ _ wfs, SRecord _ _ rfs =>
        forallb (fun wf => match reader_field rfs (fname wf) with
                           | Some rf => agree we re (ftype wf) (ftype rf)
                           | None => true end) wfs
        && defaults_ok re rfs
    | _, _ => true
    end in
  truthy_ok r &&
  match w with
  | SUnion wbs =>
      forallb (fun wb =>
        match r with
        | SUnion rbs => match spec_idx we re wb rbs with
                        | Some k => match nth_error rbs k with Some b => agree we re wb b | None => true end
                        | None => true
                        end
        | _ => if smatch we re true wb r then agree we re wb r else true
        end) wbs
  | _ =>
      match r with
      | SUnion rbs => match spec_idx we re w rbs with
                      | Some k => match nth_error rbs k with Some b => sub b | None => true end
                      | None => true
                      end
      | _ => if smatch we re true w r then sub r else true
      end
  end.

(** *** the zone with by-name references (recursive types included): the same conditions, followed through the
    named-type tables; [k] bounds the depth to which the two schemas are followed (the height of the value) *)
Definition named_core (d : schema) : bool :=
  match d with SFixed _ _ _ | SEnum _ _ _ _ | SRecord _ _ _ => true | _ => false end.

(* every reference resolves to a named type; annotations only as dict-form primitives; unions not nested *)
Fixpoint scoped (e : env) (s : schema) : bool :=
  match s with
  | SRef n => match lookup e n with Some d => named_core d | None => false end
  | SAnnot _ p => is_prim p
  | SArray s | SMap s => scoped e s
  | SUnion bs => forallb (fun b => negb (is_union b) && scoped e b) bs
  | SRecord _ _ fs => forallb (fun f => scoped e (ftype f)) fs
  | _ => true
  end.
Definition env_scoped (e : env) : bool := forallb (fun nd => named_core (snd nd) && scoped e (snd nd)) e.

(* which reader schema the writer schema [w] meets: the branch of a reader union the rules pick ([on_branch]), or the
   reader schema itself, dereferenced, when the two match ([on_plain]) *)
Definition on_reader (we re : env) (w r : schema) (on_branch on_plain : schema -> bool) : bool :=
  match deref1 re r with
  | SUnion rbs => match spec_idx we re w rbs with
                  | Some j => match nth_error rbs j with Some b => on_branch b | None => true end
                  | None => true
                  end
  | _ => if smatch we re true w r then on_plain (deref1 re r) else true
  end.

Fixpoint agreen (k : nat) (we re : env) (w r : schema) {struct k} : bool :=
  match k with
  | O => true          (* nothing is visited beyond the depth of the value *)
  | S k =>
    let node (w' b : schema) : bool :=          (* a writer schema that is no union / reference meets the reader schema b *)
      match w', b with
      | SEnum _ _ _ _, SEnum _ _ _ (Some []) => false
      | SArray wi, SArray ri => agreen k we re wi ri
      | SMap wv, SMap rv => agreen k we re wv rv
      | SRecord _ _ wfs, SRecord _ _ rfs =>
          forallb (fun wf => match reader_field rfs (fname wf) with
                             | Some rf => agreen k we re (ftype wf) (ftype rf)
                             | None => true end) wfs
          && defaults_ok re rfs
      | _, _ => true
      end in
    truthy_ok r &&
    match w with
    | SRef nm =>
        match lookup we nm with
        | None => false
        | Some wd =>      (* the definition meets the reader schema one level down *)
            on_reader we re w r (fun b => agreen k we re wd (deref1 re b)) (fun rd => agreen k we re wd rd)
        end
    | SUnion wbs =>
        forallb (fun wb => on_reader we re wb r (fun b => agreen k we re wb b) (fun rd => agreen k we re wb rd)) wbs
    | _ => on_reader we re w r (fun b => node w (deref1 re b)) (fun rd => node w rd)
    end
  end.

(** *** the zone with references, without a depth: a finite set of pairs (writer schema, reader schema) that
    contains the pair in question, in which every pair satisfies the conditions of [agreen] locally, and which is closed
    under "the pairs visited next".  [agree_step rec] is one level of [agreen] with [rec] for the deeper levels. *)
Definition agree_step (rec : schema -> schema -> bool) (we re : env) (w r : schema) : bool :=
  let node (w' b : schema) : bool :=
    match w', b with
    | SEnum _ _ _ _, SEnum _ _ _ (Some []) => false
    | SArray wi, SArray ri => rec wi ri
    | SMap wv, SMap rv => rec wv rv
    | SRecord _ _ wfs, SRecord _ _ rfs =>
        forallb (fun wf => match reader_field rfs (fname wf) with
                           | Some rf => rec (ftype wf) (ftype rf)
                           | None => true end) wfs
        && defaults_ok re rfs
    | _, _ => true
    end in
  truthy_ok r &&
  match w with
  | SRef nm =>
      match lookup we nm with
      | None => false
      | Some wd => on_reader we re w r (fun b => rec wd (deref1 re b)) (fun rd => rec wd rd)
      end
  | SUnion wbs => forallb (fun wb => on_reader we re wb r (fun b => rec wb b) (fun rd => rec wb rd)) wbs
  | _ => on_reader we re w r (fun b => node w (deref1 re b)) (fun rd => node w rd)
  end.

(* structural equality of schemas *)
Fixpoint sl_eqb (a b : list str) : bool :=
  match a, b with
  | [], [] => true
  | x :: a, y :: b => bytes_eqb x y && sl_eqb a b
  | _, _ => false
  end.
Definition o_eqb {A} (eq : A -> A -> bool) (a b : option A) : bool :=
  match a, b with None, None => true | Some x, Some y => eq x y | _, _ => false end.
Fixpoint sch_eqb (a b : schema) {struct a} : bool :=
  match a, b with
  | SNull, SNull | SBool, SBool | SInt, SInt | SLong, SLong | SFloat, SFloat | SDouble, SDouble
  | SBytes, SBytes | SString, SString => true
  | SFixed n al z, SFixed n' al' z' => bytes_eqb n n' && sl_eqb al al' && Z.eqb z z'
  | SEnum n al ss d, SEnum n' al' ss' d' => bytes_eqb n n' && sl_eqb al al' && sl_eqb ss ss' && o_eqb bytes_eqb d d'
  | SArray x, SArray y => sch_eqb x y
  | SMap x, SMap y => sch_eqb x y
  | SUnion l, SUnion l' =>
      (fix go (l l' : list schema) : bool :=
         match l, l' with
         | [], [] => true
         | x :: l, y :: l' => sch_eqb x y && go l l'
         | _, _ => false
         end) l l'
  | SRecord n al fs, SRecord n' al' fs' =>
      bytes_eqb n n' && sl_eqb al al' &&
      (fix go (l l' : list field) : bool :=
         match l, l' with
         | [], [] => true
         | x :: l, y :: l' =>
             bytes_eqb (fname x) (fname y) && sch_eqb (ftype x) (ftype y) &&
             o_eqb py_eqb (fdefault x) (fdefault y) && sl_eqb (faliases x) (faliases y) && go l l'
         | _, _ => false
         end) fs fs'
  | SRef n, SRef n' => bytes_eqb n n'
  | SAnnot lt x, SAnnot lt' y => bytes_eqb lt lt' && sch_eqb x y
  | _, _ => false
  end.
Definition pair_eqb (p q : schema * schema) : bool := sch_eqb (fst p) (fst q) && sch_eqb (snd p) (snd q).
Definition memp (p : schema * schema) (S : list (schema * schema)) : bool := existsb (pair_eqb p) S.

(* the pairs [agree_step] hands to [rec] *)
Definition on_reader_l (we re : env) (w r : schema) (on_branch on_plain : schema -> list (schema * schema))
  : list (schema * schema) :=
  match deref1 re r with
  | SUnion rbs => match spec_idx we re w rbs with
                  | Some j => match nth_error rbs j with Some b => on_branch b | None => [] end
                  | None => []
                  end
  | _ => if smatch we re true w r then on_plain (deref1 re r) else []
  end.
Definition succs (we re : env) (w r : schema) : list (schema * schema) :=
  let node (w' b : schema) : list (schema * schema) :=
    match w', b with
    | SArray wi, SArray ri => [(wi, ri)]
    | SMap wv, SMap rv => [(wv, rv)]
    | SRecord _ _ wfs, SRecord _ _ rfs =>
        flat_map (fun wf => match reader_field rfs (fname wf) with
                            | Some rf => [(ftype wf, ftype rf)]
                            | None => [] end) wfs
    | _, _ => []
    end in
  match w with
  | SRef nm =>
      match lookup we nm with
      | None => []
      | Some wd => on_reader_l we re w r (fun b => [(wd, deref1 re b)]) (fun rd => [(wd, rd)])
      end
  | SUnion wbs => flat_map (fun wb => on_reader_l we re wb r (fun b => [(wb, b)]) (fun rd => [(wb, rd)])) wbs
  | _ => on_reader_l we re w r (fun b => node w (deref1 re b)) (fun rd => node w rd)
  end.

(* the pairs reachable from [todo] (work list; [fuel] bounds the number of steps) *)
Fixpoint reach (fuel : nat) (we re : env) (todo seen : list (schema * schema)) {struct fuel} : list (schema * schema) :=
  match fuel with
  | O => seen
  | S fuel =>
    match todo with
    | [] => seen
    | p :: todo => if memp p seen then reach fuel we re todo seen
                   else reach fuel we re (succs we re (fst p) (snd p) ++ todo) (p :: seen)
    end
  end.
Definition closedb (we re : env) (S : list (schema * schema)) : bool :=
  forallb (fun p => agree_step (fun a b => memp (a, b) S) we re (fst p) (snd p)) S.
Definition REACH : nat := 3000.
Definition agree_all (we re : env) (w r : schema) : bool :=
  let S := reach REACH we re [(w, r)] [] in memp (w, r) S && closedb we re S.

(** *** logicalType annotations on array / map / named-type nodes ({"type": "array", ..., "logicalType": ...}) are
    transparent to the code and to the specification (proofs/ResolveAnnotProofs.v): the zones are checked on the schemas
    without them.  Annotations of primitives stay: they are the dict form of the primitive. *)
Definition dict_node (s : schema) : bool :=
  match s with SFixed _ _ _ | SEnum _ _ _ _ | SArray _ | SMap _ | SRecord _ _ _ => true | _ => false end.
Fixpoint unannot (s : schema) : schema :=
  match s with
  | SAnnot lt p => if dict_node p then unannot p else SAnnot lt (unannot p)
  | SArray s => SArray (unannot s)
  | SMap s => SMap (unannot s)
  | SUnion bs => SUnion (map unannot bs)
  | SRecord n al fs => SRecord n al (map (fun f => mkField (fname f) (unannot (ftype f)) (fdefault f) (faliases f)) fs)
  | s => s
  end.
Definition unannot_field (f : field) : field := mkField (fname f) (unannot (ftype f)) (fdefault f) (faliases f).
Definition unannot_env (e : env) : env := map (fun nd => (fst nd, unannot (snd nd))) e.

(** text protocol *)
Local Open Scope string_scope.
Definition show_rres (x : rres (pyval * bytes)) : string :=
  match x with
  | ROk (v, r) => "R:" ++ show_py v ++ "|" ++ show_Z (len r)
  | RErrResolution => "ER"
  | RErrOther => "EO"
  | RFuel => "FUEL"
  end.
Definition show_rval (x : rres pyval) : string :=
  match x with
  | ROk v => "V:" ++ show_py v
  | RErrResolution => "ER"
  | RErrOther => "EO"
  | RFuel => "FUEL"
  end.

Definition RFUEL : nat := 400.
Definition ZDEPTH : nat := 16.   (* depth to which the zone with references is evaluated when no closed set is found *)

(* implementation model on the bytes ; specification on the value decoded under the writer schema *)
(* the height at which a value is typed (typedn): only for the statistics of the zone with references *)
Fixpoint theight (f : nat) (e : env) (s : schema) (a : aval) {struct f} : nat :=
  match f with
  | O => O
  | S f =>
    S (match s, a with
       | SRef nm, _ => match lookup e nm with Some d => theight f e d a | None => O end
       | SAnnot _ s', _ => theight f e s' a
       | SArray s', AArray l => fold_left (fun m x => Nat.max m (theight f e s' x)) l O
       | SMap s', AMap l => fold_left (fun m kx => Nat.max m (theight f e s' (snd kx))) l O
       | SUnion bs, AUnion i x => match nthZ bs i with Some b => theight f e b x | None => O end
       | SRecord _ _ fs, ARecord l =>
           (fix go (fs : list field) (l : list aval) (m : nat) {struct l} : nat :=
              match fs, l with
              | fd :: fs, x :: l => go fs l (Nat.max m (theight f e (ftype fd) x))
              | _, _ => m
              end) fs l O
       | _, _ => O
       end)
  end.

Definition run_resolve (o : ropts) (we re : env) (w : schema) (R : option schema) (r : schema) (bs : bytes) : string :=
  let d := dec RFUEL we w bs in
  show_rres (rdec RFUEL we re o w R bs) ++ ";" ++
  match d with
  | Ok (a, _) => show_rval (resolve o we re w r a)
  | Err => "EO"
  | OutOfFuel => "FUEL"
  end ++ ";" ++ (let we' := unannot_env we in let re' := unannot_env re in let w' := unannot w in let r' := unannot r in
                 if inline w' && inline r' && agree we' re' w' r' then "Z1"
                 else if env_scoped we' && env_scoped re' && scoped we' w' && scoped re' r' then
                   if agree_all we' re' w' r' then "Z2"          (* every depth *)
                   else if agreen ZDEPTH we' re' w' r' then
                     match d with
                     | Ok (a, _) => if (theight 100 we w a <=? ZDEPTH)%nat then "Z2D" else "Z0H"
                     | _ => "Z2D"
                     end
                   else "Z0A"
                 else "Z0" ++ (if env_scoped we' then "" else "E") ++ (if env_scoped re' then "" else "e")
                           ++ (if scoped we' w' then "" else "W") ++ (if scoped re' r' then "" else "R")).

(* the same on the bytes of an explicit layout of the value (any block partition), followed by [suffix] *)
Definition run_resolve_layout (o : ropts) (we re : env) (w : schema) (R : option schema) (r : schema) (l : lval) (suffix : bytes)
  : string :=
  "W:" ++ tohex (wire_l l) ++ ";" ++ run_resolve o we re w R r (wire_l l ++ suffix)%list.
