(** Canonical form.
    [canon]  : mirrors fastavro/_schema_py.py _to_parsing_canonical_form on the
               PARSED schema (the direct printer of the code).
    [pcf]    : the independent specification: the Avro specification's rules
               PRIMITIVES, FULLNAMES, STRIP, ORDER applied to the RAW schema
               JSON ([pcf_json]), then the naive printer (STRINGS, INTEGERS,
               WHITESPACE).
    Executable definitions only. *)
From Coq Require Import String Ascii.
From FA Require Import model.Base model.Json model.Parse.
Open Scope string_scope.

(** what an f-string prints for a value *)
Definition pystr (j : json) : string :=
  match j with
  | JStr s => s
  | JInt z => show_Z z
  | JBool true => "True"
  | JBool false => "False"
  | JNull => "None"
  | JFloat _ => "<float>"
  | JArr _ => "<list>"
  | JObj _ => "<dict>"
  end.

Inductive cmode := CSchema | CFields | CField.

Definition sub {A} (k : string) (rs : list (string * (cmode -> A))) (m : cmode) (dflt : A) : A :=
  match jget k rs with Some r => r m | None => dflt end.

Definition KEYERROR : string := "<KeyError>".

Definition canon_obj (kv : list (string * json)) (rs : list (string * (cmode -> string))) (m : cmode) : string :=
  match m with
  | CField =>
      (* {"name":"<name>","type":<type>} *)
      "{""name"":""" ++ match jget "name" kv with Some n => pystr n | None => KEYERROR end
        ++ """,""type"":" ++ sub "type" rs CSchema KEYERROR ++ "}"
  | _ =>
      match jget "type" kv with
      | None => KEYERROR
      | Some ty =>
          let name := match jget "name" kv with Some n => pystr n | None => KEYERROR end in
          match ty with
          | JStr t =>
              if String.eqb t "array" then
                "{""type"":""array"",""items"":" ++ sub "items" rs CSchema KEYERROR ++ "}"
              else if String.eqb t "map" then
                "{""type"":""map"",""values"":" ++ sub "values" rs CSchema KEYERROR ++ "}"
              else if String.eqb t "enum" then
                "{""name"":""" ++ name ++ """,""type"":""enum"",""symbols"":["
                  ++ match jget "symbols" kv with
                     | Some (JArr l) => join "," (map (fun s => quote (pystr s)) l)
                     | _ => KEYERROR
                     end ++ "]}"
              else if String.eqb t "fixed" then
                "{""name"":""" ++ name ++ """,""type"":""fixed"",""size"":"
                  ++ match jget "size" kv with Some z => pystr z | None => KEYERROR end ++ "}"
              else if String.eqb t "record" || String.eqb t "error" then
                "{""name"":""" ++ name ++ """,""type"":""record"",""fields"":["
                  ++ sub "fields" rs CFields KEYERROR ++ "]}"
              else if is_prim t then quote t
              else ""
          | _ => ""
          end
      end
  end.

Definition canon_m : json -> cmode -> string :=
  jfold
    (fun j _ => quote (pystr j))
    (fun _ rs m => match m with
                   | CFields => join "," (map (fun r => r CField) rs)
                   | _ => "[" ++ join "," (map (fun r => r CSchema) rs) ++ "]"
                   end)
    canon_obj.

(* _to_parsing_canonical_form(parsed_schema) *)
Definition canon (p : json) : string := canon_m p CSchema.

(** ---- the specification ---- *)
(* a dotted name wins; else the explicit namespace; else the enclosing one *)
Definition spec_space (ns : string) (kv : list (string * json)) : string :=
  match jget "namespace" kv with
  | Some (JStr s) => s
  | Some _ => ""            (* null: the null namespace *)
  | None => ns
  end.

Definition spec_name (kv : list (string * json)) : string :=
  match jget "name" kv with Some (JStr n) => n | _ => "" end.

Definition spec_fullname (ns : string) (kv : list (string * json)) : string :=
  let n := spec_name kv in
  if has_dot n then n
  else let sp := spec_space ns kv in
       if String.eqb sp "" then n else sp ++ "." ++ n.

(* the namespace in which the fields of a record are read *)
Definition spec_namespace (ns : string) (kv : list (string * json)) : string :=
  let n := spec_name kv in
  if has_dot n then before_last_dot n else spec_space ns kv.

(* a reference: a dotted name is a full name, otherwise it lives in the enclosing namespace *)
Definition spec_ref (ns s : string) : string :=
  if has_dot s then s else if String.eqb ns "" then s else ns ++ "." ++ s.

Inductive pmode := PSchema | PFields | PField.

Definition psub (k : string) (rs : list (string * (pmode -> string -> json))) (m : pmode) (ns : string) : json :=
  match jget k rs with Some r => r m ns | None => JNull end.

Definition attr (k : string) (kv : list (string * json)) : json :=
  match jget k kv with Some v => v | None => JNull end.

(* PRIMITIVES, FULLNAMES, STRIP, ORDER (name, type, fields, symbols, items, values, size).
   Attributes are kept where the specification defines them for the node's type.
   Two extensions beyond the specification's domain, as in the Java reference
   implementation: a record without "fields" has no fields; "error" is printed as "record". *)
Definition pcf_obj (kv : list (string * json)) (rs : list (string * (pmode -> string -> json)))
           (m : pmode) (ns : string) : json :=
  match m with
  | PField => JObj [("name", attr "name" kv); ("type", psub "type" rs PSchema ns)]
  | _ =>
      match jget "type" kv with
      | Some (JStr t) =>
          if is_prim t then JStr t
          else if String.eqb t "array" then
            JObj [("type", JStr "array"); ("items", psub "items" rs PSchema ns)]
          else if String.eqb t "map" then
            JObj [("type", JStr "map"); ("values", psub "values" rs PSchema ns)]
          else if String.eqb t "enum" then
            JObj [("name", JStr (spec_fullname ns kv)); ("type", JStr "enum"); ("symbols", attr "symbols" kv)]
          else if String.eqb t "fixed" then
            JObj [("name", JStr (spec_fullname ns kv)); ("type", JStr "fixed"); ("size", attr "size" kv)]
          else if String.eqb t "record" || String.eqb t "error" then
            JObj [("name", JStr (spec_fullname ns kv)); ("type", JStr "record");
                  ("fields", match jget "fields" rs with
                             | Some r => r PFields (spec_namespace ns kv)
                             | None => JArr []
                             end)]
          else JObj kv
      | _ => JObj kv
      end
  end.

Definition pcf_m : json -> pmode -> string -> json :=
  jfold
    (fun j _ ns => match j with
                   | JStr s => if is_prim s then JStr s else JStr (spec_ref ns s)
                   | _ => j
                   end)
    (fun _ rs m ns => match m with
                      | PFields => JArr (map (fun r => r PField ns) rs)
                      | _ => JArr (map (fun r => r PSchema ns) rs)
                      end)
    pcf_obj.

Definition pcf_json_in (ns : string) (j : json) : json := pcf_m j PSchema ns.
Definition pcf_json (j : json) : json := pcf_json_in "" j.
Definition pcf (j : json) : string := print_json (pcf_json j).

(** ---- results as text for the correspondence protocol (hex-encoded) ---- *)
Definition show_pres {A} (ok : A -> string) (r : pres A) : string :=
  match r with
  | POk x => "ok:" ++ ok x
  | PErrParse => "parse"
  | PErrUnknown n => "unknown:" ++ n
  | PErrOther => "other"
  | PFuel => "fuel"
  end.

(* "ok:<canonical form>|<keys of named_schemas, insertion order>" *)
Definition show_parse (j : json) : string :=
  hexs (show_pres (fun r => canon (fst r) ++ "|" ++ join "," (keys (snd r))) (parse_auto j)).

Definition show_canon (j : json) : string :=
  hexs (show_pres (fun r => canon (fst r)) (parse_auto j)).

Definition show_pcf (j : json) : string := hexs (pcf j).

Definition show_bool (b : bool) : string := if b then "true" else "false".
