(** Canonical form.
    [canon]  : mirrors fastavro/_schema_py.py _to_parsing_canonical_form on the
               PARSED schema (the direct printer of the code).
    [pcf]    : the independent specification: the Avro specification's rules
               PRIMITIVES, FULLNAMES, STRIP, ORDER applied to the RAW schema
               JSON ([pcf_json]), then the naive printer (STRINGS, INTEGERS,
               WHITESPACE).
    Executable definitions only. *)
From Coq Require Import String Ascii.
From FA Require Import model.Base model.Json model.Parse model.SchemaSpec model.Inline.
Open Scope string_scope.

(** what an f-string prints for a value *)
Definition pystr (j : json) : string :=
  match j with
  | JStr s => s
  | JInt z => show_Z z
  | JBool true => "True"
  | JBool false => "False"
  | JNull => "None"
  | JFloat _ => "<float>"
  | JArr _ => "<list>"
  | JObj _ => "<dict>"
  end.

Inductive cmode := CSchema | CFields | CField.

Definition sub {A} (k : string) (rs : list (string * (cmode -> A))) (m : cmode) (dflt : A) : A :=
  match jget k rs with Some r => r m | None => dflt end.

Definition KEYERROR : string := "<KeyError>".

Definition canon_obj (kv : list (string * json)) (rs : list (string * (cmode -> string))) (m : cmode) : string :=
  match m with
  | CField =>
      (* {"name":"<name>","type":<type>} *)
      "{""name"":""" ++ match jget "name" kv with Some n => pystr n | None => KEYERROR end
        ++ """,""type"":" ++ sub "type" rs CSchema KEYERROR ++ "}"
  | _ =>
      match jget "type" kv with
      | None => KEYERROR
      | Some ty =>
          let name := match jget "name" kv with Some n => pystr n | None => KEYERROR end in
          match ty with
          | JStr t =>
              if String.eqb t "array" then
                "{""type"":""array"",""items"":" ++ sub "items" rs CSchema KEYERROR ++ "}"
              else if String.eqb t "map" then
                "{""type"":""map"",""values"":" ++ sub "values" rs CSchema KEYERROR ++ "}"
              else if String.eqb t "enum" then
                "{""name"":""" ++ name ++ """,""type"":""enum"",""symbols"":["
                  ++ match jget "symbols" kv with
                     | Some (JArr l) => join "," (map (fun s => quote (pystr s)) l)
                     | _ => KEYERROR
                     end ++ "]}"
              else if String.eqb t "fixed" then
                "{""name"":""" ++ name ++ """,""type"":""fixed"",""size"":"
                  ++ match jget "size" kv with Some z => pystr z | None => KEYERROR end ++ "}"
              else if String.eqb t "record" || String.eqb t "error" then
                "{""name"":""" ++ name ++ """,""type"":""record"",""fields"":["
                  ++ sub "fields" rs CFields KEYERROR ++ "]}"
              else if is_prim t then quote t
              else ""
          | _ => ""
          end
      end
  end.

Definition canon_m : json -> cmode -> string :=
  jfold
    (fun j _ => quote (pystr j))
    (fun _ rs m => match m with
                   | CFields => join "," (map (fun r => r CField) rs)
                   | _ => "[" ++ join "," (map (fun r => r CSchema) rs) ++ "]"
                   end)
    canon_obj.

(* _to_parsing_canonical_form(parsed_schema) *)
Definition canon (p : json) : string := canon_m p CSchema.

(** ---- the specification ---- *)

Definition psub (k : string) (rs : list (string * (pmode -> string -> json))) (m : pmode) (ns : string) : json :=
  match jget k rs with Some r => r m ns | None => JNull end.

Definition attr (k : string) (kv : list (string * json)) : json :=
  match jget k kv with Some v => v | None => JNull end.

(* PRIMITIVES, FULLNAMES, STRIP, ORDER (name, type, fields, symbols, items, values, size).
   Attributes are kept where the specification defines them for the node's type.
   Two extensions beyond the specification's domain, as in the Java reference
   implementation: a record without "fields" has no fields; "error" is printed as "record". *)
Definition pcf_obj (kv : list (string * json)) (rs : list (string * (pmode -> string -> json)))
           (m : pmode) (ns : string) : json :=
  match m with
  | PField => JObj [("name", attr "name" kv); ("type", psub "type" rs PSchema ns)]
  | _ =>
      match jget "type" kv with
      | Some (JStr t) =>
          if spec_is_prim t then JStr t
          else if String.eqb t "array" then
            JObj [("type", JStr "array"); ("items", psub "items" rs PSchema ns)]
          else if String.eqb t "map" then
            JObj [("type", JStr "map"); ("values", psub "values" rs PSchema ns)]
          else if String.eqb t "enum" then
            JObj [("name", JStr (spec_fullname ns kv)); ("type", JStr "enum"); ("symbols", attr "symbols" kv)]
          else if String.eqb t "fixed" then
            JObj [("name", JStr (spec_fullname ns kv)); ("type", JStr "fixed"); ("size", attr "size" kv)]
          else if String.eqb t "record" || String.eqb t "error" then
            JObj [("name", JStr (spec_fullname ns kv)); ("type", JStr "record");
                  ("fields", match jget "fields" rs with
                             | Some r => r PFields (spec_namespace ns kv)
                             | None => JArr []
                             end)]
          else JNull          (* not a schema *)
      | _ => JNull
      end
  end.

Definition pcf_m : json -> pmode -> string -> json :=
  jfold
    (fun j _ ns => match j with
                   | JStr s => if spec_is_prim s then JStr s else JStr (spec_ref ns s)
                   | _ => j
                   end)
    (fun _ rs m ns => match m with
                      | PFields => JArr (map (fun r => r PField ns) rs)
                      | _ => JArr (map (fun r => r PSchema ns) rs)
                      end)
    pcf_obj.

Definition pcf_json_in (ns : string) (j : json) : json := pcf_m j PSchema ns.
Definition pcf_json (j : json) : json := pcf_json_in "" j.
Definition pcf (j : json) : string := print_json (pcf_json j).

(** ---- results as text for the correspondence protocol (hex-encoded) ---- *)
Definition show_pres {A} (ok : A -> string) (r : pres A) : string :=
  match r with
  | POk x => "ok:" ++ ok x
  | PErrParse => "parse"
  | PErrUnknown n _ => "unknown:" ++ n
  | PErrOther => "other"
  | PFuel => "fuel"
  end.

(* "ok:<canonical form>|<keys of named_schemas, insertion order>" *)
Definition show_parse (j : json) : string :=
  hexs (show_pres (fun r => canon (fst r) ++ "|" ++ join "," (keys (snd r))) (parse_auto j)).


Definition show_pcf (j : json) : string := hexs (pcf j).

Definition show_bool (b : bool) : string := if b then "true" else "false".

Definition show_valid (j : json) : string := show_bool (valid_raw j).
Definition show_pyfloat (s : string) : string := show_bool (pyfloat_str s).

(** ---- the syntactic class for which [C13_spec] is stated ----
    At every schema position the parser traverses: record fields carry a
    string "name" and a fixed "size" is an integer (otherwise Python's str()
    and JSON printing differ: True vs true); at the top level (through
    top-level unions) the schema is raw, i.e. does not carry the
    "__fastavro_parsed" marker.  Every schema of the generator is in the class
    (checked on every case by the harness). *)
Definition bsub (k : string) (rs : list (string * (pmode -> bool))) (m : pmode) : bool :=
  match jget k rs with Some r => r m | None => true end.

Definition simple_m : json -> pmode -> bool :=
  jfold
    (fun _ _ => true)
    (fun _ rs m => forallb (fun r => r (match m with PFields => PField | _ => PSchema end)) rs)
    (fun kv rs m =>
       match m with
       | PField => match jget "name" kv with Some (JStr _) => true | _ => false end && bsub "type" rs PSchema
       | _ =>
           if type_is kv "array" then bsub "items" rs PSchema
           else if type_is kv "map" then bsub "values" rs PSchema
           else if type_is kv "fixed" then match jget "size" kv with Some (JInt _) => true | _ => false end
           else if type_is kv "record" || type_is kv "error" then bsub "fields" rs PFields
           else true
       end).

Definition unmarked : json -> bool :=
  jfold (fun _ => true) (fun _ rs => forallb (fun b => b) rs) (fun kv _ => negb (jhas "__fastavro_parsed" kv)).

Definition simple_raw (j : json) : bool := simple_m j PSchema && unmarked j.
Definition show_simple (j : json) : string := show_bool (simple_raw j).

(** to_parsing_canonical_form(schema): parse (fresh dictionary), inline the types that are only
    referred to by name (the identity for ordinarily parsed schemas, InlineProofs), print *)
Definition to_canonical (j : json) : pres string :=
  let+ r := parse_auto j in
  let+ q := inline (snd r) (fst r) in
  POk (canon q).

(** The class in which re-reading the canonical form is the identity: every
    named type met inside a non-null namespace has a dotted full name (the
    canonical form drops "namespace", so a null-namespace type nested in a
    namespaced record would be re-read into that namespace). *)
Definition csub (k : string) (rs : list (string * (pmode -> string -> bool))) (m : pmode) (ns : string) : bool :=
  match jget k rs with Some r => r m ns | None => true end.

Definition ns_closed_m : json -> pmode -> string -> bool :=
  jfold
    (fun _ _ _ => true)
    (fun _ rs m ns => forallb (fun r => r (match m with PFields => PField | _ => PSchema end) ns) rs)
    (fun kv rs m ns =>
       match m with
       | PField => csub "type" rs PSchema ns
       | _ =>
           if type_is kv "array" then csub "items" rs PSchema ns
           else if type_is kv "map" then csub "values" rs PSchema ns
           else if type_is kv "enum" || type_is kv "fixed" then has_dot (spec_fullname ns kv) || String.eqb ns ""
           else if type_is kv "record" || type_is kv "error" then
             (has_dot (spec_fullname ns kv) || String.eqb ns "") && csub "fields" rs PFields (spec_namespace ns kv)
           else true
       end).
Definition ns_closed (j : json) : bool := ns_closed_m j PSchema "".
Definition show_closed (j : json) : string := show_bool (ns_closed j).
Definition show_canon (j : json) : string := hexs (show_pres (fun s => s) (to_canonical j)).

(** the whole parsed schema as text (markers removed, floats as {"$f": bits}), for comparing the
    model's parse output with the implementation's key by key *)
Definition print_jsonf : json -> string :=
  jfold
    (fun j => match j with
              | JFloat b => "{""$f"":" ++ show_Z b ++ "}"
              | _ => print_json j
              end)
    (fun _ rs => "[" ++ join "," rs ++ "]")
    (fun _ rs => "{" ++ join "," (map (fun p => quote (fst p) ++ ":" ++ snd p) rs) ++ "}").

Definition strip_markers : json -> json :=
  jfold (fun j => j) (fun _ rs => JArr rs)
        (fun kv _ => JObj (jdrop ["__fastavro_parsed"; "__named_schemas"] kv)).

Definition show_parsed (j : json) : string :=
  hexs (show_pres (fun r => print_jsonf (strip_markers (fst r))) (parse_auto j)).
