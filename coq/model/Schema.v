(** Parsed Avro schemas as fastavro holds them after parse_schema (names are
    full names), plus the named-schema table. *)
From FA Require Import model.Base model.Value.

Record field_ (S : Type) := mkField {
  fname : str;
  ftype : S;
  fdefault : option pyval;      (* JSON default as the Python object json.loads gives *)
  faliases : list str }.
Arguments mkField {S}. Arguments fname {S}. Arguments ftype {S}.
Arguments fdefault {S}. Arguments faliases {S}.

Inductive schema :=
| SNull | SBool | SInt | SLong | SFloat | SDouble | SBytes | SString   (* "int" : string form *)
| SFixed (n : str) (al : list str) (size : Z)
| SEnum (n : str) (al : list str) (syms : list str) (dflt : option str)
| SArray (items : schema)
| SMap (values : schema)
| SUnion (bs : list schema)
| SRecord (n : str) (al : list str) (fs : list (field_ schema))
| SRef (n : str)                       (* by-name reference (a string that is not a primitive) *)
| SAnnot (lt : str) (s : schema).     (* dict form {"type": s, "logicalType": lt}; lt = [] when absent *)

Definition field := field_ schema.
Definition env := list (str * schema).   (* named_schemas *)

Fixpoint lookup (e : env) (n : str) : option schema :=
  match e with
  | [] => None
  | (k, s) :: e => if bytes_eqb k n then Some s else lookup e n
  end.

(* l[i] for a Python-style non-negative index given as Z; structural on the list so that a
   huge index costs nothing *)
Fixpoint nthZ {A} (l : list A) (i : Z) : option A :=
  match l with
  | [] => None
  | x :: l => if i =? 0 then Some x else if i <? 0 then None else nthZ l (i - 1)
  end.

Fixpoint index_of (syms : list str) (x : str) (i : Z) : option Z :=
  match syms with
  | [] => None
  | s :: syms => if bytes_eqb s x then Some i else index_of syms x (i + 1)
  end.
