(** Threads as lists of atomic steps over a shared state, schedules, all
    interleavings; and the API operations of model/Globals.v cut into atomic
    steps with their shared-cell footprints.

    Granularity (what C18 states): a step is the code between two accesses to
    shared cells; everything else a thread touches (decoder, encoder, Writer,
    Parser, locals, its own stream) is thread-local and lives in the local state.
    Bytecode-level atomicity under the GIL is assumed, not modelled.
    Executable definitions only; proofs are in proofs/ThreadsProofs.v. *)
From Coq Require Import String.
From FA Require Import model.Base model.Globals.

(** shared cells, as in [gstate] *)
Inductive cell := CellPrec | CellFlags | CellOther.

(** an atomic step: a function on (shared, local) tagged with its footprint *)
Record step (G L : Type) := mkStep {
  run : G -> L -> G * L;
  writes : list cell;      (* shared cells it may write *)
  reads : list cell        (* shared cells its result may depend on *)
}.
Arguments mkStep {G L}. Arguments run {G L}. Arguments writes {G L}. Arguments reads {G L}.

Definition thread (G L : Type) := list (step G L).
Definition schedule := list nat.                       (* thread indices, one per atomic step *)
Definition tstate (G L : Type) := (L * thread G L)%type.   (* local state, steps still to run *)

Fixpoint update {A} (l : list A) (i : nat) (x : A) : list A :=
  match l, i with
  | [], _ => []
  | _ :: l, O => x :: l
  | y :: l, S i => y :: update l i x
  end.

(** thread [i] executes its next step (nothing happens if it has finished or does not exist) *)
Fixpoint run_schedule {G L} (s : schedule) (g : G) (ts : list (tstate G L)) : G * list (tstate G L) :=
  match s with
  | [] => (g, ts)
  | i :: s =>
      match nth_error ts i with
      | Some (l, st :: rest) =>
          let '(g', l') := run st g l in
          run_schedule s g' (update ts i (l', rest))
      | _ => run_schedule s g ts
      end
  end.

(** the first [n] steps of one thread, run alone *)
Fixpoint advance {G L} (n : nat) (g : G) (l : L) (st : thread G L) : G * tstate G L :=
  match n, st with
  | S n, s :: rest => let '(g', l') := run s g l in advance n g' l' rest
  | _, _ => (g, (l, st))
  end.

Definition run_alone {G L} (g : G) (l : L) (st : thread G L) : G * tstate G L :=
  advance (List.length st) g l st.

Definition start {G L} (l0 : L) (ts : list (thread G L)) : list (tstate G L) :=
  map (fun st => (l0, st)) ts.

(** ---- all interleavings ---------------------------------------------------------- *)

Fixpoint dec_nth (l : list nat) (i : nat) : list nat :=
  match l, i with
  | [], _ => []
  | n :: l, O => pred n :: l
  | n :: l, S i => n :: dec_nth l i
  end.

(** all words over the thread indices in which index [i] occurs [nth i rem 0] times *)
Fixpoint merges (fuel : nat) (rem : list nat) : list schedule :=
  match fuel with
  | O => [[]]
  | S f =>
      flat_map (fun i => match nth i rem O with
                         | O => []
                         | S _ => map (cons i) (merges f (dec_nth rem i))
                         end) (seq 0 (List.length rem))
  end.

Definition interleavings {G L} (ts : list (thread G L)) : list schedule :=
  let ns := map (@List.length _) ts in merges (list_sum ns) ns.

(** ---- the API operations as threads ---------------------------------------------- *)

(** thread-local state of one operation: decimals produced so far (latest first),
    the value between [create_decimal] and [scaleb], "an exception was raised" *)
Record local := mkL { out : list dec; cur : option dec; failed : bool }.
Definition l0 : local := mkL [] None false.

Definition result_of (l : local) : result := if failed l then RRaised else ROk (rev (out l)).

Definition astep := step gstate local.

(** everything an operation does apart from decimal reads: reads the dispatch
    tables / default option dictionaries, writes nothing shared *)
Definition s_pure : astep := mkStep (fun g l => (g, l)) [] [CellOther].

Definition s_raise : astep := mkStep (fun g l => (g, mkL (out l) (cur l) true)) [] [].

(** current [read_decimal]:  decimal_context.prec = precision *)
Definition s_set (d : decfield) : astep :=
  mkStep (fun g l => if failed l then (g, l)
                     else if df_prec d <? 1 then (g, mkL (out l) (cur l) true)
                     else (set_prec g (df_prec d), l))
         [CellPrec] [].

(** decimal_context.create_decimal(unscaled_datum) *)
Definition s_create (d : decfield) : astep :=
  mkStep (fun g l => if failed l then (g, l)
                     else (add_flags g (create_flags (prec g) (df_unscaled d)),
                           mkL (out l) (Some (create_decimal (prec g) (df_unscaled d))) false))
         [CellFlags] [CellPrec].

(** .scaleb(-scale, decimal_context) *)
Definition s_scaleb (d : decfield) : astep :=
  mkStep (fun g l => if failed l then (g, l)
                     else match cur l with
                          | Some x => (add_flags g (scaleb_flags (prec g) x (df_scale d)),
                                       mkL (scaleb (prec g) x (df_scale d) :: out l) None false)
                          | None => (g, l)
                          end)
         [CellFlags] [CellPrec].

(** repaired [read_decimal]: a per-call Context; no shared cell is read or written *)
Definition s_local (d : decfield) : astep :=
  mkStep (fun g l => if failed l then (g, l)
                     else if df_prec d <? 1 then (g, mkL (out l) (cur l) true)
                     else (g, mkL (scaleb (df_prec d) (create_decimal (df_prec d) (df_unscaled d)) (df_scale d) :: out l)
                                  None false))
         [] [].

Definition dec_steps (v : variant) (d : decfield) : thread gstate local :=
  match v with
  | Current => [s_set d; s_create d; s_scaleb d]
  | Fixed => [s_local d]
  end.

Definition op_steps (v : variant) (c : api_call) : thread gstate local :=
  s_pure :: flat_map (dec_steps v) (effects c) ++ (if raises c then [s_raise] else []).

(** footprint of a thread, step by step *)
Definition footprint (t : thread gstate local) : list (list cell * list cell) :=
  map (fun s => (writes s, reads s)) t.

(** ---- printing --------------------------------------------------------------------- *)
Local Open Scope string_scope.

(** results of all threads after a schedule: "<prec>|r0/r1/.../" *)
Definition show_threads (g : gstate) (ts : list (tstate gstate local)) : string :=
  show_gstate g ++ "|" ++ fold_right (fun t acc => show_result (result_of (fst t)) ++ "/" ++ acc) "" ts.

Definition show_schedule_run (v : variant) (g : gstate) (cs : list api_call) (s : schedule) : string :=
  let '(g', ts) := run_schedule s g (start l0 (map (op_steps v) cs)) in show_threads g' ts.

Definition show_sequential (v : variant) (g : gstate) (cs : list api_call) : string :=
  fold_right (fun c acc => show_result (snd (api_step_v v g c)) ++ "/" ++ acc) "" cs.

(** shared cells an operation may write, as tags: P = prec, F = flags, O = any other inventory cell *)
Definition cell_eqb (a b : cell) : bool :=
  match a, b with CellPrec, CellPrec | CellFlags, CellFlags | CellOther, CellOther => true | _, _ => false end.

Definition show_writes (v : variant) (c : api_call) : string :=
  let ws := flat_map writes (op_steps v c) in
  (if existsb (cell_eqb CellPrec) ws then "P" else "") ++
  (if existsb (cell_eqb CellFlags) ws then "F" else "") ++
  (if existsb (cell_eqb CellOther) ws then "O" else "") ++ ".".
