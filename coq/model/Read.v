(** The Python value fastavro's reader builds from a decoded wire value
    (_read_py.py read_* without a reader schema), incl. the named-type options of read_union. *)
From Coq Require Import String.
From FA Require Import model.Base model.Value model.Schema model.Float model.Codec model.Validate.

Record ropts := { ret_rec : bool; ret_rec_override : bool; ret_named : bool; ret_named_override : bool }.
Definition ropts0 := {| ret_rec := false; ret_rec_override := false; ret_named := false; ret_named_override := false |}.

(* one step of by-name resolution; named_schemas entries are named types, never references *)
Definition resolve (e : env) (s : schema) : schema :=
  match strip s with
  | SRef n => match lookup e n with Some s' => strip s' | None => SRef n end
  | s' => s'
  end.

(* _get_name_and_record_counts_from_union *)
Definition count_named (bs : list schema) : Z :=
  len (filter (fun b => match strip b with SRecord _ _ _ | SEnum _ _ _ _ | SFixed _ _ _ | SRef _ => true | _ => false end) bs).
Definition count_records (bs : list schema) : Z :=
  len (filter (fun b => match strip b with SRecord _ _ _ | SRef _ => true | _ => false end) bs).

Definition wrap_union (o : ropts) (bs : list schema) (b : schema) (result : pyval) : pyval :=
  let named_dict := match strip b with SRecord n _ _ | SEnum n _ _ _ | SFixed n _ _ => Some n | _ => None end in
  let record_dict := match strip b with SRecord n _ _ => Some n | _ => None end in
  let ref := match strip b with SRef n => Some n | _ => None end in
  let pair n := PTuple [PStr n; result] in
  if ret_named_override o && (count_named bs =? 1) then result
  else match (if ret_named o then named_dict else None) with Some n => pair n | None =>
  match (if ret_named o then ref else None) with Some n => pair n | None =>
  if ret_rec_override o && (count_records bs =? 1) then result
  else match (if ret_rec o then record_dict else None) with Some n => pair n | None =>
  match (if ret_rec o then ref else None) with Some n => pair n | None => result end end end end.

Fixpoint py_of (o : ropts) (e : env) (s : schema) (a : aval) {struct a} : option pyval :=
  match resolve e s, a with
  | SNull, ANull => Some PNone
  | SBool, ABool b => Some (PBool b)
  | SInt, AInt z | SLong, AInt z => Some (PInt z)
  | SFloat, AFloat b => Some (PFloat (s2d b))
  | SDouble, ADouble b => Some (PFloat b)
  | SBytes, ABytes b => Some (PBytes b)
  | SString, AString b => Some (PStr b)
  | SFixed _ _ _, AFixed b => Some (PBytes b)
  | SEnum _ _ syms _, AEnum i => match nthZ syms i with Some x => Some (PStr x) | None => None end
  | SArray it, AArray l =>
      option_map PList ((fix go l := match l with
                   | [] => Some []
                   | x :: l => match py_of o e it x, go l with Some v, Some r => Some (v :: r) | _, _ => None end
                   end) l)
  | SMap vs, AMap l =>
      option_map PDict ((fix go l acc := match l with
                       | [] => Some acc
                       | (k, x) :: l => match py_of o e vs x with Some v => go l (dict_set acc k v) | None => None end
                       end) l [])
  | SUnion bs, AUnion i x =>
      match nthZ bs i with
      | Some b => match py_of o e b x with Some v => Some (wrap_union o bs b v) | None => None end
      | None => None
      end
  | SRecord _ _ fs, ARecord l =>
      option_map PDict ((fix go fs l acc {struct l} := match fs, l with
                          | [], [] => Some acc
                          | f :: fs, x :: l => match py_of o e (ftype f) x with
                                               | Some v => go fs l (dict_set acc (fname f) v)
                                               | None => None end
                          | _, _ => None
                          end) fs l [])
  | _, _ => None
  end.

(** schemaless_reader: decode then build the Python value; returns value text + remaining bytes *)
Definition read (f : nat) (o : ropts) (e : env) (s : schema) (bs : bytes) : res (pyval * bytes) :=
  let* (a, r) := dec f e s bs in
  match py_of o e s a with Some v => Ok (v, r) | None => Err end.
