(** The Python value fastavro's reader builds from a decoded wire value
    (_read_py.py read_* without a reader schema), incl. the named-type options of read_union. *)
From Coq Require Import String.
From FA Require Import model.Base model.Value model.Schema model.Float model.Codec model.Validate.

Record ropts := { ret_rec : bool; ret_rec_override : bool; ret_named : bool; ret_named_override : bool }.
Definition ropts0 := {| ret_rec := false; ret_rec_override := false; ret_named := false; ret_named_override := false |}.

(* one step of by-name resolution; named_schemas entries are named types, never references *)
Definition resolve (e : env) (s : schema) : schema :=
  match strip s with
  | SRef n => match lookup e n with Some s' => strip s' | None => SRef n end
  | s' => s'
  end.

(* the named type a union branch denotes (inline definition or by-name reference looked up in the table): its full name and
   whether it is a record.  (A name missing from the table cannot occur for a parsed schema; the counting helper then
   "assumes it is or could be a record".) *)
Definition branch_kind (e : env) (b : schema) : option (str * bool) :=
  match resolve e b with
  | SRecord n _ _ => Some (n, true)
  | SEnum n _ _ _ | SFixed n _ _ => Some (n, false)
  | SRef n => Some (n, true)
  | _ => None
  end.

(* _get_name_and_record_counts_from_union(schema, named_schemas) *)
Definition count_named (e : env) (bs : list schema) : Z :=
  len (filter (fun b => match branch_kind e b with Some _ => true | None => false end) bs).
Definition count_records (e : env) (bs : list schema) : Z :=
  len (filter (fun b => match branch_kind e b with Some (_, true) => true | _ => false end) bs).

(* read_union's wrapping of the value (return_named_type[_override], return_record_name[_override]); since fix 16a5a2c the
   decision looks at the DEFINITION of a by-name branch *)
Definition wrap_union (o : ropts) (e : env) (bs : list schema) (b : schema) (result : pyval) : pyval :=
  let k := branch_kind e b in
  let pair n := PTuple [PStr n; result] in
  if ret_named_override o && (count_named e bs =? 1) then result
  else match (if ret_named o then k else None) with Some (n, _) => pair n | None =>
  if ret_rec_override o && (count_records e bs =? 1) then result
  else match (if ret_rec o then k else None) with Some (n, true) => pair n | _ => result end end.

Fixpoint py_of (o : ropts) (e : env) (s : schema) (a : aval) {struct a} : option pyval :=
  match resolve e s, a with
  | SNull, ANull => Some PNone
  | SBool, ABool b => Some (PBool b)
  | SInt, AInt z | SLong, AInt z => Some (PInt z)
  | SFloat, AFloat b => Some (PFloat (s2d b))
  | SDouble, ADouble b => Some (PFloat b)
  | SBytes, ABytes b => Some (PBytes b)
  | SString, AString b => Some (PStr b)
  | SFixed _ _ _, AFixed b => Some (PBytes b)
  | SEnum _ _ syms _, AEnum i => match nthZ syms i with Some x => Some (PStr x) | None => None end
  | SArray it, AArray l =>
      option_map PList ((fix go l := match l with
                   | [] => Some []
                   | x :: l => match py_of o e it x, go l with Some v, Some r => Some (v :: r) | _, _ => None end
                   end) l)
  | SMap vs, AMap l =>
      option_map PDict ((fix go l acc := match l with
                       | [] => Some acc
                       | (k, x) :: l => match py_of o e vs x with Some v => go l (dict_set acc k v) | None => None end
                       end) l [])
  | SUnion bs, AUnion i x =>
      match nthZ bs i with
      | Some b => match py_of o e b x with Some v => Some (wrap_union o e bs b v) | None => None end
      | None => None
      end
  | SRecord _ _ fs, ARecord l =>
      option_map PDict ((fix go fs l acc {struct l} := match fs, l with
                          | [], [] => Some acc
                          | f :: fs, x :: l => match py_of o e (ftype f) x with
                                               | Some v => go fs l (dict_set acc (fname f) v)
                                               | None => None end
                          | _, _ => None
                          end) fs l [])
  | _, _ => None
  end.

(** schemaless_reader: decode then build the Python value; returns value text + remaining bytes *)
Definition read (f : nat) (o : ropts) (e : env) (s : schema) (bs : bytes) : res (pyval * bytes) :=
  let* (a, r) := dec f e s bs in
  match py_of o e s a with Some v => Ok (v, r) | None => Err end.
