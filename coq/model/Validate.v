(** fastavro/_validation_py.py _validate with raise_errors=False, as a function.
    [Err] = a Python exception other than ValidationError (e.g. an unknown type name). *)
From Coq Require Import String.
From FA Require Import model.Base model.Value model.Schema.

Record wopts := { strict : bool; strict_allow_default : bool; disable_tuple : bool }.

Definition INT_MIN := - 2 ^ 31.   Definition INT_MAX := 2 ^ 31 - 1.
Definition LONG_MIN := - 2 ^ 63.  Definition LONG_MAX := 2 ^ 63 - 1.

Fixpoint strip (s : schema) : schema := match s with SAnnot _ s => strip s | _ => s end.

(* extract_record_type: the "type" string of a schema *)
Definition type_name (s : schema) : str :=
  match strip s with
  | SNull => s2b "null" | SBool => s2b "boolean" | SInt => s2b "int" | SLong => s2b "long"
  | SFloat => s2b "float" | SDouble => s2b "double" | SBytes => s2b "bytes" | SString => s2b "string"
  | SFixed _ _ _ => s2b "fixed" | SEnum _ _ _ _ => s2b "enum" | SArray _ => s2b "array" | SMap _ => s2b "map"
  | SUnion _ => s2b "union" | SRecord _ _ _ => s2b "record" | SRef n => n | SAnnot _ _ => []
  end.

(* name a union branch answers to in tuple notation: full name of record/enum/fixed, type name otherwise *)
Definition branch_name (s : schema) : str :=
  match strip s with
  | SRecord n _ _ | SEnum n _ _ _ | SFixed n _ _ => n
  | _ => type_name s
  end.

Definition dot : Z := 46.
Definition has_dot (n : str) : bool := existsb (Z.eqb dot) n.

(* The `field` argument of _validate (a path used in error messages) does not influence the
   result: a record's "-type" hint is compared with the parsed schema's full name. *)

(* a Python Sequence that is not str, as its list of items *)
Definition as_sequence (v : pyval) : option (list pyval) :=
  match v with
  | PList l | PTuple l => Some l
  | PBytes b | PByteArray b => Some (map PInt b)
  | _ => None
  end.

Definition is_str_key (kv : pyval * pyval) : bool := match fst kv with PStr _ => true | _ => false end.

(* hint = datum["-type"] if isinstance(datum, dict) and "-type" in datum else None   (`hint is not None` is the test) *)
Definition type_hint (v : pyval) : option pyval :=
  match v with
  | PDict kv => match dict_get kv (s2b "-type") with Some PNone => None | x => x end
  | _ => None
  end.

(* with a hint only the record branch of that name is considered (a by-name reference is resolved first) *)
Definition hint_pass (e : env) (v : pyval) (c : schema) : bool :=
  match type_hint v with
  | None => true
  | Some h =>
      match (match strip c with SRef n => match lookup e n with Some d => strip d | None => strip c end | d => d end) with
      | SRecord n _ _ => match h with PStr t => bytes_eqb t n | _ => false end
      | _ => false
      end
  end.

Section Loops.
  Variable rec : schema -> option pyval -> res bool.
  (* all(_validate(d, s) for d in datum) with short circuit *)
  Fixpoint all_items (s : schema) (l : list pyval) : res bool :=
    match l with
    | [] => Ok true
    | v :: l => let* b := rec s (Some v) in if b then all_items s l else Ok false
    end.
  Fixpoint all_fields (kv : list (pyval * pyval)) (fs : list field) : res bool :=
    match fs with
    | [] => Ok true
    | f :: fs =>
        let v := match dict_get kv (fname f) with Some v => Some v | None => fdefault f end in
        let* b := rec (ftype f) v in
        if b then all_fields kv fs else Ok false
    end.
  (* [pass]: a "-type" entry of the datum restricts the candidates to the record branch of that name *)
  Fixpoint any_branch (pass : schema -> bool) (v : pyval) (bs : list schema) : res bool :=
    match bs with
    | [] => Ok false
    | s :: bs => if negb (pass s) then any_branch pass v bs
                 else let* b := rec s (Some v) in if b then Ok true else any_branch pass v bs
    end.
  (* tuple notation: first candidate whose name equals the given name (same naming rule as write_union) *)
  Fixpoint hinted (name : pyval) (v : pyval) (bs : list schema) : res bool :=
    match bs with
    | [] => Ok false
    | s :: bs =>
        match name with
        | PStr nm => if bytes_eqb (branch_name s) nm then rec s (Some v) else hinted name v bs
        | _ => hinted name v bs
        end
    end.
End Loops.

Fixpoint validate (f : nat) (o : wopts) (e : env) (s : schema) (ov : option pyval) {struct f} : res bool :=
  match f with
  | O => OutOfFuel
  | S f =>
    match ov with
    | None => if strict o then Ok false else validate f o e s (Some PNone)   (* NoValue *)
    | Some v =>
      match s with
      | SNull => Ok (match v with PNone => true | _ => false end)
      | SBool => Ok (match v with PBool _ => true | _ => false end)
      | SString => Ok (match v with PStr _ => true | _ => false end)
      | SBytes => Ok (match v with PBytes _ | PByteArray _ => true | _ => false end)
      | SInt => Ok (match v with PInt z => (INT_MIN <=? z) && (z <=? INT_MAX) | _ => false end)
      | SLong => Ok (match v with PInt z => (LONG_MIN <=? z) && (z <=? LONG_MAX) | _ => false end)
      | SFloat | SDouble => Ok (match v with PInt _ | PFloat _ => true | _ => false end)
      | SFixed _ _ size => Ok (match v with PBytes b => len b =? size | _ => false end)
      | SEnum _ _ syms _ => Ok (match v with PStr x => existsb (bytes_eqb x) syms | _ => false end)
      | SArray it =>
          match as_sequence v with
          | Some l => all_items (validate f o e) it l
          | None => Ok false
          end
      | SMap vs =>
          match v with
          | PDict kv => if forallb is_str_key kv then all_items (validate f o e) vs (map snd kv) else Ok false
          | _ => Ok false
          end
      | SRecord n _ fs =>
          match v with
          | PDict kv =>
              let hint_ok := match dict_get kv (s2b "-type") with
                             | Some (PStr t) => bytes_eqb t n
                             | Some _ => false
                             | None => true end in
              if hint_ok then all_fields (validate f o e) kv fs else Ok false
          | _ => Ok false
          end
      | SUnion bs =>
          match v with
          | PTuple l =>
              if disable_tuple o then any_branch (validate f o e) (hint_pass e v) v bs
              else match l with
                   | [name; v'] => hinted (validate f o e) name v' bs
                   | _ => Ok false                               (* len(datum) != 2: not a (name, value) hint *)
                   end
          | _ => any_branch (validate f o e) (hint_pass e v) v bs
          end
      | SRef n => match lookup e n with Some s' => validate f o e s' (Some v) | None => Err end
      | SAnnot _ s' => validate f o e s' (Some v)
      end
    end
  end.
