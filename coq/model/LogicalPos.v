(** Logical types as write_data / read_data see them: the dispatch of the prepare_ / read_
    functions on the Python object and on the schema's annotation, the process time zone as an
    explicit argument, and the traversal that applies a converter at every position a schema
    annotates (top level, record field, array item, map value, union branch, nested, by name).
    Executable definitions only.  Leaf arithmetic: model/Logical.v.

    Python objects (harness abstraction):
      datetime.date                       -> LDateV ordinal
      datetime.time                       -> LTimeV h m s us
      aware datetime                      -> LAware wall off   (wall clock and utcoffset() in us; instant = wall - off)
      naive datetime                      -> LNaive wall
      uuid.UUID                           -> LUuidV n
      decimal.Decimal (as_tuple)          -> LDecimalV sign digits exp
      Decimal returned by read_decimal    -> LDecV c e         (c * 10^e)
    Underlying (un-annotated) values: RInt (int / long), RStr (string), RBytes (bytes / fixed). *)
From Coq Require Import String.
From FA Require Import model.Base model.Logical.
Open Scope Z_scope.

Inductive ltype :=
| LDate | LTimeMillis | LTimeMicros
| LTsMillis | LTsMicros | LLocalTsMillis | LLocalTsMicros
| LUuid
| LDecBytes (precision scale : Z)
| LDecFixed (precision scale size : Z).

Inductive lval :=
| LDateV (ordinal : Z)
| LTimeV (h m s us : Z)
| LAware (wall off : Z)
| LNaive (wall : Z)
| LUuidV (n : Z)
| LDecimalV (sign : bool) (ds : list Z) (exp : Z)
| LDecV (c e : Z).

Inductive raw := RInt (z : Z) | RStr (s : string) | RBytes (b : bytes).

(** ** the writers' dispatch.  [mk] is the process time zone as time.mktime sees it: whole seconds of
    a naive wall clock -> seconds since the epoch (the identity when TZ=UTC).
      prepare_timestamp_*:       if data.tzinfo is not None: delta = data - epoch          (instant = wall - off)
                                 else int(time.mktime(data.timetuple())) * K + microsecond part
      prepare_local_timestamp_*: delta = data.replace(tzinfo=utc) - epoch                  (the wall clock, aware or not)
    A Python object of a kind the converter does not handle is outside the statement: [Err]. *)
Definition prepare (mk : Z -> Z) (l : ltype) (x : lval) : res raw :=
  match l, x with
  | LDate, LDateV o => Ok (RInt (prepare_date o))
  | LTimeMillis, LTimeV h m s us => Ok (RInt (prepare_time_millis h m s us))
  | LTimeMicros, LTimeV h m s us => Ok (RInt (prepare_time_micros h m s us))
  | LTsMillis, LAware w o => Ok (RInt (prepare_timestamp_millis (w - o)))
  | LTsMicros, LAware w o => Ok (RInt (prepare_timestamp_micros (w - o)))
  | LTsMillis, LNaive w =>
      Ok (RInt (mk (w / 1000000) * MLS_PER_SECOND + int_truediv (w mod 1000000) 1000))
  | LTsMicros, LNaive w =>
      Ok (RInt (mk (w / 1000000) * MCS_PER_SECOND + w mod 1000000))
  | LLocalTsMillis, LAware w _ => Ok (RInt (prepare_local_timestamp_millis w))
  | LLocalTsMillis, LNaive w => Ok (RInt (prepare_local_timestamp_millis w))
  | LLocalTsMicros, LAware w _ => Ok (RInt (prepare_local_timestamp_micros w))
  | LLocalTsMicros, LNaive w => Ok (RInt (prepare_local_timestamp_micros w))
  | LUuid, LUuidV n => Ok (RStr (uuid_str n))
  | LDecBytes p sc, LDecimalV sg ds e =>
      let* b := write_bytes_decimal p sc sg ds e in Ok (RBytes b)
  | LDecFixed p sc size, LDecimalV sg ds e =>
      let* b := write_fixed_decimal p sc size sg ds e in Ok (RBytes b)
  | _, _ => Err
  end.

(** ** the readers' dispatch (LOGICAL_READERS, keyed by the writer schema's annotation) *)
Definition tod_val (t : tod) : lval := let '(h, m, s, us) := t in LTimeV h m s us.

Definition readl (l : ltype) (r : raw) : res lval :=
  match l, r with
  | LDate, RInt d => let* o := read_date d in Ok (LDateV o)
  | LTimeMillis, RInt d => let* t := read_time_millis d in Ok (tod_val t)
  | LTimeMicros, RInt d => let* t := read_time_micros d in Ok (tod_val t)
  | LTsMillis, RInt d => let* t := read_timestamp_millis d in Ok (LAware t 0)       (* epoch (UTC) + timedelta *)
  | LTsMicros, RInt d => let* t := read_timestamp_micros d in Ok (LAware t 0)
  | LLocalTsMillis, RInt d => let* t := read_local_timestamp_millis d in Ok (LNaive t)
  | LLocalTsMicros, RInt d => let* t := read_local_timestamp_micros d in Ok (LNaive t)
  | LUuid, RStr s => Ok (LUuidV (uuid_parse s))
  | LDecBytes p sc, RBytes b => let* d := read_decimal p sc b in Ok (LDecV (fst d) (snd d))
  | LDecFixed p sc _, RBytes b => let* d := read_decimal p sc b in Ok (LDecV (fst d) (snd d))
  | _, _ => Err
  end.

(** ** what read (prepare x) is, in closed form: the normal form of x, or [Err] where the writer or
    the reader raises.  (Statement: C16_exact_inverse.) *)
Definition in_range (t : Z) : bool := (DT_MIN <=? t) && (t <=? DT_MAX).

Definition dec_nf (precision : Z) (scale : Z) (su : Z) : lval :=
  let a := Z.abs su in
  let k := excess_digits a precision in
  LDecV (Z.sgn su * round_half_even a k) (k - scale).

Definition su_of (scale : Z) (sg : bool) (ds : list Z) (e : Z) : Z :=
  let u := digits_val ds * 10 ^ (e + scale) in if sg then - u else u.

Definition normal_form (mk : Z -> Z) (l : ltype) (x : lval) : res lval :=
  match l, x with
  | LDate, LDateV o => if (1 <=? o) && (o <=? MAX_ORDINAL) then Ok (LDateV o) else Err
  | LTimeMillis, LTimeV h m s us => Ok (LTimeV h m s (us / 1000 * 1000))
  | LTimeMicros, LTimeV h m s us => Ok (LTimeV h m s us)
  | LTsMillis, LAware w o => if in_range (w - o) then Ok (LAware (1000 * ((w - o) / 1000)) 0) else Err
  | LTsMicros, LAware w o => if in_range (w - o) then Ok (LAware (w - o) 0) else Err
  | LTsMillis, LNaive w =>
      let t := mk (w / 1000000) * 1000000 + w mod 1000000 in
      if in_range (1000 * (t / 1000)) then Ok (LAware (1000 * (t / 1000)) 0) else Err
  | LTsMicros, LNaive w =>
      let t := mk (w / 1000000) * 1000000 + w mod 1000000 in
      if in_range t then Ok (LAware t 0) else Err
  | LLocalTsMillis, LAware w _ => if in_range w then Ok (LNaive (1000 * (w / 1000))) else Err
  | LLocalTsMillis, LNaive w => if in_range w then Ok (LNaive (1000 * (w / 1000))) else Err
  | LLocalTsMicros, LAware w _ => if in_range w then Ok (LNaive w) else Err
  | LLocalTsMicros, LNaive w => if in_range w then Ok (LNaive w) else Err
  | LUuid, LUuidV n => Ok (LUuidV (n mod 2 ^ 128))
  | LDecBytes p sc, LDecimalV sg ds e =>
      if (len ds >? p) || (e + sc <? 0) || (p <? 1) then Err else Ok (dec_nf p sc (su_of sc sg ds e))
  | LDecFixed p sc size, LDecimalV sg ds e =>
      if (len ds >? p) || (e + sc <? 0) || (p <? 1) then Err
      else let su := su_of sc sg ds e in
           if (- 2 ^ (8 * size - 1) <? su) && (su <? 2 ^ (8 * size - 1)) then Ok (dec_nf p sc su) else Err
  | _, _ => Err
  end.

(** well-formed Python objects: what the standard-library constructors guarantee *)
Definition wf_lval (x : lval) : Prop :=
  match x with
  | LTimeV h m s us => 0 <= h < 24 /\ 0 <= m < 60 /\ 0 <= s < 60 /\ 0 <= us < 1000000
  | LDecimalV _ ds _ => Forall (fun d => 0 <= d <= 9) ds
  | _ => True
  end.

(** ** positions.  A schema, reduced to what matters here: where the annotations are. *)
Inductive lschema :=
| SPlain                                  (* any un-annotated primitive / enum / fixed *)
| SLogical (l : ltype)                    (* {"type": ..., "logicalType": ...} with a registered converter *)
| SArrayOf (items : lschema)
| SMapOf (values : lschema)
| SUnionOf (branches : list lschema)
| SRecordOf (fields : list lschema)
| SNamed (name : Z).                      (* by-name reference into named_schemas *)

Definition lenv := list (Z * lschema).
Fixpoint lookup_l (e : lenv) (n : Z) : option lschema :=
  match e with [] => None | (k, s) :: e => if k =? n then Some s else lookup_l e n end.

(** data with leaves of type A at the annotated positions *)
Inductive tree (A : Type) :=
| TLeaf (a : A)
| TPlain (z : Z)
| TList (l : list (tree A))
| TMap (kv : list (Z * tree A))           (* keys abstracted to numbers *)
| TBranch (i : Z) (t : tree A)            (* union: index of the branch that was chosen / read *)
| TRec (l : list (tree A)).
Arguments TLeaf {A} a. Arguments TPlain {A} z. Arguments TList {A} l. Arguments TMap {A} kv.
Arguments TBranch {A} i t. Arguments TRec {A} l.

Fixpoint mapM {A B} (f : A -> res B) (l : list A) : res (list B) :=
  match l with
  | [] => Ok []
  | x :: l => let* y := f x in let* r := mapM f l in Ok (y :: r)
  end.

Fixpoint zipM {S A B} (f : S -> A -> res B) (ss : list S) (l : list A) : res (list B) :=
  match ss, l with
  | [], [] => Ok []
  | s :: ss, x :: l => let* y := f s x in let* r := zipM f ss l in Ok (y :: r)
  | _, _ => Err
  end.

Fixpoint nth_branch (bs : list lschema) (i : Z) : option lschema :=
  match bs with
  | [] => None
  | b :: bs => if i =? 0 then Some b else if i <? 0 then None else nth_branch bs (i - 1)
  end.

(** write_data / read_data: the type's own writer / reader recurses into items, values, the chosen
    branch and the fields through write_data / read_data again; at an annotated node the converter is
    applied (before the type's writer / after the type's reader).  [leaf] is that converter. *)
Fixpoint trav {A B} (leaf : ltype -> A -> res B) (fuel : nat) (env : lenv) (s : lschema) (t : tree A)
  : res (tree B) :=
  match fuel with
  | O => OutOfFuel
  | S f =>
      match s, t with
      | SPlain, TPlain z => Ok (TPlain z)
      | SLogical l, TLeaf a => let* b := leaf l a in Ok (TLeaf b)
      | SArrayOf s', TList l => let* l' := mapM (trav leaf f env s') l in Ok (TList l')
      | SMapOf s', TMap kv =>
          let* kv' := mapM (fun p => let* v := trav leaf f env s' (snd p) in Ok (fst p, v)) kv in Ok (TMap kv')
      | SUnionOf bs, TBranch i v =>
          match nth_branch bs i with
          | Some b => let* v' := trav leaf f env b v in Ok (TBranch i v')
          | None => Err
          end
      | SRecordOf fs, TRec l => let* l' := zipM (trav leaf f env) fs l in Ok (TRec l')
      | SNamed n, _ => match lookup_l env n with Some s' => trav leaf f env s' t | None => Err end
      | _, _ => Err
      end
  end.

Definition write_tree (mk : Z -> Z) := trav (prepare mk).
Definition read_tree := trav readl.
(* the specification: the same structure, every annotated leaf replaced by its normal form *)
Definition normal_tree (mk : Z -> Z) := trav (normal_form mk).

Definition allP {X} (P : X -> Prop) : list X -> Prop :=
  fix go (l : list X) : Prop := match l with [] => True | x :: l => P x /\ go l end.

Fixpoint all_leaves {A} (Q : A -> Prop) (t : tree A) : Prop :=
  match t with
  | TLeaf a => Q a
  | TPlain _ => True
  | TList l => allP (all_leaves Q) l
  | TMap kv => allP (fun p => all_leaves Q (snd p)) kv
  | TBranch _ v => all_leaves Q v
  | TRec l => allP (all_leaves Q) l
  end.

(** data whose stored value may depend on the process time zone: naive datetimes under timestamp-* *)
Definition tz_free (l : ltype) (x : lval) : Prop :=
  match l, x with
  | LTsMillis, LNaive _ | LTsMicros, LNaive _ => False
  | _, _ => True
  end.

(* printing for the correspondence *)
Definition show_raw (r : raw) : string :=
  match r with RInt z => ("I" ++ show_Z z)%string | RStr s => ("S" ++ s)%string | RBytes b => ("B" ++ tohex b)%string end.

Definition show_lval (x : lval) : string :=
  match x with
  | LDateV o => ("D" ++ show_Z o)%string
  | LTimeV h m s us => ("T" ++ show_Z h ++ "." ++ show_Z m ++ "." ++ show_Z s ++ "." ++ show_Z us)%string
  | LAware w o => ("A" ++ show_Z w ++ "." ++ show_Z o)%string
  | LNaive w => ("N" ++ show_Z w)%string
  | LUuidV n => ("U" ++ show_Z n)%string
  | LDecimalV _ _ _ => "?"%string
  | LDecV c e => ("X" ++ show_Z c ++ "e" ++ show_Z e)%string
  end.

Fixpoint show_tree {A} (f : A -> string) (t : tree A) : string :=
  match t with
  | TLeaf a => f a
  | TPlain z => ("P" ++ show_Z z)%string
  | TList l => ("[" ++ (fix go l := match l with [] => ""%string | x :: l => (show_tree f x ++ "," ++ go l)%string end) l ++ "]")%string
  | TMap kv => ("{" ++ (fix go l := match l with [] => ""%string | p :: l => (show_Z (fst p) ++ ":" ++ show_tree f (snd p) ++ "," ++ go l)%string end) kv ++ "}")%string
  | TBranch i v => ("b" ++ show_Z i ++ "(" ++ show_tree f v ++ ")")%string
  | TRec l => ("<" ++ (fix go l := match l with [] => ""%string | x :: l => (show_tree f x ++ "," ++ go l)%string end) l ++ ">")%string
  end.

(** one case of the correspondence: write the structure, read it back; [off] = the process zone's fixed
    offset in seconds (mktime s = s - off) *)
Definition c_roundtrip_tree (off : Z) (env : lenv) (s : lschema) (v : tree lval) : string :=
  show_res (show_tree show_lval)
    (let* w := write_tree (fun x => x - off) 12 env s v in read_tree 12 env s w).
Definition c_leaf (off : Z) (l : ltype) (x : lval) : string :=
  bar (show_res show_raw (prepare (fun s => s - off) l x)) (show_res show_lval (normal_form (fun s => s - off) l x)).
