(** prepare_fixed_decimal of fastavro/_logical_writers_py.py AS IT WAS before the repair eff0ba2
    (no check that the value fits the fixed size; the two's-complement branch taken for every
    negative sign, including negative zero).  Kept so that the refutations of the full statements
    C16_decimal_fixed / C16_decimal_never_altered about that code remain machine-checked
    (proofs/LogicalOldProofs.v).  Executable definitions only. *)
From FA Require Import model.Base model.Logical.
Open Scope Z_scope.

Definition prepare_fixed_decimal_old (precision scale size : Z) (sign : bool) (ds : list Z) (exp : Z) : res bytes :=
  if len ds >? precision then Err else                 (* ValueError *)
  if - exp >? scale then Err else                      (* ValueError *)
  let delta := exp + scale in
  let ds := if delta >? 0 then ds ++ repeat 0 (Z.to_nat delta) else ds in
  let u := digits_val ds in
  Ok (fixed_core size sign u).

Definition write_fixed_decimal_old (precision scale size : Z) sign ds exp : res bytes :=
  let* bs := prepare_fixed_decimal_old precision scale size sign ds exp in
  write_fixed size bs.
