(** The Avro specification's side of the schema properties, written without
    reference to the parser model: the naming rule ([spec_fullname],
    [spec_namespace], [spec_ref]), the named definitions of a raw schema in
    document order ([spec_names]) and an independent well-formedness checker for
    raw schema JSON ([valid_raw]).  Executable definitions only. *)
From Coq Require Import String Ascii.
From FA Require Import model.Base model.Json.
Open Scope string_scope.

Definition spec_prims : list string :=
  ["null"; "boolean"; "int"; "long"; "float"; "double"; "bytes"; "string"].
Definition spec_is_prim (s : string) : bool := mem s spec_prims.

(** ---- names ---- *)
(* a dotted name wins; else the explicit namespace; else the enclosing one *)
Definition spec_space (ns : string) (kv : list (string * json)) : string :=
  match jget "namespace" kv with
  | Some (JStr s) => s
  | Some _ => ""            (* null: the null namespace *)
  | None => ns
  end.

Definition spec_name (kv : list (string * json)) : string :=
  match jget "name" kv with Some (JStr n) => n | _ => "" end.

Definition spec_fullname (ns : string) (kv : list (string * json)) : string :=
  let n := spec_name kv in
  if has_dot n then n
  else let sp := spec_space ns kv in
       if String.eqb sp "" then n else sp ++ "." ++ n.

(* the namespace in which the fields of a record are read *)
Definition spec_namespace (ns : string) (kv : list (string * json)) : string :=
  let n := spec_name kv in
  if has_dot n then before_last_dot n else spec_space ns kv.

(* a reference: a dotted name is a full name, otherwise it lives in the enclosing namespace *)
Definition spec_ref (ns s : string) : string :=
  if has_dot s then s else if String.eqb ns "" then s else ns ++ "." ++ s.

Inductive pmode := PSchema | PFields | PField.

Definition nsub (k : string) (rs : list (string * (pmode -> string -> list string))) (m : pmode) (ns : string)
  : list string :=
  match jget k rs with Some r => r m ns | None => [] end.

Definition type_is (kv : list (string * json)) (t : string) : bool :=
  match jget "type" kv with Some (JStr t') => String.eqb t' t | _ => false end.

(* full names of the named definitions of a raw schema, in document order *)
Definition spec_names_m : json -> pmode -> string -> list string :=
  jfold
    (fun _ _ _ => [])
    (fun _ rs m ns => concat (map (fun r => r (match m with PFields => PField | _ => PSchema end) ns) rs))
    (fun kv rs m ns =>
       match m with
       | PField => nsub "type" rs PSchema ns
       | _ =>
           if type_is kv "array" then nsub "items" rs PSchema ns
           else if type_is kv "map" then nsub "values" rs PSchema ns
           else if type_is kv "enum" || type_is kv "fixed" then [spec_fullname ns kv]
           else if type_is kv "record" || type_is kv "error" then
             spec_fullname ns kv :: nsub "fields" rs PFields (spec_namespace ns kv)
           else []
       end).
Definition spec_names (ns : string) (j : json) : list string := spec_names_m j PSchema ns.

(** ---- well-formedness ---- *)
Definition ascii_nat (c : ascii) : nat := nat_of_ascii c.
Definition id_start (c : ascii) : bool :=
  let n := ascii_nat c in
  (Nat.leb 65 n && Nat.leb n 90) || (Nat.leb 97 n && Nat.leb n 122) || Nat.eqb n 95.
Definition id_char (c : ascii) : bool :=
  id_start c || (Nat.leb 48 (ascii_nat c) && Nat.leb (ascii_nat c) 57).

(* [A-Za-z_][A-Za-z0-9_]* *)
Definition ident_ok (s : string) : bool :=
  match s with
  | EmptyString => false
  | String c r => id_start c && forallb id_char (list_ascii_of_string r)
  end.

(* identifiers separated by single dots *)
Fixpoint dotted_ok_from (start : bool) (s : string) : bool :=
  match s with
  | EmptyString => negb start
  | String c r =>
      if Ascii.eqb c dot then negb start && dotted_ok_from true r
      else (if start then id_start c else id_char c) && dotted_ok_from false r
  end.
Definition dotted_ok (s : string) : bool := dotted_ok_from true s.

Definition name_ok (kv : list (string * json)) : bool :=
  match jget "name" kv with
  | Some (JStr n) =>
      dotted_ok n &&
      match jget "namespace" kv with
      | None => true
      | Some JNull => true
      | Some (JStr s) => String.eqb s "" || dotted_ok s
      | Some _ => false
      end
  | _ => false
  end.

Fixpoint nodup_str (l : list string) : bool :=
  match l with
  | [] => true
  | x :: r => negb (mem x r) && nodup_str r
  end.

Fixpoint strings_of (l : list json) : option (list string) :=
  match l with
  | [] => Some []
  | JStr s :: r => match strings_of r with Some t => Some (s :: t) | None => None end
  | _ => None
  end.

(* what a full name denotes *)
Inductive kind := KRecord | KEnum | KFixed.
Definition defs := list (string * kind).

(* does the JSON type of a default match the type? *)
Definition prim_default_ok (t : string) (d : json) : bool :=
  if String.eqb t "null" then match d with JNull => true | _ => false end
  else if String.eqb t "boolean" then match d with JBool _ => true | _ => false end
  else if String.eqb t "int" then
    match d with JInt z => Z.leb (- 2 ^ 31) z && Z.ltb z (2 ^ 31) | _ => false end
  else if String.eqb t "long" then
    match d with JInt z => Z.leb (- 2 ^ 63) z && Z.ltb z (2 ^ 63) | _ => false end
  else if String.eqb t "float" || String.eqb t "double" then
    (* a JSON number; an integer literal must be representable (below the double overflow threshold) *)
    match d with JInt z => Z.ltb (Z.abs z) (2 ^ 1024 - 2 ^ 970) | JFloat _ => true | _ => false end
  else match d with JStr _ => true | _ => false end.     (* bytes, string *)

Definition kind_default_ok (k : kind) (d : json) : bool :=
  match k, d with
  | KRecord, JObj _ => true
  | KEnum, JStr _ => true
  | KFixed, JStr _ => true
  | _, _ => false
  end.

Definition opt_ok (test : json -> bool) (d : option json) : bool :=
  match d with None => true | Some v => test v end.

(* the JSON type of d matches the (non-union) member m *)
Definition member_default_ok (ds : defs) (ns : string) (m : json) (d : json) : bool :=
  match m with
  | JStr s => if spec_is_prim s then prim_default_ok s d
              else match jget (spec_ref ns s) ds with Some k => kind_default_ok k d | None => false end
  | JObj kv =>
      match jget "type" kv with
      | Some (JStr t) =>
          if spec_is_prim t then prim_default_ok t d
          else if String.eqb t "array" then match d with JArr _ => true | _ => false end
          else if String.eqb t "map" || String.eqb t "record" then match d with JObj _ => true | _ => false end
          else if String.eqb t "enum" || String.eqb t "fixed" then match d with JStr _ => true | _ => false end
          else false
      | _ => false
      end
  | _ => false
  end.

(* unions may not contain two members of the same unnamed type or the same name *)
Definition union_key (ns : string) (m : json) : string :=
  match m with
  | JStr s => if spec_is_prim s then s else spec_ref ns s
  | JObj kv =>
      match jget "type" kv with
      | Some (JStr t) =>
          if String.eqb t "enum" || String.eqb t "fixed" || String.eqb t "record" then spec_fullname ns kv else t
      | _ => ""
      end
  | _ => ""
  end.

(* 10^p <= 2^(8*size-1): the largest p-digit number fits a signed size-byte integer *)
Definition precision_fits (size p : Z) : bool :=
  Z.ltb 0 size && Z.leb (10 ^ p) (2 ^ (8 * size - 1)).

Definition decimal_ok (kv : list (string * json)) (t : string) : bool :=
  match jget "logicalType" kv with
  | Some (JStr lt) =>
      if negb (String.eqb lt "decimal") then true
      else
        match jget "precision" kv with
        | Some (JInt p) =>
            Z.ltb 0 p &&
            match jget "scale" kv with
            | None => true
            | Some (JInt s) => Z.leb 0 s && Z.leb s p
            | Some _ => false
            end &&
            (if String.eqb t "fixed" then
               match jget "size" kv with Some (JInt sz) => precision_fits sz p | _ => false end
             else true)
        | _ => false
        end
  | _ => true
  end.

Section Open.
  (* valid (schema) (namespace) (definitions so far) (default of the enclosing field) = definitions afterwards *)
  Variable rec : json -> string -> defs -> option json -> option defs.

  Fixpoint valid_members (ns : string) (l : list json) (ds : defs) : option defs :=
    match l with
    | [] => Some ds
    | m :: r =>
        match m with
        | JArr _ => None                       (* no union directly inside a union *)
        | _ => match rec m ns ds None with
               | Some ds1 => valid_members ns r ds1
               | None => None
               end
        end
    end.

  Definition valid_field (ns : string) (fd : json) (ds : defs) : option defs :=
    match fd with
    | JObj fkv =>
        match jget "name" fkv, jget "type" fkv with
        | Some (JStr n), Some ty =>
            if ident_ok n &&
               match jget "aliases" fkv with
               | None => true
               | Some (JArr al) => match strings_of al with Some _ => true | None => false end
               | Some _ => false
               end
            then rec ty ns ds (jget "default" fkv) else None
        | _, _ => None
        end
    | _ => None
    end.

  Fixpoint valid_fields (ns : string) (l : list json) (ds : defs) : option defs :=
    match l with
    | [] => Some ds
    | fd :: r => match valid_field ns fd ds with
                 | Some ds1 => valid_fields ns r ds1
                 | None => None
                 end
    end.

  Definition field_names (l : list json) : list string :=
    map (fun fd => match fd with JObj fkv => spec_name fkv | _ => "" end) l.

  Definition valid_node (j : json) (ns : string) (ds : defs) (d : option json) : option defs :=
    match j with
    | JStr s =>
        if spec_is_prim s then (if opt_ok (prim_default_ok s) d then Some ds else None)
        else match jget (spec_ref ns s) ds with
             | Some k => if opt_ok (kind_default_ok k) d then Some ds else None
             | None => None
             end
    | JArr l =>
        if nodup_str (map (union_key ns) l) then
          match valid_members ns l ds with
          | Some ds1 =>
              if opt_ok (fun dv => existsb (fun m => member_default_ok ds1 ns m dv) l) d then Some ds1 else None
          | None => None
          end
        else None
    | JObj kv =>
        match jget "type" kv with
        | Some (JStr t) =>
            if negb (decimal_ok kv t) then None
            else if spec_is_prim t then (if opt_ok (prim_default_ok t) d then Some ds else None)
            else if String.eqb t "array" then
              match jget "items" kv with
              | Some it => if opt_ok (fun dv => match dv with JArr _ => true | _ => false end) d
                           then rec it ns ds None else None
              | None => None
              end
            else if String.eqb t "map" then
              match jget "values" kv with
              | Some it => if opt_ok (fun dv => match dv with JObj _ => true | _ => false end) d
                           then rec it ns ds None else None
              | None => None
              end
            else if String.eqb t "enum" then
              let full := spec_fullname ns kv in
              if name_ok kv && negb (jhas full ds) && opt_ok (kind_default_ok KEnum) d then
                match jget "symbols" kv with
                | Some (JArr syms) =>
                    match strings_of syms with
                    | Some ss =>
                        if forallb ident_ok ss && nodup_str ss &&
                           match jget "default" kv with
                           | None => true
                           | Some (JStr dv) => mem dv ss
                           | Some _ => false
                           end
                        then Some (ds ++ [(full, KEnum)])%list else None
                    | None => None
                    end
                | _ => None
                end
              else None
            else if String.eqb t "fixed" then
              let full := spec_fullname ns kv in
              if name_ok kv && negb (jhas full ds) && opt_ok (kind_default_ok KFixed) d &&
                 match jget "size" kv with Some (JInt sz) => Z.leb 0 sz | _ => false end
              then Some (ds ++ [(full, KFixed)])%list else None
            else if String.eqb t "record" then
              let full := spec_fullname ns kv in
              if name_ok kv && negb (jhas full ds) && opt_ok (kind_default_ok KRecord) d then
                match jget "fields" kv with
                | Some (JArr fl) =>
                    if nodup_str (field_names fl)
                    then valid_fields (spec_namespace ns kv) fl (ds ++ [(full, KRecord)])%list
                    else None
                | _ => None
                end
              else None
            else None
        | _ => None
        end
    | _ => None
    end.
End Open.

Fixpoint valid_f (f : nat) : json -> string -> defs -> option json -> option defs :=
  match f with
  | O => fun _ _ _ _ => None
  | S f => valid_node (valid_f f)
  end.

Definition valid_raw (j : json) : bool :=
  match valid_f (S (S (jdepth j))) j "" [] None with Some _ => true | None => false end.

(** ---- observers of a PARSED schema (what C11 talks about) ---- *)
Definition lsub (k : string) (rs : list (string * (pmode -> list string))) (m : pmode) : list string :=
  match jget k rs with Some r => r m | None => [] end.

Definition name_attr (kv : list (string * json)) : string :=
  match jget "name" kv with Some (JStr n) => n | _ => "" end.

(* the "name" carried by every named node, in document order *)
Definition carried_names_m : json -> pmode -> list string :=
  jfold
    (fun _ _ => [])
    (fun _ rs m => concat (map (fun r => r (match m with PFields => PField | _ => PSchema end)) rs))
    (fun kv rs m =>
       match m with
       | PField => lsub "type" rs PSchema
       | _ =>
           if type_is kv "array" then lsub "items" rs PSchema
           else if type_is kv "map" then lsub "values" rs PSchema
           else if type_is kv "enum" || type_is kv "fixed" then [name_attr kv]
           else if type_is kv "record" || type_is kv "error" then name_attr kv :: lsub "fields" rs PFields
           else []
       end).
Definition carried_names (p : json) : list string := carried_names_m p PSchema.

(* the by-name references of a parsed schema: string leaves at schema positions that are not primitive names *)
Definition refs_m : json -> pmode -> list string :=
  jfold
    (fun j m => match j, m with
                | JStr s, PSchema => if spec_is_prim s then [] else [s]
                | _, _ => []
                end)
    (fun _ rs m => concat (map (fun r => r (match m with PFields => PField | _ => PSchema end)) rs))
    (fun kv rs m =>
       match m with
       | PField => lsub "type" rs PSchema
       | _ =>
           if type_is kv "array" then lsub "items" rs PSchema
           else if type_is kv "map" then lsub "values" rs PSchema
           else if type_is kv "record" || type_is kv "error" then lsub "fields" rs PFields
           else []
       end).
Definition refs (p : json) : list string := refs_m p PSchema.
