(** Strict UTF-8 validity, as bytes.decode() checks it (no overlong forms, no
    surrogates, nothing above U+10FFFF). *)
From FA Require Import model.Base.

Definition cont (b : Z) : bool := (128 <=? b) && (b <=? 191).
Definition inr (lo hi b : Z) : bool := (lo <=? b) && (b <=? hi).

Fixpoint utf8_valid (bs : bytes) : bool :=
  match bs with
  | [] => true
  | b0 :: r0 =>
      if b0 <? 128 then (0 <=? b0) && utf8_valid r0
      else if inr 194 223 b0 then
        match r0 with b1 :: r1 => cont b1 && utf8_valid r1 | _ => false end
      else if inr 224 239 b0 then
        match r0 with
        | b1 :: b2 :: r2 =>
            (if b0 =? 224 then inr 160 191 b1 else if b0 =? 237 then inr 128 159 b1 else cont b1)
            && cont b2 && utf8_valid r2
        | _ => false
        end
      else if inr 240 244 b0 then
        match r0 with
        | b1 :: b2 :: b3 :: r3 =>
            (if b0 =? 240 then inr 144 191 b1 else if b0 =? 244 then inr 128 143 b1 else cont b1)
            && cont b2 && cont b3 && utf8_valid r3
        | _ => false
        end
      else false
  end.
