(** fastavro/_schema_py.py: parse_schema, _parse_schema, parse_field, schema_name,
    _default_matches_schema, _maybe_float, _validate_enum_symbols — as functions
    on [json].  Executable definitions only.

    The model follows /repo after the repairs cee71f0 (one name set per parse_schema call,
    shared by the members of a top-level union), ff1ad9d (_default_matches_schema looks at the
    definition of a reference, at the type of a dict member, excludes bool from the numeric
    types and is used for the dict form and for references too) and 10e3af8
    (_keep_null_namespace), a7f0909 (decimal precision / scale: presence instead of truthiness,
    booleans excluded).
    Modelled configuration: expand=False, _force=False, _ignore_default_error=False.
    [names] (the per-call redefinition set) and [named_schemas] (the caller's
    dictionary) are threaded explicitly as [pstate].  Exceptions are the
    constructors of [pres]: SchemaParseException = [PErrParse], UnknownType(name)
    = [PErrUnknown name] (when the code raises UnknownType with the schema *dict*
    as its name the payload is the marker text "<dict>"), every other exception
    (KeyError, TypeError, AttributeError, OverflowError) = [PErrOther].
    Out of fuel is [PFuel], never a value.

    Domain on which the model is faithful (harness ASSUMPTIONS): "name" is a
    string, "namespace" a string or null, "symbols"/"fields" lists, "size" an
    int (bool counts as int, as in Python), no duplicate keys.  Outside it the
    model answers [PErrOther].

    Markers: a record parsed with _write_hint gets "__fastavro_parsed": true
    and "__named_schemas".  In Python the latter is an alias of the caller's
    (still growing) dictionary; [parse_rec]/[parse_schema_rec] write the
    placeholder [JNull] for "alias of this call's dictionary" and
    [parse_schema] replaces the placeholders by the final table ([tie]). *)
From Coq Require Import String Ascii.
From FA Require Import model.Base model.Json.
Open Scope string_scope.

Definition named := list (string * json).        (* named_schemas: full name -> parsed schema *)

(* [PErrUnknown name tbl]: UnknownType(name); tbl is the caller's named_schemas dictionary as the
   failed parse leaves it (entries written before the failure; load_schema's retry loop sees them) *)
Inductive pres (A : Type) :=
| POk (x : A)
| PErrParse
| PErrUnknown (name : string) (tbl : named)
| PErrOther
| PFuel.
Arguments POk {A} x. Arguments PErrParse {A}. Arguments PErrUnknown {A} name tbl.
Arguments PErrOther {A}. Arguments PFuel {A}.

Definition pbind {A B} (r : pres A) (f : A -> pres B) : pres B :=
  match r with
  | POk x => f x
  | PErrParse => PErrParse
  | PErrUnknown n tb => PErrUnknown n tb
  | PErrOther => PErrOther
  | PFuel => PFuel
  end.
Notation "'let+' x ':=' e 'in' f" := (pbind e (fun x => f))
  (at level 200, x pattern, right associativity).

Record pstate := mkst { st_names : list string; st_tbl : named }.

(** ---- constants (compared with /repo by srcfacts/SF_schema.v) ---- *)
Definition PRIMITIVES : list string :=
  ["boolean"; "bytes"; "double"; "float"; "int"; "long"; "null"; "string"].
Definition RESERVED_PROPERTIES : list string :=
  ["type"; "name"; "namespace"; "fields"; "items"; "size"; "symbols"; "values"; "doc"].
Definition OPTIONAL_FIELD_PROPERTIES : list string := ["default"; "aliases"; "doc"].
Definition RESERVED_FIELD_PROPERTIES : list string := ["type"; "name"; "default"; "aliases"; "doc"].

Definition is_prim (s : string) : bool := mem s PRIMITIVES.

(** ---- float(str): which strings Python's float() accepts ---- *)
Definition anat (c : ascii) : nat := nat_of_ascii c.
Definition is_digit (c : ascii) : bool := Nat.leb 48 (anat c) && Nat.leb (anat c) 57.
Definition is_space (c : ascii) : bool :=
  let n := anat c in
  Nat.eqb n 32 || (Nat.leb 9 n && Nat.leb n 13) || (Nat.leb 28 n && Nat.leb n 31).
Definition is_us (c : ascii) : bool := Nat.eqb (anat c) 95.
Definition lower (c : ascii) : ascii :=
  let n := anat c in if Nat.leb 65 n && Nat.leb n 90 then ascii_of_nat (n + 32) else c.

Fixpoint drop_space (l : list ascii) : list ascii :=
  match l with
  | c :: r => if is_space c then drop_space r else l
  | [] => []
  end.
Definition strip (l : list ascii) : list ascii := rev (drop_space (rev (drop_space l))).

(* underscores only between digits; returns the text without them *)
Fixpoint rm_us (prev_digit prev_us : bool) (l : list ascii) : option (list ascii) :=
  match l with
  | [] => if prev_us then None else Some []
  | c :: r =>
      if is_us c then (if prev_digit then rm_us false true r else None)
      else if prev_us && negb (is_digit c) then None
      else match rm_us (is_digit c) false r with
           | Some t => Some (c :: t)
           | None => None
           end
  end.

Fixpoint drop_digits (l : list ascii) : list ascii :=
  match l with
  | c :: r => if is_digit c then drop_digits r else l
  | [] => []
  end.
Definition starts_digit (l : list ascii) : bool :=
  match l with c :: _ => is_digit c | [] => false end.
Definition drop_sign (l : list ascii) : list ascii :=
  match l with
  | c :: r => if Nat.eqb (anat c) 43 || Nat.eqb (anat c) 45 then r else l
  | [] => []
  end.

Definition exponent_ok (l : list ascii) : bool :=
  match l with
  | [] => true
  | c :: r => if Nat.eqb (anat (lower c)) 101 then
                let r := drop_sign r in
                starts_digit r && match drop_digits r with [] => true | _ => false end
              else false
  end.

Definition number_ok (l : list ascii) : bool :=
  let d1 := starts_digit l in
  let l1 := drop_digits l in
  match l1 with
  | c :: r => if Nat.eqb (anat c) 46 then
                let d2 := starts_digit r in
                (d1 || d2) && exponent_ok (drop_digits r)
              else d1 && exponent_ok l1
  | [] => d1
  end.

Definition pyfloat_str (s : string) : bool :=
  match rm_us false false (strip (list_ascii_of_string s)) with
  | None => false
  | Some l =>
      let l := drop_sign l in
      let w := string_of_list_ascii (map lower l) in
      String.eqb w "inf" || String.eqb w "infinity" || String.eqb w "nan" || number_ok l
  end.

(* float(int) raises OverflowError when the int rounds beyond the largest double *)
Definition float_overflows (z : Z) : bool := Z.leb (2 ^ 1024 - 2 ^ 970)%Z (Z.abs z).

(* isinstance(_maybe_float(default), float) *)
Definition maybe_float_is_float (d : json) : pres bool :=
  match d with
  | JFloat _ => POk true
  | JBool _ => POk true
  | JInt z => if float_overflows z then PErrOther else POk true
  | JStr s => POk (pyfloat_str s)
  | _ => POk false
  end.

Definition is_jstr (j : json) : bool := match j with JStr _ => true | _ => false end.
Definition is_jarr (j : json) : bool := match j with JArr _ => true | _ => false end.
Definition is_jobj (j : json) : bool := match j with JObj _ => true | _ => false end.
Definition is_jnull (j : json) : bool := match j with JNull => true | _ => false end.
Definition is_jbool (j : json) : bool := match j with JBool _ => true | _ => false end.
Definition is_jfloat (j : json) : bool := match j with JFloat _ => true | _ => false end.
Definition is_pyint (j : json) : bool := match as_pyint j with Some _ => true | None => false end.

(* the primitive rule of _default_matches_schema; a bool never counts as a number *)
Definition default_matches_prim (d : json) (s : json) : pres bool :=
  match s with
  | JStr t =>
      if String.eqb t "null" then POk (is_jnull d)
      else if String.eqb t "boolean" then POk (is_jbool d)
      else if String.eqb t "string" then POk (is_jstr d)
      else if String.eqb t "bytes" then POk (is_jstr d)
      else if String.eqb t "double" then (if is_jbool d then POk false else maybe_float_is_float d)
      else if String.eqb t "float" then (if is_jbool d then POk false else maybe_float_is_float d)
      else if String.eqb t "int" then POk (negb (is_jbool d) && is_pyint d)
      else if String.eqb t "long" then POk (negb (is_jbool d) && is_pyint d)
      else POk true
  | _ => POk true
  end.

(* a schema that is not a list: a dict is judged by its "type", anything else by the primitive rule *)
Definition default_matches_leaf (d : json) (s : json) : pres bool :=
  match s with
  | JObj kv =>
      match jget "type" kv with
      | None => PErrOther                                     (* KeyError *)
      | Some ty =>
          match ty with
          | JStr t =>
              if String.eqb t "array" then POk (is_jarr d)
              else if String.eqb t "map" || String.eqb t "record" || String.eqb t "error" then POk (is_jobj d)
              else if String.eqb t "enum" || String.eqb t "fixed" then POk (is_jstr d)
              else default_matches_prim d ty
          | _ => default_matches_prim d ty
          end
      end
  | _ => default_matches_prim d s
  end.

(* _default_matches_schema(default, schema, named_schemas) on a PARSED schema.
   A by-name reference is judged by its definition in the table (when the table is not empty);
   a list by any member.  Table values are dicts (what the parser stores); the model answers
   PErrOther should a reference resolve to a list. *)
Fixpoint default_matches (tbl : list (string * json)) (d : json) (s : json) : pres bool :=
  match s with
  | JArr l =>
      (fix any (l : list json) : pres bool :=
         match l with
         | [] => POk false
         | x :: r => let+ b := default_matches tbl d x in if b then POk true else any r
         end) l
  | JStr x =>
      if negb (is_prim x) && match tbl with [] => false | _ => true end then
        match jget x tbl with
        | Some (JArr _) => PErrOther
        | Some def => default_matches_leaf d def
        | None => default_matches_leaf d s
        end
      else default_matches_leaf d s
  | _ => default_matches_leaf d s
  end.

(* for s in parsed_schemas: if _default_matches_schema(default, s, named_schemas): break  else: raise *)
Fixpoint any_match (tbl : list (string * json)) (d : json) (ps : list json) : pres bool :=
  match ps with
  | [] => POk false
  | s :: r => let+ b := default_matches tbl d s in
              if b then POk true else any_match tbl d r
  end.

(* default is NO_DEFAULT or satisfies the test; otherwise SchemaParseException *)
Definition check_default (d : option json) (test : json -> bool) : pres unit :=
  match d with
  | None => POk tt
  | Some dv => if test dv then POk tt else PErrParse
  end.

(** ---- schema_name(schema, parent_ns) = (namespace, fullname) ---- *)
Definition schema_name (kv : list (string * json)) (parent_ns : string) : pres (string * string) :=
  match jget "name" kv with
  | None => PErrParse
  | Some (JStr name) =>
      if has_dot name then POk (before_last_dot name, name)
      else
        match (match jget "namespace" kv with
               | None => Some parent_ns
               | Some (JStr s) => Some s
               | Some JNull => Some ""
               | Some _ => None
               end) with
        | None => PErrOther
        | Some nsp => if String.eqb nsp "" then POk ("", name)
                      else POk (nsp, nsp ++ "." ++ name)
        end
  | Some _ => PErrOther
  end.

(* a by-name reference seen inside namespace ns *)
Definition qualify (ns s : string) : string :=
  if negb (has_dot s) && negb (String.eqb ns "") then ns ++ "." ++ s else s.

(** ---- _validate_enum_symbols ---- *)
Definition is_alpha_us (c : ascii) : bool :=
  let n := anat c in
  (Nat.leb 65 n && Nat.leb n 90) || (Nat.leb 97 n && Nat.leb n 122) || Nat.eqb n 95.
Definition symbol_ok (s : string) : bool :=
  match list_ascii_of_string s with
  | [] => false
  | c :: r => is_alpha_us c && forallb (fun c => is_alpha_us c || is_digit c) r
  end.
Fixpoint nodupb (l : list string) : bool :=
  match l with
  | [] => true
  | x :: r => negb (mem x r) && nodupb r
  end.
Fixpoint symbol_strings (l : list json) : option (list string) :=
  match l with
  | [] => Some []
  | JStr s :: r => if symbol_ok s then
                     match symbol_strings r with Some t => Some (s :: t) | None => None end
                   else None
  | _ => None
  end.

Definition validate_enum_symbols (kv : list (string * json)) : pres unit :=
  match jget "symbols" kv with
  | None => PErrOther
  | Some (JArr syms) =>
      match symbol_strings syms with
      | None => PErrParse
      | Some ss =>
          if negb (nodupb ss) then PErrParse
          else match jget "default" kv with
               | None => POk tt
               | Some (JStr d) => if mem d ss then POk tt else PErrParse
               | Some _ => PErrParse
               end
      end
  | Some _ => PErrOther
  end.

(** ---- decimal checks ---- *)
(* largest p with 10^p <= m, for m >= 1: scan p = 0, 1, ... *)
Fixpoint ilog10_from (fuel : nat) (p pow10 m : Z) : Z :=
  match fuel with
  | O => p
  | S fuel => if Z.leb (pow10 * 10) m then ilog10_from fuel (p + 1) (pow10 * 10) m else p
  end%Z.
(* floor(log10(2) * n), exactly *)
Definition floor_log10_pow2 (n : Z) : Z :=
  if Z.leb 0 n then ilog10_from (Z.to_nat n) 0 1 (2 ^ n)
  else (- (ilog10_from (Z.to_nat (- n)) 0 1 (2 ^ (- n)) + 1))%Z.
Definition max_precision (size : Z) : Z := floor_log10_pow2 (8 * size - 1).

(* "x is not None" and "isinstance(x, int) and not isinstance(x, bool)" (since a7f0909) *)
Definition present (j : json) : bool := negb (is_jnull j).
Definition as_jint (j : json) : option Z := match j with JInt z => Some z | _ => None end.

Definition decimal_checks (parsed kv : list (string * json)) (ty : json) : pres unit :=
  match jget "logicalType" parsed with
  | Some (JStr lt) =>
      if negb (String.eqb lt "decimal") then POk tt
      else
        let scale := match jget "scale" parsed with Some v => v | None => JNull end in
        let precision := match jget "precision" parsed with Some v => v | None => JNull end in
        let+ _ := (if present scale then
                     match as_jint scale with
                     | Some z => if Z.ltb z 0 then PErrParse else POk tt
                     | None => PErrParse
                     end
                   else POk tt) in
        let+ _ := (if present precision then
                     match as_jint precision with
                     | None => PErrParse
                     | Some p =>
                         if Z.leb p 0 then PErrParse
                         else match ty with
                              | JStr t =>
                                  if String.eqb t "fixed" then
                                    match jget "size" kv with
                                    | None => PErrOther
                                    | Some sz =>
                                        match as_pyint sz with
                                        | None => PErrOther
                                        | Some size => if Z.ltb (max_precision size) p then PErrParse else POk tt
                                        end
                                    end
                                  else POk tt
                              | _ => POk tt
                              end
                     end
                   else POk tt) in
        if present scale && present precision then
          match as_jint scale, as_jint precision with
          | Some s, Some p => if Z.ltb p s then PErrParse else POk tt
          | _, _ => POk tt
          end
        else POk tt
  | _ => POk tt
  end.

(** ---- _parse_schema / parse_field in open-recursion style ---- *)
Definition recfun := json -> string -> bool -> pstate -> option json -> pres (json * pstate).

Section Open.
  Variable rec : recfun.   (* _parse_schema(schema, namespace, _write_hint, (names, named_schemas), default) *)

  (* [_parse_schema(s, namespace, ..., False, names, named_schemas, NO_DEFAULT) for s in schema] *)
  Fixpoint parse_members (ns : string) (l : list json) (st : pstate) : pres (list json * pstate) :=
    match l with
    | [] => POk ([], st)
    | s :: r =>
        let+ (p, st1) := rec s ns false st None in
        let+ (ps, st2) := parse_members ns r st1 in
        POk (p :: ps, st2)
    end.

  (* the three optional properties are copied in set-iteration order, which
     depends on the hash seed; the order below is the one under PYTHONHASHSEED=0
     and is not an observable of any property *)
  Definition copy_prop (k : string) (src dst : list (string * json)) : list (string * json) :=
    match jget k src with Some v => jset k v dst | None => dst end.

  Definition parse_field (ns : string) (field : json) (st : pstate) : pres (json * pstate) :=
    match field with
    | JObj fkv =>
        let pf := jdrop RESERVED_FIELD_PROPERTIES fkv in
        let pf := copy_prop "doc" fkv (copy_prop "aliases" fkv (copy_prop "default" fkv pf)) in
        let+ _ := match jget "aliases" pf with
                  | None => POk tt
                  | Some (JArr _) => POk tt
                  | Some _ => PErrParse
                  end in
        match jget "name" fkv with
        | None => PErrOther
        | Some nm =>
            match jget "type" fkv with
            | None => PErrOther
            | Some ty =>
                let+ (p, st1) := rec ty ns false st (jget "default" fkv) in
                POk (JObj (jset "type" p (jset "name" nm pf)), st1)
            end
        end
    | _ => PErrOther
    end.

  Fixpoint parse_fields (ns : string) (l : list json) (st : pstate) : pres (list json * pstate) :=
    match l with
    | [] => POk ([], st)
    | fd :: r =>
        let+ (p, st1) := parse_field ns fd st in
        let+ (ps, st2) := parse_fields ns r st1 in
        POk (p :: ps, st2)
    end.

  (* redefinition check + names.add(fullname) *)
  Definition declare (fullname : string) (st : pstate) : pres pstate :=
    if mem fullname (st_names st) then PErrParse
    else POk (mkst (st_names st ++ [fullname]) (st_tbl st)).

  Definition set_tbl (fullname : string) (v : json) (st : pstate) : pstate :=
    mkst (st_names st) (jset fullname v (st_tbl st)).

  (* _keep_null_namespace: a null-namespace type nested in a namespaced type keeps "namespace": "" *)
  Definition keep_null_ns (fullname enclosing : string) (kv : list (string * json)) : list (string * json) :=
    if negb (String.eqb enclosing "") && negb (has_dot fullname) then jset "namespace" (JStr "") kv else kv.

  Definition parse_dict (kv : list (string * json)) (ns : string) (wh : bool) (st : pstate)
             (d : option json) : pres (json * pstate) :=
    match jget "type" kv with
    | None => PErrOther                                     (* KeyError *)
    | Some ty =>
        let base := jset "type" ty (jdrop RESERVED_PROPERTIES kv) in
        let base := copy_prop "doc" kv base in
        let+ _ := decimal_checks base kv ty in
        match ty with
        | JStr t =>
            if String.eqb t "array" then
              match jget "items" kv with
              | None => PErrOther
              | Some it =>
                  let+ (p, st1) := rec it ns false st None in
                  let+ _ := check_default d is_jarr in
                  POk (JObj (jset "items" p base), st1)
              end
            else if String.eqb t "map" then
              match jget "values" kv with
              | None => PErrOther
              | Some it =>
                  let+ (p, st1) := rec it ns false st None in
                  let+ _ := check_default d is_jobj in
                  POk (JObj (jset "values" p base), st1)
              end
            else if String.eqb t "enum" then
              let+ (_, fullname) := schema_name kv ns in
              let+ st1 := declare fullname st in
              let+ _ := validate_enum_symbols kv in
              let+ _ := check_default d is_jstr in
              match jget "symbols" kv with
              | None => PErrOther
              | Some syms =>
                  let parsed := JObj (jset "symbols" syms (keep_null_ns fullname ns (jset "name" (JStr fullname) base))) in
                  POk (parsed, set_tbl fullname parsed st1)
              end
            else if String.eqb t "fixed" then
              let+ (_, fullname) := schema_name kv ns in
              let+ st1 := declare fullname st in
              let+ _ := check_default d is_jstr in
              match jget "size" kv with
              | None => PErrOther
              | Some sz =>
                  let parsed := JObj (jset "size" sz (keep_null_ns fullname ns (jset "name" (JStr fullname) base))) in
                  POk (parsed, set_tbl fullname parsed st1)
              end
            else if String.eqb t "record" || String.eqb t "error" then
              let+ (ns', fullname) := schema_name kv ns in
              let+ st1 := declare fullname st in
              let base := keep_null_ns fullname ns base in
              let+ _ := check_default d is_jobj in
              let st2 := set_tbl fullname (JObj base) st1 in     (* the partially built dict *)
              let+ fl := match jget "fields" kv with
                         | None => POk []
                         | Some (JArr fl) => POk fl
                         | Some _ => PErrOther
                         end in
              let+ (fs, st3) := parse_fields ns' fl st2 in
              let reckv := jset "fields" (JArr fs) (jset "name" (JStr fullname) base) in
              let st4 := set_tbl fullname (JObj reckv) st3 in
              if wh then
                POk (JObj (jset "__named_schemas" JNull (jset "__fastavro_parsed" (JBool true) reckv)), st4)
              else POk (JObj reckv, st4)
            else if is_prim t then
              let+ _ := match d with
                        | None => POk tt
                        | Some dv => let+ b := default_matches_prim dv (JStr t) in if b then POk tt else PErrParse
                        end in
              POk (JObj base, st)
            else PErrUnknown "<dict>" (st_tbl st)
        | JArr _ | JObj _ => PErrOther        (* unhashable in "schema_type in PRIMITIVES" *)
        | _ => PErrUnknown "<dict>" (st_tbl st)
        end
    end.

  Definition parse_node (j : json) (ns : string) (wh : bool) (st : pstate) (d : option json)
    : pres (json * pstate) :=
    match j with
    | JArr l =>
        let+ (ps, st1) := parse_members ns l st in
        let+ _ := match d with
                  | None => POk tt
                  | Some dv => let+ b := any_match (st_tbl st1) dv ps in if b then POk tt else PErrParse
                  end in
        POk (JArr ps, st1)
    | JStr s =>
        if is_prim s then
          let+ _ := match d with
                    | None => POk tt
                    | Some dv => let+ b := default_matches_prim dv (JStr s) in if b then POk tt else PErrParse
                    end in
          POk (JStr s, st)
        else
          let q := qualify ns s in
          if jhas q (st_tbl st) then
            let+ _ := match d with
                      | None => POk tt
                      | Some dv => let+ b := default_matches (st_tbl st) dv (JStr q) in if b then POk tt else PErrParse
                      end in
            POk (JStr q, st)
          else PErrUnknown q (st_tbl st)
    | JObj kv => parse_dict kv ns wh st d
    | _ => PErrOther
    end.
End Open.

Fixpoint parse_rec (f : nat) : recfun :=
  match f with
  | O => fun _ _ _ _ _ => PFuel
  | S f => parse_node (parse_rec f)
  end.

(** ---- parse_schema ----
    The per-call name set is shared by the members of a top-level union (parameter _names). *)
Definition run_parse (f : nat) (j : json) (st : pstate) : pres (json * pstate) :=
  parse_rec f j "" true st None.

Section OpenTop.
  Variable rec : json -> pstate -> pres (json * pstate).
  (* [parse_schema(s, named_schemas, ..., _names=names) for s in schema] *)
  Fixpoint parse_tops (l : list json) (st : pstate) : pres (list json * pstate) :=
    match l with
    | [] => POk ([], st)
    | s :: r =>
        let+ (p, st1) := rec s st in
        let+ (ps, st2) := parse_tops r st1 in
        POk (p :: ps, st2)
    end.
End OpenTop.

Fixpoint parse_schema_rec (f : nat) (j : json) (st : pstate) : pres (json * pstate) :=
  match f with
  | O => PFuel
  | S f =>
      match j with
      | JObj kv =>
          if jhas "__fastavro_parsed" kv then
            match jget "__named_schemas" kv with
            | Some (JObj emb) => POk (j, mkst (st_names st) (jupdate emb (st_tbl st)))     (* returned unchanged *)
            | Some _ => PErrOther
            | None => run_parse f j st                         (* old marker: re-parse *)
            end
          else run_parse f j st
      | JArr l =>
          let+ (ps, st1) := parse_tops (parse_schema_rec f) l st in
          POk (JArr ps, st1)
      | _ => run_parse f j st
      end
  end.

(* replace the alias placeholders by the final dictionary *)
Definition tie (t : named) : json -> json :=
  jfold (fun j => j) (fun _ rs => JArr rs)
        (fun kv _ => match jget "__named_schemas" kv with
                     | Some JNull => JObj (jset "__named_schemas" (JObj t) kv)
                     | _ => JObj kv
                     end).

(* parse_schema(schema, named_schemas): result and the dictionary afterwards *)
Definition parse_schema (f : nat) (j : json) (t : named) : pres (json * named) :=
  let+ (p, st1) := parse_schema_rec f j (mkst [] t) in
  POk (tie (st_tbl st1) p, st_tbl st1).

(* enough fuel for every schema: one unit per nesting level *)
Definition fuel_for (j : json) : nat := S (S (jdepth j)).
Definition parse_auto (j : json) : pres (json * named) := parse_schema (fuel_for j) j [].
