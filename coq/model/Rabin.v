(** CRC-64-AVRO (Rabin) fingerprint as fastavro/_schema_common.py computes it,
    the bit-serial definition of the Avro specification, and the algorithm
    dispatch of fastavro/_schema_py.py fingerprint(). *)
From Coq Require Import String.
From FA Require Import model.Base.

Definition EMPTY : Z := 0xC15D213AA4D7A795.

(* mask = -(fp & 1); fp = (fp >> 1) ^ (empty_64 & mask) *)
Definition shift1 (x : Z) : Z := Z.lxor (Z.shiftr x 1) (Z.land EMPTY (- (Z.land x 1))).

Fixpoint iter (n : nat) (f : Z -> Z) (x : Z) : Z :=
  match n with O => x | S n => iter n f (f x) end.

Definition tbl (i : Z) : Z := iter 8 shift1 i.

(* fp_table = [...]  for i in range(256) *)
Definition fp_table : list Z := map (fun i => tbl (Z.of_nat i)) (seq 0 256).

(* result = (result >> 8) ^ fp_table[(result ^ byte) & 0xFF] *)
Definition step (r b : Z) : Z :=
  Z.lxor (Z.shiftr r 8) (nth (Z.to_nat (Z.land (Z.lxor r b) 255)) fp_table 0).

Definition rabin (bs : bytes) : Z := fold_left step bs EMPTY.

(** specification: one polynomial division step per bit *)
Definition step_bit (r b : Z) : Z := iter 8 shift1 (Z.lxor r b).
Definition rabin_bitwise (bs : bytes) : Z := fold_left step_bit bs EMPTY.

(* result.to_bytes(length=8, byteorder="little").hex() *)
Fixpoint le_bytes (n : nat) (x : Z) : bytes :=
  match n with O => [] | S n => x mod 256 :: le_bytes n (x / 256) end.

Definition rabin_hex (bs : bytes) : string := tohex (le_bytes 8 (rabin bs)).

(** dispatch.  [digest] stands for hashlib.new(name, data).hexdigest() *)
Section Dispatch.
  Variable digest : string -> bytes -> string.
  Variable advertised : list string.      (* FINGERPRINT_ALGORITHMS, from Srcfacts *)

  Definition java_map (alg : string) : string :=
    if String.eqb alg "SHA-256" then "sha256"
    else if String.eqb alg "MD5" then "md5" else alg.

  Definition fingerprint (alg : string) (text : bytes) : option string :=
    if existsb (String.eqb alg) advertised then
      let a := java_map alg in
      if String.eqb a "CRC-64-AVRO" then Some (rabin_hex text) else Some (digest a text)
    else None.                            (* ValueError *)
End Dispatch.
