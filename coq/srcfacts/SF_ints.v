(** int/long ranges used by validation, against the model's constants. *)
From Coq Require Import ZArith.
From FA Require Import model.Base model.Validate.
From WK Require Srcfacts.
Open Scope Z_scope.
Lemma SF_ints_ok :
  Srcfacts.INT_MIN_VALUE = INT_MIN /\ Srcfacts.INT_MAX_VALUE = INT_MAX /\
  Srcfacts.LONG_MIN_VALUE = LONG_MIN /\ Srcfacts.LONG_MAX_VALUE = LONG_MAX.
Proof. repeat split; reflexivity. Qed.
Print Assumptions SF_ints_ok.
