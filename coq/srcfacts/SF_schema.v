(** Source facts for C11/C13: the string sets of fastavro/_schema_common.py and
    the symbol regex, as /repo has them now, against the constants of model/Parse.v. *)
From Coq Require Import ZArith List String.
From FA Require Import model.Base model.Json model.Parse.
From WK Require Srcfacts.
Import ListNotations.
Open Scope string_scope.

Definition same_set (a b : list string) : bool :=
  forallb (fun k => mem k b) a && forallb (fun k => mem k a) b.

Lemma SF_schema_ok :
  same_set Srcfacts.primitives PRIMITIVES = true /\
  same_set Srcfacts.reserved_properties RESERVED_PROPERTIES = true /\
  same_set Srcfacts.optional_field_properties OPTIONAL_FIELD_PROPERTIES = true /\
  same_set Srcfacts.reserved_field_properties RESERVED_FIELD_PROPERTIES = true /\
  same_set Srcfacts.named_types ["record"; "enum"; "fixed"; "error"] = true /\
  Srcfacts.symbol_regex = "[A-Za-z_][A-Za-z0-9_]*".
Proof. repeat split; vm_compute; reflexivity. Qed.
Print Assumptions SF_schema_ok.
