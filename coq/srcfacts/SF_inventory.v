(** Source facts for C17/C18: the inventory of shared mutable state of every fastavro.*
    module (module-level mutable objects, mutable default arguments) and the list of
    shared write sites (stores into module-level objects / defaulted parameters, `global`
    statements, mutating method calls on them), regenerated from /repo on every run,
    against the inventory model/Globals.v and model/Threads.v were proved with.

    [gstate.prec] is the one cell with a write site; every other entry below is a cell
    that no function of the library writes ([gstate.other], carried through unchanged).
    A new module-level mutable object, a new mutable default, or a new shared write site
    breaks this lemma.  The lemma also says WHICH variant of the model the source tree
    corresponds to: [Current] when read_decimal stores into the module-level context,
    [Fixed] when the list of shared write sites is empty (then no cell at all is written;
    the module-level [decimal_context] may stay behind unused or be gone). *)
From Coq Require Import ZArith List String.
From FA Require Import model.Base model.Globals.
From WK Require Srcfacts.
Import ListNotations.
Open Scope string_scope.

Definition model_globals : list string :=
  ["fastavro._logical_readers_py.LOGICAL_READERS:dict";
   "fastavro._logical_readers_py.decimal_context:Context";
   "fastavro._logical_readers_py.epoch:datetime";
   "fastavro._logical_readers_py.epoch_naive:datetime";
   "fastavro._logical_writers_py.LOGICAL_WRITERS:dict";
   "fastavro._logical_writers_py.epoch:datetime";
   "fastavro._logical_writers_py.epoch_naive:datetime";
   "fastavro._read_common.HEADER_SCHEMA:dict";
   "fastavro._read_py.AVRO_TYPES:set";
   "fastavro._read_py.BLOCK_READERS:dict";
   "fastavro._read_py.NAMED_TYPES:set";
   "fastavro._read_py.READERS:dict";
   "fastavro._read_py.SKIPS:dict";
   "fastavro._read_py.decimal_context:Context";
   "fastavro._read_py.epoch:datetime";
   "fastavro._read_py.epoch_naive:datetime";
   "fastavro._schema_common.FINGERPRINT_ALGORITHMS:set";
   "fastavro._schema_common.JAVA_FINGERPRINT_MAPPING:dict";
   "fastavro._schema_common.OPTIONAL_FIELD_PROPERTIES:set";
   "fastavro._schema_common.PRIMITIVES:set";
   "fastavro._schema_common.RESERVED_FIELD_PROPERTIES:set";
   "fastavro._schema_common.RESERVED_PROPERTIES:set";
   "fastavro._schema_py.NO_DEFAULT:object";
   "fastavro._validation_py.NoValue:object";
   "fastavro._validation_py.VALIDATORS:dict";
   "fastavro._write_py.BLOCK_WRITERS:dict";
   "fastavro._write_py.WRITERS:dict";
   "fastavro.io.parser.NO_DEFAULT:_NoDefault"].

Definition decimal_context_cell : string := "fastavro._logical_readers_py.decimal_context:Context".

Definition model_globals_without_context : list string :=
  filter (fun x => negb (String.eqb x decimal_context_cell)) model_globals.

Definition model_defaults : list string :=
  ["fastavro._read_py.file_reader.__init__:dict";
   "fastavro._read_py.read_array:dict";
   "fastavro._read_py.read_boolean:dict";
   "fastavro._read_py.read_bytes:dict";
   "fastavro._read_py.read_data:dict";
   "fastavro._read_py.read_double:dict";
   "fastavro._read_py.read_enum:dict";
   "fastavro._read_py.read_fixed:dict";
   "fastavro._read_py.read_float:dict";
   "fastavro._read_py.read_int:dict";
   "fastavro._read_py.read_long:dict";
   "fastavro._read_py.read_map:dict";
   "fastavro._read_py.read_null:dict";
   "fastavro._read_py.read_record:dict";
   "fastavro._read_py.read_union:dict";
   "fastavro._read_py.read_utf8:dict";
   "fastavro._write_py.GenericWriter.__init__:dict";
   "fastavro._write_py.JSONWriter.__init__:dict";
   "fastavro._write_py.Writer.__init__:dict";
   "fastavro.io.parser.Parser._parse:_NoDefault";
   "fastavro.io.symbols.Alternative.__init__:_NoDefault";
   "fastavro.io.symbols.Repeater.__init__:_NoDefault";
   "fastavro.io.symbols.Sequence.__init__:_NoDefault";
   "fastavro.io.symbols.Symbol.__init__:_NoDefault"].

Definition current_write_sites : list string :=
  ["_logical_readers_py.py:read_decimal: store decimal_context.prec"].

(** which variant of the model the regenerated source facts select (the harness applies the same rule) *)
Definition source_variant : variant :=
  match Srcfacts.shared_write_sites with [] => Fixed | _ => Current end.

Lemma SF_inventory_ok :
  Srcfacts.mutable_defaults = model_defaults /\
  ( (source_variant = Current /\
     Srcfacts.shared_write_sites = current_write_sites /\
     Srcfacts.mutable_globals = model_globals)
    \/
    (source_variant = Fixed /\
     Srcfacts.shared_write_sites = [] /\
     (Srcfacts.mutable_globals = model_globals \/
      Srcfacts.mutable_globals = model_globals_without_context)) ).
Proof.
  split; [vm_compute; reflexivity|].
  first [ left; repeat split; vm_compute; reflexivity
        | right; split; [vm_compute; reflexivity|]; split; [vm_compute; reflexivity|];
          first [left; vm_compute; reflexivity | right; vm_compute; reflexivity] ].
Qed.
Print Assumptions SF_inventory_ok.
