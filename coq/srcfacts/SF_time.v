(** Source facts for C16: the time constants, DAYS_SHIFT, the int/long ranges and the key sets of
    LOGICAL_WRITERS / LOGICAL_READERS as /repo has them now (after import), against the constants
    the model (model/Logical.v) was proved with. *)
From Coq Require Import ZArith List String.
From FA Require Import model.Base model.Logical.
From WK Require Srcfacts.
Import ListNotations.
Open Scope string_scope.

Lemma SF_time_ok :
  Srcfacts.MCS_PER_SECOND = MCS_PER_SECOND /\
  Srcfacts.MCS_PER_MINUTE = MCS_PER_MINUTE /\
  Srcfacts.MCS_PER_HOUR = MCS_PER_HOUR /\
  Srcfacts.MLS_PER_SECOND = MLS_PER_SECOND /\
  Srcfacts.MLS_PER_MINUTE = MLS_PER_MINUTE /\
  Srcfacts.MLS_PER_HOUR = MLS_PER_HOUR /\
  Srcfacts.DAYS_SHIFT = DAYS_SHIFT /\
  Srcfacts.DAYS_SHIFT = ymd2ord 1970 1 1 /\
  Srcfacts.INT_MIN_VALUE = INT_MIN_VALUE /\
  Srcfacts.INT_MAX_VALUE = INT_MAX_VALUE /\
  Srcfacts.LONG_MIN_VALUE = LONG_MIN_VALUE /\
  Srcfacts.LONG_MAX_VALUE = LONG_MAX_VALUE /\
  Srcfacts.logical_writers = logical_keys /\
  Srcfacts.logical_readers = logical_keys.
Proof. vm_compute. repeat split. Qed.
Print Assumptions SF_time_ok.
