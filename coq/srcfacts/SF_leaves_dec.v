(** Translation validation of integer leaf functions: the definitions in [WK.SrcDec] are generated on every run
    from the CURRENT source by harness/leaftrans.py (operator-by-operator translation of the integer
    expressions of BinaryDecoder.read_long (= read_int), fail-closed on any other statement shape); the hand-written model is proved to be
    built from exactly these expressions. *)
From Coq Require Import ZArith List Lia.
From FA Require Import model.Base model.Varint model.Rabin.
From WK Require SrcDec.
Import ListNotations.
Open Scope Z_scope.

Lemma SF_leaves_dec_ok :
  (forall b bs n sh, varint_dec_go (b :: bs) n sh =
     let n' := SrcDec.dec_acc n b sh in
     if SrcDec.dec_more b =? 0 then Ok (n', bs) else varint_dec_go bs n' (sh + SrcDec.dec_shift_step)) /\
  (forall b, SrcDec.dec_first b = SrcDec.dec_acc 0 b 0) /\
  SrcDec.dec_shift0 = 0 + SrcDec.dec_shift_step /\
  (forall n, unzigzag n = SrcDec.dec_unzigzag n).
Proof.
  repeat split; try reflexivity.
  all: try (intros b; unfold SrcDec.dec_first, SrcDec.dec_acc; rewrite Z.shiftl_0_r, Z.lor_0_l; reflexivity).
Qed.
Print Assumptions SF_leaves_dec_ok.
