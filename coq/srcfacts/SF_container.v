(** Container constants as /repo has them now, against the model's. *)
From Coq Require Import ZArith List String.
From FA Require Import model.Base model.Container.
From WK Require Srcfacts.
Import ListNotations.
Open Scope string_scope.
Lemma SF_container_ok :
  Srcfacts.magic = MAGIC /\ Srcfacts.sync_size = SYNC_SIZE /\
  Srcfacts.header_schema =
    "{""fields"": [{""name"": ""magic"", ""type"": {""name"": ""magic"", ""size"": 4, ""type"": ""fixed""}}, {""name"": ""meta"", ""type"": {""type"": ""map"", ""values"": ""bytes""}}, {""name"": ""sync"", ""type"": {""name"": ""sync"", ""size"": 16, ""type"": ""fixed""}}], ""name"": ""org.apache.avro.file.Header"", ""type"": ""record""}" /\
  Srcfacts.block_writers = ["bzip2"; "deflate"; "lz4"; "null"; "snappy"; "xz"; "zstandard"] /\
  Srcfacts.block_readers = ["bzip2"; "deflate"; "lz4"; "null"; "snappy"; "xz"; "zstandard"].
Proof. repeat split; reflexivity. Qed.
Print Assumptions SF_container_ok.
