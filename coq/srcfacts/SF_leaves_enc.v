(** Translation validation of integer leaf functions: the definitions in [WK.SrcEnc] are generated on every run
    from the CURRENT source by harness/leaftrans.py (operator-by-operator translation of the integer
    expressions of BinaryEncoder.write_int (= write_long), fail-closed on any other statement shape); the hand-written model is proved to be
    built from exactly these expressions. *)
From Coq Require Import ZArith List Lia.
From FA Require Import model.Base model.Varint model.Rabin.
From WK Require SrcEnc.
Import ListNotations.
Open Scope Z_scope.

Lemma SF_leaves_enc_ok :
  (forall n, zigzag n = SrcEnc.enc_zigzag n) /\
  (forall f z, varint_go (S f) z =
     if SrcEnc.enc_more z =? 0 then [SrcEnc.enc_last z]
     else SrcEnc.enc_byte z :: varint_go f (SrcEnc.enc_next z)).
Proof. repeat split; reflexivity. Qed.
Print Assumptions SF_leaves_enc_ok.
