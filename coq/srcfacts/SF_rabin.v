(** Source facts for C14: seed, algorithm names and Java mapping as /repo has
    them now, against the constants the model was proved with. *)
From Coq Require Import ZArith List String.
From FA Require Import model.Base model.Rabin.
From WK Require Srcfacts.
Import ListNotations.
Open Scope string_scope.

Definition model_advertised : list string :=
  ["CRC-64-AVRO"; "MD5"; "SHA-256"; "blake2b"; "blake2s"; "md5"; "sha1"; "sha224"; "sha256"; "sha384";
   "sha3_224"; "sha3_256"; "sha3_384"; "sha3_512"; "sha512"; "shake_128"; "shake_256"].

Lemma SF_rabin_ok :
  Srcfacts.rabin_seed = EMPTY /\
  Srcfacts.rabin_name = "CRC-64-AVRO" /\
  Srcfacts.java_mapping = [("MD5", "md5"); ("SHA-256", "sha256")] /\
  Srcfacts.fingerprint_algorithms = model_advertised /\
  (forall a, java_map a = match find (fun p => String.eqb (fst p) a) Srcfacts.java_mapping with
                          | Some p => snd p | None => a end).
Proof.
  repeat split; try reflexivity.
  intros a. unfold java_map. cbn [find Srcfacts.java_mapping fst snd].
  destruct (String.eqb_spec a "SHA-256") as [->|H1]; [reflexivity|].
  destruct (String.eqb_spec a "MD5") as [->|H2]; [reflexivity|].
  destruct (String.eqb_spec "MD5" a) as [E|_]; [congruence|].
  destruct (String.eqb_spec "SHA-256" a) as [E|_]; [congruence|]. reflexivity.
Qed.
Print Assumptions SF_rabin_ok.
