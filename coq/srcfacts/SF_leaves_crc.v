(** Translation validation of integer leaf functions: the definitions in [WK.SrcCrc] are generated on every run
    from the CURRENT source by harness/leaftrans.py (operator-by-operator translation of the integer
    expressions of rabin_fingerprint, fail-closed on any other statement shape); the hand-written model is proved to be
    built from exactly these expressions. *)
From Coq Require Import ZArith List Lia.
From FA Require Import model.Base model.Varint model.Rabin.
From WK Require SrcCrc.
Import ListNotations.
Open Scope Z_scope.

Lemma SF_leaves_crc_ok :
  EMPTY = SrcCrc.crc_seed /\
  (forall x, shift1 x = SrcCrc.crc_shift1 x) /\
  fp_table = map (fun i => iter SrcCrc.crc_table_rounds shift1 (Z.of_nat i)) (seq 0 SrcCrc.crc_table_size) /\
  (forall r b, step r b = Z.lxor (SrcCrc.crc_step_high r) (nth (Z.to_nat (SrcCrc.crc_step_index r b)) fp_table 0)).
Proof. repeat split; reflexivity. Qed.
Print Assumptions SF_leaves_crc_ok.
