(** C03 — the decoder accepts every specification-valid encoding (any block partition, both count
    forms, any announced byte size), reading and skipping; out-of-range indices and short input are errors.
    Statements only; proofs in proofs/CodecProofs.v. *)
From Coq Require Import String Lia.
From FA Require Import model.Base model.Varint model.Value model.Schema model.Utf8 model.Codec proofs.VarintProofs proofs.CodecProofs proofs.CodecSound.

Open Scope string_scope. Open Scope Z_scope.

(** every well-typed layout [l] (arrays and maps split into any number of non-empty blocks, each in the
    positive-count or the negative-count + byte-size form with ANY announced size) decodes to the value it
    lays out, [erase l], leaving exactly what follows it on the stream; [n] bounds nesting depth and the
    number of blocks, any fuel [f >= n] will do *)
Theorem C03_accepts : forall n e s l, typedl n e s l ->
  forall f, (n <= f)%nat -> forall r, dec f e s (wire_l l ++ r)%list = Ok (erase l, r).
Proof. exact wire_l_dec. Qed.
Print Assumptions C03_accepts.

(** ... and is skipped over exactly (what a reader schema that drops the field does) *)
Theorem C03_skips : forall n e s l, typedl n e s l ->
  forall f, (n <= f)%nat -> forall r, skip f e s (wire_l l ++ r)%list = Ok (tt, r).
Proof. intros n e s l H f Hf r. rewrite skip_is_dec, (wire_l_dec n e s l H f Hf r). reflexivity. Qed.
Print Assumptions C03_skips.

(** skipping is decoding and forgetting the value: same success, same error, same bytes consumed, on ALL inputs *)
Theorem C03_skip_is_dec : forall f e s bs, skip f e s bs = forget (dec f e s bs).
Proof. exact skip_is_dec. Qed.
Print Assumptions C03_skip_is_dec.

(** the writer's own encoding is one of these layouts *)
Theorem C03_writer_layout : forall n e s a, typedn n e s a ->
  typedl n e s (layout_of a) /\ erase (layout_of a) = a /\ wire_l (layout_of a) = wire a.
Proof. exact layout_typed. Qed.
Print Assumptions C03_writer_layout.

(** a union (enum) index below 0 or not below the number of branches (symbols) is an error, whatever follows *)
Theorem C03_bad_union_index : forall f e bs i rest,
  in_int64 i -> (i < 0 \/ len bs <= i) -> dec (S f) e (SUnion bs) (long_enc i ++ rest)%list = Err.
Proof. exact union_bad_index. Qed.
Print Assumptions C03_bad_union_index.

Theorem C03_bad_enum_index : forall f e n al syms d i rest,
  in_int64 i -> (i < 0 \/ len syms <= i) -> dec (S f) e (SEnum n al syms d) (long_enc i ++ rest)%list = Err.
Proof. exact enum_bad_index. Qed.
Print Assumptions C03_bad_enum_index.

(** and the same when the value is skipped *)
Theorem C03_bad_index_skipped : forall f e bs i rest,
  in_int64 i -> (i < 0 \/ len bs <= i) -> skip (S f) e (SUnion bs) (long_enc i ++ rest)%list = Err.
Proof. intros. rewrite skip_is_dec, union_bad_index by assumption. reflexivity. Qed.
Print Assumptions C03_bad_index_skipped.

(** globally: whatever the decoder returns on ANY input has the shape the schema prescribes -- every union
    branch index and every enum index, at every depth, lies in its schema's range ([shape] is [typedn]
    without the numeric ranges the decoder does not check) -- and was obtained by consuming a prefix of the
    input.  So an encoding with an out-of-range index at any position never decodes to a value. *)
Theorem C03_decoder_sound : forall f e s bs a r, dec f e s bs = Ok (a, r) ->
  shape f e s a /\ exists pre, bs = (pre ++ r)%list.
Proof. intros f e s bs a r H. exact (dec_sound f e s bs a r H). Qed.
Print Assumptions C03_decoder_sound.

(** decoding never looks beyond the bytes it consumes *)
Theorem C03_extension : forall f e s p q a r, dec f e s p = Ok (a, r) -> dec f e s (p ++ q)%list = Ok (a, (r ++ q)%list).
Proof. exact dec_ext. Qed.
Print Assumptions C03_extension.

(** no proper prefix of any valid encoding decodes to a value, with any amount of fuel *)
Theorem C03_truncated : forall n e s l, typedl n e s l ->
  forall p q, wire_l l = (p ++ q)%list -> q <> [] -> forall f a' r, dec f e s p <> Ok (a', r).
Proof. exact truncated_never_ok. Qed.
Print Assumptions C03_truncated.

(** fuel only bounds the search: more fuel never changes an answer *)
Theorem C03_fuel_monotone : forall f f' e s bs x, (f <= f')%nat -> dec f e s bs = Ok x -> dec f' e s bs = Ok x.
Proof. intros f f' e s bs x H. apply dec_fuel_mono. exact H. Qed.
Print Assumptions C03_fuel_monotone.

(** non-vacuity: an array of longs laid out as a negative-count block with a wrong byte size followed by a
    positive-count block, inside the second branch of a union reached through a by-name reference *)
Definition ex_env : env := [(s2b "R", SRecord (s2b "R") [] [mkField (s2b "xs") (SUnion [SNull; SArray SLong]) None []])].
Definition ex_l : lval :=
  LRecord [LUnion 1 (LArray [(true, 999, [LLeaf (AInt 1); LLeaf (AInt (-2))]); (false, 0, [LLeaf (AInt 300)])])].
Example C03_example :
  typedl 6 ex_env (SRef (s2b "R")) ex_l /\
  wire_l ex_l = [2; 3; 206; 15; 2; 3; 2; 216; 4; 0] /\
  dec 6 ex_env (SRef (s2b "R")) (wire_l ex_l) = Ok (ARecord [AUnion 1 (AArray [AInt 1; AInt (-2); AInt 300])], []).
Proof.
  split; [|split; vm_compute; reflexivity].
  apply typedl_ref. eexists. split; [reflexivity|].
  apply typedl_record. constructor; [|constructor]. cbn [ftype].
  apply typedl_union. split; [lia|]. eexists. split; [reflexivity|].
  apply typedl_array. split; [cbn [length]; lia|].
  apply Forall_cons; [|apply Forall_cons; [|apply Forall_nil]]; cbn [fst snd];
    (split; [discriminate|split; [cbv; reflexivity|split; [unfold in_int64; lia|]]]);
    repeat (apply Forall_cons; [apply typedl_long; unfold in_int64; lia|]); apply Forall_nil.
Qed.
