(** C17 — Results depend only on arguments: no state leaks across calls.
    Statements only; proofs live in proofs/GlobalsProofs.v.

    The clause "calls never modify the schema or data objects handed to them" is about
    Python object identity and mutation, which the pure model cannot express; it is decided
    by the correspondence check alone (harness/props/c17.py, corr:args-intact) and the
    property is labelled partial for that clause. *)
From Coq Require Import String.
From FA Require Import model.Base model.Globals proofs.GlobalsProofs.

(** generic form: whenever each step's result is independent of the incoming shared state,
    every history gives the result of the initial state *)
Theorem C17_history_irrelevant :
  forall (G C R : Type) (stp : G -> C -> G * R),
    (forall g g' c, snd (stp g c) = snd (stp g' c)) ->
    forall (h : list C) (c : C) (g : G),
      snd (stp (fold_left (fun g c => fst (stp g c)) h g) c) = snd (stp g c).
Proof. exact history_irrelevant. Qed.
Print Assumptions C17_history_irrelevant.

(** the hypothesis holds of the API ("every cell is written before it is read within the
    same step"): per-call independence, both variants *)
Theorem C17_call_independent :
  forall v g g' c, snd (api_step_v v g c) = snd (api_step_v v g' c).
Proof. exact api_step_indep. Qed.
Print Assumptions C17_call_independent.

(** the code as it is today: any history of calls (including calls that raise midway,
    [CFailing]), any next call: same result as in a fresh interpreter *)
Theorem C17_noninterference :
  forall (h : list api_call) (c : api_call),
    snd (api_step (fold_left (fun g c => fst (api_step g c)) h g0) c) = snd (api_step g0 c).
Proof. exact noninterference. Qed.
Print Assumptions C17_noninterference.

(** the same from every initial state and for both variants *)
Theorem C17_noninterference_any :
  forall v (h : list api_call) (c : api_call) (g : gstate),
    snd (api_step_v v (fold_left (fun g c => fst (api_step_v v g c)) h g) c) = snd (api_step_v v g c).
Proof. exact noninterference_v. Qed.
Print Assumptions C17_noninterference_any.

Theorem C17_noninterference_fixed :
  forall (h : list api_call) (c : api_call),
    snd (api_step_fixed (fold_left (fun g c => fst (api_step_fixed g c)) h g0) c) = snd (api_step_fixed g0 c).
Proof. exact noninterference_fixed. Qed.
Print Assumptions C17_noninterference_fixed.

(** frame: an API step changes the shared state at most in the cells of the module-level
    decimal context: [prec], and its sticky (write-only) signal flags, which only ever go up *)
Theorem C17_frame :
  forall g c, other (fst (api_step g c)) = other g /\
              (exists p i r, fst (api_step g c) = mkG p i r (other g)) /\
              (inexact g = true -> inexact (fst (api_step g c)) = true) /\
              (rounded g = true -> rounded (fst (api_step g c)) = true).
Proof. exact frame. Qed.
Print Assumptions C17_frame.

(** ... in no cell at all for calls that decode no decimal, and for the repaired read_decimal *)
Theorem C17_frame_no_decimal : forall v g c, effects c = [] -> fst (api_step_v v g c) = g.
Proof. exact frame_no_decimal. Qed.
Print Assumptions C17_frame_no_decimal.

Theorem C17_frame_fixed : forall g c, fst (api_step_fixed g c) = g.
Proof. exact frame_fixed. Qed.
Print Assumptions C17_frame_fixed.

(** run one after the other, today's read_decimal returns what a per-call context returns *)
Theorem C17_current_eq_fixed :
  forall g c, snd (api_step_v Current g c) = snd (api_step_v Fixed g c).
Proof. exact api_step_current_eq_fixed. Qed.
Print Assumptions C17_current_eq_fixed.

(** non-vacuity: a history that changes [prec] several times, contains a call that fails
    midway and one whose precision is rejected; the next read rounds 12355 to two digits
    half-even (1.2E+4, then scaled by 10^-1) exactly as from the fresh state *)
Example C17_example :
  let h := [CParse; CRead [mkDF 9 2 123456789]; CFailing (CRead [mkDF 3 0 1; mkDF 4 0 1]) 1;
            CWrite; CJsonRead [mkDF 0 0 5]; CValidate] in
  let c := CRead [mkDF 2 1 12355; mkDF 5 0 (-99999)] in
  fold_left (fun g c => fst (api_step g c)) h g0 = mkG 3 false false [] /\
  fst (api_step g0 c) = mkG 5 true true [] /\
  g0 = mkG 28 false false [] /\
  snd (api_step (fold_left (fun g c => fst (api_step g c)) h g0) c)
    = ROk [mkD false 12 2; mkD true 99999 0] /\
  snd (api_step g0 c) = ROk [mkD false 12 2; mkD true 99999 0] /\
  snd (api_step g0 (CRead [mkDF 2 0 (-995)])) = ROk [mkD true 10 2] /\
  snd (api_step g0 (CRead [mkDF 2 0 12500; mkDF 2 0 13500])) = ROk [mkD false 12 3; mkD false 14 3].
Proof. vm_compute. repeat split; reflexivity. Qed.
