(** C02 — the bytes written are the specification's binary encoding.  [wire] is the encoder of the
    model; the theorems below pin every clause of the specification on it, independently of how it is
    written, and show that an independent decoder recovers the value.  Statements only. *)
From Coq Require Import Lia.
From FA Require Import model.Base model.Varint model.Value model.Schema model.Utf8 model.Codec
                       proofs.VarintProofs proofs.CodecProofs.

(** int / long / enum index / union index / counts / lengths: zig-zag ... *)
Theorem C02_zigzag : forall n, in_int64 n -> zigzag n = if 0 <=? n then 2 * n else - 2 * n - 1.
Proof. exact zigzag_spec. Qed.
Print Assumptions C02_zigzag.

(** ... then base 128, least significant group first, continuation bit on all but the last byte, no
    redundant trailing group *)
Theorem C02_varint : forall z, 0 <= z ->
  digits_value (varint_enc z) = z /\ cont_bits_ok (varint_enc z) /\ (last (varint_enc z) 0 <> 0 \/ varint_enc z = [0]).
Proof. exact varint_spec. Qed.
Print Assumptions C02_varint.

(** float / double: the IEEE-754 pattern in little-endian byte order, 4 / 8 bytes *)
Theorem C02_little_endian : forall n x, 0 <= x < 256 ^ Z.of_nat n ->
  length (le_bytes n x) = n /\ le_val (le_bytes n x) = x /\ Forall is_byte (le_bytes n x).
Proof. intros n x H. split; [apply le_bytes_length|split; [apply le_val_bytes; exact H|apply le_bytes_ok]]. Qed.
Print Assumptions C02_little_endian.

(** the structural clauses, one equation per kind of value *)
Theorem C02_equations :
  wire ANull = [] /\
  (forall b, wire (ABool b) = [if b then 1 else 0]) /\
  (forall z, wire (AInt z) = long_enc z) /\
  (forall b, wire (AFloat b) = le_bytes 4 b) /\
  (forall b, wire (ADouble b) = le_bytes 8 b) /\
  (forall b, wire (ABytes b) = long_enc (len b) ++ b) /\           (* length prefix counts bytes *)
  (forall b, wire (AString b) = long_enc (len b) ++ b) /\          (* b = UTF-8 bytes: byte length, not characters *)
  (forall b, wire (AFixed b) = b) /\
  (forall i, wire (AEnum i) = long_enc i) /\
  wire (AArray []) = [0] /\
  (forall x l, wire (AArray (x :: l)) = long_enc (len (x :: l)) ++ flat_map wire (x :: l) ++ [0]) /\
  wire (AMap []) = [0] /\
  (forall x l, wire (AMap (x :: l)) =
     long_enc (len (x :: l)) ++ flat_map (fun kv => (long_enc (len (fst kv)) ++ fst kv) ++ wire (snd kv)) (x :: l) ++ [0]) /\
  (forall i a, wire (AUnion i a) = long_enc i ++ wire a) /\
  (forall l, wire (ARecord l) = flat_map wire l).
Proof. repeat split; reflexivity. Qed.
Print Assumptions C02_equations.

(** any independent decoder recovers the value: the model's decoder does, and the encoding is injective on
    well-typed values, so NO decoder can recover anything else *)
Theorem C02_decodable : forall n e s a, typedn n e s a ->
  forall f, (n <= f)%nat -> forall r, dec f e s (wire a ++ r) = Ok (a, r).
Proof. exact wire_dec. Qed.
Print Assumptions C02_decodable.

Theorem C02_injective : forall e s a a', typed e s a -> typed e s a' -> wire a = wire a' -> a = a'.
Proof. exact wire_injective_typed. Qed.
Print Assumptions C02_injective.

(** the writer's output is the one-block layout among all specification-valid layouts *)
Theorem C02_single_block : forall n e s a, typedn n e s a ->
  typedl n e s (layout_of a) /\ erase (layout_of a) = a /\ wire_l (layout_of a) = wire a.
Proof. exact layout_typed. Qed.
Print Assumptions C02_single_block.

Example C02_example :
  long_enc (-1) = [1] /\ long_enc 64 = [128; 1] /\ long_enc (2 ^ 63 - 1) = [254; 255; 255; 255; 255; 255; 255; 255; 255; 1] /\
  wire (AArray [AString [195; 169]; AString []]) = [4; 4; 195; 169; 0; 0] /\
  wire (AUnion 1 (AMap [([107], ADouble 0x3FF0000000000000)])) = [2; 2; 2; 107; 0; 0; 0; 0; 0; 0; 240; 63; 0].
Proof. repeat split; vm_compute; reflexivity. Qed.
