(** C02 — the bytes written are the specification's binary encoding.  [wire] is the encoder of the
    model; the theorems below pin every clause of the specification on it, independently of how it is
    written, and show that an independent decoder recovers the value.  Statements only. *)
From Coq Require Import Lia Reals SpecFloat.
From Flocq Require Import Core BinarySingleNaN.
From FA Require Import model.Base model.Varint model.Float model.Value model.Schema model.Utf8 model.Codec
                       proofs.VarintProofs proofs.CodecProofs proofs.FloatBits proofs.FloatProofs.

(** int / long / enum index / union index / counts / lengths: zig-zag ... *)
Theorem C02_zigzag : forall n, in_int64 n -> zigzag n = if 0 <=? n then 2 * n else - 2 * n - 1.
Proof. exact zigzag_spec. Qed.
Print Assumptions C02_zigzag.

(** ... then base 128, least significant group first, continuation bit on all but the last byte, no
    redundant trailing group *)
Theorem C02_varint : forall z, 0 <= z ->
  digits_value (varint_enc z) = z /\ cont_bits_ok (varint_enc z) /\ (last (varint_enc z) 0 <> 0 \/ varint_enc z = [0]).
Proof. exact varint_spec. Qed.
Print Assumptions C02_varint.

(** float / double: the IEEE-754 pattern in little-endian byte order, 4 / 8 bytes *)
Theorem C02_little_endian : forall n x, 0 <= x < 256 ^ Z.of_nat n ->
  length (le_bytes n x) = n /\ le_val (le_bytes n x) = x /\ Forall is_byte (le_bytes n x).
Proof. intros n x H. split; [apply le_bytes_length|split; [apply le_val_bytes; exact H|apply le_bytes_ok]]. Qed.
Print Assumptions C02_little_endian.

(** ... and the pattern IS the IEEE-754 one.  [rval s m e] is the real number (-1)^s * m * 2^e, [rne p emax] Flocq's
    round-to-nearest-even onto the binary format with p significant bits (real-number specification of IEEE-754);
    [fdecode mw ew] reads a bit pattern (sign, ew exponent bits, mw fraction bits) as a value, [fencode] is its inverse
    on valid values.  A finite Python float written under 'float' is stored as the binary32 pattern of its
    round-to-nearest-even rounding; OverflowError exactly when the rounded magnitude reaches 2^128.
    (These four theorems rest on the standard library's real-number axioms through Flocq; see Print Assumptions.) *)
Theorem C02_float_is_IEEE_binary32_rne : forall bits s m e, fdecode 52 11 bits = S754_finite s m e ->
  let r := rne 24 128 (rval s m e) in
  if Rlt_bool (Rabs r) (bpow radix2 128)
  then exists y, d2s bits = Ok (fencode 23 8 y) /\ fdecode 23 8 (fencode 23 8 y) = y /\
                 SF2R radix2 y = r /\ is_finite_SF y = true /\ sign_SF y = s /\ 0 <= fencode 23 8 y < 2 ^ 32
  else d2s bits = Err.
Proof. exact d2s_finite_spec. Qed.
Print Assumptions C02_float_is_IEEE_binary32_rne.

(** a Python int written under 'float' / 'double' is first converted like float(n): round-to-nearest-even onto binary64,
    OverflowError exactly when the rounded magnitude reaches 2^1024 *)
Theorem C02_int_to_double_is_rne : forall z,
  let r := rne 53 1024 (IZR z) in
  if Rlt_bool (Rabs r) (bpow radix2 1024)
  then exists y, z2d z = Ok (fencode 52 11 y) /\ fdecode 52 11 (fencode 52 11 y) = y /\ SF2R radix2 y = r /\ is_finite_SF y = true
  else z2d z = Err.
Proof. exact z2d_spec. Qed.
Print Assumptions C02_int_to_double_is_rne.

(** every pattern the conversions produce fits its width (so that the little-endian theorem above applies to it) *)
Theorem C02_float_patterns_in_range :
  (forall b x, d2s b = Ok x -> 0 <= x < 2 ^ 32) /\ (forall z x, z2d z = Ok x -> 0 <= x < 2 ^ 64) /\ (forall b, 0 <= s2d b < 2 ^ 64).
Proof. split; [exact d2s_range|split; [exact z2d_range|exact s2d_range]]. Qed.
Print Assumptions C02_float_patterns_in_range.

(** the bit-pattern reading is a bijection between valid non-NaN values and their patterns; every pattern is valid (no axioms) *)
Theorem C02_pattern_bijection : forall mw ew, 0 < mw -> 1 < ew ->
  (forall y, valid_binary (mw + 1) (2 ^ (ew - 1)) y = true -> y <> S754_nan ->
             fdecode mw ew (fencode mw ew y) = y /\ 0 <= fencode mw ew y < 2 ^ (mw + ew + 1)) /\
  (forall bits, valid_binary (mw + 1) (2 ^ (ew - 1)) (fdecode mw ew bits) = true).
Proof. intros mw ew Hm He. split; [exact (fdecode_fencode mw ew Hm He)|exact (fdecode_valid mw ew Hm He)]. Qed.
Print Assumptions C02_pattern_bijection.

(** non-vacuity: 0.1 (0x3FB999999999999A) is finite, is written as 0x3DCCCCCD, and that pattern's value is rne24(0.1's value) *)
Example C02_float_example :
  exists s m e y, fdecode 52 11 0x3FB999999999999A = S754_finite s m e /\ d2s 0x3FB999999999999A = Ok 0x3DCCCCCD /\
                  fencode 23 8 y = 0x3DCCCCCD /\ SF2R radix2 y = rne 24 128 (rval s m e).
Proof.
  exists false, 7205759403792794%positive, (-56), (S754_finite false 13421773 (-27)).
  assert (Hd : fdecode 52 11 0x3FB999999999999A = S754_finite false 7205759403792794 (-56)) by (vm_compute; reflexivity).
  assert (Hw : d2s 0x3FB999999999999A = Ok 0x3DCCCCCD) by (vm_compute; reflexivity).
  split; [exact Hd|]. split; [exact Hw|]. split; [vm_compute; reflexivity|].
  pose proof (d2s_finite_spec _ _ _ _ Hd) as Hs. cbv zeta in Hs. destruct (Rlt_bool _ _); [|rewrite Hw in Hs; discriminate].
  destruct Hs as (y & Hy & Hdec & Hval & _). rewrite Hw in Hy. injection Hy as Hy.
  assert (y = S754_finite false 13421773 (-27)) as <-; [|exact Hval].
  rewrite <- Hdec, <- Hy. vm_compute. reflexivity.
Qed.

(** the structural clauses, one equation per kind of value *)
Theorem C02_equations :
  wire ANull = [] /\
  (forall b, wire (ABool b) = [if b then 1 else 0]) /\
  (forall z, wire (AInt z) = long_enc z) /\
  (forall b, wire (AFloat b) = le_bytes 4 b) /\
  (forall b, wire (ADouble b) = le_bytes 8 b) /\
  (forall b, wire (ABytes b) = long_enc (len b) ++ b) /\           (* length prefix counts bytes *)
  (forall b, wire (AString b) = long_enc (len b) ++ b) /\          (* b = UTF-8 bytes: byte length, not characters *)
  (forall b, wire (AFixed b) = b) /\
  (forall i, wire (AEnum i) = long_enc i) /\
  wire (AArray []) = [0] /\
  (forall x l, wire (AArray (x :: l)) = long_enc (len (x :: l)) ++ flat_map wire (x :: l) ++ [0]) /\
  wire (AMap []) = [0] /\
  (forall x l, wire (AMap (x :: l)) =
     long_enc (len (x :: l)) ++ flat_map (fun kv => (long_enc (len (fst kv)) ++ fst kv) ++ wire (snd kv)) (x :: l) ++ [0]) /\
  (forall i a, wire (AUnion i a) = long_enc i ++ wire a) /\
  (forall l, wire (ARecord l) = flat_map wire l).
Proof. repeat split; reflexivity. Qed.
Print Assumptions C02_equations.

(** any independent decoder recovers the value: the model's decoder does, and the encoding is injective on
    well-typed values, so NO decoder can recover anything else *)
Theorem C02_decodable : forall n e s a, typedn n e s a ->
  forall f, (n <= f)%nat -> forall r, dec f e s (wire a ++ r) = Ok (a, r).
Proof. exact wire_dec. Qed.
Print Assumptions C02_decodable.

Theorem C02_injective : forall e s a a', typed e s a -> typed e s a' -> wire a = wire a' -> a = a'.
Proof. exact wire_injective_typed. Qed.
Print Assumptions C02_injective.

(** the writer's output is the one-block layout among all specification-valid layouts *)
Theorem C02_single_block : forall n e s a, typedn n e s a ->
  typedl n e s (layout_of a) /\ erase (layout_of a) = a /\ wire_l (layout_of a) = wire a.
Proof. exact layout_typed. Qed.
Print Assumptions C02_single_block.

Example C02_example :
  long_enc (-1) = [1] /\ long_enc 64 = [128; 1] /\ long_enc (2 ^ 63 - 1) = [254; 255; 255; 255; 255; 255; 255; 255; 255; 1] /\
  wire (AArray [AString [195; 169]; AString []]) = [4; 4; 195; 169; 0; 0] /\
  wire (AUnion 1 (AMap [([107], ADouble 0x3FF0000000000000)])) = [2; 2; 2; 107; 0; 0; 0; 0; 0; 0; 240; 63; 0].
Proof. repeat split; vm_compute; reflexivity. Qed.
