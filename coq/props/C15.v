(** C15 — the JSON codec: [json_enc] is the specification's JSON encoding (one equation per type), the
    decoder inverts it, JSON and binary decode to the same Python value, absent keys take the field default.
    Statements only; proofs in proofs/JsonCodecProofs.v.

    [json_enc e s a : option jv] is the document json_writer must emit for the typed value [a] (the wire-level value
    with union indices that Write.elab produces from the Python datum); [json_enc_plain] is write_union_type=False.
    Documents are what json.loads returns: numbers by value, strings by their UTF-8 bytes, object members in
    document order.  The push-down automaton of io/parser.py is not modelled: the property is about text and values. *)
From Coq Require Import Lia String.
From FA Require Import model.Base model.Varint model.Value model.Schema model.Float model.Utf8 model.Codec
                       model.Validate model.Write model.Read model.JsonCodec proofs.VarintProofs proofs.CodecProofs
                       proofs.JsonCodecProofs.
Open Scope Z_scope.
Open Scope list_scope.

(** the structural clauses, one equation per type ([wut] = write_union_type; the specification is [wut = true]).
    null -> null; boolean; int/long -> number; float/double -> number (a float32 leaf is the widened double; NaN and
    infinities have no encoding: the side conditions [finite32]/[finite64]); bytes/fixed -> the string whose code points
    are the bytes; string; enum -> symbol; array -> array; map -> object; union -> bare value for the null branch,
    {label: value} otherwise (bare when wut = false); record -> object keyed by the field names, in field order.
    A schema is looked at through [resolve] (by-name references and logicalType annotations are transparent). *)
Theorem C15_spec : forall wut e s,
  (resolve e s = SNull -> json_enc_gen wut e s ANull = Some JvNull) /\
  (resolve e s = SBool -> forall b, json_enc_gen wut e s (ABool b) = Some (JvBool b)) /\
  (resolve e s = SInt \/ resolve e s = SLong -> forall z, json_enc_gen wut e s (AInt z) = Some (JvInt z)) /\
  (resolve e s = SFloat -> forall b, finite32 b = true -> json_enc_gen wut e s (AFloat b) = Some (JvFloat (s2d b))) /\
  (resolve e s = SDouble -> forall b, finite64 b = true -> json_enc_gen wut e s (ADouble b) = Some (JvFloat b)) /\
  (resolve e s = SBytes -> forall b, json_enc_gen wut e s (ABytes b) = Some (JvStr (latin1_enc b))) /\
  (resolve e s = SString -> forall b, json_enc_gen wut e s (AString b) = Some (JvStr b)) /\
  (forall n al sz, resolve e s = SFixed n al sz -> forall b, json_enc_gen wut e s (AFixed b) = Some (JvStr (latin1_enc b))) /\
  (forall n al syms d, resolve e s = SEnum n al syms d -> forall i x, nthZ syms i = Some x ->
     json_enc_gen wut e s (AEnum i) = Some (JvStr x)) /\
  (forall it, resolve e s = SArray it -> forall l js, enc_items (json_enc_gen wut e) it l = Some js ->
     json_enc_gen wut e s (AArray l) = Some (JvArr js)) /\
  (forall vs, resolve e s = SMap vs -> forall l kv, enc_map (json_enc_gen wut e) vs l = Some kv ->
     json_enc_gen wut e s (AMap l) = Some (JvObj kv)) /\
  (forall bs, resolve e s = SUnion bs -> forall i b x j, nthZ bs i = Some b -> json_enc_gen wut e b x = Some j ->
     json_enc_gen wut e s (AUnion i x) = Some (if is_null e b || negb wut then j else JvObj [(jlabel b, j)])) /\
  (forall n al fs, resolve e s = SRecord n al fs -> forall l kv, enc_fields (json_enc_gen wut e) fs l = Some kv ->
     json_enc_gen wut e s (ARecord l) = Some (JvObj kv)).
Proof. exact enc_eqs. Qed.
Print Assumptions C15_spec.

(** ... the element loops: items in order, map members in order under their keys, one member per field under its name *)
Theorem C15_spec_loops : forall re : schema -> aval -> option jv,
  (forall s, enc_items re s [] = Some []) /\
  (forall s x l j js, re s x = Some j -> enc_items re s l = Some js -> enc_items re s (x :: l) = Some (j :: js)) /\
  (forall s, enc_map re s [] = Some []) /\
  (forall s k x l j kv, re s x = Some j -> enc_map re s l = Some kv -> enc_map re s ((k, x) :: l) = Some ((k, j) :: kv)) /\
  enc_fields re [] [] = Some [] /\
  (forall f fs x l j kv, re (ftype f) x = Some j -> enc_fields re fs l = Some kv ->
     enc_fields re (f :: fs) (x :: l) = Some ((fname f, j) :: kv)).
Proof. exact enc_loops_eqs. Qed.
Print Assumptions C15_spec_loops.

(** ... the branch label: the full name for record / enum / fixed, also when the branch is a by-name reference (parsed
    schemas hold full names in references), the type name otherwise; and which branches are written bare *)
Theorem C15_spec_labels :
  (forall n al fs, jlabel (SRecord n al fs) = n) /\ (forall n al syms d, jlabel (SEnum n al syms d) = n) /\
  (forall n al sz, jlabel (SFixed n al sz) = n) /\ (forall n, jlabel (SRef n) = n) /\
  jlabel SNull = s2b "null"%string /\ jlabel SBool = s2b "boolean"%string /\ jlabel SInt = s2b "int"%string /\
  jlabel SLong = s2b "long"%string /\ jlabel SFloat = s2b "float"%string /\ jlabel SDouble = s2b "double"%string /\
  jlabel SBytes = s2b "bytes"%string /\ jlabel SString = s2b "string"%string /\
  (forall it, jlabel (SArray it) = s2b "array"%string) /\ (forall vs, jlabel (SMap vs) = s2b "map"%string) /\
  (forall lt s, jlabel (SAnnot lt s) = jlabel s) /\
  (forall e s, is_null e s = true <-> resolve e s = SNull).
Proof. exact label_eqs. Qed.
Print Assumptions C15_spec_labels.

(** ... bytes and fixed: the string whose code points are the bytes (0-255), given by its UTF-8 bytes; it is valid
    UTF-8 and determines the bytes *)
Theorem C15_spec_bytes :
  latin1_enc [] = [] /\ (forall x b, latin1_enc (x :: b) = latin1_char x ++ latin1_enc b) /\
  (forall x, 0 <= x < 128 -> latin1_char x = [x]) /\
  (forall x, 128 <= x < 256 -> latin1_char x = [192 + x / 64; 128 + x mod 64]) /\
  (forall b, Forall is_byte b -> utf8_valid (latin1_enc b) = true /\ latin1_dec (latin1_enc b) = Some b).
Proof.
  destruct latin1_eqs as (H1 & H2 & H3 & H4). repeat split; try assumption; [apply latin1_valid|apply latin1_rt]; assumption.
Qed.
Print Assumptions C15_spec_bytes.

(** round trip.  Hypotheses: every union has distinct branch labels, every record distinct field names, every enum
    distinct symbols ([wfb], also for the named types in [e]: [wf_envb], whose entries are definitions, not references);
    [a] has type [s] (height [n]); every float leaf is finite and survives widening to binary64 and re-narrowing
    ([float_leaves_ok]: a boolean that EVALUATES d2s (s2d x) =? x on each float leaf -- that identity is not proved for
    all x in this development -- and finiteness of every float/double leaf: NaN and infinities have no JSON encoding).
    Then the value HAS an encoding, and decoding it with any fuel >= n returns the value.
    Map keys need not be distinct for this statement (objects are association lists; json.loads never yields duplicates). *)
Theorem C15_roundtrip : forall n e s a, wf_envb e = true -> wfb s = true -> typedn n e s a -> float_leaves_ok a = true ->
  forall f, (n <= f)%nat -> exists j, json_enc e s a = Some j /\ json_dec f e s j = Ok a.
Proof. intros n e s a Hwe Hws Ht Hfl f Hf. exact (json_rt n e Hwe s a Hws Ht Hfl f Hf). Qed.
Print Assumptions C15_roundtrip.

(** records decoded from JSON equal those decoded from the binary encoding of the same data: both readers build the
    Python value [py_of] of the same wire value (for every setting [ro] of the reader's naming options) *)
Theorem C15_binary_agree : forall n e s a j ro pv, wf_envb e = true -> wfb s = true -> typedn n e s a ->
  float_leaves_ok a = true -> json_enc e s a = Some j -> py_of ro e s a = Some pv ->
  forall f, (n <= f)%nat -> json_read f ro e s j = Ok pv /\ read f ro e s (wire a) = Ok (pv, []).
Proof. exact json_binary_agree. Qed.
Print Assumptions C15_binary_agree.

(** defaults: deleting the key of field number [i] from a record object that decodes to [ARecord l] changes exactly
    that component, to the value [dflt] of the field's default (union: first branch; bytes/fixed: code points); without
    a default the document is rejected ("no value and no default") *)
Theorem C15_defaults : forall f e nm al fs kv l, nodupb (map (fun f => fname f) fs) = true ->
  json_dec (S f) e (SRecord nm al fs) (JvObj kv) = Ok (ARecord l) ->
  forall i fd, nth_error fs i = Some fd ->
  (forall d dv, fdefault fd = Some d -> dflt f e (ftype fd) d = Ok dv ->
     json_dec (S f) e (SRecord nm al fs) (JvObj (jremove (fname fd) kv)) = Ok (ARecord (set_nth i dv l))) /\
  (fdefault fd = None -> json_dec (S f) e (SRecord nm al fs) (JvObj (jremove (fname fd) kv)) = Err).
Proof. exact json_defaults. Qed.
Print Assumptions C15_defaults.

(** ---- non-vacuity ---- *)
Open Scope string_scope.
Definition k (x : string) : str := s2b x.

(* a union of several named types (two reached by reference), a map whose key equals a field name, nested arrays,
   bytes with code points >= 128, a float leaf, a list cell three deep (which fastavro's json_writer cannot write: F11) *)
Definition tNode : schema :=
  SRecord (k "ns.Node") [] [mkField (k "v") SLong None []; mkField (k "next") (SUnion [SNull; SRef (k "ns.Node")]) None []].
Definition tE : schema := SEnum (k "ns.E") [] [k "A"; k "B"] None.
Definition tF : schema := SFixed (k "F") [] 2.
(* two branches with the same label (a definition and a reference to it) make a schema ill-formed: *)
Example C15_example_dup : wfb (SUnion [tE; SRef (k "ns.E")]) = false.
Proof. vm_compute. reflexivity. Qed.

Definition tR' : schema :=
  SRecord (k "R") []
    [mkField (k "u") (SArray (SUnion [SRef (k "ns.Node"); tE; tF; SNull; SMap SInt])) None [];
     mkField (k "m") (SMap SBytes) None [];
     mkField (k "aa") (SArray (SArray SFloat)) None [];
     mkField (k "d") SInt (Some (PInt 7)) []].
Definition ex_env' : env := [(k "ns.Node", tNode); (k "ns.E", tE); (k "F", tF)].
Definition ex_a' : aval :=
  ARecord [AArray [AUnion 0 (ARecord [AInt 1; AUnion 1 (ARecord [AInt 2; AUnion 1 (ARecord [AInt 3; AUnion 0 ANull])])]);
                   AUnion 1 (AEnum 1); AUnion 2 (AFixed [0; 255]); AUnion 3 ANull; AUnion 4 (AMap [(k "u", AInt 5)])];
           AMap [(k "m", ABytes [128; 97]); (k "aa", ABytes [])];
           AArray [AArray [AFloat 0x3F8CCCCD; AFloat 0]; AArray []];
           AInt 9].
Definition ex_j' : jv :=
  JvObj [(k "u", JvArr [JvObj [(k "ns.Node", JvObj [(k "v", JvInt 1); (k "next", JvObj [(k "ns.Node",
                          JvObj [(k "v", JvInt 2); (k "next", JvObj [(k "ns.Node", JvObj [(k "v", JvInt 3); (k "next", JvNull)])])])])])];
                        JvObj [(k "ns.E", JvStr (k "B"))]; JvObj [(k "F", JvStr [0; 195; 191])]; JvNull;
                        JvObj [(k "map", JvObj [(k "u", JvInt 5)])]]);
         (k "m", JvObj [(k "m", JvStr [194; 128; 97]); (k "aa", JvStr [])]);
         (k "aa", JvArr [JvArr [JvFloat 0x3FF19999A0000000; JvFloat 0]; JvArr []]);
         (k "d", JvInt 9)].

Example C15_example :
  wf_envb ex_env' = true /\ wfb tR' = true /\ float_leaves_ok ex_a' = true /\
  json_enc ex_env' tR' ex_a' = Some ex_j' /\ json_dec 30 ex_env' tR' ex_j' = Ok ex_a' /\
  (* write_union_type = False: no wrappers *)
  json_enc_plain ex_env' (SArray (SUnion [SNull; SInt; SMap SInt])) (AArray [AUnion 0 ANull; AUnion 1 (AInt 1); AUnion 2 (AMap [(k "a", AInt 1)])])
    = Some (JvArr [JvNull; JvInt 1; JvObj [(k "a", JvInt 1)]]) /\
  (* the same Python value from JSON and from the binary encoding *)
  (exists pv, json_read 30 ropts0 ex_env' tR' ex_j' = Ok pv /\ read 30 ropts0 ex_env' tR' (wire ex_a') = Ok (pv, [])) /\
  (* deleting the defaulted key "d" gives the default 7; deleting "m" (no default) is an error *)
  json_dec 30 ex_env' tR' (match ex_j' with JvObj kv => JvObj (jremove (k "d") kv) | j => j end)
    = Ok (match ex_a' with ARecord l => ARecord (set_nth 3 (AInt 7) l) | a => a end) /\
  json_dec 30 ex_env' tR' (match ex_j' with JvObj kv => JvObj (jremove (k "m") kv) | j => j end) = Err /\
  (* NaN has no JSON encoding *)
  json_enc [] SDouble (ADouble 0x7FF8000000000000) = None.
Proof.
  repeat split; try (vm_compute; reflexivity).
  eexists. split; vm_compute; reflexivity.
Qed.

(* the hypotheses of C15_roundtrip are satisfiable on a value with a union whose branch is a named type reached by
   reference, recursion three deep and a float leaf: the typing derivation, explicitly (one level per step) *)
Definition tS : schema := SArray (SUnion [SNull; SRef (k "ns.Node"); SFloat]).
Definition ex_s : aval :=
  AArray [AUnion 1 (ARecord [AInt 1; AUnion 1 (ARecord [AInt 2; AUnion 1 (ARecord [AInt 3; AUnion 0 ANull])])]); AUnion 2 (AFloat 0x3F8CCCCD)].
Ltac ty_node :=
  lazymatch goal with
  | |- typedn ?n ?e ?s ?a =>
      let s' := eval hnf in s in let a' := eval hnf in a in
      change (typedn n e s' a');
      lazymatch s' with
      | SNull => apply ty_null | SBool => apply ty_bool | SFloat => apply ty_float | SDouble => apply ty_double
      | SLong => apply ty_long | SInt => apply ty_int | SBytes => apply ty_bytes | SString => apply ty_string
      | SFixed _ _ _ => apply ty_fixed | SEnum _ _ _ _ => apply ty_enum
      | SArray _ => apply ty_array | SMap _ => apply ty_map | SRecord _ _ _ => apply ty_record
      | SUnion _ => eapply ty_union; [| vm_compute; reflexivity |]
      | SRef _ => eapply ty_ref; [vm_compute; reflexivity |]
      | SAnnot _ _ => apply ty_annot
      end
  end.
Ltac ty1 :=
  first [ ty_node
        | match goal with
          | |- Forall _ [] => constructor
          | |- Forall _ (_ :: _) => constructor
          | |- Forall2 _ [] [] => constructor
          | |- Forall2 _ (_ :: _) (_ :: _) => constructor
          | |- in_int64 _ => unfold in_int64; lia
          | |- in_int32 _ => unfold in_int32; lia
          | |- _ <= _ < _ => lia
          | |- _ < _ => vm_compute; reflexivity
          end ].
Example C15_example_typed : typedn 12 ex_env' tS ex_s.
Proof. repeat ty1. Qed.

Example C15_example_roundtrip : exists j, json_enc ex_env' tS ex_s = Some j /\ json_dec 12 ex_env' tS j = Ok ex_s.
Proof.
  apply (C15_roundtrip 12 ex_env' tS ex_s);
    [vm_compute; reflexivity|vm_compute; reflexivity|exact C15_example_typed|vm_compute; reflexivity|apply le_n].
Qed.
