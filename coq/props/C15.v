(** C15 — the JSON codec: [json_enc] is the specification's JSON encoding (one equation per type), the
    decoder inverts it, JSON and binary decode to the same Python value, absent keys take the field default.
    Statements only; proofs in proofs/JsonCodecProofs.v.

    [json_enc e s a : option jv] is the document json_writer must emit for the typed value [a] (the wire-level value
    with union indices that Write.elab produces from the Python datum); [json_enc_plain] is write_union_type=False.
    Documents are what json.loads returns: numbers by value, strings by their UTF-8 bytes, object members in
    document order.  The push-down automaton of io/parser.py is not modelled: the property is about text and values. *)
From Coq Require Import Lia String.
From FA Require Import model.Base model.Varint model.Value model.Schema model.Float model.Utf8 model.Codec
                       model.Validate model.Write model.Read model.Conform model.JsonCodec proofs.VarintProofs proofs.CodecProofs
                       proofs.JsonCodecProofs proofs.JsonPyProofs.
Open Scope Z_scope.
Open Scope list_scope.

(** the structural clauses, one equation per type ([wut] = write_union_type; the specification is [wut = true]).
    null -> null; boolean; int/long -> number; float/double -> number (a float32 leaf is the widened double; NaN and
    infinities have no encoding: the side conditions [finite32]/[finite64]); bytes/fixed -> the string whose code points
    are the bytes; string; enum -> symbol; array -> array; map -> object; union -> bare value for the null branch,
    {label: value} otherwise (bare when wut = false); record -> object keyed by the field names, in field order.
    A schema is looked at through [resolve] (by-name references and logicalType annotations are transparent). *)
Theorem C15_spec : forall wut e s,
  (resolve e s = SNull -> json_enc_gen wut e s ANull = Some JvNull) /\
  (resolve e s = SBool -> forall b, json_enc_gen wut e s (ABool b) = Some (JvBool b)) /\
  (resolve e s = SInt \/ resolve e s = SLong -> forall z, json_enc_gen wut e s (AInt z) = Some (JvInt z)) /\
  (resolve e s = SFloat -> forall b, finite32 b = true -> json_enc_gen wut e s (AFloat b) = Some (JvFloat (s2d b))) /\
  (resolve e s = SDouble -> forall b, finite64 b = true -> json_enc_gen wut e s (ADouble b) = Some (JvFloat b)) /\
  (resolve e s = SBytes -> forall b, json_enc_gen wut e s (ABytes b) = Some (JvStr (latin1_enc b))) /\
  (resolve e s = SString -> forall b, json_enc_gen wut e s (AString b) = Some (JvStr b)) /\
  (forall n al sz, resolve e s = SFixed n al sz -> forall b, json_enc_gen wut e s (AFixed b) = Some (JvStr (latin1_enc b))) /\
  (forall n al syms d, resolve e s = SEnum n al syms d -> forall i x, nthZ syms i = Some x ->
     json_enc_gen wut e s (AEnum i) = Some (JvStr x)) /\
  (forall it, resolve e s = SArray it -> forall l js, enc_items (json_enc_gen wut e) it l = Some js ->
     json_enc_gen wut e s (AArray l) = Some (JvArr js)) /\
  (forall vs, resolve e s = SMap vs -> forall l kv, enc_map (json_enc_gen wut e) vs l = Some kv ->
     json_enc_gen wut e s (AMap l) = Some (JvObj kv)) /\
  (forall bs, resolve e s = SUnion bs -> forall i b x j, nthZ bs i = Some b -> json_enc_gen wut e b x = Some j ->
     json_enc_gen wut e s (AUnion i x) = Some (if is_null e b || negb wut then j else JvObj [(jlabel b, j)])) /\
  (forall n al fs, resolve e s = SRecord n al fs -> forall l kv, enc_fields (json_enc_gen wut e) fs l = Some kv ->
     json_enc_gen wut e s (ARecord l) = Some (JvObj kv)).
Proof. exact enc_eqs. Qed.
Print Assumptions C15_spec.

(** ... the element loops: items in order, map members in order under their keys, one member per field under its name *)
Theorem C15_spec_loops : forall re : schema -> aval -> option jv,
  (forall s, enc_items re s [] = Some []) /\
  (forall s x l j js, re s x = Some j -> enc_items re s l = Some js -> enc_items re s (x :: l) = Some (j :: js)) /\
  (forall s, enc_map re s [] = Some []) /\
  (forall s k x l j kv, re s x = Some j -> enc_map re s l = Some kv -> enc_map re s ((k, x) :: l) = Some ((k, j) :: kv)) /\
  enc_fields re [] [] = Some [] /\
  (forall f fs x l j kv, re (ftype f) x = Some j -> enc_fields re fs l = Some kv ->
     enc_fields re (f :: fs) (x :: l) = Some ((fname f, j) :: kv)).
Proof. exact enc_loops_eqs. Qed.
Print Assumptions C15_spec_loops.

(** ... the branch label: the full name for record / enum / fixed, also when the branch is a by-name reference (parsed
    schemas hold full names in references), the type name otherwise; and which branches are written bare *)
Theorem C15_spec_labels :
  (forall n al fs, jlabel (SRecord n al fs) = n) /\ (forall n al syms d, jlabel (SEnum n al syms d) = n) /\
  (forall n al sz, jlabel (SFixed n al sz) = n) /\ (forall n, jlabel (SRef n) = n) /\
  jlabel SNull = s2b "null"%string /\ jlabel SBool = s2b "boolean"%string /\ jlabel SInt = s2b "int"%string /\
  jlabel SLong = s2b "long"%string /\ jlabel SFloat = s2b "float"%string /\ jlabel SDouble = s2b "double"%string /\
  jlabel SBytes = s2b "bytes"%string /\ jlabel SString = s2b "string"%string /\
  (forall it, jlabel (SArray it) = s2b "array"%string) /\ (forall vs, jlabel (SMap vs) = s2b "map"%string) /\
  (forall lt s, jlabel (SAnnot lt s) = jlabel s) /\
  (forall e s, is_null e s = true <-> resolve e s = SNull).
Proof. exact label_eqs. Qed.
Print Assumptions C15_spec_labels.

(** ... bytes and fixed: the string whose code points are the bytes (0-255), given by its UTF-8 bytes; it is valid
    UTF-8 and determines the bytes *)
Theorem C15_spec_bytes :
  latin1_enc [] = [] /\ (forall x b, latin1_enc (x :: b) = latin1_char x ++ latin1_enc b) /\
  (forall x, 0 <= x < 128 -> latin1_char x = [x]) /\
  (forall x, 128 <= x < 256 -> latin1_char x = [192 + x / 64; 128 + x mod 64]) /\
  (forall b, Forall is_byte b -> utf8_valid (latin1_enc b) = true /\ latin1_dec (latin1_enc b) = Some b).
Proof.
  destruct latin1_eqs as (H1 & H2 & H3 & H4). repeat split; try assumption; [apply latin1_valid|apply latin1_rt]; assumption.
Qed.
Print Assumptions C15_spec_bytes.

(** round trip.  Hypotheses: every union has distinct branch labels, every record distinct field names, every enum
    distinct symbols ([wfb], also for the named types in [e]: [wf_envb], whose entries are definitions, not references);
    [a] has type [s] (height [n]); every float leaf is finite and survives widening to binary64 and re-narrowing
    ([float_leaves_ok]: a boolean that EVALUATES d2s (s2d x) =? x on each float leaf -- that identity is not proved for
    all x in this development -- and finiteness of every float/double leaf: NaN and infinities have no JSON encoding).
    Then the value HAS an encoding, and decoding it with any fuel >= n returns the value.
    Map keys need not be distinct for this statement (objects are association lists; json.loads never yields duplicates). *)
Theorem C15_roundtrip : forall n e s a, wf_envb e = true -> wfb s = true -> typedn n e s a -> float_leaves_ok a = true ->
  forall f, (n <= f)%nat -> exists j, json_enc e s a = Some j /\ json_dec f e s j = Ok a.
Proof. intros n e s a Hwe Hws Ht Hfl f Hf. exact (json_rt n e Hwe s a Hws Ht Hfl f Hf). Qed.
Print Assumptions C15_roundtrip.

(** records decoded from JSON equal those decoded from the binary encoding of the same data: both readers build the
    Python value [py_of] of the same wire value (for every setting [ro] of the reader's naming options) *)
Theorem C15_binary_agree : forall n e s a j ro pv, wf_envb e = true -> wfb s = true -> typedn n e s a ->
  float_leaves_ok a = true -> json_enc e s a = Some j -> py_of ro e s a = Some pv ->
  forall f, (n <= f)%nat -> json_read f ro e s j = Ok pv /\ read f ro e s (wire a) = Ok (pv, []).
Proof. exact json_binary_agree. Qed.
Print Assumptions C15_binary_agree.

(** defaults: deleting the key of field number [i] from a record object that decodes to [ARecord l] changes exactly
    that component, to the value [dflt] of the field's default (union: first branch; bytes/fixed: code points); without
    a default the document is rejected ("no value and no default") *)
Theorem C15_defaults : forall f e nm al fs kv l, nodupb (map (fun f => fname f) fs) = true ->
  json_dec (S f) e (SRecord nm al fs) (JvObj kv) = Ok (ARecord l) ->
  forall i fd, nth_error fs i = Some fd ->
  (forall d dv, fdefault fd = Some d -> dflt f e (ftype fd) d = Ok dv ->
     json_dec (S f) e (SRecord nm al fs) (JvObj (jremove (fname fd) kv)) = Ok (ARecord (set_nth i dv l))) /\
  (fdefault fd = None -> json_dec (S f) e (SRecord nm al fs) (JvObj (jremove (fname fd) kv)) = Err).
Proof. exact json_defaults. Qed.
Print Assumptions C15_defaults.

(** the JSON reading of a default IS the binary writer's elaboration of it (the normal form of C01), under the computable side
    condition [dflt_bin]: no bytes/fixed inside the default (their JSON default is a str that write_bytes rejects, DESIGN O1) and at
    every union node the writer's branch search (C09) settles on the first branch -- which is the branch a default denotes *)
Theorem C15_dflt_elab : forall f e s d a, dflt f e s d = Ok a -> dflt_bin f e s d = true -> elab f wo0 e s d = WOk a.
Proof. exact dflt_elab. Qed.
Print Assumptions C15_dflt_elab.

(** ... hence C15_defaults in the binary codec's normal form: the component json_reader supplies for an absent key is the wire value
    the binary writer produces for any record datum [dk] that omits the field (incl. its float(...) coercion of float/double fields) *)
Theorem C15_defaults_binary : forall f e nm al fs kv l i fd d dv,
  nodupb (map (fun f => fname f) fs) = true ->
  json_dec (S f) e (SRecord nm al fs) (JvObj kv) = Ok (ARecord l) ->
  nth_error fs i = Some fd -> fdefault fd = Some d -> dflt f e (ftype fd) d = Ok dv -> dflt_bin f e (ftype fd) d = true ->
  json_dec (S f) e (SRecord nm al fs) (JvObj (jremove (fname fd) kv)) = Ok (ARecord (set_nth i dv l)) /\
  elab f wo0 e (ftype fd) d = WOk dv /\
  (forall dk l', dict_get dk (fname fd) = None -> elab (S f) wo0 e (SRecord nm al fs) (PDict dk) = WOk (ARecord l') ->
     nth_error l' i = Some dv).
Proof. exact json_defaults_binary. Qed.
Print Assumptions C15_defaults_binary.

(** a sufficient syntactic condition for the union clause of [dflt_bin] *)
Theorem C15_first_branch_chosen : forall val e v b bs, hint_pass e v b = true -> val b v = Ok true ->
  match (match strip b with SRef n => match lookup e n with Some d => strip d | None => strip b end | d => d end) with
  | SRecord _ _ _ | SFloat => False | _ => True end ->
  choose val e v (b :: bs) 0 (-1) (-1) false = Ok 0.
Proof. exact choose_first. Qed.
Print Assumptions C15_first_branch_chosen.

(** json_reader(json_writer(v)) and the binary reader(writer(v)) return the same value, at the level of Python data, for every
    datum the writer accepts -- under the computable side condition [c15_side f e s v]:
      wf_env e, wf_schema s, wf_py v   (C01's: what the abstraction of Python objects / parsed schemas satisfies),
      named_env e, wf_envb e, wfb s    (named_schemas holds definitions; distinct union labels, field names, enum symbols),
      elab f wo0 e s v = WOk a         (the writer accepts the datum: defaults, branch choice, coercions done),
      floats_ok a, float_leaves_ok a   (float leaves are IEEE patterns, finite, and survive widening + re-narrowing).
    [json_write] = elab ; json_enc, [write] = elab ; wire.  The harness evaluates c15_side on every generated record (it must hold
    whenever the model produces a document).  The statement has no exception for recursive types, field-less records, maps of
    records or unconverted numbers: those are where the IMPLEMENTATION departs from it (known findings F11a-d, K4, K5). *)
Theorem C15_json_binary : forall f e s v, c15_side f e s v = true ->
  exists a j, elab f wo0 e s v = WOk a /\ json_write f e s v = Some j /\ write f wo0 e s v = WOk (wire a) /\
    forall ro, exists pv, py_of ro e s a = Some pv /\
      forall f', (f <= f')%nat -> json_read f' ro e s j = Ok pv /\ forall r, read f' ro e s (wire a ++ r) = Ok (pv, r).
Proof. exact json_binary_py. Qed.
Print Assumptions C15_json_binary.

(** ---- observable behaviour of the reader as a whole (the push-down automaton of io/parser.py is not modelled step by step; these
         are the consequences of its intended behaviour that the model carries and the correspondence ties to the code) ---- *)

(** one document per record, each read exactly once, in order: json_reader over the documents json_writer wrote yields the
    records' Python values and ends normally ([json_read_stream]: records yielded so far + how the iteration ended) *)
Theorem C15_stream_roundtrip : forall n e s ro, wf_envb e = true -> wfb s = true -> forall avs js pvs,
  Forall2 (fun a j => typedn n e s a /\ float_leaves_ok a = true /\ json_enc e s a = Some j) avs js ->
  Forall2 (fun a pv => py_of ro e s a = Some pv) avs pvs ->
  forall f, (n <= f)%nat -> json_read_stream f ro e s js = (pvs, Ok tt).
Proof. exact stream_roundtrip. Qed.
Print Assumptions C15_stream_roundtrip.

(** prefix-closed: what is yielded for the first documents does not depend on what follows; a document that does not decode
    ends the iteration exactly there -- the earlier records have been yielded, later documents are never looked at *)
Theorem C15_stream_prefix : forall f ro e s d1 vs, json_read_stream f ro e s d1 = (vs, Ok tt) ->
  (forall d2, exists ws, fst (json_read_stream f ro e s (d1 ++ d2)) = vs ++ ws) /\
  (forall bad d2, json_read f ro e s bad = Err -> json_read_stream f ro e s (d1 ++ bad :: d2) = (vs, Err)).
Proof.
  intros f ro e s d1 vs H. split; [intros d2; exact (stream_prefix f ro e s d1 d2 vs H)|].
  intros bad d2 Hb. exact (stream_cut f ro e s d1 bad d2 vs H Hb).
Qed.
Print Assumptions C15_stream_prefix.

(** every member of a document is consumed exactly once: an array yields one item per element, a map one entry per member under
    the member's key and in member order, a union object must have exactly one member, and a record object is read through its
    field names only (member order and members that are not fields are irrelevant) *)
Theorem C15_members_once : forall f e,
  (forall it js l, json_dec (S f) e (SArray it) (JvArr js) = Ok (AArray l) -> length l = length js) /\
  (forall vs kv l, json_dec (S f) e (SMap vs) (JvObj kv) = Ok (AMap l) -> map fst l = map fst kv) /\
  (forall nm al fs kv kv', (forall fd, In fd fs -> jlookup kv (fname fd) = jlookup kv' (fname fd)) ->
     json_dec (S f) e (SRecord nm al fs) (JvObj kv) = json_dec (S f) e (SRecord nm al fs) (JvObj kv')) /\
  (forall bs kv, (length kv <> 1)%nat -> json_dec (S f) e (SUnion bs) (JvObj kv) = Err).
Proof. exact json_dec_shape. Qed.
Print Assumptions C15_members_once.

(** a result never depends on the fuel once there is enough of it *)
Theorem C15_fuel_mono : forall f f' e s j a, (f <= f')%nat -> json_dec f e s j = Ok a -> json_dec f' e s j = Ok a.
Proof. intros f f' e s j a Hf H. exact (json_dec_fuel_mono f f' e s Hf j a H). Qed.
Print Assumptions C15_fuel_mono.

(** two different values never share a document *)
Theorem C15_injective : forall n e s a a' j, wf_envb e = true -> wfb s = true ->
  typedn n e s a -> typedn n e s a' -> float_leaves_ok a = true -> float_leaves_ok a' = true ->
  json_enc e s a = Some j -> json_enc e s a' = Some j -> a = a'.
Proof. exact json_enc_injective. Qed.
Print Assumptions C15_injective.

(** ---- non-vacuity ---- *)
Open Scope string_scope.
Definition k (x : string) : str := s2b x.

(* a union of several named types (two reached by reference), a map whose key equals a field name, nested arrays,
   bytes with code points >= 128, a float leaf, a list cell three deep (which fastavro's json_writer cannot write: F11) *)
Definition tNode : schema :=
  SRecord (k "ns.Node") [] [mkField (k "v") SLong None []; mkField (k "next") (SUnion [SNull; SRef (k "ns.Node")]) None []].
Definition tE : schema := SEnum (k "ns.E") [] [k "A"; k "B"] None.
Definition tF : schema := SFixed (k "F") [] 2.
(* two branches with the same label (a definition and a reference to it) make a schema ill-formed: *)
Example C15_example_dup : wfb (SUnion [tE; SRef (k "ns.E")]) = false.
Proof. vm_compute. reflexivity. Qed.

Definition tR' : schema :=
  SRecord (k "R") []
    [mkField (k "u") (SArray (SUnion [SRef (k "ns.Node"); tE; tF; SNull; SMap SInt])) None [];
     mkField (k "m") (SMap SBytes) None [];
     mkField (k "aa") (SArray (SArray SFloat)) None [];
     mkField (k "d") SInt (Some (PInt 7)) []].
Definition ex_env' : env := [(k "ns.Node", tNode); (k "ns.E", tE); (k "F", tF)].
Definition ex_a' : aval :=
  ARecord [AArray [AUnion 0 (ARecord [AInt 1; AUnion 1 (ARecord [AInt 2; AUnion 1 (ARecord [AInt 3; AUnion 0 ANull])])]);
                   AUnion 1 (AEnum 1); AUnion 2 (AFixed [0; 255]); AUnion 3 ANull; AUnion 4 (AMap [(k "u", AInt 5)])];
           AMap [(k "m", ABytes [128; 97]); (k "aa", ABytes [])];
           AArray [AArray [AFloat 0x3F8CCCCD; AFloat 0]; AArray []];
           AInt 9].
Definition ex_j' : jv :=
  JvObj [(k "u", JvArr [JvObj [(k "ns.Node", JvObj [(k "v", JvInt 1); (k "next", JvObj [(k "ns.Node",
                          JvObj [(k "v", JvInt 2); (k "next", JvObj [(k "ns.Node", JvObj [(k "v", JvInt 3); (k "next", JvNull)])])])])])];
                        JvObj [(k "ns.E", JvStr (k "B"))]; JvObj [(k "F", JvStr [0; 195; 191])]; JvNull;
                        JvObj [(k "map", JvObj [(k "u", JvInt 5)])]]);
         (k "m", JvObj [(k "m", JvStr [194; 128; 97]); (k "aa", JvStr [])]);
         (k "aa", JvArr [JvArr [JvFloat 0x3FF19999A0000000; JvFloat 0]; JvArr []]);
         (k "d", JvInt 9)].

Example C15_example :
  wf_envb ex_env' = true /\ wfb tR' = true /\ float_leaves_ok ex_a' = true /\
  json_enc ex_env' tR' ex_a' = Some ex_j' /\ json_dec 30 ex_env' tR' ex_j' = Ok ex_a' /\
  (* write_union_type = False: no wrappers *)
  json_enc_plain ex_env' (SArray (SUnion [SNull; SInt; SMap SInt])) (AArray [AUnion 0 ANull; AUnion 1 (AInt 1); AUnion 2 (AMap [(k "a", AInt 1)])])
    = Some (JvArr [JvNull; JvInt 1; JvObj [(k "a", JvInt 1)]]) /\
  (* the same Python value from JSON and from the binary encoding *)
  (exists pv, json_read 30 ropts0 ex_env' tR' ex_j' = Ok pv /\ read 30 ropts0 ex_env' tR' (wire ex_a') = Ok (pv, [])) /\
  (* deleting the defaulted key "d" gives the default 7; deleting "m" (no default) is an error *)
  json_dec 30 ex_env' tR' (match ex_j' with JvObj kv => JvObj (jremove (k "d") kv) | j => j end)
    = Ok (match ex_a' with ARecord l => ARecord (set_nth 3 (AInt 7) l) | a => a end) /\
  json_dec 30 ex_env' tR' (match ex_j' with JvObj kv => JvObj (jremove (k "m") kv) | j => j end) = Err /\
  (* NaN has no JSON encoding *)
  json_enc [] SDouble (ADouble 0x7FF8000000000000) = None.
Proof.
  repeat split; try (vm_compute; reflexivity).
  eexists. split; vm_compute; reflexivity.
Qed.

(* the hypotheses of C15_roundtrip are satisfiable on a value with a union whose branch is a named type reached by
   reference, recursion three deep and a float leaf: the typing derivation, explicitly (one level per step) *)
Definition tS : schema := SArray (SUnion [SNull; SRef (k "ns.Node"); SFloat]).
Definition ex_s : aval :=
  AArray [AUnion 1 (ARecord [AInt 1; AUnion 1 (ARecord [AInt 2; AUnion 1 (ARecord [AInt 3; AUnion 0 ANull])])]); AUnion 2 (AFloat 0x3F8CCCCD)].
Ltac ty_node :=
  lazymatch goal with
  | |- typedn ?n ?e ?s ?a =>
      let s' := eval hnf in s in let a' := eval hnf in a in
      change (typedn n e s' a');
      lazymatch s' with
      | SNull => apply ty_null | SBool => apply ty_bool | SFloat => apply ty_float | SDouble => apply ty_double
      | SLong => apply ty_long | SInt => apply ty_int | SBytes => apply ty_bytes | SString => apply ty_string
      | SFixed _ _ _ => apply ty_fixed | SEnum _ _ _ _ => apply ty_enum
      | SArray _ => apply ty_array | SMap _ => apply ty_map | SRecord _ _ _ => apply ty_record
      | SUnion _ => eapply ty_union; [| vm_compute; reflexivity |]
      | SRef _ => eapply ty_ref; [vm_compute; reflexivity |]
      | SAnnot _ _ => apply ty_annot
      end
  end.
Ltac ty1 :=
  first [ ty_node
        | match goal with
          | |- Forall _ [] => constructor
          | |- Forall _ (_ :: _) => constructor
          | |- Forall2 _ [] [] => constructor
          | |- Forall2 _ (_ :: _) (_ :: _) => constructor
          | |- in_int64 _ => unfold in_int64; lia
          | |- in_int32 _ => unfold in_int32; lia
          | |- _ <= _ < _ => lia
          | |- _ < _ => vm_compute; reflexivity
          end ].
Example C15_example_typed : typedn 12 ex_env' tS ex_s.
Proof. repeat ty1. Qed.

Example C15_example_roundtrip : exists j, json_enc ex_env' tS ex_s = Some j /\ json_dec 12 ex_env' tS j = Ok ex_s.
Proof.
  apply (C15_roundtrip 12 ex_env' tS ex_s);
    [vm_compute; reflexivity|vm_compute; reflexivity|exact C15_example_typed|vm_compute; reflexivity|apply le_n].
Qed.

(* defaults: the side condition holds for ordinary defaults (nested containers, a record default, a union whose first branch is int),
   and is NECESSARY: for ["float","double"] the writer elaborates the default 1.5 under branch 1 (double), the JSON reading under
   branch 0; a bytes default cannot be written by the binary writer at all *)
Definition tD : schema :=
  SRecord (k "D") [] [mkField (k "g") (SArray (SArray SInt)) (Some (PList [PList [PInt 1; PInt 2]; PList [PInt 3]])) [];
                      mkField (k "u") (SUnion [SInt; SNull]) (Some (PInt 5)) [];
                      mkField (k "x") SFloat (Some (PInt 1)) [];
                      mkField (k "r") (SRecord (k "I") [] [mkField (k "p") SInt None []; mkField (k "q") SString (Some (PStr (k "qq"))) []])
                              (Some (PDict [(PStr (k "p"), PInt 3)])) [];
                      mkField (k "z") SInt None []].
Example C15_example_dflt :
  dflt_bin 9 [] tD (PDict [(PStr (k "z"), PInt 0)]) = true /\
  dflt 9 [] tD (PDict [(PStr (k "z"), PInt 0)])
    = Ok (ARecord [AArray [AArray [AInt 1; AInt 2]; AArray [AInt 3]]; AUnion 0 (AInt 5); AFloat 0x3F800000;
                   ARecord [AInt 3; AString (k "qq")]; AInt 0]) /\
  elab 9 wo0 [] tD (PDict [(PStr (k "z"), PInt 0)])
    = WOk (ARecord [AArray [AArray [AInt 1; AInt 2]; AArray [AInt 3]]; AUnion 0 (AInt 5); AFloat 0x3F800000;
                    ARecord [AInt 3; AString (k "qq")]; AInt 0]) /\
  dflt_bin 9 [] (SUnion [SFloat; SDouble]) (PFloat 0x3FF8000000000000) = false /\
  dflt 9 [] (SUnion [SFloat; SDouble]) (PFloat 0x3FF8000000000000) = Ok (AUnion 0 (AFloat 0x3FC00000)) /\
  elab 9 wo0 [] (SUnion [SFloat; SDouble]) (PFloat 0x3FF8000000000000) = WOk (AUnion 1 (ADouble 0x3FF8000000000000)) /\
  dflt_bin 9 [] SBytes (PStr [195; 191]) = false /\ dflt 9 [] SBytes (PStr [195; 191]) = Ok (ABytes [255]) /\
  elab 9 wo0 [] SBytes (PStr [195; 191]) = WErr.
Proof. repeat split; vm_compute; reflexivity. Qed.

(* C15_json_binary on a datum that omits defaulted fields and gives an int for a float: side condition by computation *)
Example C15_example_json_binary :
  c15_side 9 [] tD (PDict [(PStr (k "z"), PInt 0); (PStr (k "x"), PInt 16777217)]) = true /\
  json_write 9 [] tD (PDict [(PStr (k "z"), PInt 0); (PStr (k "x"), PInt 16777217)])
    = Some (JvObj [(k "g", JvArr [JvArr [JvInt 1; JvInt 2]; JvArr [JvInt 3]]); (k "u", JvObj [(k "int", JvInt 5)]);
                   (k "x", JvFloat 0x4170000000000000); (k "r", JvObj [(k "p", JvInt 3); (k "q", JvStr (k "qq"))]); (k "z", JvInt 0)]) /\
  c15_side 9 [] SDouble (PFloat 0x7FF8000000000000) = false.
Proof. repeat split; vm_compute; reflexivity. Qed.

(* stream: two good documents, then one that lacks a key without default, then a good one: two records, then an exception;
   member order and a member that is no field do not matter *)
Definition tP : schema := SRecord (k "P") [] [mkField (k "x") SInt None []; mkField (k "y") SString (Some (PStr (k "d"))) []].
Example C15_example_stream :
  json_read_stream 9 ropts0 [] tP [JvObj [(k "x", JvInt 1); (k "y", JvStr (k "a"))]; JvObj [(k "x", JvInt 2)];
                                   JvObj [(k "y", JvStr (k "b"))]; JvObj [(k "x", JvInt 4)]]
    = ([PDict [(PStr (k "x"), PInt 1); (PStr (k "y"), PStr (k "a"))]; PDict [(PStr (k "x"), PInt 2); (PStr (k "y"), PStr (k "d"))]], Err) /\
  json_dec 9 [] tP (JvObj [(k "zz", JvNull); (k "y", JvStr (k "a")); (k "x", JvInt 1)]) = json_dec 9 [] tP (JvObj [(k "x", JvInt 1); (k "y", JvStr (k "a"))]).
Proof. split; vm_compute; reflexivity. Qed.
