(** C14 — Fingerprints equal the spec's CRC-64-AVRO and named digests for every text.
    This file holds statements only; proofs live in proofs/RabinProofs.v. *)
From Coq Require Import String.
From FA Require Import model.Base model.Rabin proofs.RabinProofs.
Open Scope string_scope.

(** every table entry is eight steps of the specification's bit-serial division
    ([tbl i] is by definition [iter 8 shift1 i], see model/Rabin.v) *)
Theorem C14_table : forall i, 0 <= i < 256 ->
  nth (Z.to_nat i) fp_table 0 = tbl i.
Proof. exact table_ok. Qed.
Print Assumptions C14_table.

(** the table-driven loop of the code equals the specification's bit-serial
    fingerprint for every byte string, of any length *)
Theorem C14_bitwise : forall bs, Forall is_byte bs -> rabin bs = rabin_bitwise bs.
Proof. exact rabin_eq. Qed.
Print Assumptions C14_bitwise.

Theorem C14_state_64bit : forall bs, Forall is_byte bs -> 0 <= rabin bs < 2^64.
Proof. exact rabin_range. Qed.
Print Assumptions C14_state_64bit.

(** the empty text maps to the seed *)
Theorem C14_empty : rabin [] = 0xC15D213AA4D7A795.
Proof. exact rabin_empty. Qed.
Print Assumptions C14_empty.

(** sixteen hex digits, little-endian byte order, of the specification's value *)
Theorem C14_hex : forall bs, Forall is_byte bs ->
  String.length (rabin_hex bs) = 16%nat /\
  exists l, rabin_hex bs = tohex l /\ List.length l = 8%nat /\
            le_value l = rabin_bitwise bs /\ Forall is_byte l.
Proof. intros bs H. split; [exact (rabin_hex_length bs H)|exact (rabin_hex_le bs H)]. Qed.
Print Assumptions C14_hex.

(** dispatch: unknown name => ValueError (None); CRC; Java spellings; other advertised names *)
Theorem C14_dispatch : forall (digest : string -> bytes -> string) (adv : list string) (t : bytes),
  (forall alg, existsb (String.eqb alg) adv = false -> fingerprint digest adv alg t = None) /\
  (existsb (String.eqb "CRC-64-AVRO") adv = true -> fingerprint digest adv "CRC-64-AVRO" t = Some (rabin_hex t)) /\
  (existsb (String.eqb "MD5") adv = true -> fingerprint digest adv "MD5" t = Some (digest "md5" t)) /\
  (existsb (String.eqb "SHA-256") adv = true -> fingerprint digest adv "SHA-256" t = Some (digest "sha256" t)) /\
  (forall alg, existsb (String.eqb alg) adv = true ->
     alg <> "SHA-256" -> alg <> "MD5" -> alg <> "CRC-64-AVRO" ->
     fingerprint digest adv alg t = Some (digest alg t)).
Proof.
  intros digest adv t. repeat split.
  - intros alg. apply fp_unknown.
  - apply fp_crc.
  - apply fp_md5.
  - apply fp_sha.
  - intros alg. apply fp_other.
Qed.
Print Assumptions C14_dispatch.

(** equal canonical forms (equal texts) have equal fingerprints: fingerprint is a function of the text *)
Theorem C14_congruence : forall digest adv alg t1 t2, t1 = t2 ->
  fingerprint digest adv alg t1 = fingerprint digest adv alg t2.
Proof. intros; subst; reflexivity. Qed.
Print Assumptions C14_congruence.

(** non-vacuity: a concrete text meets the hypotheses; Apache's vector for "int" *)
Example C14_example :
  Forall is_byte (hx "22696e7422") /\ rabin_hex (hx "22696e7422") = "8f5c393f1ad57572".
Proof. split; [repeat constructor; unfold is_byte; cbv; intuition discriminate|vm_compute; reflexivity]. Qed.
