(** C11 — parse_schema accepts valid schemas, names them per the specification, and
    rejects ill-formed ones.  Statements only; proofs in proofs/ParseProofs.v.

    [parse_rec f j ns wh st d]  the model of _parse_schema (fuel, schema, enclosing namespace,
                                _write_hint, state = (names, named_schemas), field default)
    [parse_schema f j t]        the model of fastavro.parse_schema (top-level unions member by member)
    [spec_fullname], [spec_names], [valid_raw]   the specification's side (model/SchemaSpec.v)
    [accepted j]                some fuel, namespace, state and default make parse_rec accept j
    [traversed j sub]           sub sits at a schema position of j (union member, array items,
                                map values, type of a record field), at any depth *)
From Coq Require Import String.
From FA Require Import model.Base model.Json model.Parse model.SchemaSpec model.Canon
     proofs.JsonProofs proofs.ParseProofs proofs.CanonProofs proofs.AcceptProofs.
Open Scope string_scope.

(** ---- names per the specification ---- *)

(** schema_name computes the specification's full name and namespace *)
Theorem C11_schema_name : forall kv ns ns' full,
  schema_name kv ns = POk (ns', full) ->
  full = spec_fullname ns kv /\ ns' = spec_namespace ns kv /\ jget "name" kv = Some (JStr (spec_name kv)).
Proof. exact schema_name_spec. Qed.
Print Assumptions C11_schema_name.

(** every named node of the result carries the specification's full name: the names carried
    by the named nodes of the parsed schema, in document order, are the full names the
    specification gives to the named definitions of the raw schema, in document order; and
    exactly these names were added to the redefinition set *)
Theorem C11_fullnames : forall f j ns wh st d p st',
  parse_rec f j ns wh st d = POk (p, st') ->
  carried_names p = spec_names ns j /\ st_names st' = (st_names st ++ spec_names ns j)%list.
Proof. intros f j ns wh st d p st' H. destruct (parse_rec_names f _ _ _ _ _ _ _ H). auto. Qed.
Print Assumptions C11_fullnames.

(** a by-name reference is resolved against the enclosing namespace as the specification says *)
Theorem C11_reference_name : forall ns s, qualify ns s = spec_ref ns s.
Proof. exact qualify_spec. Qed.
Print Assumptions C11_reference_name.

(** every reference of the result is a key of the returned table (which only grows) *)
Theorem C11_refs : forall f j ns wh st d p st',
  parse_rec f j ns wh st d = POk (p, st') ->
  (forall r, In r (refs p) -> jhas r (st_tbl st') = true) /\
  (forall n, jhas n (st_tbl st) = true -> jhas n (st_tbl st') = true).
Proof. intros f j ns wh st d p st' H. destruct (parse_rec_refs f _ _ _ _ _ _ _ H). auto. Qed.
Print Assumptions C11_refs.

(** ... and denotes the definition with that full name: its table entry is a dict whose "name"
    is the reference (given that the entries of the initial table carry their names, e.g. []) *)
Theorem C11_refs_denote : forall f j ns wh st d p st',
  parse_rec f j ns wh st d = POk (p, st') -> entries_ok [] (st_tbl st) ->
  forall r, In r (refs p) -> exists kv, jget r (st_tbl st') = Some (JObj kv) /\ jget "name" kv = Some (JStr r).
Proof. exact refs_denote. Qed.
Print Assumptions C11_refs_denote.

(** the invariant behind it, with the records whose fields are being parsed as [open] *)
Theorem C11_table_entries : forall f j ns wh st d p st' open,
  parse_rec f j ns wh st d = POk (p, st') -> entries_ok open (st_tbl st) -> entries_ok open (st_tbl st').
Proof. exact parse_rec_entries. Qed.
Print Assumptions C11_table_entries.

(** the keys of a named node of the output: "name" is the full name; "namespace" is dropped, except
    that a null-namespace type met inside a non-null namespace keeps "namespace": "" (so that
    parsing the output again, unmarked, gives the same names) *)
Theorem C11_output_namespace : forall f kv t ns wh st d pkv st',
  parse_rec f (JObj kv) ns wh st d = POk (JObj pkv, st') ->
  jget "type" kv = Some (JStr t) -> named_type t ->
  jget "namespace" pkv = kept_namespace ns (spec_fullname ns kv) /\ jget "name" pkv = Some (JStr (spec_fullname ns kv)).
Proof. exact output_namespace. Qed.
Print Assumptions C11_output_namespace.

(** ---- rejection at any depth ---- *)

(** acceptance of a schema implies acceptance (in some state) of every subschema the parser
    traverses; hence a subschema that is accepted in no state makes the whole schema rejected *)
Theorem C11_accepts_subschemas : forall j sub, traversed j sub -> accepted j -> accepted sub.
Proof. exact accepted_traversed. Qed.
Print Assumptions C11_accepts_subschemas.

Theorem C11_accepts_subschemas_top : forall f j t r sub,
  parse_schema f j t = POk r -> top_traversed j sub ->
  (forall m, top_traversed j m -> is_raw m) -> accepted sub.
Proof. exact parse_schema_accepts_subschemas. Qed.
Print Assumptions C11_accepts_subschemas_top.

(** undefined reference => UnknownType carrying the qualified name *)
Theorem C11_rejects_undefined_ref : forall f s ns wh st d,
  is_prim s = false -> jhas (qualify ns s) (st_tbl st) = false ->
  parse_rec (S f) (JStr s) ns wh st d = PErrUnknown (qualify ns s) (st_tbl st).
Proof. exact exact_unknown_ref. Qed.
Print Assumptions C11_rejects_undefined_ref.

(** a name defined twice: at the node the error is SchemaParseException; at any depth, an
    accepted schema never defines a name twice within one _parse_schema call *)
Theorem C11_rejects_duplicate_name : forall f kv t ns wh st d ns' full,
  jget "type" kv = Some (JStr t) -> named_type t ->
  decimal_checks (base_of kv (JStr t)) kv (JStr t) = POk tt ->
  schema_name kv ns = POk (ns', full) -> mem full (st_names st) = true ->
  parse_rec (S f) (JObj kv) ns wh st d = PErrParse.
Proof. exact exact_redefined. Qed.
Print Assumptions C11_rejects_duplicate_name.

Theorem C11_rejects_duplicate_name_any_depth : forall f j ns wh st d p st',
  parse_rec f j ns wh st d = POk (p, st') -> NoDup (st_names st) ->
  NoDup (st_names st ++ spec_names ns j)%list.
Proof. exact accepted_names_unique. Qed.
Print Assumptions C11_rejects_duplicate_name_any_depth.

(** ... and the same through parse_schema, where the members of a top-level union share the name
    set (since the repair of defect F5; for the code before it, two top-level members named "A"
    were accepted: each member was parsed with a fresh set) *)
Theorem C11_rejects_duplicate_name_toplevel : forall f j t p t',
  unmarked j = true -> parse_schema f j t = POk (p, t') -> NoDup (spec_names "" j).
Proof. exact parse_schema_names_unique. Qed.
Print Assumptions C11_rejects_duplicate_name_toplevel.

Example C11_toplevel_union_dup_rejected :
  parse_auto (JArr [JObj [("type", JStr "record"); ("name", JStr "A"); ("fields", JArr [])];
                    JObj [("type", JStr "fixed"); ("name", JStr "A"); ("size", JInt 1)]]) = PErrParse.
Proof. vm_compute. reflexivity. Qed.

(** named type without a name *)
Theorem C11_rejects_missing_name : forall f kv t ns wh st d,
  jget "type" kv = Some (JStr t) -> named_type t -> jget "name" kv = None ->
  decimal_checks (base_of kv (JStr t)) kv (JStr t) = POk tt ->
  parse_rec (S f) (JObj kv) ns wh st d = PErrParse.
Proof. exact exact_missing_name. Qed.
Print Assumptions C11_rejects_missing_name.

Theorem C11_rejects_missing_name_any_depth : forall j kv t,
  traversed j (JObj kv) -> jget "type" kv = Some (JStr t) -> named_type t -> jget "name" kv = None ->
  ~ accepted j.
Proof.
  intros j kv t Tr T N M A. apply (accepted_traversed _ _ Tr) in A.
  destruct (accepted_has_name kv t A T N) as [n E]. congruence.
Qed.
Print Assumptions C11_rejects_missing_name_any_depth.

(** malformed symbol, duplicate symbol, enum default outside the symbols *)
Theorem C11_rejects_enum_symbols : forall f kv ns wh st d ns' full,
  jget "type" kv = Some (JStr "enum") ->
  decimal_checks (base_of kv (JStr "enum")) kv (JStr "enum") = POk tt ->
  schema_name kv ns = POk (ns', full) -> mem full (st_names st) = false ->
  validate_enum_symbols kv = PErrParse ->
  parse_rec (S f) (JObj kv) ns wh st d = PErrParse.
Proof. exact exact_enum_symbols. Qed.
Print Assumptions C11_rejects_enum_symbols.

Theorem C11_rejects_malformed_symbol : forall kv syms x,
  jget "symbols" kv = Some (JArr syms) -> In x syms -> (forall s, x = JStr s -> symbol_ok s = false) ->
  validate_enum_symbols kv = PErrParse.
Proof. intros kv syms x S I B. eapply enum_malformed_symbol; eauto using symbol_strings_none. Qed.
Print Assumptions C11_rejects_malformed_symbol.

Theorem C11_rejects_duplicate_symbol : forall kv syms ss,
  jget "symbols" kv = Some (JArr syms) -> symbol_strings syms = Some ss -> nodupb ss = false ->
  validate_enum_symbols kv = PErrParse.
Proof. exact enum_duplicate_symbol. Qed.
Print Assumptions C11_rejects_duplicate_symbol.

Theorem C11_rejects_enum_default : forall kv syms ss dv,
  jget "symbols" kv = Some (JArr syms) -> symbol_strings syms = Some ss -> nodupb ss = true ->
  jget "default" kv = Some dv -> (forall s, dv = JStr s -> mem s ss = false) ->
  validate_enum_symbols kv = PErrParse.
Proof. exact enum_default_outside. Qed.
Print Assumptions C11_rejects_enum_default.

Theorem C11_rejects_enum_any_depth : forall j kv,
  traversed j (JObj kv) -> jget "type" kv = Some (JStr "enum") -> accepted j ->
  exists syms ss, jget "symbols" kv = Some (JArr syms) /\ symbol_strings syms = Some ss /\ nodupb ss = true /\
    match jget "default" kv with
    | None => True
    | Some (JStr dv) => mem dv ss = true
    | Some _ => False
    end.
Proof. intros j kv Tr T A. apply (accepted_traversed _ _ Tr) in A. now apply accepted_enum_symbols. Qed.
Print Assumptions C11_rejects_enum_any_depth.

(** field default of a wrong JSON type: primitive (string form and dict form, the same rule),
    by-name reference (judged by its definition), union (no branch matches), enum / fixed (not a
    string), record (not an object) *)
Theorem C11_rejects_default_prim : forall f s ns wh st dv,
  is_prim s = true -> default_matches_prim dv (JStr s) = POk false ->
  parse_rec (S f) (JStr s) ns wh st (Some dv) = PErrParse.
Proof. exact exact_default_prim. Qed.
Print Assumptions C11_rejects_default_prim.

Theorem C11_rejects_default_primdict : forall f kv t ns wh st dv,
  jget "type" kv = Some (JStr t) -> is_prim t = true ->
  decimal_checks (base_of kv (JStr t)) kv (JStr t) = POk tt ->
  default_matches_prim dv (JStr t) = POk false ->
  parse_rec (S f) (JObj kv) ns wh st (Some dv) = PErrParse.
Proof. exact exact_default_primdict. Qed.
Print Assumptions C11_rejects_default_primdict.

Theorem C11_rejects_default_ref : forall f s ns wh st dv,
  is_prim s = false -> jhas (qualify ns s) (st_tbl st) = true ->
  default_matches (st_tbl st) dv (JStr (qualify ns s)) = POk false ->
  parse_rec (S f) (JStr s) ns wh st (Some dv) = PErrParse.
Proof. exact exact_default_ref. Qed.
Print Assumptions C11_rejects_default_ref.

Theorem C11_rejects_default_union : forall f l ns wh st dv ps st1,
  parse_members (parse_rec f) ns l st = POk (ps, st1) -> any_match (st_tbl st1) dv ps = POk false ->
  parse_rec (S f) (JArr l) ns wh st (Some dv) = PErrParse.
Proof. exact exact_default_union. Qed.
Print Assumptions C11_rejects_default_union.

(** what the default rule says: a boolean is no number; a reference is judged by its definition;
    a complex member by its type *)
Theorem C11_default_bool_not_number : forall b t,
  t = "int" \/ t = "long" \/ t = "float" \/ t = "double" -> default_matches_prim (JBool b) (JStr t) = POk false.
Proof. exact default_bool_not_number. Qed.
Print Assumptions C11_default_bool_not_number.

Theorem C11_default_ref_by_definition : forall tbl dv q kv,
  is_prim q = false -> jget q tbl = Some (JObj kv) ->
  default_matches tbl dv (JStr q) = default_matches_leaf dv (JObj kv).
Proof. exact default_ref_by_definition. Qed.
Print Assumptions C11_default_ref_by_definition.

Theorem C11_default_complex_member : forall dv kv t,
  jget "type" kv = Some (JStr t) ->
  default_matches_leaf dv (JObj kv) =
    if String.eqb t "array" then POk (is_jarr dv)
    else if String.eqb t "map" || String.eqb t "record" || String.eqb t "error" then POk (is_jobj dv)
    else if String.eqb t "enum" || String.eqb t "fixed" then POk (is_jstr dv)
    else default_matches_prim dv (JStr t).
Proof. exact default_complex_member. Qed.
Print Assumptions C11_default_complex_member.

Theorem C11_rejects_default_named : forall f kv t ns wh st dv ns' full,
  jget "type" kv = Some (JStr t) -> (t = "enum" \/ t = "fixed") ->
  decimal_checks (base_of kv (JStr t)) kv (JStr t) = POk tt ->
  schema_name kv ns = POk (ns', full) -> mem full (st_names st) = false ->
  (t = "enum" -> validate_enum_symbols kv = POk tt) ->
  is_jstr dv = false ->
  parse_rec (S f) (JObj kv) ns wh st (Some dv) = PErrParse.
Proof. exact exact_default_named. Qed.
Print Assumptions C11_rejects_default_named.

Theorem C11_rejects_default_record : forall f kv t ns wh st dv ns' full,
  jget "type" kv = Some (JStr t) -> (t = "record" \/ t = "error") ->
  decimal_checks (base_of kv (JStr t)) kv (JStr t) = POk tt ->
  schema_name kv ns = POk (ns', full) -> mem full (st_names st) = false ->
  is_jobj dv = false ->
  parse_rec (S f) (JObj kv) ns wh st (Some dv) = PErrParse.
Proof. exact exact_default_record. Qed.
Print Assumptions C11_rejects_default_record.

(** decimal annotations.  A failing decimal check is a SchemaParseException at the node ... *)
Theorem C11_rejects_decimal : forall f kv ty ns wh st d,
  jget "type" kv = Some ty -> decimal_checks (base_of kv ty) kv ty = PErrParse ->
  parse_rec (S f) (JObj kv) ns wh st d = PErrParse.
Proof. exact exact_decimal. Qed.
Print Assumptions C11_rejects_decimal.

(** ... each listed violation makes the check fail (present = not null; booleans are no integers): scale non-integer or negative; precision
    non-integer or not positive; precision beyond floor(log10(2^(8*size-1))); scale above precision *)
Theorem C11_decimal_scale_bad : forall parsed kv ty sc,
  jget "logicalType" parsed = Some (JStr "decimal") ->
  jget "scale" parsed = Some sc -> present sc = true ->
  (as_jint sc = None \/ exists z, as_jint sc = Some z /\ z < 0) ->
  decimal_checks parsed kv ty = PErrParse.
Proof. intros parsed kv ty sc L. now apply decimal_scale_bad. Qed.
Print Assumptions C11_decimal_scale_bad.

Theorem C11_decimal_precision_bad : forall parsed kv ty pr,
  jget "logicalType" parsed = Some (JStr "decimal") ->
  (forall sc, jget "scale" parsed = Some sc -> present sc = true -> exists z, as_jint sc = Some z /\ 0 <= z) ->
  jget "precision" parsed = Some pr -> present pr = true ->
  (as_jint pr = None \/ exists z, as_jint pr = Some z /\ z <= 0) ->
  decimal_checks parsed kv ty = PErrParse.
Proof. intros parsed kv ty pr L. now apply decimal_precision_bad. Qed.
Print Assumptions C11_decimal_precision_bad.

Theorem C11_decimal_precision_too_large : forall parsed kv sz size p,
  jget "logicalType" parsed = Some (JStr "decimal") ->
  jget "scale" parsed = None -> jget "precision" parsed = Some (JInt p) ->
  jget "size" kv = Some sz -> as_pyint sz = Some size -> max_precision size < p -> 0 < p ->
  decimal_checks parsed kv (JStr "fixed") = PErrParse.
Proof. exact decimal_precision_too_large. Qed.
Print Assumptions C11_decimal_precision_too_large.

Theorem C11_decimal_scale_above_precision : forall parsed kv ty s p,
  jget "logicalType" parsed = Some (JStr "decimal") ->
  jget "scale" parsed = Some (JInt s) -> jget "precision" parsed = Some (JInt p) ->
  0 < p -> p < s -> ty <> JStr "fixed" ->
  decimal_checks parsed kv ty = PErrParse.
Proof. exact decimal_scale_above_precision. Qed.
Print Assumptions C11_decimal_scale_above_precision.

(** at any depth: in an accepted schema every decimal annotation the parser traverses passes
    the checks, which mean what the statement lists *)
Theorem C11_rejects_decimal_any_depth : forall j kv ty,
  traversed j (JObj kv) -> jget "type" kv = Some ty -> accepted j ->
  decimal_checks (base_of kv ty) kv ty = POk tt.
Proof. intros j kv ty Tr T A. apply (accepted_traversed _ _ Tr) in A. now apply accepted_decimal. Qed.
Print Assumptions C11_rejects_decimal_any_depth.

Theorem C11_decimal_checks_meaning : forall parsed kv ty,
  jget "logicalType" parsed = Some (JStr "decimal") -> decimal_checks parsed kv ty = POk tt ->
  let scale := attr_or_null "scale" parsed in
  let precision := attr_or_null "precision" parsed in
  (present scale = true -> exists s, as_jint scale = Some s /\ 0 <= s) /\
  (present precision = true -> exists p, as_jint precision = Some p /\ 0 < p /\
      (ty = JStr "fixed" -> exists sz size, jget "size" kv = Some sz /\ as_pyint sz = Some size /\ p <= max_precision size)) /\
  (present scale = true -> present precision = true ->
     forall s p, as_jint scale = Some s -> as_jint precision = Some p -> s <= p).
Proof. exact decimal_checks_ok. Qed.
Print Assumptions C11_decimal_checks_meaning.

(** ---- acceptance ----
    [valid_raw] is the independent well-formedness checker of model/SchemaSpec.v: names defined
    before use in document order or enclosing, unique full names (also across the members of a
    top-level union), well-formed names and symbols, unique symbols and field names, defaults of a
    matching JSON type (any branch for unions; integers within the int / long range, numbers
    representable as double), decimal constraints, no union directly inside a union, no two union
    members of the same unnamed type.  Every such schema is accepted - records, recursion,
    unions, top-level unions, namespaces, every default kind - with no bound on size or depth.
    (Before the repair of the default checks the statement was false for {"type": "double"} with
    the integer default 1.) *)
Theorem C11_accepts : forall j,
  unmarked j = true -> valid_raw j = true -> exists f r, parse_schema f j [] = POk r.
Proof. exact valid_accepted. Qed.
Print Assumptions C11_accepts.

(** the inner form: any namespace, any state related to the checker's definitions, any default *)
Theorem C11_accepts_inner : forall f j ns ds d ds' st wh,
  valid_f f j ns ds d = Some ds' -> rel ds st ->
  exists p st', parse_rec f j ns wh st d = POk (p, st') /\ rel ds' st'.
Proof.
  intros f j ns ds d ds' st wh V R. destruct (accept_rec f _ _ _ _ _ _ wh V R) as (p & st' & P & R' & _). eauto.
Qed.
Print Assumptions C11_accepts_inner.

Example C11_dict_float_int_default_accepted :
  exists r, parse_auto (JObj [("type", JStr "record"); ("name", JStr "R");
                ("fields", JArr [JObj [("name", JStr "f"); ("type", JObj [("type", JStr "double")]); ("default", JInt 1)]])]) = POk r.
Proof. eexists. vm_compute. reflexivity. Qed.

(** the exact integer formula used for the decimal bound: floor(log10(2) * n) is at least
    every p with 10^p <= 2^n (so a precision that fits the fixed size is accepted) *)
Theorem C11_max_precision_fits : forall sz p, precision_fits sz p = true -> 0 < p -> p <= max_precision sz.
Proof. exact precision_fits_max. Qed.
Print Assumptions C11_max_precision_fits.

(** ---- non-vacuity: a nested schema with namespaces, a recursive reference and a union is
    valid per the specification, accepted, and named as the specification says ---- *)
Definition ex11 : json :=
  JObj [("type", JStr "record"); ("name", JStr "Node"); ("namespace", JStr "org.x");
        ("fields", JArr [JObj [("name", JStr "kind");
                               ("type", JObj [("type", JStr "enum"); ("name", JStr "K"); ("symbols", JArr [JStr "A"; JStr "B"]);
                                              ("default", JStr "A")]); ("default", JStr "B")];
                         JObj [("name", JStr "id");
                               ("type", JObj [("type", JStr "fixed"); ("name", JStr "other.Id"); ("size", JInt 16);
                                              ("logicalType", JStr "decimal"); ("precision", JInt 38); ("scale", JInt 2)])];
                         JObj [("name", JStr "next"); ("type", JArr [JStr "null"; JStr "Node"; JStr "org.x.K"]); ("default", JNull)]])].
Example C11_example :
  valid_raw ex11 = true /\ unmarked ex11 = true /\ spec_names "" ex11 = ["org.x.Node"; "org.x.K"; "other.Id"] /\
  exists p t, parse_auto ex11 = POk (p, t) /\ carried_names p = ["org.x.Node"; "org.x.K"; "other.Id"] /\
              refs p = ["org.x.Node"; "org.x.K"] /\ keys t = ["org.x.Node"; "org.x.K"; "other.Id"].
Proof. do 3 (split; [vm_compute; reflexivity|]). do 2 eexists. vm_compute. repeat split. Qed.
