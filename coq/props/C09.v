(** C09 — union branch choice: always a branch the datum conforms to, a function of schema and datum,
    hints select exactly the named branch, first conforming non-record branch ("float" defers to a later
    "double"), most shared field names among records, first on ties.
    Statements only; proofs in proofs/ElabProofs.v.

    [elab f o e s v] is write_data as a function Python datum -> wire value: for a union it yields
    [AUnion i a], i = the index written by write_union.  [validate f o e b (Some v)] is the call
    _validate(datum, candidate, ..., raise_errors=False) the search loop makes.  [hinted_by o v] = the datum
    is a tuple and tuple notation is enabled.  [kind_of e c] = what the loop inspects after a candidate
    validated: the candidate itself (annotations stripped) or the named schema it refers to. *)
From Coq Require Import String Lia.
From FA Require Import model.Base model.Varint model.Value model.Schema model.Utf8 model.Float model.Codec
                       model.Validate model.Write model.Read model.Conform proofs.ElabProofs proofs.AcceptIff proofs.ClosureProofs proofs.ElabFloats.

(** the chosen branch is one the datum validates against -- and therefore conforms to, in the sense of the
    independent predicate of C10 -- and the datum is written under it *)
Theorem C09_conforming : forall f o e bs v i a,
  elab (S f) o e (SUnion bs) v = WOk (AUnion i a) -> ~ hinted_by o v ->
  exists b, nthZ bs i = Some b /\ elab f o e b v = WOk a /\ validate f o e b (Some v) = Ok true /\ conformsP o e b v.
Proof. exact union_conforming. Qed.
Print Assumptions C09_conforming.

(** determinism is by construction: [elab] is a Gallina function of (options, named schemas, union, datum);
    the correspondence check is what carries this to the code *)
Theorem C09_function : forall f o e bs v a a',
  elab f o e (SUnion bs) v = WOk a -> elab f o e (SUnion bs) v = WOk a' -> a = a'.
Proof. exact union_choice_function. Qed.
Print Assumptions C09_function.

(** (name, value): the index written is the FIRST branch answering to the name (full name of a record / enum /
    fixed, type name otherwise; a by-name reference answers to the name it is spelled with), the value is
    written under that branch; it is an error when no branch has that name *)
Theorem C09_tuple_hint : forall f o e bs nm x, disable_tuple o = false ->
  elab (S f) o e (SUnion bs) (PTuple [PStr nm; x]) =
    match find_named nm bs 0 with
    | Some i => match nthZ bs i with
                | Some b => let+ a := elab f o e b x in WOk (AUnion i a)
                | None => WErr end
    | None => WErr
    end
  /\ (forall i, find_named nm bs 0 = Some i ->
        exists b, nthZ bs i = Some b /\ branch_name b = nm /\
                  forall k c, 0 <= k < i -> nthZ bs k = Some c -> branch_name c <> nm)
  /\ (find_named nm bs 0 = None -> forall k c, nthZ bs k = Some c -> branch_name c <> nm).
Proof. exact union_tuple_hint. Qed.
Print Assumptions C09_tuple_hint.

(** a dict carrying a "-type" entry (other than None): only record branches of exactly that full name (given inline or
    by name) are considered by the search, so the branch written is such a record -- whatever else the dict would fit
    (e.g. a map branch) ... *)
Theorem C09_type_hint : forall f o e bs v i a c h,
  elab (S f) o e (SUnion bs) v = WOk (AUnion i a) -> ~ hinted_by o v -> type_hint v = Some h -> nthZ bs i = Some c ->
  exists n al fs, kind_of e c = SRecord n al fs /\ h = PStr n.
Proof. exact union_type_hint. Qed.
Print Assumptions C09_type_hint.

(** ... and it is an error when no branch is both considered and validating -- in particular when the "-type" entry
    names no record branch of the union ([hint_pass e v c = false] for every branch); without a hint: when nothing validates *)
Theorem C09_no_branch : forall f o e bs v,
  ~ hinted_by o v -> Forall (fun c => hint_pass e v c = false \/ validate f o e c (Some v) = Ok false) bs ->
  elab (S f) o e (SUnion bs) v = WErr.
Proof. exact union_no_branch. Qed.
Print Assumptions C09_no_branch.

(** the validator's side of the hint: a dict carrying "-type" = t validates against a record branch only if t is
    that record's full name *)
Theorem C09_type_hint_validate : forall f o e b kv n al fs t,
  validate f o e b (Some (PDict kv)) = Ok true -> kind_of e b = SRecord n al fs ->
  dict_get kv (s2b "-type") = Some t -> t = PStr n.
Proof. exact type_hint_selects. Qed.
Print Assumptions C09_type_hint_validate.

(** [passed_over f o e v d]: the search went past branch d: excluded by the "-type" entry, or failed validation, or a
    validating record (records never stop the search).
    First in schema order among non-record branches: when the chosen branch is neither a record nor a "double", it
    validates and every earlier branch was passed over *)
Theorem C09_first_nonrecord : forall f o e bs v i a c,
  elab (S f) o e (SUnion bs) v = WOk (AUnion i a) -> ~ hinted_by o v -> nthZ bs i = Some c ->
  is_rec (kind_of e c) = false -> is_double c = false ->
  validate f o e c (Some v) = Ok true /\
  forall k d, 0 <= k < i -> nthZ bs k = Some d -> passed_over f o e v d.
Proof. exact union_first_nonrecord. Qed.
Print Assumptions C09_first_nonrecord.

(** "float" is only taken when no "double" branch follows it (a "-type" entry excludes every non-record branch, so the
    first disjunct only occurs when the chosen branch could not have been a float in the first place) ... *)
Theorem C09_float_defers_to_double : forall f o e bs v i a c,
  elab (S f) o e (SUnion bs) v = WOk (AUnion i a) -> ~ hinted_by o v -> nthZ bs i = Some c ->
  is_flt (kind_of e c) = true -> forall k d, i < k -> nthZ bs k = Some d -> hint_pass e v d = false \/ is_double d = false.
Proof. exact union_float_last. Qed.
Print Assumptions C09_float_defers_to_double.

(** ... and a chosen "double" is either itself the first validating non-record branch, or the first "double" after
    the first validating non-record branch, which is a "float" *)
Theorem C09_double_chosen : forall f o e bs v i a c,
  elab (S f) o e (SUnion bs) v = WOk (AUnion i a) -> ~ hinted_by o v -> nthZ bs i = Some c -> is_double c = true ->
  (validate f o e c (Some v) = Ok true /\
   forall k d, 0 <= k < i -> nthZ bs k = Some d -> passed_over f o e v d) \/
  (exists k cf, 0 <= k < i /\ nthZ bs k = Some cf /\ validate f o e cf (Some v) = Ok true /\ is_flt (kind_of e cf) = true /\
     (forall m d, 0 <= m < k -> nthZ bs m = Some d -> passed_over f o e v d) /\
     (forall m d, k < m < i -> nthZ bs m = Some d -> hint_pass e v d = false \/ is_double d = false)).
Proof. exact union_double. Qed.
Print Assumptions C09_double_chosen.

(** records: a record branch is chosen only when no considered non-record branch validates; it then shares at least as
    many field names with the datum as every considered validating record branch, and strictly more than every earlier one *)
Theorem C09_most_fields_first_on_tie : forall f o e bs v i a c,
  elab (S f) o e (SUnion bs) v = WOk (AUnion i a) -> ~ hinted_by o v -> nthZ bs i = Some c ->
  is_rec (kind_of e c) = true ->
  validate f o e c (Some v) = Ok true /\
  Forall (passed_over f o e v) bs /\
  forall k d, nthZ bs k = Some d ->
    hint_pass e v d = true /\ validate f o e d (Some v) = Ok true /\ is_rec (kind_of e d) = true ->
    shared_of e v d <= shared_of e v c /\ (k < i -> shared_of e v d < shared_of e v c).
Proof. exact union_most_fields. Qed.
Print Assumptions C09_most_fields_first_on_tie.

(** what the loop computes, in one statement (any start index / best-so-far / most-so-far): either no non-record
    branch validates and the result is the best record ([rec_best]), or the loop stops at the first validating
    non-record branch, deferring from "float" to the first later "double" ([stop_at]).
    Branches excluded by a "-type" entry of the datum ([hint_pass] false) are passed over in every mode.
    NOTE (DESIGN F13, observation): a validating record BEFORE a validating non-record branch is passed over --
    [Rec, map] with a dict fitting both and carrying no "-type" goes to the map.  The statement leaves that case open. *)
Theorem C09_search_spec : forall val e v bs i best most j,
  choose val e v bs i best most false = Ok j ->
  (Forall (skipped val e v) bs /\ rec_best val e v bs i best most j) \/ stop_at val e v bs i j.
Proof. exact choose_spec. Qed.
Print Assumptions C09_search_spec.

(** closure: a well-typed wire value -- in particular whatever the writer wrote -- read with return_named_type=True and
    written back under the same schema is elaborated to the SAME wire value: the identical bytes.  By induction over the
    height, through records, arrays, maps, references and unions.  Side condition [closb n o e s a] (model/Conform.v), a
    boolean decided by computation on (options, named schemas, schema, value):
      - under a union, a value of a NAMED branch (record / enum / fixed, inline or by name): tuple notation is enabled and the
        branch is the FIRST answering to its name (find_named): the names of the union's named branches do not clash;
      - a value of an UNNAMED branch comes back as a plain normalised value and must re-resolve to the same branch under the
        writer's search (the exclusion corr:closure applies: a bytearray written as "bytes" comes back as bytes and fits an
        earlier fixed; see C09_closure_refuted);
      - an enum index is the first occurrence of its symbol; map keys / record field names are distinct.
    [floats_stable a]: every "float" leaf survives single -> double -> single (d2s (s2d x) = x); it holds of every pattern
    pack("<f") produces, hence of every value the writer wrote: C09_closure_written needs no such hypothesis. *)
Theorem C09_closure : forall n o e s a pv,
  typedn n e s a -> closb n o e s a = true -> floats_stable a = true -> py_of ro_named e s a = Some pv ->
  exists f0, forall f, (f0 <= f)%nat -> elab f o e s pv = WOk a.
Proof. exact closure. Qed.
Print Assumptions C09_closure.

Theorem C09_closure_bytes : forall n o e s a pv,
  typedn n e s a -> closb n o e s a = true -> floats_stable a = true -> py_of ro_named e s a = Some pv ->
  exists f0, forall f, (f0 <= f)%nat -> write f o e s pv = WOk (wire a).
Proof. exact closure_bytes. Qed.
Print Assumptions C09_closure_bytes.

(** for what the writer wrote: write v; read the bytes (followed by anything) with return_named_type=True; write the result
    back: the identical bytes.  (Typing of the written value through C01_elab_typed: Reals axioms + classic, allow-listed.) *)
Theorem C09_closure_written : forall f o e s v a pv,
  elab f o e s v = WOk a -> data_ok e s v -> closb f o e s a = true -> py_of ro_named e s a = Some pv ->
  write f o e s v = WOk (wire a) /\
  (forall f' r, (f <= f')%nat -> read f' ro_named e s (wire a ++ r)%list = Ok (pv, r)) /\
  exists f0, forall f', (f0 <= f')%nat -> write f' o e s pv = WOk (wire a).
Proof. exact closure_written. Qed.
Print Assumptions C09_closure_written.

(** OUTSIDE THE PROPERTY'S STATEMENT (a lemma about the model, not a defect): the statement's closure clause speaks
    about the (name, value) pairs returned for NAMED branches.  A value written under an UNNAMED branch comes back as a
    plain, normalised value (bytearray -> bytes, tuple -> list, int -> float) and may legitimately re-resolve to another
    branch.  So byte-level closure for arbitrary data is false of the model (and of the code): a bytearray
    of the fixed's size under [null, fixed(2), bytes] does not validate as fixed (only bytes does), is written under the
    unnamed "bytes" branch, is read back as a bytes object -- and that validates against the EARLIER fixed branch *)
Theorem C09_closure_refuted : exists o e s v a pv bs',
  elab 9 o e s v = WOk a /\ py_of ro_named e s a = Some pv /\ write 9 o e s pv = WOk bs' /\ bs' <> wire a.
Proof.
  exists {| strict := false; strict_allow_default := false; disable_tuple := false |}, [],
         (SUnion [SNull; SFixed (s2b "F") [] 2; SBytes]), (PByteArray [97; 98]),
         (AUnion 2 (ABytes [97; 98])), (PBytes [97; 98]), [2; 97; 98].
  split; [vm_compute; reflexivity|]. split; [vm_compute; reflexivity|]. split; [vm_compute; reflexivity|].
  vm_compute. discriminate.
Qed.
Print Assumptions C09_closure_refuted.

(** the union node on its own.  A value read with return_named_type=True under a NAMED branch (record / enum / fixed
    inline, or a by-name reference) is the pair (name, value); written back with tuple notation it selects the same
    index -- no earlier branch answers to that name -- and the inner value is encoded under that branch again *)
Theorem C09_closure_partial : forall f o e bs i b a pv0 pv,
  disable_tuple o = false -> nthZ bs i = Some b -> named_branch e b = true ->
  (forall k c, 0 <= k < i -> nthZ bs k = Some c -> branch_name c <> branch_name b) ->
  py_of ro_named e b a = Some pv0 -> elab f o e b pv0 = WOk a ->
  py_of ro_named e (SUnion bs) (AUnion i a) = Some pv ->
  pv = PTuple [PStr (branch_name b); pv0] /\ elab (S f) o e (SUnion bs) pv = WOk (AUnion i a).
Proof. exact union_closure_step. Qed.
Print Assumptions C09_closure_partial.

(** non-vacuity: three records with overlapping optional fields behind a by-name reference, a map branch, hints *)
Open Scope string_scope.
Definition opt_int : schema := SUnion [SNull; SInt].
Definition recA : schema := SRecord (s2b "A") [] [mkField (s2b "x") SInt None []; mkField (s2b "y") opt_int (Some PNone) []].
Definition recB : schema := SRecord (s2b "ns.B") [] [mkField (s2b "x") SInt None []; mkField (s2b "z") opt_int (Some PNone) [];
                                                    mkField (s2b "y") opt_int (Some PNone) []].
Definition ex_env : env := [(s2b "A", recA); (s2b "ns.B", recB)].
Definition ex_u : schema := SUnion [SRef (s2b "A"); SRef (s2b "ns.B"); SFloat; SString; SAnnot [] SDouble].
Definition o0 : wopts := {| strict := false; strict_allow_default := false; disable_tuple := false |}.
Definition dict (l : list (string * pyval)) : pyval := PDict (map (fun p => (PStr (s2b (fst p)), snd p)) l).

Example C09_example :
  (* x only: tie between A and B (1 shared name each): the first wins *)
  elab 9 o0 ex_env ex_u (dict [("x", PInt 1)]) = WOk (AUnion 0 (ARecord [AInt 1; AUnion 0 ANull])) /\
  (* x, z: B shares more names *)
  elab 9 o0 ex_env ex_u (dict [("x", PInt 1); ("z", PInt 2)])
    = WOk (AUnion 1 (ARecord [AInt 1; AUnion 1 (AInt 2); AUnion 0 ANull])) /\
  (* "-type" overrides the count *)
  elab 9 o0 ex_env ex_u (dict [("x", PInt 1); ("-type", PStr (s2b "ns.B"))])
    = WOk (AUnion 1 (ARecord [AInt 1; AUnion 0 ANull; AUnion 0 ANull])) /\
  (* a number: float validates first, the later double is preferred *)
  elab 9 o0 ex_env ex_u (PFloat 4607182418800017408) = WOk (AUnion 4 (ADouble 4607182418800017408)) /\
  (* tuple notation *)
  elab 9 o0 ex_env ex_u (PTuple [PStr (s2b "float"); PInt 1]) = WOk (AUnion 2 (AFloat 1065353216)) /\
  elab 9 o0 ex_env ex_u (PTuple [PStr (s2b "B"); dict [("x", PInt 1)]]) = WErr /\
  (* nothing validates *)
  elab 9 o0 ex_env ex_u (PBool true) = WErr /\
  (* "-type" beats a map branch that also fits; a "-type" naming no record branch is an error *)
  elab 9 o0 ex_env (SUnion [SMap (SUnion [SInt; SString]); SRef (s2b "A")]) (dict [("x", PInt 1); ("-type", PStr (s2b "A"))])
    = WOk (AUnion 1 (ARecord [AInt 1; AUnion 0 ANull])) /\
  elab 9 o0 ex_env (SUnion [SMap (SUnion [SInt; SString]); SRef (s2b "A")]) (dict [("x", PInt 1); ("-type", PStr (s2b "B"))]) = WErr /\
  (* read with names, write back: same wire value *)
  py_of ro_named ex_env ex_u (AUnion 1 (ARecord [AInt 1; AUnion 1 (AInt 2); AUnion 0 ANull]))
    = Some (PTuple [PStr (s2b "ns.B"); dict [("x", PInt 1); ("z", PInt 2); ("y", PNone)]]) /\
  elab 9 o0 ex_env ex_u (PTuple [PStr (s2b "ns.B"); dict [("x", PInt 1); ("z", PInt 2); ("y", PNone)]])
    = WOk (AUnion 1 (ARecord [AInt 1; AUnion 1 (AInt 2); AUnion 0 ANull])).
Proof. split; [|split; [|split; [|split; [|split; [|split; [|split; [|split; [|split; [|split]]]]]]]]]; vm_compute; reflexivity. Qed.

(** non-vacuity of C09_closure: the side condition holds for a record branch reached by name inside a union inside an array
    (with a nested optional-int union and a "double"), and it fails exactly where the statement does not apply: a value
    written under "float" by a tuple hint re-resolves to "double"; bytes of the fixed's size re-resolve to the fixed *)
Example C09_closure_example :
  closb 9 o0 ex_env (SArray ex_u)
    (AArray [AUnion 1 (ARecord [AInt 1; AUnion 1 (AInt 2); AUnion 0 ANull]); AUnion 4 (ADouble 4607182418800017408);
             AUnion 3 (AString (s2b "s"))]) = true /\
  closb 9 o0 ex_env ex_u (AUnion 2 (AFloat 1065353216)) = false /\
  closb 9 o0 [] (SUnion [SNull; SFixed (s2b "F") [] 2; SBytes]) (AUnion 2 (ABytes [97; 98])) = false /\
  closb 9 o0 [] (SUnion [SNull; SFixed (s2b "F") [] 2; SBytes]) (AUnion 2 (ABytes [97; 98; 99])) = true.
Proof. split; [|split; [|split]]; vm_compute; reflexivity. Qed.
