(** C20 — generate_one / generate_many always produce data that conforms to the schema.
    Statements only; model in model/Gen.v (the random source is an explicit stream of draws, every theorem
    quantifies over ALL streams), proofs in proofs/GenProofs.v. *)
From Coq Require Import ZArith List Bool Lia String.
From FA Require Import model.Base model.Value model.Schema model.Validate model.Logical model.Gen
                       proofs.LogicalProofs proofs.GenProofs.
Open Scope Z_scope.

(** ** count *)

(** list(generate_many(schema, n)) has exactly n values when n >= 0 (and none for n < 0: range(n) is empty) *)
Theorem C20_count : forall f e s n rs l rs',
  gen_many f e s n rs = Ok (l, rs') -> len l = Z.max 0 n /\ (0 <= n -> len l = n).
Proof. intros f e s n rs l rs' H. pose proof (gen_many_count _ _ _ _ _ _ _ H). split; [assumption|lia]. Qed.
Print Assumptions C20_count.

(** generate_one = next(generate_many(schema, 1)) is one call of gen_data on the same stream, and it is the first
    (only) element of generate_many(schema, 1) *)
Theorem C20_generate_one : forall f e s rs,
  gen_one f e s rs = gen f e s rs /\
  (forall l rs', gen_many f e s 1 rs = Ok (l, rs') -> exists v, l = [v] /\ gen_one f e s rs = Ok (v, rs')).
Proof. intros. split; [apply gen_one_is_gen|intros; eapply gen_one_first; eauto]. Qed.
Print Assumptions C20_generate_one.

(** ** conformance [core]

    [wf_env e], [wf_schema e s] (proofs/GenProofs.v): every reference resolves, enums have a symbol, unions a
    branch, fixed sizes are >= 0, field names are distinct and none is "-type", JSON defaults contain no tuples,
    the "type" of a dict form is not a dict form or a union.  Recursive types are allowed.

    For EVERY stream: whatever fuel validate is given, on a generated value it answers True -- or runs out
    of fuel; it never answers False and never raises.  ([validate] ignores a logicalType annotation; the generated
    values are plain ints / strs / bytes, on which the prepare_ functions are the identity -- except prepare_date on a
    str, see the finding reported by the correspondence.) *)
Theorem C20_conforms : forall o e, wf_env e -> forall f s rs v rs', wf_schema e s ->
  gen f e s rs = Ok (v, rs') ->
  forall f', validate f' o e s (Some v) = Ok true \/ validate f' o e s (Some v) = OutOfFuel.
Proof. intros o e We f s rs v rs' Ws H. exact (proj2 (gen_conforms o e We f s rs v rs' Ws H)). Qed.
Print Assumptions C20_conforms.

Theorem C20_conforms_many : forall o e, wf_env e -> forall f s n rs l rs', wf_schema e s ->
  gen_many f e s n rs = Ok (l, rs') ->
  forall v, In v l -> forall f', validate f' o e s (Some v) = Ok true \/ validate f' o e s (Some v) = OutOfFuel.
Proof.
  intros o e We f s n rs l rs' Ws H v Hin. pose proof (gen_many_conforms o e We f s n rs l rs' Ws H) as A.
  rewrite Forall_forall in A. exact (proj2 (A v Hin)).
Qed.
Print Assumptions C20_conforms_many.

(** with an explicit amount of fuel, for schemas whose reference graph is acyclic ([ranked n e s]: nesting and
    references from s end within n steps): two units per level suffice *)
Theorem C20_conforms_ranked : forall o e, wf_env e -> forall n f s rs v rs', wf_schema e s -> ranked n e s ->
  gen f e s rs = Ok (v, rs') ->
  forall f', (2 * n <= f' + 1)%nat -> validate f' o e s (Some v) = Ok true.
Proof.
  intros o e We n f s rs v rs' Ws R H f' Hf.
  destruct (proj2 (gen_conforms o e We f s rs v rs' Ws H) f') as [A|A]; [exact A|].
  exfalso. exact (validate_ranked_nofuel o e n s R f' (Some v) Hf A).
Qed.
Print Assumptions C20_conforms_ranked.

(** recursive schemas included, with explicit fuel: for schemas of the shape parse_schema produces ([shaped]: no union
    directly inside a union; a dict form with a logicalType wraps a primitive or a complex / named type; the table
    holds named types) fuel 5 * (nesting depth of the value) + fd + 4 suffices, provided validating each field's JSON
    default terminates within fd (always so when the field's type has an acyclic reference graph: [C20_default_ranked]) *)
Theorem C20_conforms_fuel : forall fd o e, wf_env e -> shaped_env fd o e ->
  forall f s rs v rs', wf_schema e s -> shaped fd o e s -> gen f e s rs = Ok (v, rs') ->
  forall f', (5 * vd v + fd + 4 <= f')%nat -> validate f' o e s (Some v) = Ok true.
Proof. exact gen_conforms_fuel. Qed.
Print Assumptions C20_conforms_fuel.

Theorem C20_default_ranked : forall o e n s d fv, ranked n e s -> (2 * n <= fv + 1)%nat ->
  validate fv o e s (Some d) <> OutOfFuel.
Proof. exact ranked_default_ok. Qed.
Print Assumptions C20_default_ranked.

(** the hypothesis on defaults cannot be dropped: R{f: R2 = {}}, R2{g: R = {}} is well formed, validate({}, R) never
    returns (RecursionError in the real code, also in the writer), and so a value generated for the branch S of [R, S]
    is accepted at no fuel although it is never rejected *)
Theorem C20_default_cycle : forall o,
  wf_env D_env /\ wf_schema D_env D_union /\
  (exists v, gen 3 D_env D_union [1; 7] = Ok (v, []) /\ forall fv, validate fv o D_env D_union (Some v) = OutOfFuel).
Proof. exact default_cycle_union. Qed.
Print Assumptions C20_default_cycle.

(** the shape of the leaves, with or without a logicalType: what validate and the writers see *)
Theorem C20_leaf_shape : forall f e lt rs v rs',
  (gen (S f) e (SAnnot lt SInt) rs = Ok (v, rs') -> exists z, v = PInt z /\ INT_MIN <= z <= INT_MAX) /\
  (gen (S f) e (SAnnot lt SLong) rs = Ok (v, rs') -> exists z, v = PInt z /\ LONG_MIN <= z <= LONG_MAX) /\
  (gen (S f) e (SAnnot lt SString) rs = Ok (v, rs') -> exists x, v = PStr x) /\
  (gen (S (S f)) e (SAnnot lt SBytes) rs = Ok (v, rs') -> exists b, v = PBytes b /\ len b = 10 /\ Forall is_byte b) /\
  (forall n al size, gen (S (S f)) e (SAnnot lt (SFixed n al size)) rs = Ok (v, rs') ->
     exists b, v = PBytes b /\ len b = size /\ Forall is_byte b).
Proof.
  intros. repeat split; intros.
  - eapply gen_int_range; eauto. - eapply gen_long_range; eauto. - eapply gen_string_str; eauto.
  - eapply gen_bytes_len; eauto. - eapply gen_bytes_len; eauto.
Qed.
Print Assumptions C20_leaf_shape.

(** ** the generated stored values can be read back by the logical readers (model/Logical.v) *)
Theorem C20_readable_date : forall f e rs v rs', gen f e (SAnnot (s2b "date") SInt) rs = Ok (v, rs') ->
  exists d, v = PInt d /\ 1 <= d + 719163 <= 3652059 /\ read_date d = Ok (d + DAYS_SHIFT).
Proof. exact readable_date. Qed.
Print Assumptions C20_readable_date.

Theorem C20_readable_time_millis : forall f e rs v rs', gen f e (SAnnot (s2b "time-millis") SInt) rs = Ok (v, rs') ->
  exists n, v = PInt n /\ 0 <= n < 86400000 /\
    exists h m s ms, valid_tod h m s (ms * 1000) /\ read_time_millis n = Ok (h, m, s, ms * 1000) /\
                     prepare_time_millis h m s (ms * 1000) = n.
Proof. exact readable_time_millis. Qed.
Print Assumptions C20_readable_time_millis.

Theorem C20_readable_time_micros : forall f e rs v rs', gen f e (SAnnot (s2b "time-micros") SLong) rs = Ok (v, rs') ->
  exists n, v = PInt n /\ 0 <= n < 86400000000 /\
    exists h m s us, valid_tod h m s us /\ read_time_micros n = Ok (h, m, s, us) /\ prepare_time_micros h m s us = n.
Proof. exact readable_time_micros. Qed.
Print Assumptions C20_readable_time_micros.

Theorem C20_readable_timestamp_millis : forall f e lt rs v rs',
  lt = s2b "timestamp-millis" \/ lt = s2b "local-timestamp-millis" ->
  gen f e (SAnnot lt SLong) rs = Ok (v, rs') ->
  exists n, v = PInt n /\ 0 <= n <= 2 ^ 45 /\
    read_timestamp_millis n = Ok (n * 1000) /\ read_local_timestamp_millis n = Ok (n * 1000).
Proof. exact readable_ts_millis. Qed.
Print Assumptions C20_readable_timestamp_millis.

Theorem C20_readable_timestamp_micros : forall f e lt rs v rs',
  lt = s2b "timestamp-micros" \/ lt = s2b "local-timestamp-micros" ->
  gen f e (SAnnot lt SLong) rs = Ok (v, rs') ->
  exists n, v = PInt n /\ 0 <= n <= 2 ^ 55 /\
    read_timestamp_micros n = Ok n /\ read_local_timestamp_micros n = Ok n.
Proof. exact readable_ts_micros. Qed.
Print Assumptions C20_readable_timestamp_micros.

Theorem C20_readable_uuid : forall f e rs v rs', gen f e (SAnnot (s2b "uuid") SString) rs = Ok (v, rs') ->
  exists h, v = PStr h /\ length h = 32%nat /\ Forall is_hexdigit h.
Proof. exact readable_uuid. Qed.
Print Assumptions C20_readable_uuid.

(** ** termination *)

(** C20_terminates -- "for every well-formed schema some fuel produces a value" -- is FALSE of the faithful model:
    the well-formed type T{kids: array<T>} (it has finite data: empty arrays) is never generated, whatever the fuel
    and the stream; the real code raises RecursionError (finding F12). *)
Theorem C20_refuted_rec_array :
  wf_env T_env /\ wf_schema T_env T_rec /\
  forall f rs, gen f T_env T_rec rs = OutOfFuel.
Proof. split; [apply T_wf|]. split; [apply T_wf|]. intros f rs. apply rec_array_never. Qed.
Print Assumptions C20_refuted_rec_array.

Theorem C20_terminates_refuted :
  ~ (forall e s, wf_env e -> wf_schema e s -> exists f rs v rs', gen f e s rs = Ok (v, rs')).
Proof.
  intros H. destruct (H T_env T_rec (proj1 T_wf) (proj2 T_wf)) as (f & rs & v & rs' & E).
  rewrite (proj1 (rec_array_never f rs)) in E. discriminate.
Qed.
Print Assumptions C20_terminates_refuted.

(** the positive part: for a schema whose reference graph is acyclic, fuel = rank never runs out, for every stream;
    and when the stream holds at least [cost n e s] draws the result is a value that used at most that many *)
Theorem C20_terminates_ranked : forall e n s, ranked n e s ->
  (forall f rs, (n <= f)%nat -> gen f e s rs <> OutOfFuel) /\
  (wf_env e -> wf_schema e s -> forall rs, (cost n e s <= length rs)%nat ->
     exists v rs', gen n e s rs = Ok (v, rs') /\ (length rs <= length rs' + cost n e s)%nat).
Proof.
  intros e n s R. split; [intros; eapply gen_ranked_nofuel; eauto|].
  intros We Ws rs L. destruct (gen_ranked_ok e We n s R Ws rs L) as (v & rs' & E & A & _). eauto.
Qed.
Print Assumptions C20_terminates_ranked.

(** ** non-vacuity *)
Open Scope string_scope.
Definition node : schema :=
  SRecord (s2b "Node") [] [mkField (s2b "v") (SAnnot (s2b "date") SInt) None [];
                           mkField (s2b "next") (SUnion [SNull; SRef (s2b "Node")]) None []].
Definition node_env : env := [(s2b "Node", node)].
Definition o0 : wopts := {| strict := false; strict_allow_default := false; disable_tuple := false |}.

(* a recursive type: draws = date, branch 1, date, branch 0: two cells; the extreme ordinals 0001-01-01 and 9999-12-31 *)
Example C20_example_recursive :
  gen 9 node_env node [0; 1; 3652058; 0; 77] =
    Ok (PDict [(PStr (s2b "v"), PInt (-719162));
               (PStr (s2b "next"), PDict [(PStr (s2b "v"), PInt 2932896); (PStr (s2b "next"), PNone)])], [77]%Z) /\
  validate 20 o0 node_env node
    (Some (PDict [(PStr (s2b "v"), PInt (-719162));
                  (PStr (s2b "next"), PDict [(PStr (s2b "v"), PInt 2932896); (PStr (s2b "next"), PNone)])])) = Ok true /\
  gen 9 node_env node [0; 1; 5] = Err /\                      (* exhausted stream *)
  gen 3 node_env node [0; 1; 3652058; 0; 77] = OutOfFuel.
Proof. repeat split; vm_compute; reflexivity. Qed.

Example node_wf_ok : wf_env node_env /\ wf_schema node_env node.
Proof.
  assert (W : wf_schema node_env node).
  { unfold wf_schema, node. cbn [sall ftype]. repeat split; try exact I; try discriminate.
    - cbn. constructor; [intros [H|[]]; discriminate H|]. constructor; [intros []|constructor].
    - cbn. constructor; [split; [discriminate|exact I]|]. constructor; [split; [discriminate|exact I]|constructor].
    - cbn. eexists. reflexivity. }
  split; [|exact W]. intros n s H. unfold node_env in H. cbn [lookup] in H.
  destruct (bytes_eqb (s2b "Node") n); [|discriminate]. injection H as <-. exact W.
Qed.

(* the hypotheses of C20_conforms_fuel hold for the recursive Node type (no defaults: fd = 0) *)
Example node_shaped_ok : shaped_env 0 o0 node_env /\ shaped 0 o0 node_env node.
Proof.
  assert (W : shaped 0 o0 node_env node).
  { unfold shaped, node. cbn [sall ftype]. repeat split; try exact I.
    - cbn. constructor; [intros d Hd; discriminate Hd|]. constructor; [intros d Hd; discriminate Hd|constructor].
    - cbn. constructor; [exact I|]. constructor; [exact I|constructor].
    - cbn. eexists. reflexivity. }
  split; [|exact W]. intros n s H. unfold node_env in H. cbn [lookup] in H.
  destruct (bytes_eqb (s2b "Node") n); [|discriminate]. injection H as <-. split; [exact W|exact I].
Qed.

Example C20_example_fuel : forall f rs v rs', gen f node_env node rs = Ok (v, rs') ->
  forall f', (5 * vd v + 4 <= f')%nat -> validate f' o0 node_env node (Some v) = Ok true.
Proof.
  intros f rs v rs' H f' Hf.
  apply (C20_conforms_fuel 0 o0 node_env (proj1 node_wf_ok) (proj1 node_shaped_ok) f node rs v rs' (proj2 node_wf_ok) (proj2 node_shaped_ok) H).
  lia.
Qed.

(* an acyclic schema: rank, cost, and a run on a stream of exactly [cost] draws *)
Definition flat : schema :=
  SRecord (s2b "R") [] [mkField (s2b "a") (SArray (SUnion [SNull; SAnnot (s2b "time-millis") SInt])) None [];
                        mkField (s2b "e") (SEnum (s2b "E") [] [s2b "A"; s2b "B"] None) None []].
Example C20_example_ranked :
  ranked 5 [] flat /\ cost 5 [] flat = 21%nat /\
  (exists v, gen 5 [] flat (repeat 1%Z 21) = Ok (v, [])).
Proof. split; [apply rankedb_ok; reflexivity|]. split; [reflexivity|]. eexists. vm_compute. reflexivity. Qed.

(** ** accepted by the writers and read back

    [gen_side n e s] bundles the schema-side conditions, all decided by computation except C20's own [wf_env]/[wf_schema]:
    the reference graph below s is acyclic within n steps, record field types have the shape parse_schema produces and their
    JSON defaults are "safe" (64-bit ints, floats that narrow to binary32) ([gschb]); fixed sizes / enum symbols / field names
    are well-formed data ([genokb]); the schema side of C01's [data_ok].  Recursive types are outside ([C20_refuted_rec_array]
    shows the generator itself may not terminate on them, and validate's fuel is not bounded by the schema).

    For EVERY stream: the generated value validates (with explicit fuel 2n), the default writer (schemaless_writer)
    elaborates it from some fuel on, the bytes are the specification's encoding of a well-typed wire value, and
    schemaless_reader on those bytes followed by anything returns the documented normalisation of the value (C01) and stops
    exactly there.  Under a union the writer's search decides the branch (C09): it may be another branch than the one the value
    was generated for -- the value read back is its normalisation under THAT branch.
    K3: model and theorem speak about stored values (logicalType annotations are ignored); for the logical readers the
    statement needs [unions_plain s = true] (no union branch carries a logicalType), see the Example below. *)
From FA Require Import model.Float model.Codec model.Write model.Read model.Conform model.Container model.ContainerPy
                       proofs.ContainerProofs proofs.ElabFloats proofs.GenWritten.

Theorem C20_written_and_read_back : forall n o e s f rs v rs',
  strict o = false /\ strict_allow_default o = false -> gen_side n e s -> gen f e s rs = Ok (v, rs') ->
  validate (2 * n) o e s (Some v) = Ok true /\
  exists f0, forall f', (f0 <= f')%nat -> exists a out,
    elab f' o e s v = WOk a /\ write f' o e s v = WOk (wire a) /\ typedn f' e s a /\ normalises f' o e s v out /\
    forall f'', (f' <= f'')%nat -> forall r, read f'' ropts0 e s (wire a ++ r)%list = Ok (out, r).
Proof. exact gen_written. Qed.
Print Assumptions C20_written_and_read_back.

(** the container writer (Writer / writer(), validator on or off, any codec with decompress (compress b) = b, any marker):
    a file created, written with the values of generate_many and flushed is -- at the Python level [prun] -- the container
    history of their wire values, and reads back as exactly those, in order ([small_run]: compressed blocks below 2^63 bytes) *)
Theorem C20_container_read_back : forall compress decompress, (forall b, decompress (compress b) = Ok b) ->
  forall sync, length sync = 16%nat -> Forall is_byte sync ->
  forall n o validator e s f count rs l rs',
  strict o = false /\ strict_allow_default o = false -> gen_side n e s -> gen_many f e s count rs = Ok (l, rs') ->
  exists F, forall F', (F <= F')%nat ->
    exists ws, Forall2 (fun v a => elab F' o e s v = WOk a /\ typedn F' e s a) l ws /\
      forall meta si hf, meta_ok meta -> (3 <= hf)%nat -> len l < 2 ^ 63 ->
        small_run compress sync (wcreate sync meta si) (map OWrite ws) ->
        prun compress sync F' o validator e s (wcreate sync meta si) (writes l) = run compress sync (wcreate sync meta si) (map OWrite ws) /\
        exists nb, forall k, (nb < k)%nat ->
          read_container decompress e s F' hf k
            (out (flush compress sync (prun compress sync F' o validator e s (wcreate sync meta si) (writes l)))) = (ws, EndOK).
Proof. exact gen_container. Qed.
Print Assumptions C20_container_read_back.

(** the pieces: generated values are well-formed safe data; validated safe values satisfy C10's wneed *)
Theorem C20_generated_data_ok : forall n e s f rs v rs', gen_side n e s -> gen f e s rs = Ok (v, rs') ->
  data_ok e s v /\ safe_py v = true.
Proof. exact gen_data_ok. Qed.
Print Assumptions C20_generated_data_ok.

Theorem C20_valid_safe_is_writable : forall o e, strict o = false /\ strict_allow_default o = false -> named_env e = true ->
  forall n s, gschb n e s = true -> forall v fv, safe_py v = true -> validate fv o e s (Some v) = Ok true ->
  exists N, wneed N o e s v.
Proof. exact wneed_of_valid. Qed.
Print Assumptions C20_valid_safe_is_writable.

(** non-vacuity: the side conditions hold for the acyclic example schema; one generated value written and read back;
    K3's schema [string-uuid, enum] is exactly what [unions_plain] excludes *)
Example flat_side : gen_side 5 [] flat.
Proof.
  constructor; try reflexivity.
  - intros n s H. discriminate H.
  - unfold GenProofs.wf_schema, flat. cbn [sall ftype]. repeat split; try exact I; try discriminate.
    + cbn. constructor; [intros [H|[]]; discriminate H|]. constructor; [intros []|constructor].
    + cbn. constructor; [split; [discriminate|exact I]|]. constructor; [split; [discriminate|exact I]|constructor].
Qed.

Example C20_example_written :
  exists v a, gen 5 [] flat (repeat 1%Z 21) = Ok (v, []) /\ elab 9 o0 [] flat v = WOk a /\
              read 9 ropts0 [] flat (wire a ++ [7])%list = Ok (v, [7]) /\
  unions_plain (SRecord (s2b "R") [] [mkField (s2b "a") (SArray (SUnion [SNull; SLong; SString])) None []]) = true /\
  unions_plain (SUnion [SAnnot (s2b "uuid") SString; SEnum (s2b "E") [] [s2b "A"; s2b "B"] None]) = false.
Proof. eexists. eexists. split; [vm_compute; reflexivity|]. split; [vm_compute; reflexivity|]. split; [vm_compute; reflexivity|]. split; reflexivity. Qed.
