(** C12 placeholder while the proofs are under construction *)
From Coq Require Import String.
From FA Require Import model.Base model.Json model.Parse model.Canon model.Piecewise.
