(** C12 — parsing is idempotent; raw, parsed and piecewise-parsed schemas behave alike.
    Statements only; proofs in proofs/PiecewiseProofs.v and proofs/InlineProofs.v.

    C12_piecewise is proved at the schema level for pieces that are ONE named type each (with
    whatever they contain), see below.  NOT proved (checked by the correspondence
    corr:three-forms on every (schema, subset)):
      C12_ops_respect_equiv in general: binary / JSON / validate / generate resolve references
        through the table only, hence agree on raw, parsed and piecewise forms - proved here for
        one inlining step of the binary decoder (C12_ref_is_its_definition + congruence) and, in
        props/C13.v, for schemas with the same canonical form; the composition over a whole
        piecewise table is compared on the implementation only.
    Proved: the marker path, parse-twice, re-parse of the unmarked parsed schema (names, canonical
    form), self-containedness of the inlined schema relative to the table, C12_piecewise. *)
From Coq Require Import String.
From FA Require Import model.Base model.Json model.Parse model.SchemaSpec model.Inline model.Canon model.Repo model.Piecewise model.Pout
     model.Value model.Schema model.Codec model.Bridge
     proofs.JsonProofs proofs.ParseProofs proofs.CanonProofs proofs.InlineProofs proofs.PiecewiseProofs proofs.PiecewiseInlineProofs proofs.IdemProofs proofs.CodecProofs proofs.BridgeProofs.
Open Scope string_scope.

(** parsing an already parsed (marked) schema returns it unchanged and copies its embedded
    table into the caller's dictionary *)
Theorem C12_idempotent_marked : forall f kv emb t,
  jhas "__fastavro_parsed" kv = true -> jget "__named_schemas" kv = Some (JObj emb) ->
  parse_schema (S f) (JObj kv) t = POk (JObj kv, jupdate emb t).
Proof. exact parse_marked. Qed.
Print Assumptions C12_idempotent_marked.

(** parse_schema (parse_schema j) = parse_schema j for a raw record: the first parse marks its
    result and embeds the final dictionary, the second returns it as it is *)
Theorem C12_idempotent : forall f kv t0 p t ty,
  jhas "__fastavro_parsed" kv = false -> jget "type" kv = Some (JStr ty) -> (ty = "record" \/ ty = "error") ->
  parse_schema f (JObj kv) t0 = POk (p, t) ->
  forall f' t1, parse_schema (S f') p t1 = POk (p, jupdate t t1).
Proof. exact parse_twice. Qed.
Print Assumptions C12_idempotent.

(** the parser's output, read as a raw schema in the same namespace, has the same specification
    form, defines the same full names (thanks to the kept "namespace": "") and stays in the class
    simple ... *)
Theorem C12_reparse_names : forall f j ns wh st d p st',
  simple_m j PSchema = true -> parse_rec f j ns wh st d = POk (p, st') ->
  pcf_json_in ns p = pcf_json_in ns j /\ spec_names ns p = spec_names ns j /\ simple_m p PSchema = true.
Proof. exact parse_rec_reparse. Qed.
Print Assumptions C12_reparse_names.

(** ... hence parsing it again - without the marker, e.g. the reader's writer_schema - gives the
    same canonical form and the same names, WHEN it is accepted (what is missing: that the parser
    accepts its own output; the correspondence checks it on every schema) *)
Theorem C12_reparse_partial : forall f j ns wh st d p st' f2 wh2 st2 d2 p2 st2',
  simple_m j PSchema = true -> parse_rec f j ns wh st d = POk (p, st') ->
  parse_rec f2 p ns wh2 st2 d2 = POk (p2, st2') ->
  canon p2 = canon p /\ carried_names p2 = carried_names p.
Proof. exact reparse_same. Qed.
Print Assumptions C12_reparse_partial.

(** C12_reparse, in full: the parser accepts its own output.  Every node parsed with
    _write_hint=False (all inner nodes, every sub-schema the loader parses) parsed again in the same
    state (names and dictionary) with the same default is accepted and gives the SAME output and
    the SAME state; at the top, with any _write_hint, the same holds for the output with its two
    marker keys removed (the reader's writer_schema).  This is the premise C12_reparse_partial left
    open; that theorem remains for re-parses in a DIFFERENT state. *)
Theorem C12_reparse : forall f j ns st d p st',
  parse_rec f j ns false st d = POk (p, st') -> parse_rec f p ns false st d = POk (p, st').
Proof. exact parse_rec_idem. Qed.
Print Assumptions C12_reparse.

Theorem C12_reparse_top : forall f kv ns wh st d p st',
  keys_free MARKER_KEYS kv = true ->
  parse_rec f (JObj kv) ns wh st d = POk (p, st') ->
  parse_rec f (strip_markers p) ns wh st d = POk (p, st').
Proof. exact reparse_accepted. Qed.
Print Assumptions C12_reparse_top.

(** self-contained relative to the table: after inlining, every reference either follows its
    definition (document order) or names a type that is not a key of the table; in particular,
    when every name is in the table, the container header and the canonical form carry a
    definition for every name they refer to (full statement [closed (inline tbl s)] for tables
    closed under reference: not proved) *)
Theorem C12_selfcontained_partial : forall tbl p q, inline tbl p = POk q -> closed_rel tbl q = true.
Proof. exact inline_result_closed_rel. Qed.
Print Assumptions C12_selfcontained_partial.

(** for a schema parsed from scratch nothing is inlined and the result is self-contained *)
Theorem C12_parsed_selfcontained : forall f j p t,
  unmarked j = true -> parse_schema f j [] = POk (p, t) -> inline t p = POk p /\ closed p = true.
Proof. intros f j p t U H. split; [eapply inline_id_on_parsed; eauto|eapply parsed_is_closed; eauto]. Qed.
Print Assumptions C12_parsed_selfcontained.

(** ---- C12_piecewise ----
    The children (each ONE named type definition, [piece_ok], with whatever it contains inline)
    are parsed one after the other against a shared table, then the parent, which refers to them
    by name, against the same table: (p, t).  The all-in-one raw schema [whole] is the parent with
    every child written inline at its first use ([ifu_rec] over the children as a repository,
    document order, recursively inside the children), parsed from scratch: (pw, tw).
    Then _inline_named_schemas(p, t) succeeds and its result q IS pw up to the two marker keys of
    the top level: the same JSON (hence the same names in the same order), the same canonical form,
    and q is self-contained (every reference follows its definition).
    Hypotheses: the pieces carry none of the parser's markers; all full names defined by the
    pieces and the parent are distinct (a later piece would silently overwrite the entry of an
    earlier one: the per-call name set does not see the shared table).
    Not covered (correspondence only): pieces that are unions or lists of several types; the
    equality of the TABLES t and tw entry by entry (t keeps the children by reference and also
    contains children the parent never uses). *)
Theorem C12_piecewise : forall children parent cs t1 f p t whole d f' pw tw,
  forallb piece_ok children = true -> markerfree parent = true ->
  NoDup (concat (map (spec_names "") children) ++ spec_names "" parent) ->
  parse_pieces children [] = POk (cs, t1) ->
  parse_schema f parent t1 = POk (p, t) ->
  ifu_rec (inline_fuel t p) (repo_of children) parent "" [] = POk (whole, d) ->
  parse_schema f' whole [] = POk (pw, tw) ->
  exists q, inline t p = POk q /\
            strip_markers q = strip_markers pw /\ canon q = canon pw /\ closed q = true.
Proof. exact piecewise_inline_auto. Qed.
Print Assumptions C12_piecewise.

(* the same for any fuel of the specification side; and the names *)
Theorem C12_piecewise_fuel : forall children parent cs t1 f p t g whole d f' pw tw,
  forallb piece_ok children = true -> markerfree parent = true ->
  NoDup (concat (map (spec_names "") children) ++ spec_names "" parent) ->
  parse_pieces children [] = POk (cs, t1) ->
  parse_schema f parent t1 = POk (p, t) ->
  ifu_rec g (repo_of children) parent "" [] = POk (whole, d) ->
  parse_schema f' whole [] = POk (pw, tw) ->
  exists q, inline_rec g t p [] = POk (q, d) /\
            strip_markers q = strip_markers pw /\ canon q = canon pw /\ closed q = true.
Proof. exact piecewise_inline. Qed.
Print Assumptions C12_piecewise_fuel.

Theorem C12_piecewise_names : forall q pw,
  strip_markers q = strip_markers pw -> carried_names q = carried_names pw.
Proof. exact same_strip_same_names. Qed.
Print Assumptions C12_piecewise_names.

(* the core, without any parser: inlining the table of the pieces' outputs into the parser's
   output of the parent gives the parser's output of the all-in-one schema *)
Theorem C12_piecewise_core : forall rp tbl,
  (forall q raw, jget q rp = Some raw ->
     exists kv', (forall ns, has_dot q = true \/ ns = "" -> pout ns raw = JObj kv') /\
                 jget q tbl = Some (JObj kv') /\ keys_free MARKER_KEYS kv' = true) ->
  (forall q, jget q rp = None -> jget q tbl = None) ->
  forall f x ns d x' d', ifu_rec f rp x ns d = POk (x', d') -> inline_rec f tbl (pout ns x) d = POk (pout ns x', d').
Proof. exact ifu_inline. Qed.
Print Assumptions C12_piecewise_core.

(** ---- C12_ops_respect_equiv for the binary decoder, one inlining step ----
    [sim k e s1 s2]: whatever decodes under s1 decodes under s2 with k more units of fuel.
    A reference and its definition in the table simulate each other, and the relation is a
    congruence for every schema context: so a schema that refers to a type by name and the same
    schema with that reference replaced by the definition decode identically (given the table
    contains the definition).  The other operations (validate, JSON, generate) are compared by the
    correspondence only. *)
Theorem C12_ref_is_its_definition : forall e n d,
  lookup e n = Some d -> sim 0 e (SRef n) d /\ sim 1 e d (SRef n).
Proof. exact sim_ref_def. Qed.
Print Assumptions C12_ref_is_its_definition.

Theorem C12_equiv_congruence : forall k e,
  (forall s1 s2, sim k e s1 s2 -> sim k e (SArray s1) (SArray s2)) /\
  (forall s1 s2, sim k e s1 s2 -> sim k e (SMap s1) (SMap s2)) /\
  (forall lt s1 s2, sim k e s1 s2 -> sim k e (SAnnot lt s1) (SAnnot lt s2)) /\
  (forall l1 l2, Forall2 (sim k e) l1 l2 -> sim k e (SUnion l1) (SUnion l2)) /\
  (forall n al fs1 fs2, Forall2 (fun a b => sim k e (ftype a) (ftype b)) fs1 fs2 ->
                        sim k e (SRecord n al fs1) (SRecord n al fs2)).
Proof.
  intros k e. repeat split.
  - apply sim_array. - apply sim_map. - intros lt. apply sim_annot. - apply sim_union. - intros n al. apply sim_record.
Qed.
Print Assumptions C12_equiv_congruence.

Theorem C12_equiv_refl_weaken : forall e s k k' s1 s2,
  sim 0 e s s /\ ((k <= k')%nat -> sim k e s1 s2 -> sim k' e s1 s2).
Proof. intros. split; [apply sim_refl|apply sim_weaken]. Qed.
Print Assumptions C12_equiv_refl_weaken.

(** ---- evaluated instances (closed boolean computations) ---- *)
Definition ex_parent_inline : json :=
  JObj [("type", JStr "record"); ("name", JStr "n.A");
        ("fields", JArr [JObj [("name", JStr "b");
                               ("type", JObj [("type", JStr "record"); ("name", JStr "B");
                                   ("fields", JArr [JObj [("name", JStr "c");
                                       ("type", JObj [("type", JStr "array");
                                                      ("items", JObj [("type", JStr "enum"); ("name", JStr "C"); ("symbols", JArr [JStr "X"; JStr "Y"])])])]])])];
                         JObj [("name", JStr "c2"); ("type", JArr [JStr "null"; JStr "C"])]])].
Definition ex_pieces : list json :=
  [JObj [("type", JStr "enum"); ("name", JStr "n.C"); ("symbols", JArr [JStr "X"; JStr "Y"])];
   JObj [("type", JStr "record"); ("name", JStr "n.B");
         ("fields", JArr [JObj [("name", JStr "c"); ("type", JObj [("type", JStr "array"); ("items", JStr "n.C")])]])];
   JObj [("type", JStr "record"); ("name", JStr "n.A");
         ("fields", JArr [JObj [("name", JStr "b"); ("type", JStr "n.B")];
                          JObj [("name", JStr "c2"); ("type", JArr [JStr "null"; JStr "C"])]])]].

Example C12_piecewise_instance : pw_check ex_pieces ex_parent_inline = true.
Proof. vm_compute. reflexivity. Qed.

(* non-vacuity of C12_piecewise: every hypothesis and the conclusion, computed (children n.C, n.B - n.B
   refers to n.C - and the parent n.A) *)
Example C12_piecewise_general_instance :
  pw_inline_check [JObj [("type", JStr "enum"); ("name", JStr "n.C"); ("symbols", JArr [JStr "X"; JStr "Y"])];
                   JObj [("type", JStr "record"); ("name", JStr "n.B");
                         ("fields", JArr [JObj [("name", JStr "c"); ("type", JObj [("type", JStr "array"); ("items", JStr "n.C")])]])]]
                  (JObj [("type", JStr "record"); ("name", JStr "n.A");
                         ("fields", JArr [JObj [("name", JStr "b"); ("type", JStr "n.B")];
                                          JObj [("name", JStr "c2"); ("type", JArr [JStr "null"; JStr "C"])]])]) = true.
Proof. vm_compute. reflexivity. Qed.

(* non-vacuity: the unmarked parse of the example, parsed again from the same (empty) state *)
Example C12_reparse_instance :
  match parse_rec 6 ex_parent_inline "" false (mkst [] []) None with
  | POk (p, st') => match parse_rec 6 p "" false (mkst [] []) None with
                    | POk (p2, st2) => json_eqb p2 p && named_eqb (st_tbl st2) (st_tbl st') && negb (json_eqb p ex_parent_inline)
                    | _ => false
                    end
  | _ => false
  end = true.
Proof. vm_compute. reflexivity. Qed.

Example C12_idempotent_instance : idem_check ex_parent_inline = true /\ reparse_check ex_parent_inline = true.
Proof. split; vm_compute; reflexivity. Qed.
