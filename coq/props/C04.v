(** C04 — container files round-trip under every (abstract) codec, sync interval, marker and metadata;
    the records read do not depend on how they were grouped into blocks.  Statements only. *)
From Coq Require Import Lia.
From FA Require Import model.Base model.Varint model.Value model.Schema model.Codec model.Container
                       proofs.CodecProofs proofs.ContainerProofs.

Definition codec_ok (compress : bytes -> bytes) (decompress : bytes -> res bytes) : Prop :=
  forall b, decompress (compress b) = Ok b.

(* writer(fo, schema, records): create, write each record, flush *)
Definition write_all (records : list aval) : list wop := map OWrite records.

Lemma submitted_write_all l : submitted (write_all l) = l.
Proof. unfold submitted, write_all. induction l as [|a l IH]; cbn [map flat_map submitted_of app]; [reflexivity|]. rewrite IH. reflexivity. Qed.
Print Assumptions submitted_write_all.

(** for every codec with [decompress (compress b) = b], every schema/env, every list of typed records,
    EVERY sync_interval (any integer), every 16-byte marker and every metadata map: the reader, given
    nothing but the file, yields exactly the records in order and ends normally *)
Theorem C04_roundtrip : forall compress decompress, codec_ok compress decompress ->
  forall e s n fuel, (n <= fuel)%nat -> forall sync, length sync = 16%nat -> Forall is_byte sync ->
  forall sync_interval meta records hf,
  meta_ok meta -> Forall (typedn n e s) records -> len records < 2 ^ 63 -> (3 <= hf)%nat ->
  small_run compress sync (wcreate sync meta sync_interval) (write_all records) ->
  exists nb, forall k, (nb < k)%nat ->
    read_container decompress e s fuel hf k
      (out (flush compress sync (run compress sync (wcreate sync meta sync_interval) (write_all records))))
    = (records, EndOK).
Proof.
  intros compress decompress Hc e s n fuel Hf sync Hs Hsb si meta records hf Hm Ht Hl Hhf Hsm.
  pose proof (submitted_write_all records) as Hsub.
  destruct (history_reads_back compress decompress Hc e s n fuel Hf sync Hs Hsb meta (write_all records) hf Hm) with (si := si) as [nb Hnb];
    try assumption.
  - unfold write_all. apply Forall_map. exact Ht.
  - rewrite Hsub. exact Hl.
  - exists nb. intros k Hk. rewrite (Hnb k Hk), Hsub. reflexivity.
Qed.
Print Assumptions C04_roundtrip.

(** the metadata and marker the reader sees are the ones supplied *)
Theorem C04_header : forall compress decompress, codec_ok compress decompress ->
  forall n fuel, (n <= fuel)%nat -> forall sync, length sync = 16%nat -> Forall is_byte sync ->
  forall meta rest hf, meta_ok meta -> (3 <= hf)%nat ->
  read_header hf (header_bytes meta sync ++ rest) = Ok (map (fun kv => (fst kv, ABytes (snd kv))) meta, sync, rest).
Proof. intros; eapply read_header_ok; eassumption. Qed.
Print Assumptions C04_header.

(** grouping independence: two files with the same header whose blocks hold the same records in the
    same order, grouped in ANY two ways, read back identically *)
Theorem C04_grouping : forall compress decompress, codec_ok compress decompress ->
  forall e s n fuel, (n <= fuel)%nat -> forall sync, length sync = 16%nat -> Forall is_byte sync ->
  forall meta bls1 bls2 hf k, meta_ok meta -> (3 <= hf)%nat -> (length bls1 < k)%nat -> (length bls2 < k)%nat ->
  Forall (good_blk compress e s fuel) bls1 -> Forall (good_blk compress e s fuel) bls2 ->
  flat_map brecs bls1 = flat_map brecs bls2 ->
  read_container decompress e s fuel hf k (header_bytes meta sync ++ flat_map (blk_bytes compress sync) bls1) =
  read_container decompress e s fuel hf k (header_bytes meta sync ++ flat_map (blk_bytes compress sync) bls2).
Proof.
  intros compress decompress Hc e s n fuel Hf sync Hs Hsb meta bls1 bls2 hf k Hm Hhf Hk1 Hk2 H1 H2 E.
  rewrite (read_container_ok compress decompress Hc e s n fuel Hf sync Hs Hsb meta bls1 hf k Hm Hhf Hk1 H1).
  rewrite (read_container_ok compress decompress Hc e s n fuel Hf sync Hs Hsb meta bls2 hf k Hm Hhf Hk2 H2).
  rewrite E. reflexivity.
Qed.
Print Assumptions C04_grouping.

(** in particular the sync interval does not matter *)
Theorem C04_sync_interval_irrelevant : forall compress decompress, codec_ok compress decompress ->
  forall e s n fuel, (n <= fuel)%nat -> forall sync, length sync = 16%nat -> Forall is_byte sync ->
  forall si1 si2 meta records hf,
  meta_ok meta -> Forall (typedn n e s) records -> len records < 2 ^ 63 -> (3 <= hf)%nat ->
  small_run compress sync (wcreate sync meta si1) (write_all records) ->
  small_run compress sync (wcreate sync meta si2) (write_all records) ->
  exists nb, forall k, (nb < k)%nat ->
    read_container decompress e s fuel hf k (out (flush compress sync (run compress sync (wcreate sync meta si1) (write_all records)))) =
    read_container decompress e s fuel hf k (out (flush compress sync (run compress sync (wcreate sync meta si2) (write_all records)))).
Proof.
  intros compress decompress Hc e s n fuel Hf sync Hs Hsb si1 si2 meta records hf Hm Ht Hl Hhf Hs1 Hs2.
  destruct (C04_roundtrip compress decompress Hc e s n fuel Hf sync Hs Hsb si1 meta records hf Hm Ht Hl Hhf Hs1) as [n1 H1].
  destruct (C04_roundtrip compress decompress Hc e s n fuel Hf sync Hs Hsb si2 meta records hf Hm Ht Hl Hhf Hs2) as [n2 H2].
  exists (Nat.max n1 n2). intros k Hk. rewrite H1, H2 by lia. reflexivity.
Qed.
Print Assumptions C04_sync_interval_irrelevant.

(** the model's I/O: every writer operation only appends to the output (write/flush suffice on a
    non-seekable stream); reads are sequential by construction of [read_container] (a function of the
    byte list consumed front to back) *)
Theorem C04_append_only : forall compress sync ops st,
  exists x, out (run compress sync st ops) = out st ++ x.
Proof. intros. apply run_appends. Qed.
Print Assumptions C04_append_only.

(** non-vacuity: null codec, zero-byte records, interval 1, three records -> three blocks *)
Example C04_example :
  let sync := [1;2;3;4;5;6;7;8;9;10;11;12;13;14;15;16] in
  let st := flush (fun b => b) sync (run (fun b => b) sync (wcreate sync [] 1) (write_all [ANull; ANull; ANull])) in
  read_container Ok [] SNull 5 5 9 (out st) = ([ANull; ANull; ANull], EndOK) /\ len (out st) = 21 + 18.
Proof. vm_compute. split; reflexivity. Qed.
