(** C16 — Logical types use the specification's representation and round-trip over their
    whole domain; a decimal is never stored as a different number.
    Statements only; proofs in proofs/LogicalProofs.v; model in model/Logical.v.

    Abstraction (harness/props/c16.py): a date is its proleptic ordinal, a time of day is
    (h, m, s, us), a datetime is its microseconds since the (UTC or naive) epoch, a Decimal
    is as_tuple() = (sign, digits, exponent), a UUID is its 128-bit integer, bytes are [list Z].

    Predicates used below (proofs/LogicalProofs.v):
      valid_tod h m s us        := 0<=h<24 /\ 0<=m<60 /\ 0<=s<60 /\ 0<=us<10^6
      in_datetime_range t       := DT_MIN <= t <= DT_MAX       (datetime.min .. datetime.max, in us)
      is_digit d                := 0 <= d <= 9
      unscaled scale ds exp     := digits_val ds * 10^(exp+scale)          (the unscaled integer)
      signed sign u             := if sign then -u else u
      fits size su              := -2^(8 size-1) < su < 2^(8 size-1)
      fixed_encoding size su bs := bs = be_loop size su /\ len bs = size /\ Forall is_byte bs
                                   /\ from_be_signed bs = su      (sign-extended two's complement)
      dec_eq (c1,e1) (c2,e2)    := c1*10^e1 = c2*10^e2  (stated over Z by scaling with the smaller exponent) *)
From Coq Require Import String.
From FA Require Import model.Base model.Logical proofs.LogicalProofs.
Open Scope Z_scope.

(** ** date: days from 1970-01-01, for every date 0001-01-01 .. 9999-12-31 (ordinals 1 .. 3652059) *)
Theorem C16_date : forall o, 1 <= o <= 3652059 ->
  prepare_date o = o - 719163 /\
  read_date (prepare_date o) = Ok o /\
  INT_MIN_VALUE <= prepare_date o <= INT_MAX_VALUE.
Proof. exact date_ok. Qed.
Print Assumptions C16_date.

(** ** time-millis: milliseconds after midnight; comes back truncated to the millisecond *)
Theorem C16_time_millis : forall h m s us, valid_tod h m s us ->
  prepare_time_millis h m s us = ((h * 60 + m) * 60 + s) * 1000 + us / 1000 /\
  0 <= prepare_time_millis h m s us < 86400000 /\
  read_time_millis (prepare_time_millis h m s us) = Ok (h, m, s, us / 1000 * 1000).
Proof. exact time_millis_ok. Qed.
Print Assumptions C16_time_millis.

(** every millisecond of the day is read as a valid time that is written back as that millisecond *)
Theorem C16_time_millis_onto : forall n, 0 <= n < 86400000 ->
  exists h m s ms, valid_tod h m s (ms * 1000) /\ 0 <= ms < 1000 /\
    read_time_millis n = Ok (h, m, s, ms * 1000) /\ prepare_time_millis h m s (ms * 1000) = n.
Proof. exact time_millis_onto. Qed.
Print Assumptions C16_time_millis_onto.

(** ** time-micros: microseconds after midnight, exact *)
Theorem C16_time_micros : forall h m s us, valid_tod h m s us ->
  prepare_time_micros h m s us = ((h * 60 + m) * 60 + s) * 1000000 + us /\
  0 <= prepare_time_micros h m s us < 86400000000 /\
  read_time_micros (prepare_time_micros h m s us) = Ok (h, m, s, us).
Proof. exact time_micros_ok. Qed.
Print Assumptions C16_time_micros.

Theorem C16_time_micros_onto : forall n, 0 <= n < 86400000000 ->
  exists h m s us, valid_tod h m s us /\
    read_time_micros n = Ok (h, m, s, us) /\ prepare_time_micros h m s us = n.
Proof. exact time_micros_onto. Qed.
Print Assumptions C16_time_micros_onto.

(** ** timestamp-millis: for EVERY instant t (microseconds from the UTC epoch, any sign, hence any
    offset and pre-epoch instants) the stored long is floor(t / 1000); for instants in the datetime
    range it fits a long and the reader returns the UTC instant truncated to the millisecond *)
Theorem C16_ts_millis : forall t,
  prepare_timestamp_millis t = t / 1000 /\
  (in_datetime_range t ->
     LONG_MIN_VALUE <= prepare_timestamp_millis t <= LONG_MAX_VALUE /\
     read_timestamp_millis (prepare_timestamp_millis t) = Ok (1000 * (t / 1000)) /\
     t - 1000 < 1000 * (t / 1000) <= t).
Proof. exact ts_millis_ok. Qed.
Print Assumptions C16_ts_millis.

(** ** timestamp-micros: the stored long is t itself *)
Theorem C16_ts_micros : forall t,
  prepare_timestamp_micros t = t /\
  (in_datetime_range t ->
     LONG_MIN_VALUE <= prepare_timestamp_micros t <= LONG_MAX_VALUE /\
     read_timestamp_micros (prepare_timestamp_micros t) = Ok t).
Proof. exact ts_micros_ok. Qed.
Print Assumptions C16_ts_micros.

(** ** local-timestamp-millis / micros (naive datetimes, t = microseconds from the naive epoch) *)
Theorem C16_local_ts_millis : forall t,
  prepare_local_timestamp_millis t = t / 1000 /\
  (in_datetime_range t ->
     LONG_MIN_VALUE <= prepare_local_timestamp_millis t <= LONG_MAX_VALUE /\
     read_local_timestamp_millis (prepare_local_timestamp_millis t) = Ok (1000 * (t / 1000)) /\
     t - 1000 < 1000 * (t / 1000) <= t).
Proof. exact ts_millis_ok. Qed.
Print Assumptions C16_local_ts_millis.

Theorem C16_local_ts_micros : forall t,
  prepare_local_timestamp_micros t = t /\
  (in_datetime_range t ->
     LONG_MIN_VALUE <= prepare_local_timestamp_micros t <= LONG_MAX_VALUE /\
     read_local_timestamp_micros (prepare_local_timestamp_micros t) = Ok t).
Proof. exact ts_micros_ok. Qed.
Print Assumptions C16_local_ts_micros.

(** naive datetimes under timestamp-millis / micros with the process time zone UTC (mktime path) *)
Theorem C16_ts_naive_utc : forall t,
  prepare_timestamp_millis_naive_utc t = prepare_timestamp_millis t /\
  prepare_timestamp_micros_naive_utc t = prepare_timestamp_micros t.
Proof.
  intros t. rewrite prepare_ts_millis_naive_floor, prepare_ts_micros_naive_id,
    prepare_ts_millis_floor, prepare_ts_micros_id. split; reflexivity.
Qed.
Print Assumptions C16_ts_naive_utc.

(** ** uuid: the canonical 8-4-4-4-12 string of the 128 bits parses back to the same 128 bits *)
Theorem C16_uuid : forall n, 0 <= n < 2 ^ 128 -> uuid_parse (uuid_str n) = n.
Proof. intros n H. rewrite uuid_roundtrip. apply Z.mod_small. exact H. Qed.
Print Assumptions C16_uuid.

(** ** bit_length (not in the standard library) and the two's-complement round trip *)
Theorem C16_bit_length : forall x, 0 < x -> 2 ^ (bit_length x - 1) <= x < 2 ^ bit_length x.
Proof. exact bit_length_spec. Qed.
Print Assumptions C16_bit_length.

Theorem C16_twos_complement : forall k x, 0 < k -> - 2 ^ (8 * k - 1) <= x < 2 ^ (8 * k - 1) ->
  to_bytes_signed k x = Ok (be_loop (Z.to_nat k) x) /\
  len (be_loop (Z.to_nat k) x) = k /\
  from_be_signed (be_loop (Z.to_nat k) x) = x.
Proof. exact to_bytes_signed_ok. Qed.
Print Assumptions C16_twos_complement.

(** ** decimal as bytes: for every precision, scale, sign, digit string and exponent:
    big-endian two's complement of the unscaled integer in (bit_length + 8) / 8 bytes;
    too many digits or too many fractional digits => error *)
Theorem C16_decimal_bytes : forall precision scale sign ds exp,
  Forall is_digit ds ->
  let u := unscaled scale ds exp in
  let k := (bit_length u + 8) / 8 in
  (len ds <= precision -> 0 <= exp + scale ->
     prepare_bytes_decimal precision scale sign ds exp = Ok (be_loop (Z.to_nat k) (signed sign u)) /\
     to_bytes_signed k (signed sign u) = Ok (be_loop (Z.to_nat k) (signed sign u)) /\
     len (be_loop (Z.to_nat k) (signed sign u)) = k /\
     Forall is_byte (be_loop (Z.to_nat k) (signed sign u)) /\
     from_be_signed (be_loop (Z.to_nat k) (signed sign u)) = signed sign u) /\
  (precision < len ds -> prepare_bytes_decimal precision scale sign ds exp = Err) /\
  (exp + scale < 0 -> prepare_bytes_decimal precision scale sign ds exp = Err).
Proof. exact decimal_bytes_ok. Qed.
Print Assumptions C16_decimal_bytes.

(** ** decimal as fixed.
    FULL statement, proved for the REPAIRED function [write_fixed_decimal_fixed]
    (= the code plus "raise ValueError when bits_req > 8*size" and "if sign and unscaled_datum:"):
    exactly [size] bytes, the sign-extended two's complement of the unscaled integer, iff it fits;
    an error otherwise. *)
Theorem C16_decimal_fixed : forall precision scale size sign ds exp,
  Forall is_digit ds -> 0 <= size ->
  let su := signed sign (unscaled scale ds exp) in
  (len ds <= precision -> 0 <= exp + scale -> fits size su ->
     exists bs, write_fixed_decimal_fixed precision scale size sign ds exp = Ok bs /\ fixed_encoding size su bs) /\
  (len ds <= precision -> 0 <= exp + scale -> ~ fits size su ->
     write_fixed_decimal_fixed precision scale size sign ds exp = Err) /\
  (precision < len ds -> write_fixed_decimal_fixed precision scale size sign ds exp = Err) /\
  (exp + scale < 0 -> write_fixed_decimal_fixed precision scale size sign ds exp = Err).
Proof. exact decimal_fixed_repaired. Qed.
Print Assumptions C16_decimal_fixed.

(** [fits] excludes the single representable value -2^(8 size-1) (bits_req = 8 size + 1); under a
    schema accepted by parse_schema (10^precision <= 2^(8 size-1)) no datum has that unscaled value *)
Theorem C16_decimal_fixed_min_unreachable : forall precision scale size ds exp,
  Forall is_digit ds -> len ds <= precision -> 0 <= exp + scale -> 0 < size ->
  10 ^ precision <= 2 ^ (8 * size - 1) ->
  unscaled scale ds exp <> 2 ^ (8 * size - 1).
Proof. exact min_value_unreachable. Qed.
Print Assumptions C16_decimal_fixed_min_unreachable.

(** The code AS IT IS NOW ([write_fixed_decimal]): the same statement holds for non-negative data
    (sign = false) and for negative data with a non-zero magnitude that fits.
    Missing with respect to the full statement: sign = true with u = 0 (negative zero) and
    sign = true with a magnitude that does not fit -- both refuted below. *)
Theorem C16_decimal_fixed_partial : forall precision scale size sign ds exp,
  Forall is_digit ds -> 0 <= size ->
  let u := unscaled scale ds exp in
  let su := signed sign u in
  (len ds <= precision -> 0 <= exp + scale -> fits size su -> (sign = false \/ u <> 0) ->
     exists bs, write_fixed_decimal precision scale size sign ds exp = Ok bs /\ fixed_encoding size su bs) /\
  (len ds <= precision -> 0 <= exp + scale -> ~ fits size su -> sign = false ->
     write_fixed_decimal precision scale size sign ds exp = Err) /\
  (precision < len ds -> write_fixed_decimal precision scale size sign ds exp = Err) /\
  (exp + scale < 0 -> write_fixed_decimal precision scale size sign ds exp = Err).
Proof. exact decimal_fixed_current. Qed.
Print Assumptions C16_decimal_fixed_partial.

(** F2: fixed size 1, decimal(2, 2), Decimal("-5"): unscaled -500 does not fit one byte, no error,
    0x0C is stored and read back as 0.12 *)
Theorem C16_decimal_fixed_refuted_current :
  exists precision scale size sign ds exp bs,
    Forall is_digit ds /\ len ds <= precision /\ 0 <= exp + scale /\
    10 ^ precision <= 2 ^ (8 * size - 1) /\
    ~ fits size (signed sign (unscaled scale ds exp)) /\
    write_fixed_decimal precision scale size sign ds exp = Ok bs /\
    from_be_signed bs <> signed sign (unscaled scale ds exp) /\
    read_decimal precision scale bs = Ok (12, -2).
Proof. exact decimal_fixed_refuted_overflow. Qed.
Print Assumptions C16_decimal_fixed_refuted_current.

(** negative zero: fixed size 2, decimal(4, 2), Decimal("-0"): 0xFFFE (-2) is stored, read back as -0.02 *)
Theorem C16_decimal_fixed_negzero_refuted_current :
  exists precision scale size sign ds exp bs,
    Forall is_digit ds /\ len ds <= precision /\ 0 <= exp + scale /\
    10 ^ precision <= 2 ^ (8 * size - 1) /\
    fits size (signed sign (unscaled scale ds exp)) /\
    write_fixed_decimal precision scale size sign ds exp = Ok bs /\
    from_be_signed bs <> signed sign (unscaled scale ds exp) /\
    read_decimal precision scale bs = Ok (-2, -2).
Proof. exact decimal_fixed_refuted_negzero. Qed.
Print Assumptions C16_decimal_fixed_negzero_refuted_current.

(** ** never altered: whatever is written without an error reads back as a number equal to the
    datum (including negative zero and positive exponents); a successful write implies the
    datum was within precision and scale (and, for fixed, fits). *)
Theorem C16_decimal_never_altered_bytes : forall precision scale sign ds exp bs,
  Forall is_digit ds -> 1 <= precision ->
  write_bytes_decimal precision scale sign ds exp = Ok bs ->
  len ds <= precision /\ 0 <= exp + scale /\
  exists d, read_decimal precision scale bs = Ok d /\ dec_eq d (dec_of_tuple sign ds exp).
Proof. exact bytes_never_altered. Qed.
Print Assumptions C16_decimal_never_altered_bytes.

(** FULL statement for fixed, proved for the REPAIRED function *)
Theorem C16_decimal_never_altered : forall precision scale size sign ds exp bs,
  Forall is_digit ds -> 1 <= precision -> 0 <= size ->
  write_fixed_decimal_fixed precision scale size sign ds exp = Ok bs ->
  len ds <= precision /\ 0 <= exp + scale /\ fits size (signed sign (unscaled scale ds exp)) /\ len bs = size /\
  exists d, read_decimal precision scale bs = Ok d /\ dec_eq d (dec_of_tuple sign ds exp).
Proof. exact fixed_never_altered_repaired. Qed.
Print Assumptions C16_decimal_never_altered.

(** the code as it is: holds for non-negative data, and for negative data that is non-zero and fits
    (full statement above; counterexamples: the two [_refuted_current] theorems) *)
Theorem C16_decimal_never_altered_partial : forall precision scale size sign ds exp bs,
  Forall is_digit ds -> 1 <= precision -> 0 <= size ->
  (sign = false \/ (unscaled scale ds exp <> 0 /\ fits size (signed sign (unscaled scale ds exp)))) ->
  write_fixed_decimal precision scale size sign ds exp = Ok bs ->
  len ds <= precision /\ 0 <= exp + scale /\ fits size (signed sign (unscaled scale ds exp)) /\ len bs = size /\
  exists d, read_decimal precision scale bs = Ok d /\ dec_eq d (dec_of_tuple sign ds exp).
Proof. exact fixed_never_altered_current. Qed.
Print Assumptions C16_decimal_never_altered_partial.

(** ** non-vacuity: the hypotheses are met by non-trivial instances *)
Example C16_example_calendar :
  ymd2ord 1970 1 1 = DAYS_SHIFT /\ ymd2ord 1 1 1 = MIN_ORDINAL /\ ymd2ord 9999 12 31 = MAX_ORDINAL /\
  prepare_date (ymd2ord 2000 2 29) = 11016 /\ read_date (-719162) = Ok 1 /\ read_date (-719163) = Err /\
  DT_MIN = (MIN_ORDINAL - DAYS_SHIFT) * US_PER_DAY /\ DT_MAX = (MAX_ORDINAL - DAYS_SHIFT + 1) * US_PER_DAY - 1.
Proof. vm_compute. repeat split. Qed.

Example C16_example_time :
  valid_tod 23 59 59 999999 /\ prepare_time_millis 23 59 59 999999 = 86399999 /\
  read_time_millis 86399999 = Ok (23, 59, 59, 999000) /\ read_time_millis 86400000 = Err /\
  prepare_time_micros 23 59 59 999999 = 86399999999.
Proof. unfold valid_tod. vm_compute. repeat split; discriminate. Qed.

(** one microsecond before the epoch; the first and the last instant of the datetime range *)
Example C16_example_ts :
  prepare_timestamp_millis (-1) = -1 /\ read_timestamp_millis (-1) = Ok (-1000) /\
  in_datetime_range DT_MIN /\ in_datetime_range DT_MAX /\
  prepare_timestamp_millis DT_MIN = -62135596800000 /\ prepare_timestamp_millis DT_MAX = 253402300799999 /\
  read_timestamp_millis 253402300800000 = Err.
Proof. unfold in_datetime_range. vm_compute. repeat split; discriminate. Qed.

(** Decimal("-1.28") under decimal(4, 2): bytes ff80; fixed(2) ff80; Decimal("1E+2") (positive exponent);
    one digit too many; one fractional digit too many; 327.68 = 2^15 unscaled does not fit two bytes *)
Example C16_example_decimal :
  prepare_bytes_decimal 4 2 true [1; 2; 8] (-2) = Ok [255; 128] /\
  write_fixed_decimal_fixed 4 2 2 true [1; 2; 8] (-2) = Ok [255; 128] /\
  write_fixed_decimal 4 2 2 true [1; 2; 8] (-2) = Ok [255; 128] /\
  read_decimal 4 2 [255; 128] = Ok (-128, -2) /\
  prepare_bytes_decimal 4 2 false [1] 2 = Ok [39; 16] /\
  prepare_bytes_decimal 4 2 false [1; 2; 3; 4; 5] (-2) = Err /\
  prepare_bytes_decimal 4 2 false [1; 2; 3] (-3) = Err /\
  write_fixed_decimal_fixed 5 2 2 false [3; 2; 7; 6; 8] (-2) = Err /\
  write_fixed_decimal 5 2 2 false [3; 2; 7; 6; 8] (-2) = Err /\
  write_fixed_decimal_fixed 4 2 2 true [0] 0 = Ok [0; 0] /\
  write_fixed_decimal_fixed 2 2 1 true [5] 0 = Err.
Proof. vm_compute. repeat split. Qed.
