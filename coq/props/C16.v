(** C16 — Logical types use the specification's representation and round-trip over their
    whole domain; a decimal is never stored as a different number.
    Statements only; proofs in proofs/LogicalProofs.v; model in model/Logical.v.

    Abstraction (harness/props/c16.py): a date is its proleptic ordinal, a time of day is
    (h, m, s, us), a datetime is its microseconds since the (UTC or naive) epoch, a Decimal
    is as_tuple() = (sign, digits, exponent), a UUID is its 128-bit integer, bytes are [list Z].

    Predicates used below (proofs/LogicalProofs.v):
      valid_tod h m s us        := 0<=h<24 /\ 0<=m<60 /\ 0<=s<60 /\ 0<=us<10^6
      in_datetime_range t       := DT_MIN <= t <= DT_MAX       (datetime.min .. datetime.max, in us)
      is_digit d                := 0 <= d <= 9
      unscaled scale ds exp     := digits_val ds * 10^(exp+scale)          (the unscaled integer)
      signed sign u             := if sign then -u else u
      fits size su              := -2^(8 size-1) < su < 2^(8 size-1)
      fixed_encoding size su bs := bs = be_loop size su /\ len bs = size /\ Forall is_byte bs
                                   /\ from_be_signed bs = su      (sign-extended two's complement)
      dec_eq (c1,e1) (c2,e2)    := c1*10^e1 = c2*10^e2  (stated over Z by scaling with the smaller exponent) *)
From Coq Require Import String Lia.
From FA Require Import model.Base model.Logical model.LogicalOld model.LogicalPos
                       proofs.LogicalProofs proofs.LogicalOldProofs proofs.LogicalPosProofs.
Open Scope Z_scope.

(** ** date: days from 1970-01-01, for every date 0001-01-01 .. 9999-12-31 (ordinals 1 .. 3652059) *)
Theorem C16_date : forall o, 1 <= o <= 3652059 ->
  prepare_date o = o - 719163 /\
  read_date (prepare_date o) = Ok o /\
  INT_MIN_VALUE <= prepare_date o <= INT_MAX_VALUE.
Proof. exact date_ok. Qed.
Print Assumptions C16_date.

(** ** time-millis: milliseconds after midnight; comes back truncated to the millisecond *)
Theorem C16_time_millis : forall h m s us, valid_tod h m s us ->
  prepare_time_millis h m s us = ((h * 60 + m) * 60 + s) * 1000 + us / 1000 /\
  0 <= prepare_time_millis h m s us < 86400000 /\
  read_time_millis (prepare_time_millis h m s us) = Ok (h, m, s, us / 1000 * 1000).
Proof. exact time_millis_ok. Qed.
Print Assumptions C16_time_millis.

(** every millisecond of the day is read as a valid time that is written back as that millisecond *)
Theorem C16_time_millis_onto : forall n, 0 <= n < 86400000 ->
  exists h m s ms, valid_tod h m s (ms * 1000) /\ 0 <= ms < 1000 /\
    read_time_millis n = Ok (h, m, s, ms * 1000) /\ prepare_time_millis h m s (ms * 1000) = n.
Proof. exact time_millis_onto. Qed.
Print Assumptions C16_time_millis_onto.

(** ** time-micros: microseconds after midnight, exact *)
Theorem C16_time_micros : forall h m s us, valid_tod h m s us ->
  prepare_time_micros h m s us = ((h * 60 + m) * 60 + s) * 1000000 + us /\
  0 <= prepare_time_micros h m s us < 86400000000 /\
  read_time_micros (prepare_time_micros h m s us) = Ok (h, m, s, us).
Proof. exact time_micros_ok. Qed.
Print Assumptions C16_time_micros.

Theorem C16_time_micros_onto : forall n, 0 <= n < 86400000000 ->
  exists h m s us, valid_tod h m s us /\
    read_time_micros n = Ok (h, m, s, us) /\ prepare_time_micros h m s us = n.
Proof. exact time_micros_onto. Qed.
Print Assumptions C16_time_micros_onto.

(** ** timestamp-millis: for EVERY instant t (microseconds from the UTC epoch, any sign, hence any
    offset and pre-epoch instants) the stored long is floor(t / 1000); for instants in the datetime
    range it fits a long and the reader returns the UTC instant truncated to the millisecond *)
Theorem C16_ts_millis : forall t,
  prepare_timestamp_millis t = t / 1000 /\
  (in_datetime_range t ->
     LONG_MIN_VALUE <= prepare_timestamp_millis t <= LONG_MAX_VALUE /\
     read_timestamp_millis (prepare_timestamp_millis t) = Ok (1000 * (t / 1000)) /\
     t - 1000 < 1000 * (t / 1000) <= t).
Proof. exact ts_millis_ok. Qed.
Print Assumptions C16_ts_millis.

(** ** timestamp-micros: the stored long is t itself *)
Theorem C16_ts_micros : forall t,
  prepare_timestamp_micros t = t /\
  (in_datetime_range t ->
     LONG_MIN_VALUE <= prepare_timestamp_micros t <= LONG_MAX_VALUE /\
     read_timestamp_micros (prepare_timestamp_micros t) = Ok t).
Proof. exact ts_micros_ok. Qed.
Print Assumptions C16_ts_micros.

(** ** local-timestamp-millis / micros (naive datetimes, t = microseconds from the naive epoch) *)
Theorem C16_local_ts_millis : forall t,
  prepare_local_timestamp_millis t = t / 1000 /\
  (in_datetime_range t ->
     LONG_MIN_VALUE <= prepare_local_timestamp_millis t <= LONG_MAX_VALUE /\
     read_local_timestamp_millis (prepare_local_timestamp_millis t) = Ok (1000 * (t / 1000)) /\
     t - 1000 < 1000 * (t / 1000) <= t).
Proof. exact ts_millis_ok. Qed.
Print Assumptions C16_local_ts_millis.

Theorem C16_local_ts_micros : forall t,
  prepare_local_timestamp_micros t = t /\
  (in_datetime_range t ->
     LONG_MIN_VALUE <= prepare_local_timestamp_micros t <= LONG_MAX_VALUE /\
     read_local_timestamp_micros (prepare_local_timestamp_micros t) = Ok t).
Proof. exact ts_micros_ok. Qed.
Print Assumptions C16_local_ts_micros.

(** naive datetimes under timestamp-millis / micros with the process time zone UTC (mktime path) *)
Theorem C16_ts_naive_utc : forall t,
  prepare_timestamp_millis_naive_utc t = prepare_timestamp_millis t /\
  prepare_timestamp_micros_naive_utc t = prepare_timestamp_micros t.
Proof.
  intros t. rewrite prepare_ts_millis_naive_floor, prepare_ts_micros_naive_id,
    prepare_ts_millis_floor, prepare_ts_micros_id. split; reflexivity.
Qed.
Print Assumptions C16_ts_naive_utc.

(** ** uuid: the canonical 8-4-4-4-12 string of the 128 bits parses back to the same 128 bits *)
Theorem C16_uuid : forall n, 0 <= n < 2 ^ 128 -> uuid_parse (uuid_str n) = n.
Proof. intros n H. rewrite uuid_roundtrip. apply Z.mod_small. exact H. Qed.
Print Assumptions C16_uuid.

(** ** bit_length (not in the standard library) and the two's-complement round trip *)
Theorem C16_bit_length : forall x, 0 < x -> 2 ^ (bit_length x - 1) <= x < 2 ^ bit_length x.
Proof. exact bit_length_spec. Qed.
Print Assumptions C16_bit_length.

Theorem C16_twos_complement : forall k x, 0 < k -> - 2 ^ (8 * k - 1) <= x < 2 ^ (8 * k - 1) ->
  to_bytes_signed k x = Ok (be_loop (Z.to_nat k) x) /\
  len (be_loop (Z.to_nat k) x) = k /\
  from_be_signed (be_loop (Z.to_nat k) x) = x.
Proof. exact to_bytes_signed_ok. Qed.
Print Assumptions C16_twos_complement.

(** ** decimal as bytes: for every precision, scale, sign, digit string and exponent:
    big-endian two's complement of the unscaled integer in (bit_length + 8) / 8 bytes;
    too many digits or too many fractional digits => error *)
Theorem C16_decimal_bytes : forall precision scale sign ds exp,
  Forall is_digit ds ->
  let u := unscaled scale ds exp in
  let k := (bit_length u + 8) / 8 in
  (len ds <= precision -> 0 <= exp + scale ->
     prepare_bytes_decimal precision scale sign ds exp = Ok (be_loop (Z.to_nat k) (signed sign u)) /\
     to_bytes_signed k (signed sign u) = Ok (be_loop (Z.to_nat k) (signed sign u)) /\
     len (be_loop (Z.to_nat k) (signed sign u)) = k /\
     Forall is_byte (be_loop (Z.to_nat k) (signed sign u)) /\
     from_be_signed (be_loop (Z.to_nat k) (signed sign u)) = signed sign u) /\
  (precision < len ds -> prepare_bytes_decimal precision scale sign ds exp = Err) /\
  (exp + scale < 0 -> prepare_bytes_decimal precision scale sign ds exp = Err).
Proof. exact decimal_bytes_ok. Qed.
Print Assumptions C16_decimal_bytes.

(** ** decimal as fixed ([write_fixed_decimal] = prepare_fixed_decimal as it is in /repo, then write_fixed's
    length check): exactly [size] bytes, the sign-extended two's complement of the unscaled integer,
    iff it fits; an error otherwise.  Negative zero is zero. *)
Theorem C16_decimal_fixed : forall precision scale size sign ds exp,
  Forall is_digit ds -> 0 <= size ->
  let su := signed sign (unscaled scale ds exp) in
  (len ds <= precision -> 0 <= exp + scale -> fits size su ->
     exists bs, write_fixed_decimal precision scale size sign ds exp = Ok bs /\ fixed_encoding size su bs) /\
  (len ds <= precision -> 0 <= exp + scale -> ~ fits size su ->
     write_fixed_decimal precision scale size sign ds exp = Err) /\
  (precision < len ds -> write_fixed_decimal precision scale size sign ds exp = Err) /\
  (exp + scale < 0 -> write_fixed_decimal precision scale size sign ds exp = Err).
Proof. exact decimal_fixed_ok. Qed.
Print Assumptions C16_decimal_fixed.

(** [fits] excludes the single representable value -2^(8 size-1) (bits_req = 8 size + 1); under a
    schema accepted by parse_schema (10^precision <= 2^(8 size-1)) no datum has that unscaled value *)
Theorem C16_decimal_fixed_min_unreachable : forall precision scale size ds exp,
  Forall is_digit ds -> len ds <= precision -> 0 <= exp + scale -> 0 < size ->
  10 ^ precision <= 2 ^ (8 * size - 1) ->
  unscaled scale ds exp <> 2 ^ (8 * size - 1).
Proof. exact min_value_unreachable. Qed.
Print Assumptions C16_decimal_fixed_min_unreachable.

(** The converter BEFORE the repair eff0ba2 ([write_fixed_decimal_old], model/LogicalOld.v) did not
    satisfy the statement.  F2: fixed size 1, decimal(2, 2), Decimal("-5"): unscaled -500 does not fit
    one byte, no error, 0x0C is stored and read back as 0.12 *)
Theorem C16_decimal_fixed_refuted_old :
  exists precision scale size sign ds exp bs,
    Forall is_digit ds /\ len ds <= precision /\ 0 <= exp + scale /\
    10 ^ precision <= 2 ^ (8 * size - 1) /\
    ~ fits size (signed sign (unscaled scale ds exp)) /\
    write_fixed_decimal_old precision scale size sign ds exp = Ok bs /\
    from_be_signed bs <> signed sign (unscaled scale ds exp) /\
    read_decimal precision scale bs = Ok (12, -2).
Proof. exact decimal_fixed_old_refuted_overflow. Qed.
Print Assumptions C16_decimal_fixed_refuted_old.

(** old code, negative zero: fixed size 2, decimal(4, 2), Decimal("-0"): 0xFFFE (-2) stored, read back as -0.02 *)
Theorem C16_decimal_fixed_negzero_refuted_old :
  exists precision scale size sign ds exp bs,
    Forall is_digit ds /\ len ds <= precision /\ 0 <= exp + scale /\
    10 ^ precision <= 2 ^ (8 * size - 1) /\
    fits size (signed sign (unscaled scale ds exp)) /\
    write_fixed_decimal_old precision scale size sign ds exp = Ok bs /\
    from_be_signed bs <> signed sign (unscaled scale ds exp) /\
    read_decimal precision scale bs = Ok (-2, -2).
Proof. exact decimal_fixed_old_refuted_negzero. Qed.
Print Assumptions C16_decimal_fixed_negzero_refuted_old.

(** ** never altered: whatever is written without an error reads back as a number equal to the
    datum (including negative zero and positive exponents); a successful write implies the
    datum was within precision and scale (and, for fixed, fits). *)
Theorem C16_decimal_never_altered_bytes : forall precision scale sign ds exp bs,
  Forall is_digit ds -> 1 <= precision ->
  write_bytes_decimal precision scale sign ds exp = Ok bs ->
  len ds <= precision /\ 0 <= exp + scale /\
  exists d, read_decimal precision scale bs = Ok d /\ dec_eq d (dec_of_tuple sign ds exp).
Proof. exact bytes_never_altered. Qed.
Print Assumptions C16_decimal_never_altered_bytes.

Theorem C16_decimal_never_altered : forall precision scale size sign ds exp bs,
  Forall is_digit ds -> 1 <= precision -> 0 <= size ->
  write_fixed_decimal precision scale size sign ds exp = Ok bs ->
  len ds <= precision /\ 0 <= exp + scale /\ fits size (signed sign (unscaled scale ds exp)) /\ len bs = size /\
  exists d, read_decimal precision scale bs = Ok d /\ dec_eq d (dec_of_tuple sign ds exp).
Proof. exact fixed_never_altered. Qed.
Print Assumptions C16_decimal_never_altered.

(** ** exact inverse, every logical type, every well-formed Python object, every process time zone [mk]:
    reading what the writer stored gives the NORMAL FORM of the datum (model/LogicalPos.v [normal_form]:
    the date itself; the time truncated to the unit; the UTC datetime at the truncated instant; the naive
    datetime truncated; the 128 bits; the decimal rounded to the precision, which [C16_decimal_normal_form_equal]
    shows to be the same number) -- and [Err] exactly where the writer or the reader raises (a date outside
    0001..9999, an instant whose UTC image is outside the datetime range, too many digits, too many
    fractional digits, a value that does not fit the fixed size, a Python object of another kind). *)
Theorem C16_exact_inverse : forall mk l x, wf_lval x ->
  (let* r := prepare mk l x in readl l r) = normal_form mk l x.
Proof. exact exact_inverse. Qed.
Print Assumptions C16_exact_inverse.

Theorem C16_decimal_normal_form_equal : forall precision scale sg ds e,
  Forall is_digit ds -> 1 <= precision -> len ds <= precision -> 0 <= e + scale ->
  match dec_nf precision scale (su_of scale sg ds e) with
  | LDecV c k => dec_eq (c, k) (dec_of_tuple sg ds e)
  | _ => False
  end.
Proof. exact decimal_nf_equal. Qed.
Print Assumptions C16_decimal_normal_form_equal.

(** ** the process time zone.  [mk] = time.mktime of the process (wall-clock seconds -> epoch seconds).
    The stored value does not depend on it unless the datum is a naive datetime under timestamp-*: *)
Theorem C16_tz_independent : forall mk1 mk2 l x, tz_free l x -> prepare mk1 l x = prepare mk2 l x.
Proof. exact tz_independent. Qed.
Print Assumptions C16_tz_independent.

(** an aware datetime is stored as a function of its UTC instant (wall - utcoffset) only: any two data
    with the same instant -- any offsets, zero included -- in any two process zones give the same long *)
Theorem C16_tz_aware_instant_only : forall mk1 mk2 w1 o1 w2 o2, w1 - o1 = w2 - o2 ->
  prepare mk1 LTsMillis (LAware w1 o1) = prepare mk2 LTsMillis (LAware w2 o2) /\
  prepare mk1 LTsMillis (LAware w1 o1) = Ok (RInt ((w1 - o1) / 1000)) /\
  prepare mk1 LTsMicros (LAware w1 o1) = prepare mk2 LTsMicros (LAware w2 o2) /\
  prepare mk1 LTsMicros (LAware w1 o1) = Ok (RInt (w1 - o1)).
Proof. exact aware_instant_only. Qed.
Print Assumptions C16_tz_aware_instant_only.

(** local-timestamp-*: a function of the wall clock only (naive, or aware with any offset), in any zone *)
Theorem C16_tz_local_wall_only : forall mk1 mk2 x1 x2 w, wall_of x1 = Some w -> wall_of x2 = Some w ->
  prepare mk1 LLocalTsMillis x1 = prepare mk2 LLocalTsMillis x2 /\
  prepare mk1 LLocalTsMillis x1 = Ok (RInt (w / 1000)) /\
  prepare mk1 LLocalTsMicros x1 = prepare mk2 LLocalTsMicros x2 /\
  prepare mk1 LLocalTsMicros x1 = Ok (RInt w).
Proof. exact local_wall_only. Qed.
Print Assumptions C16_tz_local_wall_only.

(** naive data under timestamp-*: read as UTC when the process zone is UTC (the property's restriction);
    in a zone at offset [off] the stored value moves by it -- which is why the restriction is there *)
Theorem C16_tz_naive : forall w,
  (prepare (fun s => s) LTsMillis (LNaive w) = prepare (fun s => s) LTsMillis (LAware w 0) /\
   prepare (fun s => s) LTsMicros (LNaive w) = prepare (fun s => s) LTsMicros (LAware w 0)) /\
  (forall off, prepare (fun s => s - off) LTsMicros (LNaive w) = Ok (RInt (w - off * 1000000))).
Proof. intros w. split; [apply naive_utc|intros off; apply naive_other_zone]. Qed.
Print Assumptions C16_tz_naive.

(** ** positions.  [trav leaf] (model/LogicalPos.v) is write_data / read_data reduced to where the
    annotations are: it applies [leaf] at every annotated node and recurses through array items, map
    values, the union branch, record fields and by-name references.  Construction commutes with it: *)
Theorem C16_positions_equations : forall A B (leaf : ltype -> A -> res B) f env,
  (forall l a, trav leaf (S f) env (SLogical l) (TLeaf a) = let* b := leaf l a in Ok (TLeaf b)) /\
  (forall s l, trav leaf (S f) env (SArrayOf s) (TList l) = let* l' := mapM (trav leaf f env s) l in Ok (TList l')) /\
  (forall s kv, trav leaf (S f) env (SMapOf s) (TMap kv) =
     let* kv' := mapM (fun p => let* v := trav leaf f env s (snd p) in Ok (fst p, v)) kv in Ok (TMap kv')) /\
  (forall bs b i v, nth_branch bs i = Some b ->
     trav leaf (S f) env (SUnionOf bs) (TBranch i v) = let* v' := trav leaf f env b v in Ok (TBranch i v')) /\
  (forall fs l, trav leaf (S f) env (SRecordOf fs) (TRec l) = let* l' := zipM (trav leaf f env) fs l in Ok (TRec l')) /\
  (forall n s t, lookup_l env n = Some s -> trav leaf (S f) env (SNamed n) t = trav leaf f env s t).
Proof.
  intros A B leaf f env. repeat split; try reflexivity.
  - intros bs b i v H. cbn [trav]. rewrite H. reflexivity.
  - intros n s t H. rewrite trav_named, H. reflexivity.
Qed.
Print Assumptions C16_positions_equations.

(** reading a written structure = the same structure with (read after write) at EVERY annotated position,
    for any pair of leaf converters, any schema, any nesting, any references (induction over the traversal) *)
Theorem C16_positions_fuse : forall A B C (g : ltype -> A -> res B) (h : ltype -> B -> res C) fuel env s t w,
  trav g fuel env s t = Ok w ->
  trav h fuel env s w = trav (fun l x => let* y := g l x in h l y) fuel env s t.
Proof. intros A B C g h fuel. exact (trav_fuse g h fuel). Qed.
Print Assumptions C16_positions_fuse.

(** with the leaf theorem: whatever is written, at whatever position, reads back as its normal form there *)
Theorem C16_positions : forall mk fuel env s v w,
  all_leaves wf_lval v ->
  write_tree mk fuel env s v = Ok w ->
  read_tree fuel env s w = normal_tree mk fuel env s v.
Proof. exact positions. Qed.
Print Assumptions C16_positions.

Theorem C16_positions_tz : forall mk1 mk2 fuel env s v,
  all_leaves (fun x => forall l, tz_free l x) v ->
  write_tree mk1 fuel env s v = write_tree mk2 fuel env s v.
Proof. exact positions_tz. Qed.
Print Assumptions C16_positions_tz.

(** ** non-vacuity: the hypotheses are met by non-trivial instances *)
Example C16_example_calendar :
  ymd2ord 1970 1 1 = DAYS_SHIFT /\ ymd2ord 1 1 1 = MIN_ORDINAL /\ ymd2ord 9999 12 31 = MAX_ORDINAL /\
  prepare_date (ymd2ord 2000 2 29) = 11016 /\ read_date (-719162) = Ok 1 /\ read_date (-719163) = Err /\
  DT_MIN = (MIN_ORDINAL - DAYS_SHIFT) * US_PER_DAY /\ DT_MAX = (MAX_ORDINAL - DAYS_SHIFT + 1) * US_PER_DAY - 1.
Proof. vm_compute. repeat split. Qed.

Example C16_example_time :
  valid_tod 23 59 59 999999 /\ prepare_time_millis 23 59 59 999999 = 86399999 /\
  read_time_millis 86399999 = Ok (23, 59, 59, 999000) /\ read_time_millis 86400000 = Err /\
  prepare_time_micros 23 59 59 999999 = 86399999999.
Proof. unfold valid_tod. vm_compute. repeat split; discriminate. Qed.

(** one microsecond before the epoch; the first and the last instant of the datetime range *)
Example C16_example_ts :
  prepare_timestamp_millis (-1) = -1 /\ read_timestamp_millis (-1) = Ok (-1000) /\
  in_datetime_range DT_MIN /\ in_datetime_range DT_MAX /\
  prepare_timestamp_millis DT_MIN = -62135596800000 /\ prepare_timestamp_millis DT_MAX = 253402300799999 /\
  read_timestamp_millis 253402300800000 = Err.
Proof. unfold in_datetime_range. vm_compute. repeat split; discriminate. Qed.

(** Decimal("-1.28") under decimal(4, 2): bytes ff80; fixed(2) ff80; Decimal("1E+2") (positive exponent);
    one digit too many; one fractional digit too many; 327.68 = 2^15 unscaled does not fit two bytes *)
Example C16_example_decimal :
  prepare_bytes_decimal 4 2 true [1; 2; 8] (-2) = Ok [255; 128] /\
  write_fixed_decimal 4 2 2 true [1; 2; 8] (-2) = Ok [255; 128] /\
  write_fixed_decimal_old 4 2 2 true [1; 2; 8] (-2) = Ok [255; 128] /\
  read_decimal 4 2 [255; 128] = Ok (-128, -2) /\
  prepare_bytes_decimal 4 2 false [1] 2 = Ok [39; 16] /\
  prepare_bytes_decimal 4 2 false [1; 2; 3; 4; 5] (-2) = Err /\
  prepare_bytes_decimal 4 2 false [1; 2; 3] (-3) = Err /\
  write_fixed_decimal 5 2 2 false [3; 2; 7; 6; 8] (-2) = Err /\
  write_fixed_decimal_old 5 2 2 false [3; 2; 7; 6; 8] (-2) = Err /\
  write_fixed_decimal 4 2 2 true [0] 0 = Ok [0; 0] /\
  write_fixed_decimal 2 2 1 true [5] 0 = Err.
Proof. vm_compute. repeat split. Qed.

(** positions: {"k": date} under map<date>; [{"k": Decimal("-1.28")}] under array<map<F>> with the fixed decimal F
    by name; a record with a union branch; the value read back is converted at every position, and an
    unconverted map value (what seed C16_r4_2 returned) is not what the reader gives *)
Example C16_example_positions :
  let id := fun s : Z => s in
  let F := LDecFixed 4 2 2 in
  let env := [(7, SLogical F)] in
  write_tree id 5 [] (SMapOf (SLogical LDate)) (TMap [(1, TLeaf (LDateV 1))]) = Ok (TMap [(1, TLeaf (RInt (-719162)))]) /\
  read_tree 5 [] (SMapOf (SLogical LDate)) (TMap [(1, TLeaf (RInt (-719162)))]) = Ok (TMap [(1, TLeaf (LDateV 1))]) /\
  write_tree id 5 env (SArrayOf (SMapOf (SNamed 7))) (TList [TMap [(1, TLeaf (LDecimalV true [1; 2; 8] (-2)))]])
    = Ok (TList [TMap [(1, TLeaf (RBytes [255; 128]))]]) /\
  read_tree 5 env (SArrayOf (SMapOf (SNamed 7))) (TList [TMap [(1, TLeaf (RBytes [255; 128]))]])
    = Ok (TList [TMap [(1, TLeaf (LDecV (-128) (-2)))]]) /\
  write_tree id 5 env (SRecordOf [SPlain; SUnionOf [SPlain; SLogical LTsMillis]])
                      (TRec [TPlain 7; TBranch 1 (TLeaf (LAware (-1) 19800000000))])
    = Ok (TRec [TPlain 7; TBranch 1 (TLeaf (RInt (-19800001)))]) /\
  write_tree id 5 env (SMapOf (SNamed 7)) (TMap [(1, TLeaf (LDecimalV true [5] 2))]) = Err /\
  all_leaves wf_lval (TList [TMap [(1, TLeaf (LDecimalV true [1; 2; 8] (-2)))]]).
Proof.
  cbv zeta. repeat (split; [vm_compute; reflexivity|]).
  cbn [all_leaves allP snd wf_lval]. repeat split. repeat constructor; lia.
Qed.

(** the process time zone: Tokyo (mktime s = s - 9 h); an aware datum with offset exactly zero and the same instant
    with +05:30 are stored alike; the local variants ignore the zone; a naive datum under timestamp-* does not *)
Example C16_example_tz :
  let jst := fun s : Z => s - 32400 in
  prepare jst LTsMillis (LAware 1500 0) = Ok (RInt 1) /\
  prepare jst LTsMillis (LAware (1500 + 19800000000) 19800000000) = Ok (RInt 1) /\
  prepare jst LLocalTsMicros (LNaive (-1)) = Ok (RInt (-1)) /\
  prepare jst LTsMicros (LNaive 0) = Ok (RInt (-32400000000)) /\
  normal_form jst LTsMillis (LAware DT_MIN 1) = Err /\
  normal_form jst LDate (LDateV 0) = Err.
Proof. vm_compute. repeat split. Qed.
