(** C13 — the canonical form equals the specification's transformation, is a
    fixed point, and is invariant under cosmetic edits.
    Statements only; proofs in proofs/CanonProofs.v.

    [canon]        the code's printer (_to_parsing_canonical_form) on the PARSED schema
    [parse_schema] the model of fastavro.parse_schema (fuel, raw JSON, named_schemas)
    [pcf]          the specification: rules PRIMITIVES, FULLNAMES, STRIP, ORDER on the RAW
                   JSON ([pcf_json]), then the naive printer (STRINGS, INTEGERS, WHITESPACE)
    [simple_raw]   syntactic class: field names are strings, fixed sizes are integers, the
                   input does not carry the "__fastavro_parsed" marker (all generated schemas) *)
From Coq Require Import String.
From FA Require Import model.Base model.Json model.Parse model.SchemaSpec model.Canon
     model.Inline model.Value model.Schema model.Codec model.Bridge
     proofs.JsonProofs proofs.ParseProofs proofs.CanonProofs proofs.InlineProofs proofs.CodecProofs proofs.BridgeProofs proofs.BridgeCanonProofs proofs.FixedPointProofs proofs.TypedEraseProofs proofs.SameEncodingProofs.
Open Scope string_scope.

(** canon (parse j) = pcf j, for every raw schema the parser accepts, any fuel, any
    initial named_schemas dictionary, including top-level unions *)
Theorem C13_spec : forall f j t p t',
  simple_raw j = true -> parse_schema f j t = POk (p, t') -> canon p = pcf j.
Proof. exact canon_parse_is_pcf. Qed.
Print Assumptions C13_spec.

(** to_parsing_canonical_form = parse, inline (_inline_named_schemas, since fdcd1d1), print.
    Inlining is the identity on every schema in which each reference is preceded by its definition
    in document order ([closed_m]) ... *)
Theorem C13_inline_id_on_closed : forall tbl f p defined defined',
  (jdepth p < f)%nat -> closed_m p PSchema defined = Some defined' ->
  inline_rec f tbl p defined = POk (p, defined').
Proof. exact inline_closed_id. Qed.
Print Assumptions C13_inline_id_on_closed.

(** ... the parser's output for a raw schema parsed from scratch is such a schema ... *)
Theorem C13_parsed_closed : forall f j p t,
  unmarked j = true -> parse_schema f j [] = POk (p, t) -> closed p = true /\ inline t p = POk p.
Proof. intros f j p t U H. split; [eapply parsed_is_closed; eauto|eapply inline_id_on_parsed; eauto]. Qed.
Print Assumptions C13_parsed_closed.

(** ... hence what to_parsing_canonical_form returns is the specification's form of the raw schema *)
Theorem C13_to_canonical : forall j s,
  simple_raw j = true -> to_canonical j = POk s -> s = pcf j.
Proof.
  intros j s S H. assert (U : unmarked j = true) by (unfold simple_raw in S; now apply Bool.andb_true_iff in S).
  destruct (parse_auto j) as [[p t]| | | |] eqn:E; try (unfold to_canonical in H; rewrite E in H; discriminate H).
  rewrite (to_canonical_parsed _ _ _ U E) in H. injection H as <-.
  exact (canon_parse_is_pcf _ _ _ _ _ S E).
Qed.
Print Assumptions C13_to_canonical.

(** the same at every inner position: any namespace, any parser state, any default *)
Theorem C13_spec_inner : forall f j ns wh st d p st',
  simple_m j PSchema = true -> parse_rec f j ns wh st d = POk (p, st') ->
  canon p = print_json (pcf_json_in ns j).
Proof. exact parse_rec_spec. Qed.
Print Assumptions C13_spec_inner.

(** Fixed point.  Full statement (FALSE of the specification's canonical form itself, see
    C13_fixed_point_refuted):
      forall j p c p', parse j = POk p -> parse (pcf_json j) = POk p' -> canon p' = canon p.
    Proved: on the JSON level the specification's transformation is idempotent for every
    schema in which no null-namespace named type is nested in a non-null namespace
    ([ns_closed], a boolean function), without any other hypothesis ... *)
Theorem C13_fixed_point_json : forall j, ns_closed j = true -> pcf_json (pcf_json j) = pcf_json j.
Proof. exact pcf_json_fixed_point. Qed.
Print Assumptions C13_fixed_point_json.

(** ... and on the text level, with no further hypothesis: the parser ACCEPTS the canonical JSON of
    every schema it accepts (same names, same table keys), and canonicalising it again gives the
    same text, which is the printing of the canonical JSON.  (Classes: [simple_raw], [ns_closed];
    outside ns_closed the statement is false, see C13_fixed_point_refuted.) *)
Theorem C13_fixed_point : forall f j t p t',
  simple_raw j = true -> ns_closed j = true -> parse_schema f j t = POk (p, t') ->
  exists p2 t2, parse_schema f (pcf_json j) t = POk (p2, t2) /\
                canon p2 = canon p /\ canon p2 = print_json (pcf_json j) /\
                (forall n, jhas n t2 = jhas n t').
Proof. exact fixed_point. Qed.
Print Assumptions C13_fixed_point.

(** the canonical JSON stays in the class of C13_spec *)
Theorem C13_canonical_json_simple : forall j, simple_raw j = true -> simple_raw (pcf_json j) = true.
Proof. exact simple_raw_pcf. Qed.
Print Assumptions C13_canonical_json_simple.

(** the unconditional fixed-point statement is false: a null-namespace type nested in a
    namespaced record is re-read into the record's namespace *)
Definition fp_witness : json :=
  JObj [("type", JStr "record"); ("name", JStr "a.P");
        ("fields", JArr [JObj [("name", JStr "f");
                               ("type", JObj [("type", JStr "fixed"); ("name", JStr "R");
                                              ("namespace", JStr ""); ("size", JInt 1)])]])].
Theorem C13_fixed_point_refuted :
  exists j t1 t2, valid_raw j = true /\ simple_raw j = true /\
    to_canonical j = POk t1 /\ to_canonical (pcf_json j) = POk t2 /\ t1 = pcf j /\ t2 <> t1.
Proof.
  exists fp_witness. eexists. eexists.
  repeat split; try (vm_compute; reflexivity). vm_compute. discriminate.
Qed.
Print Assumptions C13_fixed_point_refuted.

(** Cosmetic edits.  [cosmetic ns m j1 j2] (proofs/CanonProofs.v) is the closure under
    reflexivity, symmetry, transitivity and contexts (union member, field list, array items,
    map values, record fields, field type) of: any change of the attributes of a schema node
    other than type, name, namespace, fields, symbols, items, values, size (doc, aliases,
    default, order, custom and logical-type attributes added / removed / changed; attribute
    order), any change of the attributes of a field other than name and type, another
    spelling of the same full name (namespace + name vs dotted; inherited vs spelled out),
    another spelling of a reference. *)
Theorem C13_cosmetic : forall j1 j2 f1 f2 t1 t2 p1 p2 t1' t2',
  cosmetic "" PSchema j1 j2 -> simple_raw j1 = true -> simple_raw j2 = true ->
  parse_schema f1 j1 t1 = POk (p1, t1') -> parse_schema f2 j2 t2 = POk (p2, t2') ->
  canon p1 = canon p2.
Proof. exact cosmetic_same_canon. Qed.
Print Assumptions C13_cosmetic.

(** the specification's form is invariant at every position, namespace and reading mode *)
Theorem C13_cosmetic_pcf : forall ns m a b, cosmetic ns m a b -> pcf_m a m ns = pcf_m b m ns.
Proof. exact cosmetic_pcf. Qed.
Print Assumptions C13_cosmetic_pcf.

(** the listed edit kinds are instances of the rules *)
Theorem C13_cosmetic_set_attr : forall ns kv k v,
  mem k SCHEMA_KEYS = false -> cosmetic ns PSchema (JObj kv) (JObj (jset k v kv)).
Proof. exact cosmetic_set_attr. Qed.
Print Assumptions C13_cosmetic_set_attr.

Theorem C13_cosmetic_del_attr : forall ns kv k,
  mem k SCHEMA_KEYS = false -> cosmetic ns PSchema (JObj kv) (JObj (jdrop [k] kv)).
Proof. exact cosmetic_del_attr. Qed.
Print Assumptions C13_cosmetic_del_attr.

Theorem C13_cosmetic_field_attr : forall ns kv k v,
  mem k ["name"; "type"] = false -> cosmetic ns PField (JObj kv) (JObj (jset k v kv)).
Proof. exact cosmetic_field_set_attr. Qed.
Print Assumptions C13_cosmetic_field_attr.

Theorem C13_cosmetic_dotted_name : forall ns kv n sp,
  jget "name" kv = Some (JStr n) -> jget "namespace" kv = Some (JStr sp) ->
  has_dot n = false -> sp <> "" ->
  cosmetic ns PSchema (JObj kv) (JObj (jset "name" (JStr (sp ++ "." ++ n)) kv)).
Proof. exact cosmetic_dotted_name. Qed.
Print Assumptions C13_cosmetic_dotted_name.

(** ---- C13_same_encoding: the canonical form describes the same binary encoding ----
    [schema_of_json] / [env_of_table] (model/Bridge.v) take a parsed schema and its table to the codec
    AST of model/Schema.v; [erase_schema] drops aliases, defaults, the enum default and annotations.

    (i) the decoder depends on the erased schema and table only: what decodes under (e, s) decodes
    with the same fuel under the erasure, and conversely with one more unit of fuel per nested
    annotation ([achk a]: no node carries more than a annotations); [wire] does not take a schema *)
Theorem C13_codec_erased_fwd : forall f e s, mono (dec f e s) (dec f (erase_env e) (erase_schema s)).
Proof. exact dec_erase_fwd. Qed.
Print Assumptions C13_codec_erased_fwd.

Theorem C13_codec_erased_bwd : forall a f e s,
  achk a s = true -> (forall n d, lookup e n = Some d -> achk a d = true) ->
  mono (dec f (erase_env e) (erase_schema s)) (dec (f * S a) e s).
Proof. exact dec_erase_bwd. Qed.
Print Assumptions C13_codec_erased_bwd.

(** (ii) the erased codec schema of the parse is the codec schema of the specification's canonical
    JSON, so a schema and the parse of its canonical form have the same erased codec schema (names
    are full names on both sides) *)
Theorem C13_bridge_is_canon : forall f j t p t',
  simple_raw j = true -> parse_schema f j t = POk (p, t') ->
  option_map erase_schema (schema_of_json p) = schema_of_json (pcf_json j).
Proof. exact bridge_parse_is_canon. Qed.
Print Assumptions C13_bridge_is_canon.

Theorem C13_same_encoding_schema : forall j f t p t' f2 t2 p2 t2',
  ns_closed j = true -> simple_raw j = true -> simple_raw (pcf_json j) = true ->
  parse_schema f j t = POk (p, t') -> parse_schema f2 (pcf_json j) t2 = POk (p2, t2') ->
  option_map erase_schema (schema_of_json p2) = option_map erase_schema (schema_of_json p).
Proof. exact same_erased_schema. Qed.
Print Assumptions C13_same_encoding_schema.

(** (iii) typing of values ([typed], the domain of the encoder [wire], which itself takes no schema)
    and the decoder see the table through [lookup] only and the schema through its erasure only *)
Theorem C13_typed_erased : forall e1 s1 e2 s2 a,
  erase_schema s1 = erase_schema s2 ->
  (forall n, lookup (erase_env e1) n = lookup (erase_env e2) n) ->
  typed e1 s1 a <-> typed e2 s2 a.
Proof. exact typed_same_erasure. Qed.
Print Assumptions C13_typed_erased.

Theorem C13_decoder_erased : forall a f e1 s1 e2 s2,
  erase_schema s1 = erase_schema s2 ->
  (forall n, lookup (erase_env e1) n = lookup (erase_env e2) n) ->
  achk a s2 = true -> (forall n d, lookup e2 n = Some d -> achk a d = true) ->
  mono (dec f e1 s1) (dec (f * S a) e2 s2).
Proof. exact dec_same_erasure_lookup. Qed.
Print Assumptions C13_decoder_erased.

(** (iv) C13_same_encoding, for ALL values: two raw schemas with the same canonical JSON
    ([pcf_json]: the specification's transformation before printing), parsed from scratch, type
    exactly the same values; the encoding [wire a] of such a value is the same byte string whatever
    the schema (it takes none) and decodes back to a under both; and whatever bytes (any block
    layout) decode under one decode to the same value under the other.
    The table side: every table entry is the parser's output for its definition
    (proofs/PoutProofs.v), whose erased codec schema is the codec schema of the definition's
    canonical JSON; so the erased table is a function of the canonical JSON ([table_of_canon]).
    Hypotheses: [simple_raw] (all generated schemas); the bridge is defined on the two parses
    (validated on every run by corr:bridge).  The canonical forms are compared as JSON values,
    not as printed text (injectivity of the printer on canonical JSON is not proved). *)
Theorem C13_same_encoding : forall j1 j2 f1 f2 p1 t1 p2 t2 s1 e1 s2 e2,
  simple_raw j1 = true -> simple_raw j2 = true -> pcf_json j1 = pcf_json j2 ->
  parse_schema f1 j1 [] = POk (p1, t1) -> parse_schema f2 j2 [] = POk (p2, t2) ->
  schema_of_json p1 = Some s1 -> env_of_table t1 = Some e1 ->
  schema_of_json p2 = Some s2 -> env_of_table t2 = Some e2 ->
  forall a, typed e1 s1 a <-> typed e2 s2 a.
Proof. exact same_canon_same_typed. Qed.
Print Assumptions C13_same_encoding.

Theorem C13_same_encoding_wire : forall j1 j2 f1 f2 p1 t1 p2 t2 s1 e1 s2 e2,
  simple_raw j1 = true -> simple_raw j2 = true -> pcf_json j1 = pcf_json j2 ->
  parse_schema f1 j1 [] = POk (p1, t1) -> parse_schema f2 j2 [] = POk (p2, t2) ->
  schema_of_json p1 = Some s1 -> env_of_table t1 = Some e1 ->
  schema_of_json p2 = Some s2 -> env_of_table t2 = Some e2 ->
  forall a, typed e1 s1 a ->
  exists n, forall f, (n <= f)%nat -> forall r,
    dec f e1 s1 (wire a ++ r)%list = Ok (a, r) /\ dec f e2 s2 (wire a ++ r)%list = Ok (a, r).
Proof. exact same_canon_same_wire. Qed.
Print Assumptions C13_same_encoding_wire.

Theorem C13_same_decoding : forall j1 j2 f1 f2 p1 t1 p2 t2 s1 e1 s2 e2 a,
  simple_raw j1 = true -> simple_raw j2 = true -> pcf_json j1 = pcf_json j2 ->
  parse_schema f1 j1 [] = POk (p1, t1) -> parse_schema f2 j2 [] = POk (p2, t2) ->
  schema_of_json p1 = Some s1 -> env_of_table t1 = Some e1 ->
  schema_of_json p2 = Some s2 -> env_of_table t2 = Some e2 ->
  achk a s2 = true -> (forall n d, lookup e2 n = Some d -> achk a d = true) ->
  forall f, mono (dec f e1 s1) (dec (f * S a) e2 s2).
Proof. exact same_canon_same_decoding. Qed.
Print Assumptions C13_same_decoding.

(* the erased table as a function of the canonical JSON *)
Theorem C13_table_of_canon : forall f j p t e,
  simple_raw j = true -> parse_schema f j [] = POk (p, t) -> env_of_table t = Some e ->
  forall nm, lookup (erase_env e) nm = alookup (cdefs_m (pcf_json j) PSchema) nm.
Proof. exact table_of_canon. Qed.
Print Assumptions C13_table_of_canon.

(* non-vacuity: the hypotheses computed on two different schemas with the same canonical JSON
   (namespace written three ways, doc / aliases / defaults / order / logicalType differ, a type used
   twice), whose un-erased codec schemas and tables differ ... *)
Definition ex_enc_1 : json :=
  JObj [("type", JStr "record"); ("name", JStr "R"); ("namespace", JStr "a.b"); ("doc", JStr "d");
        ("fields", JArr [JObj [("name", JStr "f"); ("type", JObj [("type", JStr "fixed"); ("name", JStr "F"); ("size", JInt 2)])];
                         JObj [("name", JStr "g"); ("type", JArr [JStr "null"; JStr "F"]); ("default", JNull)];
                         JObj [("name", JStr "h"); ("type", JObj [("type", JStr "long"); ("logicalType", JStr "timestamp-millis")])];
                         JObj [("name", JStr "e"); ("type", JObj [("type", JStr "enum"); ("name", JStr "x.E"); ("symbols", JArr [JStr "A"; JStr "B"]); ("default", JStr "A")])]])].
Definition ex_enc_2 : json :=
  JObj [("name", JStr "a.b.R"); ("aliases", JArr [JStr "Old"]); ("type", JStr "record");
        ("fields", JArr [JObj [("type", JObj [("size", JInt 2); ("type", JStr "fixed"); ("name", JStr "a.b.F"); ("aliases", JArr [JStr "G"])]); ("name", JStr "f")];
                         JObj [("name", JStr "g"); ("type", JArr [JStr "null"; JStr "a.b.F"])];
                         JObj [("name", JStr "h"); ("type", JStr "long")];
                         JObj [("name", JStr "e"); ("type", JObj [("type", JStr "enum"); ("namespace", JStr "x"); ("name", JStr "E"); ("symbols", JArr [JStr "A"; JStr "B"])])]])].
Example C13_same_encoding_instance : same_canon_check ex_enc_1 ex_enc_2 = true /\ pcf_json ex_enc_1 = pcf_json ex_enc_2.
Proof. split; vm_compute; reflexivity. Qed.

(* ... and the theorem itself applied, every term explicit: "int" and {"type": "int"} *)
Example C13_same_encoding_applied : forall a, typed [] SInt a <-> typed [] (SAnnot [] SInt) a.
Proof.
  apply (C13_same_encoding (JStr "int") (JObj [("type", JStr "int")]) 3 3 (JStr "int") [] (JObj [("type", JStr "int")]) []);
    vm_compute; reflexivity.
Qed.

(** the earlier form with the equality of the erased tables as a hypothesis (kept: it does not need
    [simple_raw] or a parse) *)
Theorem C13_same_encoding_partial : forall a f e1 s1 e2 s2,
  erase_schema s1 = erase_schema s2 -> erase_env e1 = erase_env e2 ->
  achk a s2 = true -> (forall n d, lookup e2 n = Some d -> achk a d = true) ->
  mono (dec f e1 s1) (dec (f * S a) e2 s2).
Proof. exact dec_same_erasure. Qed.
Print Assumptions C13_same_encoding_partial.

(** ---- anchors: the Apache vectors of tests/test_canonical_form.py, evaluated by the model ---- *)
Example C13_vec_prim_int : to_canonical (JStr "int") = POk """int""".
Proof. vm_compute. reflexivity. Qed.
Example C13_vec_prim_dict : to_canonical (JObj [("type", JStr "double")]) = POk """double""".
Proof. vm_compute. reflexivity. Qed.
Example C13_vec_all_prims :
  map (fun t => to_canonical (JObj [("type", JStr t)])) PRIMITIVES = map (fun t => POk (quote t)) PRIMITIVES /\
  map (fun t => to_canonical (JStr t)) PRIMITIVES = map (fun t => POk (quote t)) PRIMITIVES.
Proof. split; vm_compute; reflexivity. Qed.
Example C13_vec_fullname :
  to_canonical (JObj [("namespace", JStr "namespace"); ("name", JStr "test_fullname_conversion");
                      ("type", JStr "record"); ("fields", JArr [])])
  = POk "{""name"":""namespace.test_fullname_conversion"",""type"":""record"",""fields"":[]}".
Proof. vm_compute. reflexivity. Qed.
Example C13_vec_empty_namespace :
  to_canonical (JObj [("namespace", JStr ""); ("name", JStr "n"); ("type", JStr "record"); ("fields", JArr [])])
  = POk "{""name"":""n"",""type"":""record"",""fields"":[]}".
Proof. vm_compute. reflexivity. Qed.
Example C13_vec_remove_doc_aliases :
  to_canonical (JObj [("name", JStr "r"); ("type", JStr "record"); ("fields", JArr []); ("doc", JStr "doc");
                      ("aliases", JStr "alias")])
  = POk "{""name"":""r"",""type"":""record"",""fields"":[]}".
Proof. vm_compute. reflexivity. Qed.
Example C13_vec_enum :
  to_canonical (JObj [("namespace", JStr "x.y.z"); ("type", JStr "enum"); ("name", JStr "a.b.foo");
                      ("symbols", JArr [JStr "A1"])])
  = POk "{""name"":""a.b.foo"",""type"":""enum"",""symbols"":[""A1""]}".
Proof. vm_compute. reflexivity. Qed.
Example C13_vec_fixed :
  to_canonical (JObj [("size", JInt 32); ("namespace", JStr "x.y.z"); ("type", JStr "fixed"); ("name", JStr "foo");
                      ("doc", JStr "foo bar")])
  = POk "{""name"":""x.y.z.foo"",""type"":""fixed"",""size"":32}".
Proof. vm_compute. reflexivity. Qed.
Example C13_vec_array_map_union :
  to_canonical (JObj [("type", JStr "array"); ("items", JObj [("type", JStr "map"); ("values", JArr [JStr "null"; JStr "boolean"])])])
  = POk "{""type"":""array"",""items"":{""type"":""map"",""values"":[""null"",""boolean""]}}".
Proof. vm_compute. reflexivity. Qed.
Example C13_vec_record_order_strip :
  to_canonical (JObj [("fields", JArr [JObj [("type", JStr "boolean"); ("aliases", JArr []); ("name", JStr "f1"); ("default", JBool true)];
                                       JObj [("order", JStr "descending"); ("name", JStr "f2"); ("doc", JStr "Hello"); ("type", JStr "int")]]);
                      ("type", JStr "record"); ("name", JStr "foo")])
  = POk "{""name"":""foo"",""type"":""record"",""fields"":[{""name"":""f1"",""type"":""boolean""},{""name"":""f2"",""type"":""int""}]}".
Proof. vm_compute. reflexivity. Qed.
Example C13_vec_nested_references :
  to_canonical (JObj [("type", JStr "record"); ("name", JStr "ns.foo");
                      ("fields", JArr [JObj [("name", JStr "f1"); ("type", JObj [("type", JStr "record"); ("name", JStr "bar"); ("fields", JArr [])])];
                                       JObj [("name", JStr "f2"); ("type", JStr "bar")];
                                       JObj [("name", JStr "f3"); ("type", JArr [JStr "null"; JStr "ns.foo"])]])])
  = POk "{""name"":""ns.foo"",""type"":""record"",""fields"":[{""name"":""f1"",""type"":{""name"":""ns.bar"",""type"":""record"",""fields"":[]}},{""name"":""f2"",""type"":""ns.bar""},{""name"":""f3"",""type"":[""null"",""ns.foo""]}]}".
Proof. vm_compute. reflexivity. Qed.

(** non-vacuity of C13_spec / C13_cosmetic / C13_fixed_point: a nested schema with recursion,
    a union and an inherited namespace is accepted, is in the classes, and a rewrite of it
    (doc removed, custom attribute added, dotted spelling) is cosmetic *)
Definition ex_schema : json :=
  JObj [("type", JStr "record"); ("name", JStr "Node"); ("namespace", JStr "org.x"); ("doc", JStr "d");
        ("fields", JArr [JObj [("name", JStr "v"); ("type", JStr "long"); ("default", JInt 0)];
                         JObj [("name", JStr "next"); ("type", JArr [JStr "null"; JStr "Node"])]])].
Example C13_example :
  simple_raw ex_schema = true /\ ns_closed ex_schema = true /\ simple_raw (pcf_json ex_schema) = true /\
  (exists r, parse_auto ex_schema = POk r) /\ (exists r, parse_auto (pcf_json ex_schema) = POk r) /\
  to_canonical ex_schema = POk (pcf ex_schema) /\
  cosmetic "" PSchema ex_schema
           (JObj (jset "name" (JStr ("org.x" ++ "." ++ "Node")) (jset "custom" (JInt 1) (jdrop ["doc"] (match ex_schema with JObj kv => kv | _ => [] end))))).
Proof.
  repeat split; try (vm_compute; reflexivity); try (eexists; vm_compute; reflexivity).
  unfold ex_schema.
  eapply CTrans; [apply (cosmetic_del_attr "" _ "doc"); reflexivity|].
  eapply CTrans; [apply (cosmetic_set_attr "" _ "custom" (JInt 1)); reflexivity|].
  apply (cosmetic_dotted_name "" _ "Node" "org.x"); try reflexivity. discriminate.
Qed.
