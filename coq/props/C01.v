(** C01 — binary round trip: what the writer wrote is read back, consuming exactly those bytes.
    Statements only; proofs in proofs/CodecProofs.v (and proofs/ElabProofs.v for the Python-value layer). *)
From Coq Require Import Lia String Reals SpecFloat.
From Flocq Require Import Core BinarySingleNaN.
From FA Require Import model.Base model.Varint model.Float model.Value model.Schema model.Utf8 model.Codec model.Validate
                       model.Write model.Read proofs.VarintProofs proofs.CodecProofs proofs.FloatBits proofs.FloatProofs.

(** zig-zag and base-128 varints: every 64-bit integer, anything may follow on the stream *)
Theorem C01_long_roundtrip : forall n r, in_int64 n -> long_dec (long_enc n ++ r) = Ok (n, r).
Proof. exact long_rt. Qed.
Print Assumptions C01_long_roundtrip.

Theorem C01_zigzag_roundtrip : forall n, in_int64 n -> unzigzag (zigzag n) = n.
Proof. exact unzigzag_zigzag. Qed.
Print Assumptions C01_zigzag_roundtrip.

(** the reader returns exactly the written wire value and leaves exactly the suffix [r]: for every schema
    (records, enums, fixed, arrays, maps, unions, by-name and recursive references through [env]), every typed
    value, every suffix, and any fuel not below the typing height *)
Theorem C01_wire_dec : forall n e s a, typedn n e s a ->
  forall f, (n <= f)%nat -> forall r, dec f e s (wire a ++ r) = Ok (a, r).
Proof. exact wire_dec. Qed.
Print Assumptions C01_wire_dec.

(** at the level of schemaless_writer / schemaless_reader: when the writer elaborates the Python datum [v]
    to the wire value [a] (defaults substituted, hints stripped, branch chosen) and [a] is well typed, the
    reader returns the Python value [py_of a] -- the documented normalisation of [v] -- and stops after the
    writer's bytes *)
Theorem C01_roundtrip : forall n wo ro e s v a bs pv,
  write n wo e s v = WOk bs -> elab n wo e s v = WOk a -> typedn n e s a -> py_of ro e s a = Some pv ->
  forall f, (n <= f)%nat -> forall r, read f ro e s (bs ++ r) = Ok (pv, r).
Proof.
  intros n wo ro e s v a bs pv Hw He Ht Hp f Hf r. unfold write in Hw. rewrite He in Hw. cbn in Hw.
  injection Hw as <-. unfold read. rewrite (wire_dec n e s a Ht f Hf r). cbn [bind]. rewrite Hp. reflexivity.
Qed.
Print Assumptions C01_roundtrip.

(** values written back to back on one stream are read back one by one *)
Theorem C01_stream : forall n e ss vs, Forall2 (typedn n e) ss vs ->
  forall f, (n <= f)%nat -> forall r, dec_stream f e ss (flat_map wire vs ++ r) = Ok (vs, r).
Proof. exact stream_roundtrip. Qed.
Print Assumptions C01_stream.

Open Scope string_scope.
(** non-vacuity: a recursive list type reached by name, two cells deep, followed by junk *)
Definition node : schema :=
  SRecord (s2b "Node") [] [mkField (s2b "v") SLong None []; mkField (s2b "next") (SUnion [SNull; SRef (s2b "Node")]) None []].
Definition ex_env : env := [(s2b "Node", node)].
Definition ex_a : aval := ARecord [AInt (-64); AUnion 1 (ARecord [AInt 300; AUnion 0 ANull])].
Example C01_example :
  wire ex_a = [127; 2; 216; 4; 0] /\
  dec 9 ex_env node (wire ex_a ++ [255; 7])%list = Ok (ex_a, [255; 7]) /\
  py_of ropts0 ex_env node ex_a =
    Some (PDict [(PStr (s2b "v"), PInt (-64));
                 (PStr (s2b "next"), PDict [(PStr (s2b "v"), PInt 300); (PStr (s2b "next"), PNone)])]).
Proof. repeat split; vm_compute; reflexivity. Qed.

(** ---- the Python-value layer (proofs/ElabProofs.v) ---- *)
From FA Require Import model.Float model.Conform proofs.ElabProofs.
Close Scope string_scope.

From FA Require Import proofs.ElabFloats.

(** [data_ok e s v] -- what the abstraction of real Python objects and parsed schemas always satisfies:
    [wf_py v]: bytes in 0..255, str valid UTF-8, lengths below 2^63, dict keys unique; [wf_schema s] / [wf_env e]: defaults
    are well-formed data, fewer than 2^63 branches / symbols, field names of a record distinct; [pyfloats_ok v],
    [dflt_floats_ok s], [env_floats_ok e]: every Python float in the datum and in the defaults is a binary64 pattern
    (0 <= bits < 2^64).
    Whatever the writer elaborates from such data is a well-typed wire value whose typing height is at most the
    elaboration fuel.  No hypothesis on the OUTPUT remains: that float(int), and narrowing to binary32, only produce
    IEEE bit patterns is proved in proofs/FloatProofs.v (through Flocq; hence the standard library's Reals axioms and
    classic under Print Assumptions -- allow-listed, DESIGN 10). *)
Theorem C01_elab_typed : forall f o e s v a,
  elab f o e s v = WOk a -> data_ok e s v -> exists n, (n <= f)%nat /\ typedn n e s a.
Proof. exact elab_typed_py. Qed.
Print Assumptions C01_elab_typed.

(** the float side condition itself: every binary32 / binary64 pattern of the elaborated wire value is in range *)
Theorem C01_elab_floats_ok : forall f o e s v a,
  elab f o e s v = WOk a -> env_floats_ok e = true -> dflt_floats_ok s = true -> pyfloats_ok v = true -> floats_ok a = true.
Proof. exact elab_floats_ok. Qed.
Print Assumptions C01_elab_floats_ok.

(** hence the round trip with the ELABORATION fuel as the bound: what schemaless_writer wrote for [v] is read back
    as [py_of a], consuming exactly the written bytes, with anything following on the stream *)
Theorem C01_roundtrip_conforming : forall f wo ro e s v a pv,
  elab f wo e s v = WOk a -> data_ok e s v -> py_of ro e s a = Some pv ->
  write f wo e s v = WOk (wire a) /\
  forall f', (f <= f')%nat -> forall r, read f' ro e s (wire a ++ r) = Ok (pv, r).
Proof. exact roundtrip_conforming_py. Qed.
Print Assumptions C01_roundtrip_conforming.

(** axiom-free variant (closed under the global context): the same with the range of the float leaves of [a] as an
    explicit hypothesis instead of being derived *)
Theorem C01_elab_typed_closed : forall f o e s v a,
  elab f o e s v = WOk a -> wf_env e = true -> wf_schema s = true -> wf_py v = true -> floats_ok a = true ->
  exists n, (n <= f)%nat /\ typedn n e s a.
Proof. exact elab_typed. Qed.
Print Assumptions C01_elab_typed_closed.

(** ---- the documented normalisation, declaratively ---- *)
(** [normalises n o e s v out] (model/Conform.v) is the statement's sentence clause by clause -- omitted fields replaced by
    their defaults, union hints stripped, sequences returned as lists, numbers written under float/double returned as
    floats, 'float' values rounded to IEEE single precision -- written independently of the writer's branch search: under
    a union it only says that [out] is the normalisation of [v] under SOME admissible branch ((name, value) restricts the
    candidates to branches of that name, a "-type" entry to the record of that name, otherwise a branch v conforms to).
    Whatever the writer elaborates and the reader (no named-type reporting) builds from it is such a normalisation. *)
Theorem C01_normalisation : forall f o e s v a out,
  elab f o e s v = WOk a -> wf_env e = true -> wf_schema s = true -> wf_py v = true ->
  py_of ropts0 e s a = Some out -> normalises f o e s v out.
Proof. exact elab_normalises. Qed.
Print Assumptions C01_normalisation.

(** the reader builds a value from every well-typed wire value ([named_env]: named_schemas holds named types) *)
Theorem C01_reader_total : forall ro e, named_env e = true -> forall n s a, typedn n e s a -> exists out, py_of ro e s a = Some out.
Proof. exact py_of_total. Qed.
Print Assumptions C01_reader_total.

(** end to end: when schemaless_writer accepts [v], schemaless_reader on the written bytes followed by anything returns
    a value [out] that is the documented normalisation of [v], and stops exactly after the written bytes.
    (Float range derived, see C01_elab_typed; [named_env]: named_schemas holds named types.) *)
Theorem C01_roundtrip_normalised : forall f wo e s v a,
  elab f wo e s v = WOk a -> data_ok e s v -> named_env e = true ->
  exists out, normalises f wo e s v out /\ write f wo e s v = WOk (wire a) /\
    forall f', (f <= f')%nat -> forall r, read f' ropts0 e s (wire a ++ r) = Ok (out, r).
Proof. exact roundtrip_normalised_py. Qed.
Print Assumptions C01_roundtrip_normalised.

(** non-vacuity: defaults filled in, hint stripped, tuple -> list, int -> float, float rounded to single, bytearray -> bytes *)
Definition nrec : schema :=
  SRecord (s2b "N") []
    [mkField (s2b "a") SFloat None []; mkField (s2b "b") (SArray (SUnion [SNull; SBytes; SDouble])) None [];
     mkField (s2b "c") SInt (Some (PInt 7)) []].
Definition nopts : wopts := {| strict := false; strict_allow_default := false; disable_tuple := false |}.
Definition nv : pyval :=
  PDict [(PStr (s2b "b"), PTuple [PNone; PByteArray [1; 2]; PTuple [PStr (s2b "double"); PInt 2]]);
         (PStr (s2b "a"), PInt 16777217)].
Definition nout : pyval :=
  PDict [(PStr (s2b "a"), PFloat 4715268809856909312);                                   (* 16777216.0: rounded to single *)
         (PStr (s2b "b"), PList [PNone; PBytes [1; 2]; PFloat 4611686018427387904]);      (* hint stripped, 2 -> 2.0 *)
         (PStr (s2b "c"), PInt 7)].                                                       (* default filled in *)
Definition na : aval :=
  ARecord [AFloat 1266679808; AArray [AUnion 0 ANull; AUnion 1 (ABytes [1; 2]); AUnion 2 (ADouble 4611686018427387904)]; AInt 7].
Example C01_normalisation_example :
  normalises 9 nopts [] nrec nv nout /\ elab 9 nopts [] nrec nv = WOk na /\ py_of ropts0 [] nrec na = Some nout.
Proof.
  assert (He : elab 9 nopts [] nrec nv = WOk na) by (vm_compute; reflexivity).
  assert (Hp : py_of ropts0 [] nrec na = Some nout) by (vm_compute; reflexivity).
  split; [|split; assumption].
  apply (C01_normalisation 9 nopts [] nrec nv na nout He); [reflexivity|vm_compute; reflexivity|vm_compute; reflexivity|exact Hp].
Qed.

(** ** the 'float' clause of the normalisation ("'float' values rounded to IEEE single precision"), against the real-number
    specification of IEEE-754 (Flocq): a finite number written under 'float' ([d2s]) and read back ([s2d]) is the double whose
    value is the round-to-nearest-even binary32 rounding of the datum's value; the writer raises exactly when that rounding
    overflows binary32.  [rval s m e] = (-1)^s m 2^e, [rne 24 128] = rounding onto binary32.
    (Rests on the standard library's real-number axioms through Flocq; see Print Assumptions.) *)
Theorem C01_float_rounded_to_single : forall bits s m e, fdecode 52 11 bits = S754_finite s m e ->
  let r := rne 24 128 (rval s m e) in
  if Rlt_bool (Rabs r) (bpow radix2 128)
  then exists w y, d2s bits = Ok w /\ 0 <= w < 2 ^ 32 /\ fdecode 52 11 (s2d w) = y /\ SF2R radix2 y = r /\ is_finite_SF y = true
  else d2s bits = Err.
Proof. exact float_written_then_read. Qed.
Print Assumptions C01_float_rounded_to_single.

(** reading a binary32 pattern widens it exactly *)
Theorem C01_float_widening_exact : forall bits s m e, fdecode 23 8 bits = S754_finite s m e ->
  exists y, s2d bits = fencode 52 11 y /\ fdecode 52 11 (s2d bits) = y /\ SF2R radix2 y = rval s m e /\ is_finite_SF y = true.
Proof. exact s2d_finite_exact. Qed.
Print Assumptions C01_float_widening_exact.

(** a 'float' leaf is stable under read-then-write: the pattern the writer produced ([d2s b = Ok x], any double b incl. NaN,
    infinities, subnormals) widened by the reader and narrowed again by the writer is the same pattern; and every non-NaN
    binary32 pattern (also one a foreign writer produced) has this property *)
Theorem C01_float_leaf_stable :
  (forall b x, d2s b = Ok x -> d2s (s2d x) = Ok x) /\
  (forall w, 0 <= w < 2 ^ 32 -> fdecode 23 8 w <> S754_nan -> d2s (s2d w) = Ok w).
Proof. split; [exact d2s_image_stable|exact d2s_s2d]. Qed.
Print Assumptions C01_float_leaf_stable.


(** ---- the normal form is a fixed point ---- *)
From FA Require Import proofs.NormalForm.

(** the value [out] the reader (no named-type reporting) returns for a well-typed wire value [a], written back under the same
    schema, is elaborated to [a] again: same bytes, and reading them returns [out] again.  Side conditions, booleans decided
    by computation: [closb0 n o e s a] (model/Conform.v: every union value, read back plain, re-resolves to the same branch
    under the writer's search -- the exclusion is the same as for C09's closure: e.g. a bytearray written as "bytes" and read
    back as bytes fits an earlier fixed; enum index = first occurrence of its symbol; map keys / field names distinct) and
    [floats_stable a] (every binary32 leaf survives unpack-then-pack: true of everything pack produces). *)
Theorem C01_normal_form_fixed : forall n o e s a out,
  typedn n e s a -> closb0 n o e s a = true -> floats_stable a = true -> py_of ropts0 e s a = Some out ->
  exists f0, forall f, (f0 <= f)%nat ->
    elab f o e s out = WOk a /\ write f o e s out = WOk (wire a) /\
    forall f' r, (n <= f')%nat -> read f' ropts0 e s (wire a ++ r) = Ok (out, r).
Proof. exact normal_form_fixed. Qed.
Print Assumptions C01_normal_form_fixed.

(** read-after-write is idempotent: write v, read: out (the documented normalisation of v, C01_normalisation); write out:
    the same bytes; read: out again.  No hypothesis on floats: what the writer wrote is stable (proofs/ElabFloats.v). *)
Theorem C01_normalisation_idempotent : forall f o e s v a out,
  elab f o e s v = WOk a -> data_ok e s v -> closb0 f o e s a = true -> py_of ropts0 e s a = Some out ->
  write f o e s v = WOk (wire a) /\
  exists f0, forall f', (f0 <= f')%nat ->
    elab f' o e s out = WOk a /\ write f' o e s out = WOk (wire a) /\
    forall f'' r, (f <= f'')%nat -> read f'' ropts0 e s (wire a ++ r) = Ok (out, r).
Proof. exact normal_form_idempotent. Qed.
Print Assumptions C01_normalisation_idempotent.

(** non-vacuity: the normal form [nout] of [nv] (defaults filled in, hint stripped, tuple -> list, int -> float, bytearray ->
    bytes) is written to the same wire value as [nv]; the side condition holds *)
Example C01_idempotent_example :
  closb0 9 nopts [] nrec na = true /\ floats_stable na = true /\ elab 9 nopts [] nrec nout = WOk na.
Proof. split; [|split]; vm_compute; reflexivity. Qed.
