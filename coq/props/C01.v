(** C01 — binary round trip: what the writer wrote is read back, consuming exactly those bytes.
    Statements only; proofs in proofs/CodecProofs.v (and proofs/ElabProofs.v for the Python-value layer). *)
From Coq Require Import Lia String.
From FA Require Import model.Base model.Varint model.Value model.Schema model.Utf8 model.Codec model.Validate
                       model.Write model.Read proofs.VarintProofs proofs.CodecProofs.

(** zig-zag and base-128 varints: every 64-bit integer, anything may follow on the stream *)
Theorem C01_long_roundtrip : forall n r, in_int64 n -> long_dec (long_enc n ++ r) = Ok (n, r).
Proof. exact long_rt. Qed.
Print Assumptions C01_long_roundtrip.

Theorem C01_zigzag_roundtrip : forall n, in_int64 n -> unzigzag (zigzag n) = n.
Proof. exact unzigzag_zigzag. Qed.
Print Assumptions C01_zigzag_roundtrip.

(** the reader returns exactly the written wire value and leaves exactly the suffix [r]: for every schema
    (records, enums, fixed, arrays, maps, unions, by-name and recursive references through [env]), every typed
    value, every suffix, and any fuel not below the typing height *)
Theorem C01_wire_dec : forall n e s a, typedn n e s a ->
  forall f, (n <= f)%nat -> forall r, dec f e s (wire a ++ r) = Ok (a, r).
Proof. exact wire_dec. Qed.
Print Assumptions C01_wire_dec.

(** at the level of schemaless_writer / schemaless_reader: when the writer elaborates the Python datum [v]
    to the wire value [a] (defaults substituted, hints stripped, branch chosen) and [a] is well typed, the
    reader returns the Python value [py_of a] -- the documented normalisation of [v] -- and stops after the
    writer's bytes *)
Theorem C01_roundtrip : forall n wo ro e s v a bs pv,
  write n wo e s v = WOk bs -> elab n wo e s v = WOk a -> typedn n e s a -> py_of ro e s a = Some pv ->
  forall f, (n <= f)%nat -> forall r, read f ro e s (bs ++ r) = Ok (pv, r).
Proof.
  intros n wo ro e s v a bs pv Hw He Ht Hp f Hf r. unfold write in Hw. rewrite He in Hw. cbn in Hw.
  injection Hw as <-. unfold read. rewrite (wire_dec n e s a Ht f Hf r). cbn [bind]. rewrite Hp. reflexivity.
Qed.
Print Assumptions C01_roundtrip.

(** values written back to back on one stream are read back one by one *)
Theorem C01_stream : forall n e ss vs, Forall2 (typedn n e) ss vs ->
  forall f, (n <= f)%nat -> forall r, dec_stream f e ss (flat_map wire vs ++ r) = Ok (vs, r).
Proof. exact stream_roundtrip. Qed.
Print Assumptions C01_stream.

Open Scope string_scope.
(** non-vacuity: a recursive list type reached by name, two cells deep, followed by junk *)
Definition node : schema :=
  SRecord (s2b "Node") [] [mkField (s2b "v") SLong None []; mkField (s2b "next") (SUnion [SNull; SRef (s2b "Node")]) None []].
Definition ex_env : env := [(s2b "Node", node)].
Definition ex_a : aval := ARecord [AInt (-64); AUnion 1 (ARecord [AInt 300; AUnion 0 ANull])].
Example C01_example :
  wire ex_a = [127; 2; 216; 4; 0] /\
  dec 9 ex_env node (wire ex_a ++ [255; 7])%list = Ok (ex_a, [255; 7]) /\
  py_of ropts0 ex_env node ex_a =
    Some (PDict [(PStr (s2b "v"), PInt (-64));
                 (PStr (s2b "next"), PDict [(PStr (s2b "v"), PInt 300); (PStr (s2b "next"), PNone)])]).
Proof. repeat split; vm_compute; reflexivity. Qed.
