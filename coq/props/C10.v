(** C10 — validate accepts exactly the conforming data, raises exactly where it would answer False,
    rejects a missing default-less field in strict mode, and what it accepts the writer encodes.
    Statements only; proofs in proofs/ElabProofs.v.

    [validate f o e s (Some v)] = fastavro.validation._validate(datum, schema, named_schemas, "", False, options);
    [validate_raise] = the same with raise_errors=True; [conforms n o e s v] (model/Conform.v) is the documented
    Python <-> Avro mapping written clause by clause, independently of the validator's control flow;
    [conformsP] = conforms at some height.  Results: [Ok b] the validator returned b; [Err] another exception
    (unknown type name); [OutOfFuel] fuel exhausted. *)
From Coq Require Import String Lia.
From FA Require Import model.Base model.Varint model.Value model.Schema model.Utf8 model.Float model.Codec
                       model.Validate model.Write model.Read model.Conform model.Container model.ContainerPy
                       proofs.ElabProofs proofs.AcceptIff proofs.ValidateTotal proofs.ElabFloats proofs.GateProofs.

(** whenever the validator returns (any fuel that does not run out), it returns True exactly on conforming data *)
Theorem C10_iff : forall f o e s v b, validate f o e s (Some v) = Ok b -> (b = true <-> conformsP o e s v).
Proof. exact validate_iff. Qed.
Print Assumptions C10_iff.

(** the two halves with explicit heights: acceptance at fuel f gives conformance at height f; conformance at ANY
    height excludes the answer False at ANY fuel *)
Theorem C10_sound : forall f o e s v, validate f o e s (Some v) = Ok true -> conforms f o e s v.
Proof. intros f o e s v H. exact (validate_sound f o e s (Some v) H). Qed.
Print Assumptions C10_sound.

Theorem C10_complete : forall n o e s v, conforms n o e s v -> forall f b, validate f o e s (Some v) = Ok b -> b = true.
Proof. exact validate_complete. Qed.
Print Assumptions C10_complete.

(** raise_errors=True is the same function: returns True / raises ValidationError / raises something else /
    needs more fuel exactly where raise_errors=False returns True / returns False / raises / needs more fuel *)
Theorem C10_raise_agrees : forall f o e s ov, validate_raise f o e s ov = vres_of (validate f o e s ov).
Proof. exact validate_raise_eq. Qed.
Print Assumptions C10_raise_agrees.

Theorem C10_raise_iff : forall f o e s ov, validate_raise f o e s ov = VRaised <-> validate f o e s ov = Ok false.
Proof. exact validate_raise_iff. Qed.
Print Assumptions C10_raise_iff.

(** nothing but ValidationError: for schemas whose by-name references all resolve ([closed_refs e s], [closed_env e]: what
    parse_schema guarantees; evaluated in-model on every generated case) the validator never raises a foreign exception --
    raise_errors=False answers True / False, raise_errors=True returns or raises ValidationError (or the model needs more
    fuel) -- and the writers' branch search, which runs the validator, never fails with a foreign exception either *)
Theorem C10_only_validation_error : forall o e, closed_env e = true ->
  forall f s ov, closed_refs e s = true -> validate f o e s ov <> Err.
Proof. exact validate_no_err. Qed.
Print Assumptions C10_only_validation_error.

Theorem C10_raise_only_validation_error : forall o e f s ov, closed_env e = true -> closed_refs e s = true ->
  validate_raise f o e s ov <> VErr.
Proof. exact validate_raise_no_err. Qed.
Print Assumptions C10_raise_only_validation_error.

Theorem C10_search_no_foreign_exception : forall f o e bs v, closed_env e = true -> forallb (closed_refs e) bs = true ->
  forall i best most cbf, choose (fun c x => validate f o e c (Some x)) e v bs i best most cbf <> Err.
Proof. exact search_no_err. Qed.
Print Assumptions C10_search_no_foreign_exception.

(** strict: a field absent from the datum and without default is never accepted -- even if its type accepts null *)
Theorem C10_strict : forall f o e n al fs kv fd,
  strict o = true -> In fd fs -> dict_get kv (fname fd) = None -> fdefault fd = None ->
  forall b, validate f o e (SRecord n al fs) (Some (PDict kv)) = Ok b -> b = false.
Proof. exact validate_strict. Qed.
Print Assumptions C10_strict.

(** more fuel never changes the validator's answer *)
Theorem C10_fuel_monotone : forall f f' o e s ov b, (f <= f')%nat -> validate f o e s ov = Ok b -> validate f' o e s ov = Ok b.
Proof. intros f f' o e s ov b H. apply validate_fuel_mono. exact H. Qed.
Print Assumptions C10_fuel_monotone.

(** Writer.write with validator=True at the level of the Python writer (model/ContainerPy.v [pstep]: validation gate, then
    elaboration into the pending block, then the block logic of the container writer; any codec [compress], any marker).
    A record validate rejects -- raise_errors=False answers False, equivalently raise_errors=True raises ValidationError,
    equivalently (C10_iff) the validator answers and the datum does not conform -- makes write raise and leaves the
    writer EXACTLY as it was: stream, pending block, record count.  No byte of it is ever emitted. *)
Theorem C10_gate : forall compress sync f o e s st v, validate f o e s (Some v) = Ok false ->
  pstep compress sync f o true e s st (PWrite v) = (st, PRaised).
Proof. exact gate_false. Qed.
Print Assumptions C10_gate.

Theorem C10_gate_raises : forall compress sync f o e s st v, validate_raise f o e s (Some v) = VRaised ->
  pstep compress sync f o true e s st (PWrite v) = (st, PRaised).
Proof. exact gate_raises. Qed.
Print Assumptions C10_gate_raises.

Theorem C10_gate_nonconforming : forall compress sync f o e s st v b,
  validate f o e s (Some v) = Ok b -> ~ conformsP o e s v -> pstep compress sync f o true e s st (PWrite v) = (st, PRaised).
Proof. exact gate_nonconforming. Qed.
Print Assumptions C10_gate_nonconforming.

(** a whole history (writes, flushes, donor blocks, reopen-for-append) with the rejected write is the history without
    it: the file finally on the stream holds exactly the other records *)
Theorem C10_gate_history : forall compress sync f o e s st ops1 ops2 v, validate f o e s (Some v) = Ok false ->
  prun compress sync f o true e s st (ops1 ++ PWrite v :: ops2)%list = prun compress sync f o true e s st (ops1 ++ ops2)%list.
Proof. exact gate_history. Qed.
Print Assumptions C10_gate_history.

(** and only validated records get through the gate *)
Theorem C10_gate_only_validated : forall compress sync f o e s st st' v,
  pstep compress sync f o true e s st (PWrite v) = (st', POk) ->
  validate f o e s (Some v) = Ok true /\ exists a, elab f o e s v = WOk a /\ st' = wstep compress sync st (OWrite a).
Proof. exact gate_only_validated. Qed.
Print Assumptions C10_gate_only_validated.

(** what validate accepts is a well-typed wire value once elaborated (then C01 gives the round trip).  [data_ok]: the
    well-formedness the abstraction of Python objects / parsed schemas always has (see props/C01.v); the range of the
    float leaves is derived (proofs/ElabFloats.v over proofs/FloatProofs.v: Reals axioms + classic, allow-listed) *)
Theorem C10_accepted_typed : forall f o e s v a,
  elab f o e s v = WOk a -> data_ok e s v -> exists n, (n <= f)%nat /\ typedn n e s a.
Proof. exact elab_typed_py. Qed.
Print Assumptions C10_accepted_typed.

(** "everything validate accepts the writer encodes" is FALSE of the faithful model as it stands; each witness violates one
    clause of [wneed] below (a foreign exception in the branch search, the strict writer's field discipline, float overflow): *)
Open Scope string_scope.
Definition o0 : wopts := {| strict := false; strict_allow_default := false; disable_tuple := false |}.
Definition ostrict : wopts := {| strict := true; strict_allow_default := false; disable_tuple := false |}.
Definition dict (l : list (string * pyval)) : pyval := PDict (map (fun p => (PStr (s2b (fst p)), snd p)) l).
(* (repaired in 9496e1e + bf75db4: a dict whose "-type" entry names no record branch but which fits a map branch is now
   rejected by validate as well as by the writer; regression witness in the Example below) *)
Definition th_schema : schema :=
  SUnion [SRecord (s2b "A") [] [mkField (s2b "x") SInt None []]; SMap (SUnion [SInt; SString])].
Definition th_datum : pyval := dict [("x", PInt 1); ("-type", PStr (s2b "B"))].
(* a validating record branch followed by a branch on which validation raises (a name missing from named_schemas) *)
Definition tv_schema : schema :=
  SUnion [SRecord (s2b "A") [] [mkField (s2b "x") (SArray SInt) None []]; SMap (SRef (s2b "Missing"))].
Definition tv_datum : pyval := dict [("x", PList [PInt 1; PInt 2; PInt 3])].
(* (F9, repaired in e5b1421: a field of dict-form type {"type": "null"} may now be absent; regression witness below) *)
Definition f9_schema : schema := SRecord (s2b "R") [] [mkField (s2b "a") (SAnnot [] SNull) None []].
(* strict writer: a defaulted field omitted / an extra key *)
Definition d_schema : schema := SRecord (s2b "R") [] [mkField (s2b "a") SInt (Some (PInt 3)) []].

Theorem C10_writer_accepts_refuted :
  (validate 9 o0 [] tv_schema (Some tv_datum) = Ok true /\ elab 9 o0 [] tv_schema tv_datum = WErr) /\
  (validate 9 ostrict [] d_schema (Some (dict [])) = Ok true /\ forall f, elab f ostrict [] d_schema (dict []) = WErr \/ f = O) /\
  (validate 9 ostrict [] d_schema (Some (dict [("a", PInt 1); ("zz", PInt 2)])) = Ok true /\
     forall f, elab f ostrict [] d_schema (dict [("a", PInt 1); ("zz", PInt 2)]) = WErr \/ f = O) /\
  (validate 9 o0 [] SDouble (Some (PInt (2 ^ 1024))) = Ok true /\ forall f, elab f o0 [] SDouble (PInt (2 ^ 1024)) = WErr \/ f = O) /\
  (validate 9 o0 [] SFloat (Some (PInt (2 ^ 128))) = Ok true /\ forall f, elab f o0 [] SFloat (PInt (2 ^ 128)) = WErr \/ f = O).
Proof.
  assert (W : forall o s v, validate 9 o [] s (Some v) = Ok true -> (forall f, elab (S f) o [] s v = WErr) ->
            validate 9 o [] s (Some v) = Ok true /\ forall f, elab f o [] s v = WErr \/ f = O).
  { intros o s v H1 H2. split; [exact H1|]. intros [|f]; [right; reflexivity|left; apply H2]. }
  split; [split; vm_compute; reflexivity|].
  split; [apply W; [|intros f]; vm_compute; reflexivity|].
  split; [apply W; [|intros f]; vm_compute; reflexivity|].
  split; apply W; try intros f; vm_compute; reflexivity.
Qed.
Print Assumptions C10_writer_accepts_refuted.

(** ... and EXACTLY characterised.  [wneed n o e s v] (model/Conform.v, clause by clause) is what the writer needs beyond
    conformance, for ANY writer options:
    (1) numbers under float/double convert (float(int) does not overflow; narrowing to binary32 does not overflow under "float");
    (2) records: a strict / strict_allow_default writer finds no key that is not a field; an absent field needs strict = false and
        either a default, or strict_allow_default = false and a type _accepts_null recognises (by C10_absent_field_agrees the last
        is implied by validate's acceptance for schemas as parse_schema produces them);
    (3) unions: the branch search answers (no foreign exception in a branch it tries; fuel n) with an index i -- C09 says which --
        and the datum is writable under that branch.
    For a datum validate accepts, the writer eventually elaborates it IF AND ONLY IF wneed holds at some height. *)
Theorem C10_writer_accepts_iff : forall f o e s v, validate f o e s (Some v) = Ok true ->
  ((exists f0, forall f', (f0 <= f')%nat -> exists a, elab f' o e s v = WOk a) <-> exists n, wneed n o e s v).
Proof. exact writer_accepts_iff. Qed.
Print Assumptions C10_writer_accepts_iff.

(** necessity holds for every datum, accepted by validate or not: whatever the writer encodes satisfies wneed *)
Theorem C10_encoded_needs : forall f o e s v a, elab f o e s v = WOk a -> wneed f o e s v.
Proof. exact wneed_necessary. Qed.
Print Assumptions C10_encoded_needs.

(** write_record's test for "may be absent without default" agrees with validate (F9 repaired): for schemas as
    parse_schema produces them (a dict form wraps no union / reference / dict form; named_schemas holds named types), a
    type against which validate accepts None is one the writer lets be absent *)
Theorem C10_absent_field_agrees : forall f o e t, named_env e = true -> plain_type t = true ->
  validate f o e t (Some PNone) = Ok true -> nullok t = true.
Proof. exact none_nullok. Qed.
Print Assumptions C10_absent_field_agrees.

(** accepted => encoded => read back: the writer's bytes decode to the value [py_of a] (the documented normalisation
    of the datum, C01), consuming exactly those bytes; no hypothesis on the elaborated value remains *)
Theorem C10_accepted_roundtrip : forall n o ro e s v f,
  wneed n o e s v -> validate f o e s (Some v) = Ok true -> data_ok e s v ->
  exists f0, forall f', (f0 <= f')%nat -> exists a,
    elab f' o e s v = WOk a /\ write f' o e s v = WOk (wire a) /\
    (forall pv, py_of ro e s a = Some pv ->
       forall f'', (f' <= f'')%nat -> forall r, read f'' ro e s (wire a ++ r)%list = Ok (pv, r)).
Proof. exact accepted_roundtrip_wneed. Qed.
Print Assumptions C10_accepted_roundtrip.

(** wneed holds of a datum with an absent nullable field, an int under "float", a defaulted array given explicitly, a search
    over [string, long] and a tuple hint -- for the default writer, and fails for the strict one *)
Definition wu : schema := SUnion [SString; SLong].
Definition wr : schema :=
  SRecord (s2b "W") [] [mkField (s2b "a") (SUnion [SNull; SInt]) None [];
                        mkField (s2b "b") SFloat None [];
                        mkField (s2b "c") (SArray wu) (Some (PList [])) []].
Definition wv : pyval := dict [("b", PInt 3); ("c", PList [PInt 7; PTuple [PStr (s2b "string"); PStr (s2b "x")]])].
Ltac dget := match goal with |- context [dict_get ?kv ?k] =>
  let x := eval vm_compute in (dict_get kv k) in change (dict_get kv k) with x end.
Example C10_wneed_example :
  wneed 9 o0 [] wr wv /\ validate 9 o0 [] wr (Some wv) = Ok true /\
  elab 9 o0 [] wr wv = WOk (ARecord [AUnion 0 ANull; AFloat 1077936128; AArray [AUnion 1 (AInt 7); AUnion 0 (AString (s2b "x"))]]) /\
  (* the strict writer refuses the same datum (field a is absent): wneed fails at its second clause *)
  ~ (exists n, wneed n ostrict [] wr wv).
Proof.
  split; [|split; [vm_compute; reflexivity|split; [vm_compute; reflexivity|]]].
  - unfold wr, wv, dict. cbn [map fst snd]. apply wneed_record; [intros H; discriminate H|].
    constructor; [|constructor; [|constructor; [|constructor]]]; unfold field_wneed; cbn [fname ftype fdefault]; dget; cbv iota beta.
    + split; [reflexivity|]. split; [reflexivity|]. split; [reflexivity|].
      eapply (wneed_union_search 7 o0 [] _ PNone 0 SNull); [discriminate|vm_compute; reflexivity|reflexivity|exact I].
    + split; [intros z E; injection E as <-; eexists; vm_compute; reflexivity|].
      intros b E. vm_compute in E. injection E as <-. apply wneed_float.
      * intros z E; discriminate.
      * intros b E. vm_compute in E. injection E as <-. eexists; vm_compute; reflexivity.
    + eapply wneed_array; [reflexivity|]. constructor; [|constructor; [|constructor]].
      * eapply (wneed_union_search 6 o0 [] _ (PInt 7) 1 SLong); [discriminate|vm_compute; reflexivity|reflexivity|exact I].
      * eapply wneed_union_hint; [reflexivity|vm_compute; reflexivity|exact I].
  - intros [[|n] H]; [exact H|]. unfold wr, wv, dict in H. cbn [map fst snd wneed] in H.
    destruct (H _ eq_refl) as [_ Hf]. inversion Hf as [|? ? H1 _]; subst. unfold field_wneed in H1. cbn [fname ftype fdefault] in H1.
    revert H1. dget. cbv iota beta. intros [H1 _]. discriminate H1.
Qed.

(** non-vacuity of C10_iff / C10_strict / C10_raise_iff: a recursive type reached by name, hints, a missing field *)
Definition node : schema :=
  SRecord (s2b "Node") [] [mkField (s2b "v") SLong None []; mkField (s2b "next") (SUnion [SNull; SRef (s2b "Node")]) None []].
Definition ex_env : env := [(s2b "Node", node)].
Definition good : pyval := dict [("v", PInt 1); ("next", PTuple [PStr (s2b "Node"); dict [("v", PInt 2); ("-type", PStr (s2b "Node"))]])].
Definition bad : pyval := dict [("v", PInt 1); ("next", dict [("v", PBool true)])].
Example C10_example :
  validate 9 o0 ex_env node (Some good) = Ok true /\ validate_raise 9 o0 ex_env node (Some good) = VTrue /\
  validate 9 o0 ex_env node (Some bad) = Ok false /\ validate_raise 9 o0 ex_env node (Some bad) = VRaised /\
  validate 9 ostrict ex_env node (Some good) = Ok false /\            (* the inner "next" is absent and has no default *)
  (* repaired defects, as regression witnesses: a tuple that is not a pair is rejected, not an exception (c8f12fc);
     a field of dict-form null type may be absent (F9, e5b1421) *)
  validate 9 o0 ex_env (SUnion [SInt; SString]) (Some (PTuple [PInt 1; PInt 2; PInt 3])) = Ok false /\
  validate_raise 9 o0 ex_env (SUnion [SInt; SString]) (Some (PTuple [PInt 1; PInt 2; PInt 3])) = VRaised /\
  validate 9 o0 [] f9_schema (Some (dict [])) = Ok true /\ elab 9 o0 [] f9_schema (dict []) = WOk (ARecord [ANull]) /\
  (* a "-type" entry naming no record branch: rejected by validate and by the writer, although the map branch would fit *)
  validate 9 o0 [] th_schema (Some th_datum) = Ok false /\ elab 9 o0 [] th_schema th_datum = WErr.
Proof. split; [|split; [|split; [|split; [|split; [|split; [|split; [|split; [|split; [|split]]]]]]]]]; vm_compute; reflexivity. Qed.

(** non-vacuity of the gate: one good record pending, the bad one rejected, the state unchanged; then accepted again *)
Example C10_gate_example :
  let st := mkW [79; 98; 106; 1] [2; 0] 1 16000 in
  pstep (fun b => b) [7; 7] 9 o0 true ex_env node st (PWrite bad) = (st, PRaised) /\
  pstep (fun b => b) [7; 7] 9 o0 true ex_env node st (PWrite good) = (mkW [79; 98; 106; 1] [2; 0; 2; 2; 4; 0] 2 16000, POk).
Proof. split; vm_compute; reflexivity. Qed.
