(** C19 — load_schema from per-type files is equivalent to parsing the same types inlined at
    their first use.  Statements only; proofs in proofs/RepoProofs.v.

    [repo]              subject name -> raw JSON of <name>.avsc
    [pwr f rp schema tbl wh inj]  _parse_schema_with_repo: Some (POk (parsed, the named_schemas
                        argument afterwards, injected_schemas)); None = SchemaRepositoryError
    [load rp top]       fastavro.schema.load_schema(<dir>/<top>.avsc)
    [load_ordered rp names]       load_schema_ordered
    [inline_first_use rp top]     the specification: every reference to a type that has a file and is
                        not defined yet is replaced, in document order, by the file's content

    Full statements that are NOT proved (the correspondence checks them on every generated graph):
      C19_equiv:   for every acyclic rp in which every reference has a file,
                     load rp top = Some (POk p)  /\  inline_first_use rp top = POk j  /\
                     to_canonical p = to_canonical j   (and equal encodings)
      C19_inline_closed:  ... valid_raw j = true, every named type defined exactly once, at its first use
      C19_ordered: load_ordered rp names has the same canonical form for every dependencies-first names
    Of the three pieces that were missing, two are theorems now:
      - the parser's FAILURES: C19_first_unknown (UnknownType carries the first reference, in
        document order, that is neither primitive nor in the dictionary at that point; everything
        before it was accepted; the dictionary of the failure extends the caller's and lacks the name);
      - what inlining the loaded types into the parse gives: props/C12.v C12_piecewise(_core)
        (inline over the table of separately parsed files = the parser's output of the schema with the
        files' contents written at their first use) and props/C13.v C13_same_encoding (equal canonical
        JSON => same typed values / encoding);
    what is still missing for C19_equiv is the composition over the loader's retry loop: that
    _inject_schema replaces exactly the reference C19_first_unknown names (it also rewrites the
    references before it to their full names), that re-parsing the schema with the already PARSED
    sub-schema injected is accepted (the parser accepting its own output, C12_reparse_partial) and the
    induction over the nested loads (a sub-load sees the caller's dictionary as it was BEFORE the
    failed attempt).  Proved below: the first-try case, the error path with the name that is
    reported, that every result is a genuine parse result, and evaluated instances. *)
From Coq Require Import String.
From FA Require Import model.Base model.Json model.Parse model.SchemaSpec model.Inline model.Canon model.Repo
     proofs.JsonProofs proofs.ParseProofs proofs.RepoProofs proofs.UnknownProofs proofs.InjectProofs proofs.IfuProofs.
Open Scope string_scope.

(** the loader's parse with _write_hint=True is parse_schema *)
Theorem C19_parse_schema_g : forall f j t, parse_schema_g true f j t = parse_schema f j t.
Proof. exact parse_schema_g_true. Qed.
Print Assumptions C19_parse_schema_g.

(** no unknown type: nothing is loaded, the result is the parse *)
Theorem C19_equiv_partial_first_try : forall f rp schema tbl wh inj p tbl',
  parse_schema_g wh (fuel_for schema) schema tbl = POk (p, tbl') ->
  pwr (S f) rp schema tbl wh inj = Some (POk (p, tbl', inj)).
Proof. exact pwr_first_try. Qed.
Print Assumptions C19_equiv_partial_first_try.

(** ... and the specification agrees: inline_first_use is the identity on every schema the parser
    accepts (each reference is in the dictionary, so nothing is inlined), and the names it marks as
    defined are exactly the keys of the dictionary afterwards.  Together: C19_equiv for zero rounds,
    for any document, dictionary and repository *)
Theorem C19_inline_identity_on_accepted : forall rp f j ns wh st d p st',
  parse_rec f j ns wh st d = POk (p, st') ->
  forall D, (forall n, mem n D = jhas n (st_tbl st)) ->
  exists D', ifu_rec f rp j ns D = POk (j, D') /\ (forall n, mem n D' = jhas n (st_tbl st')).
Proof. exact ifu_id_accepted. Qed.
Print Assumptions C19_inline_identity_on_accepted.

Theorem C19_equiv_first_try : forall rp f wh kv tbl inj p tbl',
  jhas "__fastavro_parsed" kv = false ->
  parse_schema_g wh (fuel_for (JObj kv)) (JObj kv) tbl = POk (p, tbl') ->
  pwr (S f) rp (JObj kv) tbl wh inj = Some (POk (p, tbl', inj)) /\
  exists D', ifu_rec (S (jdepth (JObj kv))) rp (JObj kv) "" (keys tbl) = POk (JObj kv, D') /\
             (forall n, mem n D' = jhas n tbl').
Proof. exact load_first_try_equiv. Qed.
Print Assumptions C19_equiv_first_try.

(** whatever the loader returns is the result of a successful parse_schema (of the schema with
    sub-schemas injected, against some dictionary) *)
Theorem C19_result_is_a_parse : forall f rp schema tbl wh inj p t i,
  pwr f rp schema tbl wh inj = Some (POk (p, t, i)) ->
  exists schema' tbl' t', parse_schema_g wh (fuel_for schema') schema' tbl' = POk (p, t').
Proof. exact pwr_result_is_a_parse. Qed.
Print Assumptions C19_result_is_a_parse.

(** a missing file surfaces as UnknownType naming the missing full name: at the level where the
    reference is met, and unchanged through every enclosing load *)
Theorem C19_missing : forall f rp schema tbl wh inj q junk,
  parse_schema_g wh (fuel_for schema) schema tbl = PErrUnknown q junk -> jget q rp = None ->
  pwr (S f) rp schema tbl wh inj = Some (PErrUnknown q junk).
Proof. exact pwr_missing. Qed.
Print Assumptions C19_missing.

Theorem C19_missing_nested : forall f rp schema tbl wh inj q junk raw q' junk',
  parse_schema_g wh (fuel_for schema) schema tbl = PErrUnknown q junk -> jget q rp = Some raw ->
  pwr f rp raw tbl false inj = Some (PErrUnknown q' junk') ->
  pwr (S f) rp schema tbl wh inj = Some (PErrUnknown q' junk').
Proof. exact pwr_missing_nested. Qed.
Print Assumptions C19_missing_nested.

(** which name: the parser's UnknownType failures, in general.  [first_unknown f j ns st q junk]
    (proofs/UnknownProofs.v) is the path to the failing node: a reference that is not primitive and
    whose full name is not a key of the dictionary there (or a dict whose "type" names nothing,
    reported as "<dict>"); in a union / a record every member / field before it has been parsed
    successfully ([members_ok] / [fields_ok]: the accepted prefix), an array / map fails in its
    items / values *)
Theorem C19_first_unknown : forall f j ns wh st d q junk,
  parse_rec f j ns wh st d = PErrUnknown q junk -> first_unknown f j ns st q junk.
Proof. exact parse_rec_unknown. Qed.
Print Assumptions C19_first_unknown.

Theorem C19_first_unknown_file : forall wh f kv tbl q junk,
  jhas "__fastavro_parsed" kv = false ->
  parse_schema_g wh (S f) (JObj kv) tbl = PErrUnknown q junk ->
  first_unknown f (JObj kv) "" (mkst [] tbl) q junk.
Proof. exact parse_schema_unknown. Qed.
Print Assumptions C19_first_unknown_file.

(** the dictionary the failure leaves behind contains the caller's entries, and the reported name is
    not among its keys (so the loader's next step, loading that name, is never redundant) *)
Theorem C19_unknown_table : forall f j ns st q junk,
  first_unknown f j ns st q junk ->
  (forall n, jhas n (st_tbl st) = true -> jhas n junk = true) /\ (jhas q junk = false \/ q = "<dict>").
Proof. exact first_unknown_table. Qed.
Print Assumptions C19_unknown_table.

(* a reference that is not in the dictionary is reported, whatever the default *)
Example C19_first_unknown_instance :
  parse_schema_g true 5 (JObj [("type", JStr "record"); ("name", JStr "A");
      ("fields", JArr [JObj [("name", JStr "x"); ("type", JStr "int")];
                       JObj [("name", JStr "b"); ("type", JArr [JStr "null"; JStr "B"])];
                       JObj [("name", JStr "c"); ("type", JStr "C")]])]) [] = PErrUnknown "B" [("A", JObj [("type", JStr "record")])].
Proof. vm_compute. reflexivity. Qed.

(** (a) _inject_schema replaces exactly the reference C19_first_unknown names.  [filled sub q f j ns st junk y]
    (proofs/InjectProofs.v) follows the same path as [first_unknown] and says that y is j with that
    one node replaced by sub and nothing else touched.  The implementation's traversal also rewrites
    the references BEFORE that node to their full names, so the statement is up to the specification's
    canonical JSON ([pcf_json], which reads a reference as its full name anyway). *)
Theorem C19_inject_at_unknown : forall wh kv tbl q junk ikv,
  jhas "__fastavro_parsed" kv = false ->
  parse_schema_g wh (fuel_for (JObj kv)) (JObj kv) tbl = PErrUnknown q junk -> q <> "<dict>" ->
  jget "name" ikv = Some (JStr q) ->
  exists y x', filled (JObj ikv) q (S (jdepth (JObj kv))) (JObj kv) "" (mkst [] tbl) junk y /\
               inject (JObj kv) (JObj ikv) = POk (x', true) /\ pcf_json x' = pcf_json y.
Proof. exact inject_at_unknown. Qed.
Print Assumptions C19_inject_at_unknown.

(* a part that was parsed against dictionaries without the name holds no reference to it: the traversal
   passes through it without injecting, changing nothing the canonical JSON sees *)
Theorem C19_inject_passes_parsed_parts : forall sub q f j ns wh st d p st',
  parse_rec f j ns wh st d = POk (p, st') -> jhas q (st_tbl st') = false ->
  exists j', inject_rec f sub (JStr q) j ns false = POk (j', false) /\ pcf_json_in ns j' = pcf_json_in ns j.
Proof. exact inject_nohit. Qed.
Print Assumptions C19_inject_passes_parsed_parts.

Theorem C19_missing_top : forall rp name, jget name rp = None -> load rp name = None.
Proof. exact load_missing_top. Qed.
Print Assumptions C19_missing_top.

(** only the top-level file can be reported as a repository error *)
Theorem C19_no_inner_repo_error : forall f rp schema tbl wh inj, pwr f rp schema tbl wh inj <> None.
Proof. exact pwr_some. Qed.
Print Assumptions C19_no_inner_repo_error.

(** ---- evaluated instances: a diamond (D used by B and by C), a type used at two depths with a
    namespace-relative reference inside a sub-schema, two namespaces ---- *)
Definition rp_diamond : repo :=
  [("A", JObj [("type", JStr "record"); ("name", JStr "A");
               ("fields", JArr [JObj [("name", JStr "b"); ("type", JStr "B")]; JObj [("name", JStr "c"); ("type", JStr "C")]])]);
   ("B", JObj [("type", JStr "record"); ("name", JStr "B"); ("fields", JArr [JObj [("name", JStr "d"); ("type", JStr "D")]])]);
   ("C", JObj [("type", JStr "record"); ("name", JStr "C");
               ("fields", JArr [JObj [("name", JStr "d"); ("type", JArr [JStr "null"; JStr "D"])]])]);
   ("D", JObj [("type", JStr "enum"); ("name", JStr "D"); ("symbols", JArr [JStr "A"])])].

Definition rp_depths : repo :=
  [("n.A", JObj [("type", JStr "record"); ("name", JStr "A"); ("namespace", JStr "n");
                 ("fields", JArr [JObj [("name", JStr "x"); ("type", JObj [("type", JStr "array"); ("items", JStr "B")])];
                                  JObj [("name", JStr "y"); ("type", JStr "n.D")]])]);
   ("n.B", JObj [("type", JStr "record"); ("name", JStr "n.B");
                 ("fields", JArr [JObj [("name", JStr "d"); ("type", JObj [("type", JStr "map"); ("values", JStr "D")])]])]);
   ("n.D", JObj [("type", JStr "fixed"); ("name", JStr "D"); ("namespace", JStr "n"); ("size", JInt 4)])].

(* all closed boolean computations (no existential variables): load, ordered load and the parse of
   the inlined schema have the same canonical form; the inlined schema is valid; the names are
   defined once, at first use *)
Example C19_equiv_diamond :
  equiv_check rp_diamond "A" ["D"; "C"; "B"; "A"] ["A"; "B"; "D"; "C"] = true.
Proof. vm_compute. reflexivity. Qed.

Example C19_equiv_two_depths :
  equiv_check rp_depths "n.A" ["n.D"; "n.B"; "n.A"] ["n.A"; "n.B"; "n.D"] = true.
Proof. vm_compute. reflexivity. Qed.

Example C19_missing_diamond :
  missing_check (jdrop ["D"] rp_diamond) "A" "D" = true /\ load (jdrop ["A"] rp_diamond) "A" = None.
Proof. split; vm_compute; reflexivity. Qed.
