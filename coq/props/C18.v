(** C18 — Concurrent operations on distinct streams behave as if run sequentially.
    Statements only; proofs live in proofs/ThreadsProofs.v.

    Partial: a step of the model is the code between two accesses to shared cells;
    bytecode-level atomicity under the GIL and the thread safety of the C libraries
    (BytesIO, zlib, decimal) on distinct objects are assumed, not modelled. *)
From Coq Require Import String.
From FA Require Import model.Base model.Globals model.Threads proofs.ThreadsProofs.

(** GENERIC: any number of threads, any number of steps, any shared/local state types.
    If no step of any thread changes the shared state, then under EVERY interleaving the
    shared state is untouched and each thread ends with no step left and exactly the local
    state it reaches when run alone from the same shared state. *)
Theorem C18_interleaving :
  forall (G L : Type) (ts : list (tstate G L)) (g : G),
    (forall t s, In t ts -> In s (snd t) -> forall g l, fst (run s g l) = g) ->
    forall sigma, In sigma (interleavings (map snd ts)) ->
      fst (run_schedule sigma g ts) = g /\
      forall i l st, nth_error ts i = Some (l, st) ->
        nth_error (snd (run_schedule sigma g ts)) i = Some (snd (run_alone g l st)).
Proof. exact interleaving_sequential. Qed.
Print Assumptions C18_interleaving.

(** the simulation behind it, for every schedule (also incomplete ones): thread [i] has
    advanced by as many of its own steps as [i] occurs in the schedule *)
Theorem C18_simulation :
  forall (G L : Type) (s : schedule) (g : G) (ts : list (tstate G L)),
    Forall (fun t => Forall framep (snd t)) ts ->
    fst (run_schedule s g ts) = g /\
    forall i l st, nth_error ts i = Some (l, st) ->
      nth_error (snd (run_schedule s g ts)) i = Some (snd (advance (count s i) g l st)).
Proof. exact simulation. Qed.
Print Assumptions C18_simulation.

(** the quantifier is not empty, and every interleaving gives thread [i] all its steps *)
Theorem C18_interleavings_complete :
  forall f rem, list_sum rem = f ->
    merges f rem <> [] /\ forall s, In s (merges f rem) -> forall i, count s i = nth i rem 0%nat.
Proof. intros f rem H. split; [exact (merges_nonempty f rem H)|intros s; exact (merges_count f rem s H)]. Qed.
Print Assumptions C18_interleavings_complete.

(** FOOTPRINTS.  Declared footprints are sound for the step functions ... *)
Theorem C18_footprints_sound :
  forall v c s, In s (op_steps v c) ->
    (forall g l, other (fst (run s g l)) = other g /\
                 (~ In CellPrec (writes s) -> prec (fst (run s g l)) = prec g) /\
                 (~ In CellFlags (writes s) ->
                  inexact (fst (run s g l)) = inexact g /\ rounded (fst (run s g l)) = rounded g)) /\
    (~ In CellPrec (reads s) -> forall g l p, snd (run s (set_prec g p) l) = snd (run s g l)).
Proof.
  intros v c s H. split; [exact (footprint_writes_sound v c s H)|exact (footprint_reads_sound v c s H)].
Qed.
Print Assumptions C18_footprints_sound.

(** ... the steps of an operation, run alone, compute [api_step] ... *)
Theorem C18_op_refines :
  forall v g c, exists l',
    run_alone g l0 (op_steps v c) = (fst (api_step_v v g c), (l', [])) /\
    result_of l' = snd (api_step_v v g c).
Proof. exact op_refines. Qed.
Print Assumptions C18_op_refines.

(** ... and in the CURRENT code every operation except a decimal read has an empty shared
    write set; a decimal read is
      [tables; write prec; read prec (create_decimal, raises flags); read prec (scaleb, raises flags)] *)
Theorem C18_footprints :
  (forall c, effects c = [] -> Forall (fun s => writes s = []) (op_steps Current c)) /\
  (forall d, footprint (op_steps Current (CRead [d])) =
             [([], [CellOther]); ([CellPrec], []); ([CellFlags], [CellPrec]); ([CellFlags], [CellPrec])]).
Proof. split; [exact footprints_current|exact footprint_decimal_read_current]. Qed.
Print Assumptions C18_footprints.

(** repaired read_decimal (per-call context): every operation, no exception *)
Theorem C18_footprints_fixed :
  forall c, Forall (fun s => writes s = [] /\ ~ In CellPrec (reads s)) (op_steps Fixed c).
Proof. exact footprints_fixed. Qed.
Print Assumptions C18_footprints_fixed.

(** C18 for the API, repaired code: any operations in any number of threads, every interleaving *)
Theorem C18_sequential_fixed :
  forall (cs : list api_call) (g : gstate) sigma,
    In sigma (interleavings (map (op_steps Fixed) cs)) ->
    fst (run_schedule sigma g (start l0 (map (op_steps Fixed) cs))) = g /\
    forall i c, nth_error cs i = Some c ->
      exists l, nth_error (snd (run_schedule sigma g (start l0 (map (op_steps Fixed) cs)))) i = Some (l, []) /\
                result_of l = snd (api_step_fixed g c).
Proof. exact ops_sequential_fixed. Qed.
Print Assumptions C18_sequential_fixed.

(** C18 for the API, current code: holds when no operation decodes a decimal *)
Theorem C18_sequential_current_partial :
  forall (cs : list api_call) (g : gstate) sigma,
    Forall (fun c => effects c = []) cs ->
    In sigma (interleavings (map (op_steps Current) cs)) ->
    fst (run_schedule sigma g (start l0 (map (op_steps Current) cs))) = g /\
    forall i c, nth_error cs i = Some c ->
      exists l, nth_error (snd (run_schedule sigma g (start l0 (map (op_steps Current) cs)))) i = Some (l, []) /\
                result_of l = snd (api_step_current g c).
Proof. exact ops_sequential_current. Qed.
Print Assumptions C18_sequential_current_partial.

(** (the full statement for the current code,
      forall cs g sigma, In sigma (interleavings (map (op_steps Current) cs)) -> ... = snd (api_step_current g c),
    is FALSE of the faithful model:)  two threads reading decimals of precision 5 and 2, schedule
    A.set(5); B.set(2); A.create_decimal; A.scaleb: thread A's 12345 comes back as 1.2E+4  (F4) *)
Theorem C18_refuted_current :
  exists (cs : list api_call) (sigma : schedule) (i : nat) (c : api_call) (l : local),
    In sigma (interleavings (map (op_steps Current) cs)) /\
    nth_error cs i = Some c /\
    nth_error (snd (run_schedule sigma g0 (start l0 (map (op_steps Current) cs)))) i = Some (l, []) /\
    result_of l <> snd (api_step_current g0 c).
Proof. exact refuted_current. Qed.
Print Assumptions C18_refuted_current.

(** non-vacuity: three threads (a decimal read of precision 5, one of precision 2, a write),
    a schedule that is one of the 5!/(2!2!1!) = 30 interleavings and mixes all three; with the
    repaired steps every thread gets its sequential result *)
Example C18_example_three_threads :
  let cs := [CRead [mkDF 5 0 12345]; CRead [mkDF 2 1 12355]; CWrite] in
  let sigma := [2; 0; 1; 0; 1]%nat in
  In sigma (interleavings (map (op_steps Fixed) cs)) /\
  List.length (interleavings (map (op_steps Fixed) cs)) = 30%nat /\
  map (fun t => result_of (fst t)) (snd (run_schedule sigma g0 (start l0 (map (op_steps Fixed) cs))))
    = map (fun c => snd (api_step_fixed g0 c)) cs /\
  map (fun c => snd (api_step_fixed g0 c)) cs = [ROk [mkD false 12345 0]; ROk [mkD false 12 2]; ROk []].
Proof.
  cbv zeta. split; [apply in_by_computation; vm_compute; reflexivity|].
  vm_compute. repeat split; reflexivity.
Qed.

(** the same three operations with the CURRENT steps (9!/(4!4!1!) = 630 interleavings): the
    schedule A.set; B.set; A.create; A.scaleb; ... makes thread 0 differ from its sequential result *)
Example C18_example_three_threads_current :
  let cs := [CRead [mkDF 5 0 12345]; CRead [mkDF 2 1 12355]; CWrite] in
  let sigma := [2; 0; 0; 1; 1; 0; 0; 1; 1]%nat in
  In sigma (interleavings (map (op_steps Current) cs)) /\
  map (fun t => result_of (fst t)) (snd (run_schedule sigma g0 (start l0 (map (op_steps Current) cs))))
    = [ROk [mkD false 12 3]; ROk [mkD false 12 2]; ROk []].
Proof.
  cbv zeta. split; [apply in_by_computation; vm_compute; reflexivity|].
  vm_compute. reflexivity.
Qed.
