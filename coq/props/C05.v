(** C05 — container layout: what the writer produces has the specified layout; every layout-valid file
    (any block partition, empty blocks, header map in any valid layout) is read back; the block reader's
    blocks tile the file; is_avro answers true exactly for the magic prefix.  Statements only. *)
From Coq Require Import Lia.
From FA Require Import model.Base model.Varint model.Value model.Schema model.Codec model.Container
                       proofs.CodecProofs proofs.ContainerProofs.

Definition codec_ok (compress : bytes -> bytes) (decompress : bytes -> res bytes) : Prop :=
  forall b, decompress (compress b) = Ok b.

(** layout of a block and of the header, as the specification prescribes *)
Theorem C05_block_layout : forall compress sync count raw,
  block_bytes compress sync count raw =
  long_enc count ++ (long_enc (len (compress raw)) ++ compress raw) ++ sync.
Proof. reflexivity. Qed.
Print Assumptions C05_block_layout.

Theorem C05_header_layout : forall meta sync,
  header_bytes meta sync = [79; 98; 106; 1] ++ wire (meta_val meta) ++ sync.
Proof. intros. unfold header_bytes, header_val. cbn [wire flat_map]. rewrite app_nil_r. reflexivity. Qed.
Print Assumptions C05_header_layout.

(** the writer's stream IS a header followed by such blocks, after any history of operations *)
Theorem C05_writer_layout : forall compress decompress, codec_ok compress decompress ->
  forall e s n fuel, (n <= fuel)%nat -> forall sync, length sync = 16%nat ->
  forall sync_interval meta ops,
  len (submitted ops) < 2 ^ 63 -> Forall (op_ok e s n) ops ->
  small_run compress sync (wcreate sync meta sync_interval) ops ->
  exists bls pend, Forall (good_blk compress e s fuel) bls /\
    out (run compress sync (wcreate sync meta sync_interval) ops)
      = header_bytes meta sync ++ flat_map (blk_bytes compress sync) bls /\
    submitted ops = flat_map brecs bls ++ pend.
Proof.
  intros compress decompress Hc e s n fuel Hf sync Hs si meta ops Hl Hok Hsm.
  destruct (inv_run compress decompress Hc e s n fuel Hf sync Hs meta ops _ [] Hl Hok Hsm
              (inv_create compress e s n fuel sync meta si)) as [(bls & pend & H1 & H2 & _ & _ & _ & H6) _].
  exists bls, pend. repeat split; assumption.
Qed.
Print Assumptions C05_writer_layout.

(** conversely: ANY header followed by ANY list of well-formed blocks -- whatever the partition of the
    records into blocks, empty and negative-count blocks included, whoever wrote it -- reads back as exactly
    the records and ends normally *)
Theorem C05_accepts : forall compress decompress, codec_ok compress decompress ->
  forall e s n fuel, (n <= fuel)%nat -> forall sync, length sync = 16%nat -> Forall is_byte sync ->
  forall meta bls hf k, meta_ok meta -> (3 <= hf)%nat -> (length bls < k)%nat ->
  Forall (good_blk compress e s fuel) bls ->
  read_container decompress e s fuel hf k (header_bytes meta sync ++ flat_map (blk_bytes compress sync) bls)
  = (flat_map brecs bls, EndOK).
Proof. intros; eapply read_container_ok; eassumption. Qed.
Print Assumptions C05_accepts.

(** the header map may itself come in any valid layout (several chunks): reading it is C03_accepts on HEADER_SCHEMA *)
Theorem C05_header_any_layout : forall n l, typedl n [] HEADER_SCHEMA l ->
  forall f, (n <= f)%nat -> forall r, dec f [] HEADER_SCHEMA (wire_l l ++ r) = Ok (erase l, r).
Proof. intros n l H. exact (wire_l_dec n [] HEADER_SCHEMA l H). Qed.
Print Assumptions C05_header_any_layout.

(** the block reader: offsets and sizes are contiguous from the end of the header to the end of the
    file and the counts are the announced counts *)
Theorem C05_tiling : forall compress decompress, codec_ok compress decompress ->
  forall n fuel, (n <= fuel)%nat -> forall sync, length sync = 16%nat -> Forall is_byte sync ->
  forall bls k off, (length bls < k)%nat ->
  Forall (fun b => in_int64 (bcount b) /\ small compress (braw b)) bls ->
  read_block_infos decompress k sync off (flat_map (blk_bytes compress sync) bls) = (infos_of compress sync bls off, EndOK) /\
  fold_left (fun acc i => acc + snd (fst i)) (infos_of compress sync bls off) off
    = off + len (flat_map (blk_bytes compress sync) bls) /\
  fold_left (fun acc i => acc + snd i) (infos_of compress sync bls off) 0 = fold_left (fun acc b => acc + bcount b) bls 0.
Proof.
  intros. split; [eapply read_block_infos_ok; eassumption|eapply infos_tile; eassumption].
Qed.
Print Assumptions C05_tiling.

Theorem C05_is_avro : forall bs, is_avro bs = true <-> exists r, bs = [79; 98; 106; 1] ++ r.
Proof. exact is_avro_prefix. Qed.
Print Assumptions C05_is_avro.

(** non-vacuity: the null codec, two blocks (one empty) of longs *)
Example C05_example :
  let sync := [1;2;3;4;5;6;7;8;9;10;11;12;13;14;15;16] in
  let f := header_bytes [([97], [98])] sync ++ block_bytes (fun b => b) sync 2 [2; 4] ++ block_bytes (fun b => b) sync 0 [] in
  read_container Ok [] SLong 5 5 5 f = ([AInt 1; AInt 2], EndOK) /\
  read_block_infos Ok 5 sync 27 (skipn 27 f) = ([(27, 19, 2); (46, 18, 0)], EndOK) /\ len f = 64.
Proof. vm_compute. repeat split; reflexivity. Qed.
