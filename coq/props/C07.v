(** C07 — whatever history of operations is applied to an output stream, after each flush the stream
    reads back as exactly the records successfully submitted so far, in order; a failed write contributes
    nothing; header and earlier blocks never change.  Statements only. *)
From Coq Require Import Lia.
From FA Require Import model.Base model.Varint model.Value model.Schema model.Codec model.Validate model.Write model.Container
                       model.ContainerPy proofs.CodecProofs proofs.ContainerProofs proofs.ContainerPyProofs.

Definition codec_ok (compress : bytes -> bytes) (decompress : bytes -> res bytes) : Prop :=
  forall b, decompress (compress b) = Ok b.

(** for EVERY finite history over {write a record the schema accepts (any size, zero bytes included);
    write a record that does not fit; flush; write_block with a donor block in any valid layout; reopen in
    append mode with any new sync interval}, every abstract codec, every sync interval: flushing makes the stream read back as the
    submitted records ([small_run]: no block payload reaches 2^63 bytes, the limit of the framing) *)
Theorem C07_history : forall compress decompress, codec_ok compress decompress ->
  forall e s n fuel, (n <= fuel)%nat -> forall sync, length sync = 16%nat -> Forall is_byte sync ->
  forall sync_interval meta ops hf,
  meta_ok meta -> Forall (op_ok e s n) ops -> small_run compress sync (wcreate sync meta sync_interval) ops ->
  len (submitted ops) < 2 ^ 63 -> (3 <= hf)%nat ->
  exists nb, forall k, (nb < k)%nat ->
    read_container decompress e s fuel hf k (out (flush compress sync (run compress sync (wcreate sync meta sync_interval) ops)))
    = (submitted ops, EndOK).
Proof.
  intros compress decompress Hc e s n fuel Hf sync Hs Hsb si meta ops hf Hm Hok Hsm Hl Hhf.
  exact (history_reads_back compress decompress Hc e s n fuel Hf sync Hs Hsb meta ops hf Hm Hok si Hsm Hl Hhf).
Qed.
Print Assumptions C07_history.

(** the same after every prefix of the history (i.e. after each flush along the way) *)
Theorem C07_every_flush : forall compress decompress, codec_ok compress decompress ->
  forall e s n fuel, (n <= fuel)%nat -> forall sync, length sync = 16%nat -> Forall is_byte sync ->
  forall sync_interval meta ops1 ops2 hf,
  meta_ok meta -> Forall (op_ok e s n) (ops1 ++ OFlush :: ops2) ->
  small_run compress sync (wcreate sync meta sync_interval) (ops1 ++ OFlush :: ops2) ->
  len (submitted (ops1 ++ OFlush :: ops2)) < 2 ^ 63 -> (3 <= hf)%nat ->
  exists nb, forall k, (nb < k)%nat ->
    read_container decompress e s fuel hf k (out (run compress sync (wcreate sync meta sync_interval) (ops1 ++ [OFlush])))
    = (submitted ops1, EndOK).
Proof.
  intros compress decompress Hc e s n fuel Hf sync Hs Hsb si meta ops1 ops2 hf Hm Hok Hsm Hl Hhf.
  assert (Hok1 : Forall (op_ok e s n) ops1) by (apply Forall_app in Hok; apply Hok).
  assert (Hl1 : len (submitted ops1) < 2 ^ 63).
  { unfold submitted in *. rewrite flat_map_app, len_app in Hl. pose proof (len_nonneg (flat_map submitted_of (OFlush :: ops2))). lia. }
  assert (Hsm1 : small_run compress sync (wcreate sync meta si) ops1).
  { clear - Hsm. revert Hsm. generalize (wcreate sync meta si). induction ops1 as [|o l IH]; intros st H; cbn [app small_run] in *.
    - destruct H as [H _]. exact H.
    - destruct H as [H1 H2]. split; [exact H1|apply IH; exact H2]. }
  destruct (history_reads_back compress decompress Hc e s n fuel Hf sync Hs Hsb meta ops1 hf Hm Hok1 si Hsm1 Hl1 Hhf) as [nb H].
  exists nb. intros k Hk. specialize (H k Hk).
  unfold run in *. rewrite fold_left_app. cbn [fold_left wstep]. exact H.
Qed.
Print Assumptions C07_every_flush.

(** a write that fails contributes nothing: the state is unchanged *)
Theorem C07_failed_write_noop : forall compress sync st, wstep compress sync st OWriteBad = st.
Proof. reflexivity. Qed.
Print Assumptions C07_failed_write_noop.

(** header (schema, codec, marker, metadata) and everything already written never change: every
    operation, reopen included, only appends *)
Theorem C07_append_only : forall compress sync ops st,
  exists x, out (run compress sync st ops) = out st ++ x.
Proof. intros. apply run_appends. Qed.
Print Assumptions C07_append_only.

Theorem C07_header_kept : forall compress sync sync_interval meta ops,
  exists x, out (run compress sync (wcreate sync meta sync_interval) ops) = header_bytes meta sync ++ x.
Proof. intros. exact (run_appends compress sync ops (wcreate sync meta sync_interval)). Qed.
Print Assumptions C07_header_kept.


(** ---- at the level of Python data: Writer.write(record) with or without the validation gate ---- *)

(** a record rejected by the validation gate leaves stream, pending block and count exactly as they were:
    no byte of it is emitted (C10's "rejects before emitting any byte", at the level of the writer state) *)
Theorem C07_gate_rejects_without_trace : forall compress sync fuel wo e s st v,
  validate fuel wo e s (Some v) = Ok false ->
  pstep compress sync fuel wo true e s st (PWrite v) = (st, PRaised).
Proof. intros. apply gate_rejects; [reflexivity|assumption]. Qed.
Print Assumptions C07_gate_rejects_without_trace.

(** a record the writer cannot encode contributes nothing, validated or not *)
Theorem C07_failed_python_write_noop : forall compress sync fuel wo validator e s st v,
  elab fuel wo e s v = WErr -> fst (pstep compress sync fuel wo validator e s st (PWrite v)) = st.
Proof. intros. apply failed_write_noop. assumption. Qed.
Print Assumptions C07_failed_python_write_noop.

(** every Python-level history (records given as Python data; each write either elaborates, is rejected by
    the gate, or fails to encode) is a container-level history, hence reads back as the records that were
    successfully submitted *)
Theorem C07_python_history : forall compress decompress, codec_ok compress decompress ->
  forall e s n fuel, (n <= fuel)%nat -> forall sync, length sync = 16%nat -> Forall is_byte sync ->
  forall efuel wo validator sync_interval meta ops ws hf,
  lower_all efuel wo validator e s ops = Some ws ->
  meta_ok meta -> Forall (op_ok e s n) ws -> small_run compress sync (wcreate sync meta sync_interval) ws ->
  len (submitted ws) < 2 ^ 63 -> (3 <= hf)%nat ->
  exists nb, forall k, (nb < k)%nat ->
    read_container decompress e s fuel hf k
      (out (flush compress sync (prun compress sync efuel wo validator e s (wcreate sync meta sync_interval) ops)))
    = (submitted ws, EndOK).
Proof.
  intros compress decompress Hc e s n fuel Hf sync Hs Hsb efuel wo validator si meta ops ws hf Hl Hm Hok Hsm Hlen Hhf.
  rewrite (prun_lowers compress sync efuel wo validator e s ops ws _ Hl).
  exact (history_reads_back compress decompress Hc e s n fuel Hf sync Hs Hsb meta ws hf Hm Hok si Hsm Hlen Hhf).
Qed.
Print Assumptions C07_python_history.

(** non-vacuity: write, failed write, write, flush, donor block, reopen, write -- null codec, interval 3 *)
Example C07_example :
  let sync := [1;2;3;4;5;6;7;8;9;10;11;12;13;14;15;16] in
  let ops := [OWrite (AInt 1); OWriteBad; OWrite (AInt 300); OFlush;
              OBlock [LLeaf (AInt 7); LLeaf (AInt 8)]; OReopen 100; OWrite (AInt (-1))] in
  Forall (op_ok [] SLong 2) ops /\
  read_container Ok [] SLong 5 5 9 (out (flush (fun b => b) sync (run (fun b => b) sync (wcreate sync [] 3) ops)))
  = ([AInt 1; AInt 300; AInt 7; AInt 8; AInt (-1)], EndOK) /\ submitted ops = [AInt 1; AInt 300; AInt 7; AInt 8; AInt (-1)].
Proof.
  split; [|vm_compute; split; reflexivity].
  repeat (apply Forall_cons || apply Forall_nil); cbn [op_ok]; try exact I; try (cbn; unfold in_int64; lia).
  split; [|cbv; reflexivity]. repeat (apply Forall_cons || apply Forall_nil); cbn; unfold in_int64; lia.
Qed.
