(** C06 — a file cut at any offset yields a prefix of the written records and then either ends (only at
    a block boundary) or raises; an altered sync marker is an error when its block is reached; no proper
    prefix of a schemaless encoding decodes.  Statements only. *)
From Coq Require Import Lia.
From FA Require Import model.Base model.Varint model.Value model.Schema model.Codec model.Container
                       proofs.CodecProofs proofs.ContainerProofs.

Definition codec_ok (compress : bytes -> bytes) (decompress : bytes -> res bytes) : Prop :=
  forall b, decompress (compress b) = Ok b.

(** a cut inside the header never parses as a header (so the reader raises before yielding anything) *)
Theorem C06_cut_in_header : forall compress decompress, codec_ok compress decompress ->
  forall n fuel, (n <= fuel)%nat -> forall sync, length sync = 16%nat -> Forall is_byte sync ->
  forall meta m hf, meta_ok meta -> (m < length (header_bytes meta sync))%nat ->
  forall x, read_header hf (firstn m (header_bytes meta sync)) <> Ok x.
Proof. intros; eapply read_cut_header; eassumption. Qed.
Print Assumptions C06_cut_in_header.

(** a cut at ANY offset m of the block area of ANY well-formed file: the records yielded are a prefix of
    the records of the file (never a foreign, reordered or partial record), the reader ends normally only if
    m is a block boundary, and it does not run out of fuel *)
Theorem C06_truncation : forall compress decompress, codec_ok compress decompress ->
  forall e s n fuel, (n <= fuel)%nat -> forall sync, length sync = 16%nat -> Forall is_byte sync ->
  forall bls m k off, (length bls < k)%nat -> Forall (good_blk compress e s fuel) bls ->
  forall out oc, read_blocks decompress e s fuel k sync (firstn m (flat_map (blk_bytes compress sync) bls)) = (out, oc) ->
    is_prefix_of out (flat_map brecs bls) /\
    (oc = EndOK -> In (off + Nat.min m (length (flat_map (blk_bytes compress sync) bls)))%nat (boundaries compress sync bls off)) /\
    oc <> NoFuel.
Proof.
  intros compress decompress Hc e s n fuel Hf sync Hs Hsb bls m k off Hk Hg out oc H.
  exact (read_cut_blocks compress decompress Hc e s n fuel Hf sync Hs Hsb bls m k off Hk Hg out oc H).
Qed.
Print Assumptions C06_truncation.

(** with the header in front: reading header ++ (cut block area) *)
Theorem C06_truncation_file : forall compress decompress, codec_ok compress decompress ->
  forall e s n fuel, (n <= fuel)%nat -> forall sync, length sync = 16%nat -> Forall is_byte sync ->
  forall meta bls m hf k, meta_ok meta -> (3 <= hf)%nat -> (length bls < k)%nat -> Forall (good_blk compress e s fuel) bls ->
  forall out oc,
  read_container decompress e s fuel hf k (header_bytes meta sync ++ firstn m (flat_map (blk_bytes compress sync) bls)) = (out, oc) ->
    is_prefix_of out (flat_map brecs bls) /\
    (oc = EndOK -> In (Nat.min m (length (flat_map (blk_bytes compress sync) bls))) (boundaries compress sync bls 0)).
Proof.
  intros compress decompress Hc e s n fuel Hf sync Hs Hsb meta bls m hf k Hm Hhf Hk Hg out oc H.
  unfold read_container in H.
  rewrite (read_header_ok compress decompress Hc n fuel Hf sync Hs Hsb meta _ hf Hm Hhf) in H.
  destruct (read_cut_blocks compress decompress Hc e s n fuel Hf sync Hs Hsb bls m k 0%nat Hk Hg out oc H) as (H1 & H2 & _).
  split; [exact H1|exact H2].
Qed.
Print Assumptions C06_truncation_file.

(** any alteration of the trailing marker of a block: the records of the blocks up to and including that
    block are yielded, then the reader raises -- whatever follows *)
Theorem C06_sync : forall compress decompress, codec_ok compress decompress ->
  forall e s n fuel, (n <= fuel)%nat -> forall sync, length sync = 16%nat -> Forall is_byte sync ->
  forall pre b bad post k, (length pre < k)%nat -> Forall (good_blk compress e s fuel) pre -> good_blk compress e s fuel b ->
  length bad = 16%nat -> bad <> sync ->
  read_blocks decompress e s fuel k sync
    (flat_map (blk_bytes compress sync) pre ++ (long_enc (bcount b) ++ enc_bytes (compress (braw b)) ++ bad) ++ post)
  = (flat_map brecs pre ++ brecs b, Raised).
Proof. intros; eapply read_bad_sync; eassumption. Qed.
Print Assumptions C06_sync.

(** decoding any proper prefix of a schemaless encoding (any valid layout) never returns a value *)
Theorem C06_schemaless_prefix : forall n e s l, typedl n e s l ->
  forall p q, wire_l l = p ++ q -> q <> [] -> forall f a' r, dec f e s p <> Ok (a', r).
Proof. exact truncated_never_ok. Qed.
Print Assumptions C06_schemaless_prefix.

(** non-vacuity: a two-block file of longs cut inside the second block's marker, and with the first marker altered *)
Example C06_example :
  let sync := [1;2;3;4;5;6;7;8;9;10;11;12;13;14;15;16] in
  let blocks := block_bytes (fun b => b) sync 2 [2; 4] ++ block_bytes (fun b => b) sync 1 [6] in
  read_blocks Ok [] SLong 5 5 sync (firstn 30 blocks) = ([AInt 1; AInt 2; AInt 3], Raised) /\
  read_blocks Ok [] SLong 5 5 sync (firstn 20 blocks) = ([AInt 1; AInt 2], EndOK) /\
  read_blocks Ok [] SLong 5 5 sync (firstn 21 blocks) = ([AInt 1; AInt 2], Raised) /\
  read_blocks Ok [] SLong 5 5 sync (firstn 3 blocks) = ([], Raised) /\
  read_blocks Ok [] SLong 5 5 sync ([4; 4; 2; 4] ++ [9;2;3;4;5;6;7;8;9;10;11;12;13;14;15;16] ++ skipn 20 blocks) = ([AInt 1; AInt 2], Raised).
Proof. vm_compute. repeat split; reflexivity. Qed.
