(** C08 — reading with a reader schema yields what the specification's resolution rules prescribe.
    Statements only; definitions in model/Resolve.v ([rdec], [rval] = the code; [resolve] = the specification),
    proofs in proofs/ResolveProofs.v. *)
From Coq Require Import String Lia.
From FA Require Import model.Base model.Varint model.Value model.Schema model.Float model.Utf8 model.Codec
                       model.Validate model.Read model.Resolve
                       proofs.VarintProofs proofs.CodecProofs proofs.ResolveProofs.

Open Scope Z_scope.

(** ** C08_factor, first half (ALL writer/reader schema pairs, all options, all valid layouts):
    reading with a reader schema IS "decode one value under the writer schema, then apply the value-level
    algorithm [rval]" and leaves exactly what follows the value on the stream — in particular the stream is
    aligned after every skipped (writer-only) field, whatever its type and block layout. *)
Theorem C08_factor_code : forall n we w l, typedl n we w l ->
  forall f, (n <= f)%nat -> forall re o R x,
  rdec f we re o w R (wire_l l ++ x)%list = lift x (rval f we re o w R (erase l)).
Proof. exact rdec_rval. Qed.
Print Assumptions C08_factor_code.

Theorem C08_factor_code_writer_encoding : forall n we w a, typedn n we w a ->
  forall f, (n <= f)%nat -> forall re o R x,
  rdec f we re o w R (wire a ++ x)%list = lift x (rval f we re o w R a).
Proof. exact rdec_rval_wire. Qed.
Print Assumptions C08_factor_code_writer_encoding.

(** ** C08_factor, second half: inside the agreement zone the value-level algorithm of the code IS the specification.

    FULL statement (false of the faithful model, see the refutations below):
        typedn n we w a -> (n <= f)%nat ->
        rdec f we re ropts0 w (Some r) (wire a ++ x) = lift x (resolve we re w r a)

    Proved ( _partial ): for schemas without by-name references and annotations ([inline]) under the computable side
    condition [agree we re w r] = "every decision the code takes on the way (match_schemas / match_types verdicts, the
    reader-union branch it picks) coincides with the specification's, no int/long -> float promotion, no empty-string enum
    default, reader-only fields have defaults that are already values of their type".  [agree] excludes exactly the
    shapes of the refutations below that can be written without references (F6, kind of a named type not compared,
    unconverted defaults, int -> float, same unqualified name in a union); the three remaining ones (F7, the TypeError,
    references compared by name only) need by-name references.
    MISSING for the full-strength partial theorem: schemas with by-name references / recursive types and dict-form
    primitives (annotations) — for those only C08_factor_code (all inputs) and the correspondence check stand. *)
Theorem C08_factor_zone_partial : forall n we w a, typedn n we w a ->
  forall re r f x, (n <= f)%nat -> inline w = true -> inline r = true -> agree we re w r = true ->
  rdec f we re ropts0 w (Some r) (wire a ++ x)%list = lift x (resolve we re w r a).
Proof. exact rdec_resolve_zone_wire. Qed.
Print Assumptions C08_factor_zone_partial.

(** ... for every valid layout of the value (any block partition) *)
Theorem C08_factor_zone_layout_partial : forall n we w l, typedl n we w l ->
  forall re r f x, (n <= f)%nat -> typedn n we w (erase l) ->
  inline w = true -> inline r = true -> agree we re w r = true ->
  rdec f we re ropts0 w (Some r) (wire_l l ++ x)%list = lift x (resolve we re w r (erase l)).
Proof. exact rdec_resolve_zone. Qed.
Print Assumptions C08_factor_zone_layout_partial.

(** the value-level statement alone *)
Theorem C08_rval_is_resolve_partial : forall n we w a, typedn n we w a -> forall re r f, (n <= f)%nat ->
  inline w = true -> inline r = true -> agree we re w r = true ->
  rval f we re ropts0 w (Some r) a = resolve we re w r a.
Proof. exact rval_resolve. Qed.
Print Assumptions C08_rval_is_resolve_partial.

(** ** C08_identity: with a reader schema equal to the writer schema, the specification returns what reading
    without a reader schema returns ([py_of]).  [wf_ident]: union branches do not capture each other, record
    fields find themselves by name, references resolve to named types. *)
Theorem C08_identity : forall n e s a, typedn n e s a -> wf_ident n e s ->
  exists v, py_of ropts0 e s a = Some v /\ resolve e e s s a = ROk v.
Proof. exact resolve_identity. Qed.
Print Assumptions C08_identity.

(** ... and so does the code inside the zone (reader == writer given as a separate object, container route) *)
Theorem C08_identity_code_partial : forall n e s a, typedn n e s a -> wf_ident n e s ->
  inline s = true -> agree e e s s = true ->
  forall f x, (n <= f)%nat ->
  exists v, py_of ropts0 e s a = Some v /\ rdec f e e ropts0 s (Some s) (wire a ++ x)%list = ROk (v, x).
Proof. exact rdec_identity_zone. Qed.
Print Assumptions C08_identity_code_partial.

(** ** C08_error_*: when no rule applies the specification's result is the resolution error *)
Theorem C08_error_no_default : forall we re w r l wn wal wfs rn ral rfs record tbl1 n fd tbl2,
  deref we w = SRecord wn wal wfs -> reader_side we re (SRecord wn wal wfs) r = Some (SRecord rn ral rfs) ->
  names_match wn rn ral = true ->
  res_fields (resolve we re) rfs wfs l [] = ROk record ->
  field_table rfs = (tbl1 ++ (n, fd) :: tbl2)%list ->
  Forall (fun e => dict_get record (fst e) <> None) tbl1 ->
  dict_get record n = None -> fdefault fd = None ->
  resolve we re w r (ARecord l) = RErrResolution.
Proof. exact error_no_default. Qed.
Print Assumptions C08_error_no_default.

Theorem C08_error_not_promotable : forall we re w r a dr,
  is_prim (deref we w) = true -> fits (deref we w) a = true ->
  reader_side we re (deref we w) r = Some dr -> prim_match true (deref we w) dr = false ->
  resolve we re w r a = RErrResolution.
Proof. exact error_not_promotable. Qed.
Print Assumptions C08_error_not_promotable.

Theorem C08_error_unknown_symbol : forall we re w r i sym wn wal wsyms wd rn ral rsyms,
  deref we w = SEnum wn wal wsyms wd -> reader_side we re (SEnum wn wal wsyms wd) r = Some (SEnum rn ral rsyms None) ->
  nthZ wsyms i = Some sym -> mem sym rsyms = false ->
  resolve we re w r (AEnum i) = RErrResolution.
Proof. exact error_unknown_symbol. Qed.
Print Assumptions C08_error_unknown_symbol.

Theorem C08_enum_default : forall we re w r i sym d wn wal wsyms wd rn ral rsyms,
  deref we w = SEnum wn wal wsyms wd -> reader_side we re (SEnum wn wal wsyms wd) r = Some (SEnum rn ral rsyms (Some d)) ->
  names_match wn rn ral = true -> nthZ wsyms i = Some sym -> mem sym rsyms = false ->
  resolve we re w r (AEnum i) = ROk (PStr d).
Proof. exact enum_default. Qed.
Print Assumptions C08_enum_default.

Theorem C08_error_fixed_size : forall we re w r b wn wal wsz rn ral rsz,
  deref we w = SFixed wn wal wsz -> reader_side we re (SFixed wn wal wsz) r = Some (SFixed rn ral rsz) ->
  wsz <> rsz -> resolve we re w r (AFixed b) = RErrResolution.
Proof. exact error_fixed_size. Qed.
Print Assumptions C08_error_fixed_size.

Theorem C08_error_name_mismatch :
  (forall we re w r b wn wal wsz rn ral rsz,
     deref we w = SFixed wn wal wsz -> reader_side we re (SFixed wn wal wsz) r = Some (SFixed rn ral rsz) ->
     names_match wn rn ral = false -> resolve we re w r (AFixed b) = RErrResolution) /\
  (forall we re w r i wn wal wsyms wd rn ral rsyms rd,
     deref we w = SEnum wn wal wsyms wd -> reader_side we re (SEnum wn wal wsyms wd) r = Some (SEnum rn ral rsyms rd) ->
     names_match wn rn ral = false -> resolve we re w r (AEnum i) = RErrResolution) /\
  (forall we re w r l wn wal wfs rn ral rfs,
     deref we w = SRecord wn wal wfs -> reader_side we re (SRecord wn wal wfs) r = Some (SRecord rn ral rfs) ->
     names_match wn rn ral = false -> resolve we re w r (ARecord l) = RErrResolution).
Proof. split; [exact error_name_mismatch_fixed|split; [exact error_name_mismatch_enum|exact error_name_mismatch_record]]. Qed.
Print Assumptions C08_error_name_mismatch.

Theorem C08_error_kind : forall we re w r a dr,
  is_union (deref we w) = false -> fits (deref we w) a = true ->
  reader_side we re (deref we w) r = Some dr -> same_kind (deref we w) dr = false ->
  resolve we re w r a = RErrResolution.
Proof. exact error_kind. Qed.
Print Assumptions C08_error_kind.

Theorem C08_error_no_branch : forall we re w r a rbs,
  is_union (deref we w) = false -> fits (deref we w) a = true ->
  deref re r = SUnion rbs -> pick_branch we re (deref we w) rbs = None ->
  resolve we re w r a = RErrResolution.
Proof. exact error_no_branch. Qed.
Print Assumptions C08_error_no_branch.

Theorem C08_error_items : forall we re w r l wi ri,
  deref we w = SArray wi -> reader_side we re (SArray wi) r = Some (SArray ri) ->
  smatch we re true wi ri = false -> resolve we re w r (AArray l) = RErrResolution.
Proof. exact error_items. Qed.
Print Assumptions C08_error_items.

(** ** Where the code leaves the specification: the full statement

      C08_factor (FALSE of the faithful model):
        typedn n we w a -> (n <= f)%nat ->
        rdec f we re ropts0 w (Some r) (wire a ++ x) = lift x (resolve we re w r a)

    is refuted by each of the following concrete witnesses (all by computation).  They are the shapes
    [agree] (below, C08_factor_zone) excludes. *)
Theorem C08_refuted_F6 : exists we re w r a n,
  typedn n we w a /\ rdec (n + 2) we re ropts0 w (Some r) (wire a) <> lift [] (resolve we re w r a).
Proof.
  exists [], [], SBytes, f6_r, f6_a, 1%nat. destruct refuted_F6 as (H1 & H2 & H3). split; [exact H1|].
  change (1 + 2)%nat with 3%nat. rewrite H2, H3. discriminate.
Qed.
Print Assumptions C08_refuted_F6.

Theorem C08_refuted_F7 : exists we re w r a n,
  typedn n we w a /\ rdec (n + 2) we re ropts0 w (Some r) (wire a) = RErrResolution /\ exists v, resolve we re w r a = ROk v.
Proof.
  exists f7_we, f7_re, f7_w, f7_r, f7_a, 3%nat. destruct refuted_F7 as (H1 & H2 & H3).
  split; [exact H1|split; [exact H2|eexists; exact H3]].
Qed.
Print Assumptions C08_refuted_F7.

Theorem C08_refuted_ref_vs_union_inline : exists we re w r a n,
  typedn n we w a /\ rdec (n + 2) we re ropts0 w (Some r) (wire a) = RErrOther /\ exists v, resolve we re w r a = ROk v.
Proof.
  exists g1_we, g1_re, g1_w, g1_r, g1_a, 3%nat. destruct refuted_ref_vs_union_inline as (H1 & H2 & H3).
  split; [exact H1|split; [exact H2|eexists; exact H3]].
Qed.
Print Assumptions C08_refuted_ref_vs_union_inline.

Theorem C08_refuted_kind_not_compared :
  (exists we re w r a n, typedn n we w a /\ rdec (n + 3) we re ropts0 w (Some r) (wire a) = RErrOther /\
                         resolve we re w r a = RErrResolution) /\
  (exists we re w r a n v, typedn n we w a /\ rdec (n + 4) we re ropts0 w (Some r) (wire a) = ROk (v, []) /\
                           resolve we re w r a = RErrResolution).
Proof.
  split.
  - eexists _, _, _, _, _, 2%nat. exact refuted_kind_record_enum.
  - eexists _, _, _, _, _, 1%nat, _. exact refuted_kind_fixed_record.
Qed.
Print Assumptions C08_refuted_kind_not_compared.

Theorem C08_refuted_default_unconverted : exists we re w r a n v v',
  typedn n we w a /\ rdec (n + 3) we re ropts0 w (Some r) (wire a) = ROk (v, []) /\ resolve we re w r a = ROk v' /\ v <> v'.
Proof.
  eexists _, _, _, _, _, 2%nat, _, _. destruct refuted_default_bytes as (H1 & H2 & H3).
  split; [exact H1|split; [exact H2|split; [exact H3|discriminate]]].
Qed.
Print Assumptions C08_refuted_default_unconverted.

Theorem C08_refuted_int_to_float : exists z v v',
  typedn 1 [] SInt (AInt z) /\ rdec 3 [] [] ropts0 SInt (Some SFloat) (wire (AInt z)) = ROk (PFloat v, []) /\
  resolve [] [] SInt SFloat (AInt z) = ROk (PFloat v') /\ v <> v'.
Proof.
  eexists 16777217, _, _. destruct refuted_int_to_float as (H1 & H2 & H3).
  split; [exact H1|split; [exact H2|split; [exact H3|discriminate]]].
Qed.
Print Assumptions C08_refuted_int_to_float.

(** reader == writer given as a separate object: the code raises where reading without a reader schema returns a value *)
Theorem C08_refuted_identity : exists e s a n v,
  typedn n e s a /\ py_of ropts0 e s a = Some v /\ resolve e e s s a = ROk v /\
  rdec (n + 2) e e ropts0 s (Some s) (wire a) = RErrResolution.
Proof.
  eexists g5_e, g5_u, g5_v, 3%nat, _. destruct refuted_identity_same_unqualified_name as (H1 & H2 & H3 & H4).
  split; [exact H1|split; [exact H4|split; [exact H3|exact H2]]].
Qed.
Print Assumptions C08_refuted_identity.

Theorem C08_refuted_refs_by_name_only : exists we re w r a n v,
  typedn n we w a /\ rdec (n + 2) we re ropts0 w (Some r) (wire a) = ROk (v, []) /\ resolve we re w r a = RErrResolution.
Proof. eexists _, _, _, _, _, 3%nat, _. exact refuted_refs_by_name_only. Qed.
Print Assumptions C08_refuted_refs_by_name_only.

(** ** Non-vacuity: a non-trivial pair on which the code and the specification agree — fields reordered, one renamed
    with an alias and promoted string -> bytes, a reader-only field with a default, int -> double, a writer-only
    array<string> field ahead of the retained ones (skipped), unqualified-name match R / ns.R, two trailing bytes *)
Example C08_example :
  typedn 3 [(s2b "R", ex_w)] ex_w ex_a /\
  wire ex_a = [4; 2; 120; 4; 121; 121; 0; 6; 6; 104; 195; 169] /\
  rdec 5 [(s2b "R", ex_w)] [(s2b "ns.R", ex_r)] ropts0 ex_w (Some ex_r) (wire ex_a ++ [7; 7])%list = ROk (ex_out, [7; 7]) /\
  resolve [(s2b "R", ex_w)] [(s2b "ns.R", ex_r)] ex_w ex_r ex_a = ROk ex_out.
Proof. exact example_agree. Qed.

Example C08_example_in_zone :
  inline ex_w = true /\ inline ex_r = true /\ agree [(s2b "R", ex_w)] [(s2b "ns.R", ex_r)] ex_w ex_r = true.
Proof. exact example_in_zone. Qed.

(** the witnesses of the refutations are outside the zone ([agree] false, or not [inline]) *)
Example C08_witnesses_outside_zone :
  agree [] [] SBytes f6_r = false /\
  agree [(s2b "R", g2_w)] [(s2b "R", g2_r)] g2_w g2_r = false /\
  agree [(s2b "F", F4)] [(s2b "F", g2b_r)] F4 g2b_r = false /\
  agree [(s2b "R", g3_w)] [(s2b "R", g3_r)] g3_w g3_r = false /\
  agree [] [] SInt SFloat = false /\
  agree g5_e g5_e g5_u g5_u = false /\
  inline f7_w = false /\ inline g1_w = false /\ inline g6_w = false.
Proof. exact witnesses_outside_zone. Qed.
