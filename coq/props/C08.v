(** C08 — reading with a reader schema yields what the specification's resolution rules prescribe.
    Statements only; definitions in model/Resolve.v ([rdec], [rval] = the code; [resolve] = the specification),
    proofs in proofs/ResolveProofs.v. *)
From Coq Require Import String Lia.
From FA Require Import model.Base model.Varint model.Value model.Schema model.Float model.Utf8 model.Codec
                       model.Validate model.Read model.Resolve model.ResolveOld
                       proofs.VarintProofs proofs.CodecProofs proofs.ResolveProofs proofs.ResolveAnnotProofs proofs.ResolveOldProofs.

Open Scope Z_scope.

(** ** C08_factor, first half (ALL writer/reader schema pairs, all options, all valid layouts):
    reading with a reader schema IS "decode one value under the writer schema, then apply the value-level
    algorithm [rval]" and leaves exactly what follows the value on the stream — in particular the stream is
    aligned after every skipped (writer-only) field, whatever its type and block layout. *)
Theorem C08_factor_code : forall n we w l, typedl n we w l ->
  forall f, (n <= f)%nat -> forall re o R x,
  rdec f we re o w R (wire_l l ++ x)%list = lift x (rval f we re o w R (erase l)).
Proof. exact rdec_rval. Qed.
Print Assumptions C08_factor_code.

Theorem C08_factor_code_writer_encoding : forall n we w a, typedn n we w a ->
  forall f, (n <= f)%nat -> forall re o R x,
  rdec f we re o w R (wire a ++ x)%list = lift x (rval f we re o w R a).
Proof. exact rdec_rval_wire. Qed.
Print Assumptions C08_factor_code_writer_encoding.

(** ** C08_factor, second half: the value-level algorithm of the (repaired) code IS the specification.

    FULL statement:
        typedn n we w a -> (n <= f)%nat ->
        rdec f we re ropts0 w (Some r) (wire a ++ x) = lift x (resolve ropts0 we re w r a)

    Proved ( _partial ): for schemas without by-name references, annotations only as dict-form primitives ([inline]), under the computable
    side condition [agree we re w r], which follows the specification's own traversal (the reader branch [spec_idx]
    picks, the pairs that [smatch]) and asks at the pairs reached only for: the reader schema is not the empty union
    (the code takes `[]` for "no reader schema"), a reader enum default is not the empty string (`if default:`), the
    JSON defaults of the reader's fields are well-formed defaults of their types.  That the code's match_schemas /
    match_types verdicts and its choice of a reader-union branch coincide with the specification's is PROVED for
    these schemas (match_inline, reader_branch_idx_spec), as is the consistency of read_record's
    `len(readers_field_dict) > len(record)` guard (guard_always); they are no longer side conditions.
    The full statement was FALSE of the code before the repairs fa4e4ec, 7315827, 0f60141, 7fea917, ea123da:
    see C08_old_code_refuted_* below.
    Schemas with by-name references (recursive types included) are covered by C08_factor_zone_refs_partial below,
    with the same conditions followed through the named-type tables to the depth of the value, and by
    C08_factor_zone_refs_any_height_partial for values of any height (closed-set certificate [agree_all]).
    All zone theorems, the identity and the error lemmas hold for ANY reader options [o] (return_record_name,
    return_named_type and their _override variants): the specification [resolve o] pairs the value read from a writer
    union with the name the reader calls its type by ([wrap_spec]), and the code's wrapping is proved equal to it.
    (Unknown) logicalType annotations on array / map / named-type nodes are transparent: C08_factor_zone_annot_partial,
    C08_factor_zone_refs_annot_partial.  NOT covered: unions that immediately contain unions - no Avro schemas (and no
    union is reached through a reference: C08_no_union_behind_reference); for them C08_factor_code (all inputs) stands. *)
Theorem C08_factor_zone_partial : forall o, forall n we w a, typedn n we w a ->
  forall re r f x, (n <= f)%nat -> inline w = true -> inline r = true -> agree we re w r = true ->
  rdec f we re o w (Some r) (wire a ++ x)%list = lift x (resolve o we re w r a).
Proof. exact rdec_resolve_zone_wire. Qed.
Print Assumptions C08_factor_zone_partial.

(** ... for every valid layout of the value (any block partition) *)
Theorem C08_factor_zone_layout_partial : forall o, forall n we w l, typedl n we w l ->
  forall re r f x, (n <= f)%nat -> typedn n we w (erase l) ->
  inline w = true -> inline r = true -> agree we re w r = true ->
  rdec f we re o w (Some r) (wire_l l ++ x)%list = lift x (resolve o we re w r (erase l)).
Proof. exact rdec_resolve_zone. Qed.
Print Assumptions C08_factor_zone_layout_partial.

(** what used to be side conditions: on inline schemas the code's verdicts and its choice of a reader-union
    branch ARE the specification's, and the guard of read_record never hides a missing reader field *)
Theorem C08_match_is_spec : forall we re w r,
  inline w = true -> inline r = true -> is_union w = false -> is_union r = false ->
  match_top we re w r = if smatch we re true w r then ROk r else RErrResolution.
Proof. exact match_top_spec. Qed.
Print Assumptions C08_match_is_spec.

Theorem C08_branch_choice_is_spec : forall we re f w rbs, (2 * amdepth w + 2 <= f)%nat ->
  inline w = true -> is_union w = false -> inline (SUnion rbs) = true ->
  reader_branch (fun l => match_types f we re l w) rbs = ROk (pick_branch we re w rbs).
Proof.
  intros we re f w rbs Hf Hw Hu Hr.
  rewrite reader_branch_nth, (reader_branch_idx_spec we re f w rbs Hf Hw Hu Hr), pick_branch_idx. reflexivity.
Qed.
Print Assumptions C08_branch_choice_is_spec.

Theorem C08_record_guard_consistent : forall rfs wfs, guard_ok rfs wfs = true.
Proof. exact guard_always. Qed.
Print Assumptions C08_record_guard_consistent.

(** ... with by-name references: [scoped] = every reference resolves to a named type of its table ([env_scoped]: so do
    the references inside the tables), annotations only as dict-form primitives, unions not nested; [agreen k] = the
    conditions of [agree], followed through the tables down to depth k (the height of the value bounds what is visited) *)
Theorem C08_factor_zone_refs_partial : forall o, forall n we w a, typedn n we w a ->
  forall re r k f x, (n <= k)%nat -> (n <= f)%nat ->
  env_scoped we = true -> env_scoped re = true -> scoped we w = true -> scoped re r = true ->
  agreen k we re w r = true ->
  rdec f we re o w (Some r) (wire a ++ x)%list = lift x (resolve o we re w r a).
Proof. exact rdec_resolve_zoneS. Qed.
Print Assumptions C08_factor_zone_refs_partial.

Theorem C08_rval_is_resolve_refs_partial : forall o, forall n we w a, typedn n we w a -> forall re r k f, (n <= k)%nat -> (n <= f)%nat ->
  env_scoped we = true -> env_scoped re = true -> scoped we w = true -> scoped re r = true ->
  agreen k we re w r = true ->
  rval f we re o w (Some r) a = resolve o we re w r a.
Proof. exact rval_resolveS. Qed.
Print Assumptions C08_rval_is_resolve_refs_partial.

(** ... independent of the height of the value: [agreen] is monotone in its depth (checking deeper implies checking less
    deep), and [agree_all] -- a finite set of (writer schema, reader schema) pairs that contains the pair in question,
    every pair of which satisfies the conditions of [agreen] locally and hands only pairs of the set to the next level
    ([closedb]; the set is computed by [reach], a work list over the two schema graphs) -- implies [agreen k] for every k *)
Theorem C08_zone_depth_monotone : forall k k' we re w r, (k <= k')%nat ->
  agreen k' we re w r = true -> agreen k we re w r = true.
Proof. exact agreen_le. Qed.
Print Assumptions C08_zone_depth_monotone.

Theorem C08_zone_closed_set : forall we re S, closedb we re S = true ->
  forall k w r, memp (w, r) S = true -> agreen k we re w r = true.
Proof. exact closed_agreen. Qed.
Print Assumptions C08_zone_closed_set.

Theorem C08_factor_zone_refs_any_height_partial : forall o, forall n we w a, typedn n we w a ->
  forall re r f x, (n <= f)%nat ->
  env_scoped we = true -> env_scoped re = true -> scoped we w = true -> scoped re r = true ->
  agree_all we re w r = true ->
  rdec f we re o w (Some r) (wire a ++ x)%list = lift x (resolve o we re w r a).
Proof. exact rdec_resolve_zoneS_all. Qed.
Print Assumptions C08_factor_zone_refs_any_height_partial.

Theorem C08_rval_is_resolve_refs_any_height_partial : forall o, forall n we w a, typedn n we w a -> forall re r f, (n <= f)%nat ->
  env_scoped we = true -> env_scoped re = true -> scoped we w = true -> scoped re r = true ->
  agree_all we re w r = true ->
  rval f we re o w (Some r) a = resolve o we re w r a.
Proof. exact rval_resolveS_all. Qed.
Print Assumptions C08_rval_is_resolve_refs_any_height_partial.

(** the two exclusions of [scoped] about unions are no restriction on Avro schemas: a reference can only name a record,
    an enum or a fixed type, so no union is ever reached through a reference; and a union that immediately contains a
    union is not an Avro schema (specification, Unions: "Unions may not immediately contain other unions") *)
Theorem C08_no_union_behind_reference : forall e b, env_scoped e = true -> scoped e b = true ->
  is_union b = false -> is_union (deref1 e b) = false.
Proof. exact nonunion_deref1. Qed.
Print Assumptions C08_no_union_behind_reference.

(** the code's verdict and its choice of a reader-union branch are the specification's, references included *)
Theorem C08_match_is_spec_refs : forall we re w r, env_scoped we = true -> env_scoped re = true ->
  scoped we w = true -> scoped re r = true -> is_union (deref1 we w) = false -> is_union (deref1 re r) = false ->
  match_top we re w r = if smatch we re true w r then ROk r else RErrResolution.
Proof. exact match_top_scoped. Qed.
Print Assumptions C08_match_is_spec_refs.

Theorem C08_branch_choice_is_spec_refs : forall we re f w rbs, env_scoped we = true -> env_scoped re = true ->
  (2 * amdepth w + 2 <= f)%nat -> scoped we w = true -> is_union (deref1 we w) = false -> scoped re (SUnion rbs) = true ->
  reader_branch (fun l => match_types f we re l w) rbs = ROk (pick_branch we re w rbs).
Proof.
  intros we re f w rbs Hew Her Hf Hw Hu Hr.
  rewrite reader_branch_nth, (reader_branch_idx_scoped we re f w rbs Hew Her Hf Hw Hu Hr), pick_branch_idx. reflexivity.
Qed.
Print Assumptions C08_branch_choice_is_spec_refs.

(** the value-level statement alone *)
Theorem C08_rval_is_resolve_partial : forall o, forall n we w a, typedn n we w a -> forall re r f, (n <= f)%nat ->
  inline w = true -> inline r = true -> agree we re w r = true ->
  rval f we re o w (Some r) a = resolve o we re w r a.
Proof. exact rval_resolve. Qed.
Print Assumptions C08_rval_is_resolve_partial.

(** ** logicalType annotations on array / map / named-type nodes (unknown logical types; the known ones are C16's).
    The code and the specification do not look at them: [unannot] removes them (annotated primitives stay - they are
    the dict form), and both [rval] and [resolve] give the same result with and without, for ALL schemas, options, fuels
    and values.  Hence both zone theorems hold for annotated schemas, the zone being checked on the unannotated ones. *)
Theorem C08_code_ignores_annotations : forall o f we re w R a,
  rval f (unannot_env we) (unannot_env re) o (unannot w) (option_map unannot R) a = rval f we re o w R a.
Proof. exact rval_U. Qed.
Print Assumptions C08_code_ignores_annotations.

Theorem C08_spec_ignores_annotations : forall o we re a w r,
  resolve o (unannot_env we) (unannot_env re) (unannot w) (unannot r) a = resolve o we re w r a.
Proof. exact resolve_U. Qed.
Print Assumptions C08_spec_ignores_annotations.

Theorem C08_factor_zone_annot_partial : forall o, forall n we w l, typedl n we w l ->
  forall re r f x, (n <= f)%nat -> typedn n we w (erase l) ->
  inline (unannot w) = true -> inline (unannot r) = true ->
  agree (unannot_env we) (unannot_env re) (unannot w) (unannot r) = true ->
  rdec f we re o w (Some r) (wire_l l ++ x)%list = lift x (resolve o we re w r (erase l)).
Proof. exact rdec_resolve_zone_annot_layout. Qed.
Print Assumptions C08_factor_zone_annot_partial.

Theorem C08_factor_zone_refs_annot_partial : forall o, forall n we w l, typedl n we w l ->
  forall re r f x, (n <= f)%nat -> typedn n we w (erase l) ->
  env_scoped (unannot_env we) = true -> env_scoped (unannot_env re) = true ->
  scoped (unannot_env we) (unannot w) = true -> scoped (unannot_env re) (unannot r) = true ->
  agree_all (unannot_env we) (unannot_env re) (unannot w) (unannot r) = true ->
  rdec f we re o w (Some r) (wire_l l ++ x)%list = lift x (resolve o we re w r (erase l)).
Proof. exact rdec_resolve_zoneS_annot_layout. Qed.
Print Assumptions C08_factor_zone_refs_annot_partial.

(** ** C08_identity: with a reader schema equal to the writer schema, the specification returns what reading
    without a reader schema returns ([py_of]).  [wf_ident]: union branches do not capture each other, record
    fields find themselves by name, references resolve to named types. *)
Theorem C08_identity : forall o, forall n e s a, typedn n e s a -> wf_ident n e s ->
  exists v, py_of o e s a = Some v /\ resolve o e e s s a = ROk v.
Proof. exact resolve_identity. Qed.
Print Assumptions C08_identity.

(** ... and so does the code inside the zone (reader == writer given as a separate object, container route) *)
Theorem C08_identity_code_partial : forall o, forall n e s a, typedn n e s a -> wf_ident n e s ->
  inline s = true -> agree e e s s = true ->
  forall f x, (n <= f)%nat ->
  exists v, py_of o e s a = Some v /\ rdec f e e o s (Some s) (wire a ++ x)%list = ROk (v, x).
Proof. exact rdec_identity_zone. Qed.
Print Assumptions C08_identity_code_partial.

(** ... with by-name references (recursive types included): to the depth of the value, and -- [wf_local] / [wf_env]: the
    conditions of [wf_ident] on the schema and on every definition of the table, not followed through references --
    for values of any height *)
Theorem C08_identity_code_refs_partial : forall o, forall n e s a, typedn n e s a -> wf_ident n e s ->
  env_scoped e = true -> scoped e s = true ->
  forall k f x, (n <= k)%nat -> (n <= f)%nat -> agreen k e e s s = true ->
  exists v, py_of o e s a = Some v /\ rdec f e e o s (Some s) (wire a ++ x)%list = ROk (v, x).
Proof. exact rdec_identity_zoneS. Qed.
Print Assumptions C08_identity_code_refs_partial.

Theorem C08_wf_local_is_wf_ident : forall e, wf_env e -> forall n s, wf_local e s -> wf_ident n e s.
Proof. exact wf_local_ident. Qed.
Print Assumptions C08_wf_local_is_wf_ident.

Theorem C08_identity_code_refs_any_height_partial : forall o, forall n e s a, typedn n e s a -> wf_env e -> wf_local e s ->
  env_scoped e = true -> scoped e s = true -> agree_all e e s s = true ->
  forall f x, (n <= f)%nat ->
  exists v, py_of o e s a = Some v /\ rdec f e e o s (Some s) (wire a ++ x)%list = ROk (v, x).
Proof. exact rdec_identity_zoneS_all. Qed.
Print Assumptions C08_identity_code_refs_any_height_partial.

(** ** C08_error_*: when no rule applies the specification's result is the resolution error *)
Theorem C08_error_no_default : forall o, forall we re w r l wn wal wfs rn ral rfs record tbl1 n fd tbl2,
  deref we w = SRecord wn wal wfs -> reader_side we re (SRecord wn wal wfs) r = Some (SRecord rn ral rfs) ->
  names_match wn rn ral = true ->
  res_fields (resolve o we re) rfs wfs l [] = ROk record ->
  field_table rfs = (tbl1 ++ (n, fd) :: tbl2)%list ->
  Forall (fun e => dict_get record (fst e) <> None) tbl1 ->
  dict_get record n = None -> fdefault fd = None ->
  resolve o we re w r (ARecord l) = RErrResolution.
Proof. exact error_no_default. Qed.
Print Assumptions C08_error_no_default.

Theorem C08_error_not_promotable : forall o, forall we re w r a dr,
  is_prim (deref we w) = true -> fits (deref we w) a = true ->
  reader_side we re (deref we w) r = Some dr -> prim_match true (deref we w) dr = false ->
  resolve o we re w r a = RErrResolution.
Proof. exact error_not_promotable. Qed.
Print Assumptions C08_error_not_promotable.

Theorem C08_error_unknown_symbol : forall o, forall we re w r i sym wn wal wsyms wd rn ral rsyms,
  deref we w = SEnum wn wal wsyms wd -> reader_side we re (SEnum wn wal wsyms wd) r = Some (SEnum rn ral rsyms None) ->
  nthZ wsyms i = Some sym -> mem sym rsyms = false ->
  resolve o we re w r (AEnum i) = RErrResolution.
Proof. exact error_unknown_symbol. Qed.
Print Assumptions C08_error_unknown_symbol.

Theorem C08_enum_default : forall o, forall we re w r i sym d wn wal wsyms wd rn ral rsyms,
  deref we w = SEnum wn wal wsyms wd -> reader_side we re (SEnum wn wal wsyms wd) r = Some (SEnum rn ral rsyms (Some d)) ->
  names_match wn rn ral = true -> nthZ wsyms i = Some sym -> mem sym rsyms = false ->
  resolve o we re w r (AEnum i) = ROk (PStr d).
Proof. exact enum_default. Qed.
Print Assumptions C08_enum_default.

Theorem C08_error_fixed_size : forall o, forall we re w r b wn wal wsz rn ral rsz,
  deref we w = SFixed wn wal wsz -> reader_side we re (SFixed wn wal wsz) r = Some (SFixed rn ral rsz) ->
  wsz <> rsz -> resolve o we re w r (AFixed b) = RErrResolution.
Proof. exact error_fixed_size. Qed.
Print Assumptions C08_error_fixed_size.

Theorem C08_error_name_mismatch : forall o,
  (forall we re w r b wn wal wsz rn ral rsz,
     deref we w = SFixed wn wal wsz -> reader_side we re (SFixed wn wal wsz) r = Some (SFixed rn ral rsz) ->
     names_match wn rn ral = false -> resolve o we re w r (AFixed b) = RErrResolution) /\
  (forall we re w r i wn wal wsyms wd rn ral rsyms rd,
     deref we w = SEnum wn wal wsyms wd -> reader_side we re (SEnum wn wal wsyms wd) r = Some (SEnum rn ral rsyms rd) ->
     names_match wn rn ral = false -> resolve o we re w r (AEnum i) = RErrResolution) /\
  (forall we re w r l wn wal wfs rn ral rfs,
     deref we w = SRecord wn wal wfs -> reader_side we re (SRecord wn wal wfs) r = Some (SRecord rn ral rfs) ->
     names_match wn rn ral = false -> resolve o we re w r (ARecord l) = RErrResolution).
Proof. intros o. split; [exact (error_name_mismatch_fixed o)|split; [exact (error_name_mismatch_enum o)|exact (error_name_mismatch_record o)]]. Qed.
Print Assumptions C08_error_name_mismatch.

Theorem C08_error_kind : forall o, forall we re w r a dr,
  is_union (deref we w) = false -> fits (deref we w) a = true ->
  reader_side we re (deref we w) r = Some dr -> same_kind (deref we w) dr = false ->
  resolve o we re w r a = RErrResolution.
Proof. exact error_kind. Qed.
Print Assumptions C08_error_kind.

Theorem C08_error_no_branch : forall o, forall we re w r a rbs,
  is_union (deref we w) = false -> fits (deref we w) a = true ->
  deref re r = SUnion rbs -> pick_branch we re (deref we w) rbs = None ->
  resolve o we re w r a = RErrResolution.
Proof. exact error_no_branch. Qed.
Print Assumptions C08_error_no_branch.

Theorem C08_error_items : forall o, forall we re w r l wi ri,
  deref we w = SArray wi -> reader_side we re (SArray wi) r = Some (SArray ri) ->
  smatch we re true wi ri = false -> resolve o we re w r (AArray l) = RErrResolution.
Proof. exact error_items. Qed.
Print Assumptions C08_error_items.

(** ** The inputs on which the code used to leave the specification.
    [rdec_old] (model/ResolveOld.v) is the code before the repairs; each witness refutes the full statement
    C08_factor for it.  The same inputs are regression cases of the repaired code ([rdec]): it now agrees with
    the specification on every one of them. *)
Theorem C08_old_code_refuted_F6 :
  typedn 1 [] SBytes f6_a /\
  rdec_old 3 [] [] ropts0 SBytes (Some f6_r) (wire f6_a) <> lift [] (resolve ropts0 [] [] SBytes f6_r f6_a) /\
  rdec 3 [] [] ropts0 SBytes (Some f6_r) (wire f6_a) = lift [] (resolve ropts0 [] [] SBytes f6_r f6_a).
Proof.
  destruct fixed_F6 as [H1 H2]. split; [exact typed_F6|]. rewrite old_F6, H1, H2. split; [discriminate|reflexivity].
Qed.
Print Assumptions C08_old_code_refuted_F6.

Theorem C08_old_code_refuted_F7 :
  typedn 3 f7_we f7_w f7_a /\
  rdec_old 5 f7_we f7_re ropts0 f7_w (Some f7_r) (wire f7_a) = RErrResolution /\
  resolve ropts0 f7_we f7_re f7_w f7_r f7_a = ROk f7_out /\
  rdec 5 f7_we f7_re ropts0 f7_w (Some f7_r) (wire f7_a) = ROk (f7_out, []).
Proof. destruct fixed_F7 as [H1 H2]. exact (conj typed_F7 (conj old_F7 (conj H2 H1))). Qed.
Print Assumptions C08_old_code_refuted_F7.

Theorem C08_old_code_refuted_ref_vs_union_inline :
  typedn 3 g1_we g1_w g1_a /\
  rdec_old 5 g1_we g1_re ropts0 g1_w (Some g1_r) (wire g1_a) = RErrOther /\
  resolve ropts0 g1_we g1_re g1_w g1_r g1_a = ROk g1_out /\
  rdec 5 g1_we g1_re ropts0 g1_w (Some g1_r) (wire g1_a) = ROk (g1_out, []).
Proof. destruct fixed_ref_vs_union_inline as [H1 H2]. exact (conj typed_g1 (conj old_ref_vs_union_inline (conj H2 H1))). Qed.
Print Assumptions C08_old_code_refuted_ref_vs_union_inline.

Theorem C08_old_code_refuted_kind_not_compared :
  typedn 2 [(s2b "R", g2_w)] g2_w (ARecord [AInt 1]) /\ typedn 1 [(s2b "F", F4)] F4 (AFixed [1; 2; 3; 4]) /\
  (rdec_old 5 [(s2b "R", g2_w)] [(s2b "R", g2_r)] ropts0 g2_w (Some g2_r) (wire (ARecord [AInt 1])) = RErrOther /\
   rdec_old 5 [(s2b "F", F4)] [(s2b "F", g2b_r)] ropts0 F4 (Some g2b_r) (wire (AFixed [1; 2; 3; 4])) = ROk (PBytes [1; 2; 3; 4], [])) /\
  (rdec 5 [(s2b "R", g2_w)] [(s2b "R", g2_r)] ropts0 g2_w (Some g2_r) (wire (ARecord [AInt 1])) = RErrResolution /\
   resolve ropts0 [(s2b "R", g2_w)] [(s2b "R", g2_r)] g2_w g2_r (ARecord [AInt 1]) = RErrResolution /\
   rdec 5 [(s2b "F", F4)] [(s2b "F", g2b_r)] ropts0 F4 (Some g2b_r) (wire (AFixed [1; 2; 3; 4])) = RErrResolution /\
   resolve ropts0 [(s2b "F", F4)] [(s2b "F", g2b_r)] F4 g2b_r (AFixed [1; 2; 3; 4]) = RErrResolution).
Proof. exact (conj typed_g2 (conj typed_g2b (conj old_kind fixed_kind))). Qed.
Print Assumptions C08_old_code_refuted_kind_not_compared.

Theorem C08_old_code_refuted_default_unconverted :
  typedn 2 [(s2b "R", g3_w)] g3_w (ARecord [AInt 1]) /\
  rdec_old 5 [(s2b "R", g3_w)] [(s2b "R", g3_r)] ropts0 g3_w (Some g3_r) (wire (ARecord [AInt 1]))
    = ROk (PDict [(PStr (s2b "x"), PInt 1); (PStr (s2b "b"), PStr [195; 191])], []) /\
  rdec 5 [(s2b "R", g3_w)] [(s2b "R", g3_r)] ropts0 g3_w (Some g3_r) (wire (ARecord [AInt 1])) = ROk (g3_out, []) /\
  resolve ropts0 [(s2b "R", g3_w)] [(s2b "R", g3_r)] g3_w g3_r (ARecord [AInt 1]) = ROk g3_out.
Proof. exact (conj typed_g3 (conj old_default_bytes fixed_default_bytes)). Qed.
Print Assumptions C08_old_code_refuted_default_unconverted.

Theorem C08_old_code_refuted_int_to_float :
  typedn 1 [] SInt (AInt 16777217) /\
  rdec_old 3 [] [] ropts0 SInt (Some SFloat) (wire (AInt 16777217)) = ROk (PFloat 4715268810125344768, []) /\
  rdec 3 [] [] ropts0 SInt (Some SFloat) (wire (AInt 16777217)) = ROk (PFloat 4715268809856909312, []) /\
  resolve ropts0 [] [] SInt SFloat (AInt 16777217) = ROk (PFloat 4715268809856909312).
Proof. exact (conj typed_g4 (conj old_int_to_float fixed_int_to_float)). Qed.
Print Assumptions C08_old_code_refuted_int_to_float.

(** reader == writer given as a separate object *)
Theorem C08_old_code_refuted_identity :
  typedn 3 g5_e g5_u g5_v /\
  rdec_old 5 g5_e g5_e ropts0 g5_u (Some g5_u) (wire g5_v) = RErrResolution /\
  rdec 5 g5_e g5_e ropts0 g5_u (Some g5_u) (wire g5_v) = ROk (g5_out, []) /\
  resolve ropts0 g5_e g5_e g5_u g5_u g5_v = ROk g5_out /\
  py_of ropts0 g5_e g5_u g5_v = Some g5_out.
Proof. exact (conj typed_g5 (conj old_identity_same_unqualified_name fixed_identity_same_unqualified_name)). Qed.
Print Assumptions C08_old_code_refuted_identity.

Theorem C08_old_code_refuted_refs_by_name_only :
  typedn 3 [(s2b "R", g6_w); (s2b "F", F4)] g6_w g6_a /\
  rdec_old 5 [(s2b "R", g6_w); (s2b "F", F4)] [(s2b "R", g6_r); (s2b "F", F5)] ropts0 g6_w (Some g6_r) (wire g6_a)
    = ROk (PDict [(PStr (s2b "u"), PNone); (PStr (s2b "xs"), PList [])], []) /\
  rdec 5 [(s2b "R", g6_w); (s2b "F", F4)] [(s2b "R", g6_r); (s2b "F", F5)] ropts0 g6_w (Some g6_r) (wire g6_a) = RErrResolution /\
  resolve ropts0 [(s2b "R", g6_w); (s2b "F", F4)] [(s2b "R", g6_r); (s2b "F", F5)] g6_w g6_r g6_a = RErrResolution.
Proof. exact (conj typed_g6 (conj old_refs_by_name_only fixed_refs_by_name_only)). Qed.
Print Assumptions C08_old_code_refuted_refs_by_name_only.

(** ** Non-vacuity: a non-trivial pair on which the code and the specification agree — fields reordered, one renamed
    with an alias and promoted string -> bytes, a reader-only field with a default, int -> double, a writer-only
    array<string> field ahead of the retained ones (skipped), unqualified-name match R / ns.R, two trailing bytes *)
Example C08_example :
  typedn 3 [(s2b "R", ex_w)] ex_w ex_a /\
  wire ex_a = [4; 2; 120; 4; 121; 121; 0; 6; 6; 104; 195; 169] /\
  rdec 5 [(s2b "R", ex_w)] [(s2b "ns.R", ex_r)] ropts0 ex_w (Some ex_r) (wire ex_a ++ [7; 7])%list = ROk (ex_out, [7; 7]) /\
  resolve ropts0 [(s2b "R", ex_w)] [(s2b "ns.R", ex_r)] ex_w ex_r ex_a = ROk ex_out.
Proof. exact example_agree. Qed.

Example C08_example_in_zone :
  inline ex_w = true /\ inline ex_r = true /\ agree [(s2b "R", ex_w)] [(s2b "ns.R", ex_r)] ex_w ex_r = true.
Proof. exact example_in_zone. Qed.

(** the witnesses without by-name references are inside the zone now *)
Example C08_witnesses_in_zone :
  agree [] [] SBytes f6_r = true /\
  agree [(s2b "R", g2_w)] [(s2b "R", g2_r)] g2_w g2_r = true /\
  agree [(s2b "F", F4)] [(s2b "F", g2b_r)] F4 g2b_r = true /\
  agree [(s2b "R", g3_w)] [(s2b "R", g3_r)] g3_w g3_r = true /\
  agree [] [] SInt SFloat = true /\
  agree g5_e g5_e g5_u g5_u = true.
Proof. exact witnesses_in_zone. Qed.

(** the two witnesses with by-name references (F7, reference against a union with the inline definition) are inside
    the zone with references *)
Example C08_ref_witnesses_in_zone :
  (env_scoped f7_we && env_scoped f7_re && scoped f7_we f7_w && scoped f7_re f7_r && agreen 6 f7_we f7_re f7_w f7_r = true) /\
  (env_scoped g1_we && env_scoped g1_re && scoped g1_we g1_w && scoped g1_re g1_r && agreen 6 g1_we g1_re g1_w g1_r = true).
Proof. exact ref_witnesses_in_zone. Qed.

(** a recursive type (a linked list; the reader promotes the payload, reorders the fields and adds one with a default):
    inside the zone with references at every depth, so a list of ANY length is read as the specification says -- also
    with reader == writer; a list of three nodes by computation *)
Example C08_linked_list_in_zone :
  env_scoped ll_we && env_scoped ll_re && scoped ll_we ll_w && scoped ll_re ll_r && agree_all ll_we ll_re ll_w ll_r = true /\
  env_scoped ll_we && scoped ll_we ll_w && agree_all ll_we ll_we ll_w ll_w = true.
Proof. exact ll_in_zone. Qed.

Example C08_linked_list_any_length : forall o n a, typedn n ll_we ll_w a -> forall f x, (n <= f)%nat ->
  rdec f ll_we ll_re o ll_w (Some ll_r) (wire a ++ x)%list = lift x (resolve o ll_we ll_re ll_w ll_r a).
Proof. exact ll_any_length. Qed.

Example C08_linked_list_identity : forall o n a, typedn n ll_we ll_w a -> forall f x, (n <= f)%nat ->
  exists v, py_of o ll_we ll_w a = Some v /\ rdec f ll_we ll_we o ll_w (Some ll_w) (wire a ++ x)%list = ROk (v, x).
Proof.
  intros o n a Ht f x Hf. destruct ll_wf as [He Hl]. destruct ll_in_zone as [_ H].
  repeat (apply andb_prop in H as [H ?]).
  apply (rdec_identity_zoneS_all o n ll_we ll_w a Ht He Hl); assumption.
Qed.

Example C08_linked_list_three :
  rdec 12 ll_we ll_re ropts0 ll_w (Some ll_r) (wire ll_a) = ROk (ll_node 1 (ll_node 2 (ll_node 3 PNone)), []).
Proof. exact ll_three. Qed.

(** annotations on a record, on its array field, on the array's item type (a fixed, referred to by name afterwards) and on
    a reader-only map field: outside the zones as such, inside once the annotations are removed; so every value is read
    as the specification says; one value by computation *)
Example C08_annotated_in_zone :
  (scoped an_we an_w = false /\ inline an_w = false) /\
  env_scoped (unannot_env an_we) && env_scoped (unannot_env an_re) && scoped (unannot_env an_we) (unannot an_w)
  && scoped (unannot_env an_re) (unannot an_r) && agree_all (unannot_env an_we) (unannot_env an_re) (unannot an_w) (unannot an_r) = true.
Proof. split; [exact an_not_in_plain_zone|exact an_in_zone]. Qed.

Example C08_annotated_any_value : forall o n a, typedn n an_we an_w a -> forall f x, (n <= f)%nat ->
  rdec f an_we an_re o an_w (Some an_r) (wire a ++ x)%list = lift x (resolve o an_we an_re an_w an_r a).
Proof. exact an_any_value. Qed.

Example C08_annotated_example :
  rdec 8 an_we an_re ropts0 an_w (Some an_r) (wire an_a) = ROk (an_out, []) /\
  resolve ropts0 an_we an_re an_w an_r an_a = ROk an_out.
Proof. exact an_example. Qed.
