(** What holds and what does not hold of prepare_fixed_decimal as it was before the repair eff0ba2
    (model/LogicalOld.v): the partial statements, and the two refutations of the full statements
    (negative overflow = F2, negative zero = F2b). *)
From Coq Require Import ZArith List Bool Lia ZifyBool.
From FA Require Import model.Base model.Logical model.LogicalOld proofs.LogicalProofs.
Ltac Zify.zify_post_hook ::= Z.to_euclidean_division_equations.
Open Scope Z_scope.

Lemma prepare_fixed_old_unfold precision scale size sign ds exp :
  len ds <= precision -> 0 <= exp + scale ->
  prepare_fixed_decimal_old precision scale size sign ds exp = Ok (fixed_core size sign (unscaled scale ds exp)).
Proof.
  intros Hp Hs. unfold prepare_fixed_decimal_old.
  destruct (len ds >? precision) eqn:E1; [lia|].
  destruct (- exp >? scale) eqn:E2; [lia|].
  cbv zeta. rewrite fixed_unscaled by lia. reflexivity.
Qed.

Lemma prepare_fixed_old_errs precision scale size sign ds exp :
  (precision < len ds -> prepare_fixed_decimal_old precision scale size sign ds exp = Err) /\
  (exp + scale < 0 -> prepare_fixed_decimal_old precision scale size sign ds exp = Err).
Proof.
  split; intros H; unfold prepare_fixed_decimal_old.
  - destruct (len ds >? precision) eqn:E1; [reflexivity|lia].
  - destruct (len ds >? precision) eqn:E1; [reflexivity|].
    destruct (- exp >? scale) eqn:E2; [reflexivity|lia].
Qed.

(** **** what does hold of the old code *)
Theorem decimal_fixed_old_partial precision scale size sign ds exp :
  Forall is_digit ds -> 0 <= size ->
  let u := unscaled scale ds exp in
  let su := signed sign u in
  (len ds <= precision -> 0 <= exp + scale -> fits size su -> (sign = false \/ u <> 0) ->
     exists bs, write_fixed_decimal_old precision scale size sign ds exp = Ok bs /\ fixed_encoding size su bs) /\
  (len ds <= precision -> 0 <= exp + scale -> ~ fits size su -> sign = false ->
     write_fixed_decimal_old precision scale size sign ds exp = Err) /\
  (precision < len ds -> write_fixed_decimal_old precision scale size sign ds exp = Err) /\
  (exp + scale < 0 -> write_fixed_decimal_old precision scale size sign ds exp = Err).
Proof.
  intros Hd Hsz u su. pose proof (unscaled_nonneg scale ds exp Hd) as Hu. fold u in Hu.
  unfold write_fixed_decimal_old.
  split; [|split; [|split]].
  - intros Hp Hs Hf Hsign. rewrite prepare_fixed_old_unfold by assumption. fold u. cbn [bind].
    assert (Hlt : u < 2 ^ (8 * size - 1)) by (unfold fits, su, signed in Hf; destruct sign; lia).
    apply (bits_req_fits size u Hu) in Hlt.
    exists (be_loop (Z.to_nat size) su).
    assert (C : fixed_core size sign u = be_loop (Z.to_nat size) su).
    { unfold su, signed. destruct sign.
      - apply fixed_core_neg_fits; [destruct Hsign; [discriminate|lia]|lia].
      - apply fixed_core_pos_fits; lia. }
    rewrite C. pose proof (fixed_encoding_be_loop size su Hsz Hf) as F.
    split; [apply write_fixed_ok, F|exact F].
  - intros Hp Hs Hf ->. rewrite prepare_fixed_old_unfold by assumption. fold u. cbn [bind].
    assert (Hge : ~ u < 2 ^ (8 * size - 1)) by (unfold fits, su, signed in Hf; lia).
    rewrite <- (bits_req_fits size u Hu) in Hge.
    apply write_fixed_err. pose proof (fixed_core_pos_overflow size u Hsz Hu ltac:(lia)). lia.
  - intros H. rewrite (proj1 (prepare_fixed_old_errs precision scale size sign ds exp) H). reflexivity.
  - intros H. rewrite (proj2 (prepare_fixed_old_errs precision scale size sign ds exp) H). reflexivity.
Qed.

(** **** what does not hold of the old code (F2 and negative zero) *)
Theorem decimal_fixed_old_refuted_overflow :
  exists precision scale size sign ds exp bs,
    Forall is_digit ds /\ len ds <= precision /\ 0 <= exp + scale /\
    10 ^ precision <= 2 ^ (8 * size - 1) /\                       (* schema accepted by parse_schema *)
    ~ fits size (signed sign (unscaled scale ds exp)) /\           (* value does not fit *)
    write_fixed_decimal_old precision scale size sign ds exp = Ok bs /\ (* no error *)
    from_be_signed bs <> signed sign (unscaled scale ds exp) /\    (* a different number is stored *)
    read_decimal precision scale bs = Ok (12, -2).                 (* Decimal("-5") comes back as 0.12 *)
Proof.
  exists 2, 2, 1, true, [5], 0, [12].
  split; [repeat constructor; unfold is_digit; lia|].
  vm_compute. repeat split; try discriminate; intros [H1 H2]; discriminate.
Qed.

Theorem decimal_fixed_old_refuted_negzero :
  exists precision scale size sign ds exp bs,
    Forall is_digit ds /\ len ds <= precision /\ 0 <= exp + scale /\
    10 ^ precision <= 2 ^ (8 * size - 1) /\
    fits size (signed sign (unscaled scale ds exp)) /\             (* the value, zero, fits *)
    write_fixed_decimal_old precision scale size sign ds exp = Ok bs /\
    from_be_signed bs <> signed sign (unscaled scale ds exp) /\
    read_decimal precision scale bs = Ok (-2, -2).                 (* Decimal("-0") comes back as -0.02 *)
Proof.
  exists 4, 2, 2, true, [0], 0, [255; 254].
  split; [repeat constructor; unfold is_digit; lia|].
  vm_compute. repeat split; try discriminate.
Qed.

Theorem fixed_never_altered_old_partial precision scale size sign ds exp bs :
  Forall is_digit ds -> 1 <= precision -> 0 <= size ->
  (sign = false \/ (unscaled scale ds exp <> 0 /\ fits size (signed sign (unscaled scale ds exp)))) ->
  write_fixed_decimal_old precision scale size sign ds exp = Ok bs ->
  len ds <= precision /\ 0 <= exp + scale /\ fits size (signed sign (unscaled scale ds exp)) /\ len bs = size /\
  exists d, read_decimal precision scale bs = Ok d /\ dec_eq d (dec_of_tuple sign ds exp).
Proof.
  intros Hd Hp Hsz Hc W.
  destruct (decimal_fixed_old_partial precision scale size sign ds exp Hd Hsz) as (A & B & C & D).
  destruct (Z_lt_le_dec precision (len ds)) as [L|L]; [rewrite (C L) in W; discriminate|].
  destruct (Z_lt_le_dec (exp + scale) 0) as [L2|L2]; [rewrite (D L2) in W; discriminate|].
  assert (F : fits size (signed sign (unscaled scale ds exp))).
  { destruct Hc as [->|[_ F]]; [|exact F].
    destruct (Z_lt_le_dec (- 2 ^ (8 * size - 1)) (signed false (unscaled scale ds exp))) as [F1|F1];
    [destruct (Z_lt_le_dec (signed false (unscaled scale ds exp)) (2 ^ (8 * size - 1))) as [F2|F2]|].
    - unfold fits; lia.
    - rewrite (B L L2) in W; [discriminate|unfold fits; lia|reflexivity].
    - rewrite (B L L2) in W; [discriminate|unfold fits; lia|reflexivity]. }
  assert (Hs' : sign = false \/ unscaled scale ds exp <> 0) by (destruct Hc as [?|[? _]]; auto).
  destruct (A L L2 F Hs') as (bs' & W' & E1 & E2 & E3 & E4). rewrite W' in W. injection W as <-.
  split; [exact L|]. split; [exact L2|]. split; [exact F|]. split; [exact E2|].
  apply read_back; assumption.
Qed.

