(** The parser is idempotent on its own (unmarked) output: parsed again in the same state, the
    parser's output is accepted and gives the same output and the same dictionary. *)
From Coq Require Import String Ascii Lia.
From FA Require Import model.Base model.Json model.Parse model.SchemaSpec model.Inline model.Canon model.Pout model.Repo model.Piecewise
     proofs.JsonProofs proofs.ParseProofs proofs.AcceptProofs proofs.CanonProofs proofs.InlineProofs
     proofs.PiecewiseProofs proofs.PoutProofs proofs.PiecewiseInlineProofs proofs.FixedPointProofs.
Open Scope string_scope.

(** ---- the dict every branch starts from, recomputed from the output ---- *)
Lemma base_of_jset k v kv ty :
  mem k RESERVED_PROPERTIES = true -> String.eqb "doc" k = false -> base_of (jset k v kv) ty = base_of kv ty.
Proof. exact (pbase_jset k v kv ty). Qed.

Lemma base_of_keep full ns kv ty : base_of (keep_null_ns full ns kv) ty = base_of kv ty.
Proof. unfold keep_null_ns. destruct (_ && _); [now apply base_of_jset|reflexivity]. Qed.

Lemma jget_doc_base kv ty : jget "doc" (base_of kv ty) = jget "doc" kv.
Proof.
  unfold base_of, copy_prop. destruct (jget "doc" kv) as [v|] eqn:D; [apply jget_jset_eq|].
  rewrite jget_jset_neq by reflexivity. now apply jget_jdrop_in.
Qed.

Lemma jdrop_base kv ty : jdrop RESERVED_PROPERTIES (base_of kv ty) = jdrop RESERVED_PROPERTIES kv.
Proof.
  unfold base_of, copy_prop. destruct (jget "doc" kv); repeat rewrite jdrop_jset_in by reflexivity; apply jdrop_idem.
Qed.

Lemma base_of_idem kv ty : base_of (base_of kv ty) ty = base_of kv ty.
Proof.
  unfold base_of at 1. unfold copy_prop. rewrite jget_doc_base, jdrop_base. reflexivity.
Qed.

(* what the re-parse reads from an output dict: it only has to agree on these *)
Lemma base_of_out kv ty X :
  jdrop RESERVED_PROPERTIES X = jdrop RESERVED_PROPERTIES kv -> jget "doc" X = jget "doc" kv -> base_of X ty = base_of kv ty.
Proof. intros A B. unfold base_of, copy_prop. now rewrite A, B. Qed.

Lemma schema_name_out kv ns ns' full X :
  schema_name kv ns = POk (ns', full) -> jget "name" X = Some (JStr full) -> jget "namespace" X = kept_namespace ns full ->
  schema_name X ns = POk (ns', full).
Proof.
  intros SN N S. apply schema_name_spec in SN. destruct SN as (-> & -> & _).
  destruct (names_rel ns kv) as [R1 R2].
  unfold schema_name. rewrite N, S. unfold kept_namespace.
  destruct (has_dot (spec_fullname ns kv)) eqn:D.
  - now rewrite (R1 eq_refl).
  - rewrite (R2 eq_refl). rewrite Bool.andb_true_r. destruct (String.eqb ns "") eqn:E; cbn [negb].
    + apply String.eqb_eq in E. subst ns. reflexivity.
    + reflexivity.
Qed.

(** ---- fields ---- *)
Lemma copy_prop_get_same k src dst : jget k dst = None -> jget k (copy_prop k src dst) = jget k src.
Proof. intros N. unfold copy_prop. destruct (jget k src) eqn:E; [apply jget_jset_eq|exact N]. Qed.

Lemma fbase_get k fkv : mem k ["default"; "aliases"; "doc"] = true -> jget k (fbase fkv) = jget k fkv.
Proof.
  intros M. unfold fbase.
  assert (D : forall k', mem k' RESERVED_FIELD_PROPERTIES = true -> jget k' (jdrop RESERVED_FIELD_PROPERTIES fkv) = None)
    by (intros; now apply jget_jdrop_in).
  cbn [mem existsb] in M. repeat rewrite Bool.orb_true_iff in M. destruct M as [M|[M|[M|M]]]; try discriminate M;
    apply String.eqb_eq in M; subst k.
  - rewrite !copy_prop_get by reflexivity. apply copy_prop_get_same. now apply D.
  - rewrite copy_prop_get by reflexivity. apply copy_prop_get_same. rewrite copy_prop_get by reflexivity. now apply D.
  - apply copy_prop_get_same. rewrite !copy_prop_get by reflexivity. now apply D.
Qed.

Lemma jdrop_copy ex k src dst : mem k ex = true -> jdrop ex (copy_prop k src dst) = jdrop ex dst.
Proof. intros M. unfold copy_prop. destruct (jget k src); [now apply jdrop_jset_in|reflexivity]. Qed.

Lemma jdrop_fbase fkv : jdrop RESERVED_FIELD_PROPERTIES (fbase fkv) = jdrop RESERVED_FIELD_PROPERTIES fkv.
Proof. unfold fbase. rewrite !jdrop_copy by reflexivity. apply jdrop_idem. Qed.

Lemma fbase_out fkv X :
  jdrop RESERVED_FIELD_PROPERTIES X = jdrop RESERVED_FIELD_PROPERTIES fkv ->
  (forall k, mem k ["default"; "aliases"; "doc"] = true -> jget k X = jget k fkv) -> fbase X = fbase fkv.
Proof. intros A B. unfold fbase, copy_prop. rewrite A, !B by reflexivity. reflexivity. Qed.

(* the field dict the parser writes *)
Definition fout (nm p : json) (fkv : list (string * json)) : list (string * json) := jset "type" p (jset "name" nm (fbase fkv)).

Lemma fout_facts nm p fkv :
  jget "name" (fout nm p fkv) = Some nm /\ jget "type" (fout nm p fkv) = Some p /\
  jget "default" (fout nm p fkv) = jget "default" fkv /\ fbase (fout nm p fkv) = fbase fkv.
Proof.
  unfold fout. repeat split.
  - rewrite jget_jset_neq by reflexivity. apply jget_jset_eq.
  - apply jget_jset_eq.
  - rewrite !jget_jset_neq by reflexivity. now apply fbase_get.
  - apply fbase_out.
    + rewrite !jdrop_jset_in by reflexivity. apply jdrop_fbase.
    + intros k M. assert (N1 : String.eqb k "type" = false /\ String.eqb k "name" = false).
      { cbn [mem existsb] in M. repeat rewrite Bool.orb_true_iff in M. destruct M as [M|[M|[M|M]]]; try discriminate M;
          apply String.eqb_eq in M; subst k; split; reflexivity. }
      destruct N1 as [N1 N2]. rewrite !jget_jset_neq by assumption. now apply fbase_get.
Qed.

(** ---- dict nodes that do not recurse: the computation only reads these ---- *)
Lemma decimal_same P X kv t :
  (String.eqb t "fixed" = true -> jget "size" X = jget "size" kv) ->
  decimal_checks P X (JStr t) = decimal_checks P kv (JStr t).
Proof.
  intros H. unfold decimal_checks. destruct (String.eqb t "fixed") eqn:E; [rewrite (H eq_refl)|]; reflexivity.
Qed.

Lemma validate_same X kv :
  jget "symbols" X = jget "symbols" kv -> jget "default" X = jget "default" kv ->
  validate_enum_symbols X = validate_enum_symbols kv.
Proof. intros A B. unfold validate_enum_symbols. now rewrite A, B. Qed.

Lemma parse_dict_congr rec X kv t ns wh st d :
  jget "type" X = Some (JStr t) -> jget "type" kv = Some (JStr t) ->
  String.eqb t "array" = false -> String.eqb t "map" = false -> (String.eqb t "record" || String.eqb t "error") = false ->
  base_of X (JStr t) = base_of kv (JStr t) ->
  (String.eqb t "fixed" = true -> jget "size" X = jget "size" kv) ->
  (String.eqb t "enum" = true -> jget "symbols" X = jget "symbols" kv /\ jget "default" X = jget "default" kv) ->
  (String.eqb t "enum" || String.eqb t "fixed" = true -> schema_name X ns = schema_name kv ns) ->
  parse_dict rec X ns wh st d = parse_dict rec kv ns wh st d.
Proof.
  intros T1 T2 E1 E2 E3 B SZ SY SN. unfold parse_dict. rewrite T1, T2.
  fold (base_of X (JStr t)). fold (base_of kv (JStr t)). rewrite B, (decimal_same _ X kv t SZ).
  rewrite E1, E2, E3.
  destruct (String.eqb t "enum") eqn:E4.
  { destruct (SY eq_refl) as [S1 S2]. rewrite (SN eq_refl), S1, (validate_same _ _ S1 S2). reflexivity. }
  destruct (String.eqb t "fixed") eqn:E5; [|reflexivity].
  rewrite (SN eq_refl), (SZ eq_refl). reflexivity.
Qed.

Lemma jget_custom_base k kv ty :
  mem k RESERVED_PROPERTIES = false -> jget k (base_of kv ty) = jget k kv.
Proof.
  intros M. unfold base_of. assert (N1 : String.eqb k "doc" = false /\ String.eqb k "type" = false).
  { split; destruct (String.eqb_spec k "doc"), (String.eqb_spec k "type"); subst; try reflexivity; discriminate M. }
  destruct N1 as [N1 N2]. rewrite copy_prop_get by exact N1. rewrite jget_jset_neq by exact N2. now apply jget_jdrop_out.
Qed.

Definition idem_spec (rec : recfun) : Prop :=
  forall j ns st d p st', rec j ns false st d = POk (p, st') -> rec p ns false st d = POk (p, st').

Section IdemStep.
  Variable rec : recfun.
  Hypothesis IH : idem_spec rec.

  Lemma members_idem ns l st ps st' : members_ok rec ns l st ps st' -> parse_members rec ns ps st = POk (ps, st').
  Proof.
    induction 1 as [st|s r st p st1 ps st2 R M IHM]; [reflexivity|].
    cbn [parse_members]. rewrite (IH _ _ _ _ _ _ R). cbn [pbind]. now rewrite IHM.
  Qed.

  Lemma field_idem ns fd st p st' : field_ok rec ns fd st p st' -> parse_field rec ns fd st = POk (p, st') ->
    parse_field rec ns p st = POk (p, st').
  Proof.
    intros F H0. destruct F as [fkv nm ty st p st1 N T R].
    change (JObj (jset "type" p (jset "name" nm (copy_prop "doc" fkv (copy_prop "aliases" fkv (copy_prop "default" fkv (jdrop RESERVED_FIELD_PROPERTIES fkv)))))))
      with (JObj (fout nm p fkv)) in *.
    destruct (fout_facts nm p fkv) as (F1 & F2 & F3 & F4).
    unfold parse_field in *. fold (fbase (fout nm p fkv)). fold (fbase fkv) in H0. rewrite F4, F1, F2, F3.
    rewrite N, T, R in H0. cbn [pbind] in H0.
    destruct (match jget "aliases" (fbase fkv) with None => POk tt | Some (JArr _) => POk tt | Some _ => PErrParse end) as [u| | | |];
      cbn [pbind] in *; try discriminate H0.
    rewrite (IH _ _ _ _ _ _ R). cbn [pbind]. unfold fout. reflexivity.
  Qed.

  Lemma fields_idem ns l : forall st ps st', parse_fields rec ns l st = POk (ps, st') -> parse_fields rec ns ps st = POk (ps, st').
  Proof.
    induction l as [|fd r IHl]; intros st ps st' H; cbn [parse_fields] in H.
    - injection H as <- <-. reflexivity.
    - destruct (parse_field rec ns fd st) as [[p st1]| | | |] eqn:E1; cbn [pbind] in H; try discriminate H.
      destruct (parse_fields rec ns r st1) as [[ps2 st2]| | | |] eqn:E2; cbn [pbind] in H; try discriminate H.
      injection H as <- <-. cbn [parse_fields]. rewrite (field_idem _ _ _ _ _ (parse_field_inv _ _ _ _ _ _ E1) E1). cbn [pbind].
      now rewrite (IHl _ _ _ E2).
  Qed.

  Lemma qualify_idem ns s : qualify ns (qualify ns s) = qualify ns s.
  Proof. rewrite !qualify_spec. apply FixedPointProofs.spec_ref_idem. Qed.

  Lemma node_idem : idem_spec (parse_node rec).
  Proof.
    intros j ns st d p st' H. pose proof H as H0. apply parse_node_inv in H.
    inversion H as [s ns0 wh st0 d0 P|s ns0 wh st0 d0 P J|l ns0 wh st0 d0 ps st0' M|kv t ns0 wh st0 d0 T P
                   |kv it ns0 wh st0 d0 p0 st0' T I R|kv it ns0 wh st0 d0 p0 st0' T I R
                   |kv ns0 wh st0 d0 ns' full syms ss T SN D SY SS ND parsed
                   |kv ns0 wh st0 d0 ns' full sz T SN D SZ parsed
                   |kv t ns0 wh st0 d0 ns' full fl fs st3 T TT SN D FL FS reckv]; subst.
    - exact H0.
    - cbn [parse_node] in *. rewrite P, J in H0. rewrite (qualify_nonprim _ _ P), qualify_idem, J. exact H0.
    - cbn [parse_node] in *. rewrite (members_idem _ _ _ _ _ M). apply parse_members_inv' in H0 || idtac.
      destruct (parse_members rec ns l st) as [[ps' st1]| | | |] eqn:E; cbn [pbind] in H0; try discriminate H0.
      pose proof (parse_members_inv _ _ _ _ _ _ E) as M'.
      assert (X : ps' = ps /\ st1 = st').
      { destruct d as [dv|]; cbn [pbind] in H0.
        - destruct (any_match (st_tbl st1) dv ps') as [b| | | |]; cbn [pbind] in H0; try discriminate H0. destruct b; [|discriminate H0].
          cbn [pbind] in H0. injection H0 as <- <-. now split.
        - injection H0 as <- <-. now split. }
      destruct X as [-> ->]. cbn [pbind]. exact H0.
    - (* primitive in dict form *)
      cbn [parse_node] in *. destruct (prim_not_complex _ P) as (N1 & N2 & N3 & N4 & N5 & N6).
      rewrite <- H0. apply (parse_dict_congr rec _ kv t); try assumption.
      + apply base_type. + now rewrite N5, N6. + apply base_of_idem.
      + intros X. rewrite X in N4. discriminate N4.
      + intros X. rewrite X in N3. discriminate N3.
      + rewrite N3, N4. discriminate.
    - (* array *)
      cbn [parse_node] in *. unfold parse_dict in *. rewrite T, I, R in H0.
      rewrite (jget_jset_neq "type") by reflexivity. rewrite base_type.
      fold (base_of (jset "items" p0 (base_of kv (JStr "array"))) (JStr "array")). fold (base_of kv (JStr "array")) in H0.
      rewrite base_of_jset, base_of_idem by reflexivity.
      rewrite (decimal_same _ _ kv "array") by discriminate.
      cbn [String.eqb Ascii.eqb Bool.eqb] in *. rewrite jget_jset_eq, (IH _ _ _ _ _ _ R). exact H0.
    - (* map *)
      cbn [parse_node] in *. unfold parse_dict in *. rewrite T, I, R in H0.
      rewrite (jget_jset_neq "type") by reflexivity. rewrite base_type.
      fold (base_of (jset "values" p0 (base_of kv (JStr "map"))) (JStr "map")). fold (base_of kv (JStr "map")) in H0.
      rewrite base_of_jset, base_of_idem by reflexivity.
      rewrite (decimal_same _ _ kv "map") by discriminate.
      cbn [String.eqb Ascii.eqb Bool.eqb] in *. rewrite jget_jset_eq, (IH _ _ _ _ _ _ R). exact H0.
    - (* enum *)
      cbn [parse_node] in *. subst parsed. rewrite <- H0. apply (parse_dict_congr rec _ kv "enum"); try reflexivity; try assumption.
      + getk. reflexivity.
      + rewrite base_of_jset, base_of_keep, base_of_jset by reflexivity. apply base_of_idem.
      + discriminate.
      + intros _. split; getk; [now rewrite SY|]. apply jget_custom_base. reflexivity.
      + intros _. rewrite SN. eapply schema_name_out; [exact SN| |].
        * getk. reflexivity.
        * rewrite jget_jset_neq by reflexivity. apply keep_get_namespace. getk. reflexivity.
    - (* fixed *)
      cbn [parse_node] in *. subst parsed. rewrite <- H0. apply (parse_dict_congr rec _ kv "fixed"); try reflexivity; try assumption.
      + getk. reflexivity.
      + rewrite base_of_jset, base_of_keep, base_of_jset by reflexivity. apply base_of_idem.
      + intros _. getk. now rewrite SZ.
      + discriminate.
      + intros _. rewrite SN. eapply schema_name_out; [exact SN| |].
        * getk. reflexivity.
        * rewrite jget_jset_neq by reflexivity. apply keep_get_namespace. getk. reflexivity.
    - (* record / error *)
      cbn [parse_node] in *. subst reckv. cbn [mark] in *.
      set (B := base_of kv (JStr t)) in *.
      set (X := jset "fields" (JArr fs) (jset "name" (JStr full) (rbase kv t full ns))) in *.
      assert (TX : jget "type" X = Some (JStr t)) by (unfold X; getk; reflexivity).
      assert (BX : base_of X (JStr t) = B).
      { unfold X, rbase. rewrite !base_of_jset by reflexivity. rewrite base_of_keep. apply base_of_idem. }
      assert (SX : schema_name X ns = POk (ns', full)).
      { eapply schema_name_out; [exact SN| |]; unfold X.
        - getk. reflexivity.
        - rewrite !jget_jset_neq by reflexivity. unfold rbase. apply keep_get_namespace. getk. reflexivity. }
      assert (FX : jget "fields" X = Some (JArr fs)) by (unfold X; apply jget_jset_eq).
      cbn [parse_node]. unfold parse_dict in *. rewrite T in H0. rewrite TX.
      fold (base_of X (JStr t)). change (copy_prop "doc" kv (jset "type" (JStr t) (jdrop RESERVED_PROPERTIES kv))) with B in H0. rewrite BX. rewrite (decimal_same _ X kv t).
      2:{ intros E. destruct TT as [-> | ->]; discriminate E. }
      destruct (decimal_checks B kv (JStr t)) as [u| | | |]; cbn [pbind] in *; try discriminate H0.
      assert (E : String.eqb t "array" = false /\ String.eqb t "map" = false /\ String.eqb t "enum" = false /\
                  String.eqb t "fixed" = false /\ (String.eqb t "record" || String.eqb t "error") = true).
      { destruct TT as [-> | ->]; repeat split; reflexivity. }
      destruct E as (E1 & E2 & E3 & E4 & E5). rewrite E1, E2, E3, E4, E5 in *. rewrite SN in H0. rewrite SX. cbn [pbind] in *.
      unfold declare in *. rewrite D in *. cbn [pbind] in *.
      destruct (check_default d is_jobj) as [u2| | | |]; cbn [pbind] in *; try discriminate H0.
      rewrite FX. cbn [pbind].
      assert (PF : exists st3', parse_fields rec ns' fl (set_tbl full (JObj (keep_null_ns full ns B)) {| st_names := st_names st ++ [full]; st_tbl := st_tbl st |}) = POk (fs, st3') /\
                               set_tbl full (JObj X) st3' = set_tbl full (JObj X) st3).
      { destruct FL as [FL|[FL ->]]; rewrite FL in H0; cbn [pbind] in H0;
          match type of H0 with pbind ?e _ = _ => destruct e as [[fs' st3']| | | |] eqn:PF; cbn [pbind] in H0; try discriminate H0 end;
          injection H0 as A1 A2; assert (EF : fs' = fs)
            by (apply (f_equal (jget "fields")) in A1; unfold X in A1; rewrite !jget_jset_eq in A1; now injection A1);
          subst fs'; exists st3'; (split; [first [exact PF|reflexivity]|]); unfold set_tbl; rewrite A2; f_equal; rewrite <- H0; now rewrite A1. }
      destruct PF as (st3' & PF & A2). rewrite <- A2.
      rewrite (fields_idem _ _ _ _ _ PF). cbn [pbind]. reflexivity.
  Qed.

End IdemStep.

(** (b): the parser accepts its own unmarked output, in the same state, and returns it unchanged
    together with the same state (names and dictionary) *)
Theorem parse_rec_idem f : idem_spec (parse_rec f).
Proof.
  induction f as [|f IH]; [intros j ns st d p st' H; discriminate H|].
  cbn [parse_rec]. now apply node_idem.
Qed.


(** ---- _write_hint only decides whether the top record is marked ---- *)
Definition is_rec_kv (kv : list (string * json)) : bool :=
  match jget "type" kv with Some (JStr t) => String.eqb t "record" || String.eqb t "error" | _ => false end.

Lemma parse_dict_wh rec kv ns st d :
  parse_dict rec kv ns true st d =
  match parse_dict rec kv ns false st d with
  | POk (JObj kv0, s) => if is_rec_kv kv then POk (mark true kv0, s) else POk (JObj kv0, s)
  | r => r
  end.
Proof.
  unfold parse_dict, is_rec_kv. destruct (jget "type" kv) as [ty|]; [|reflexivity].
  destruct (decimal_checks _ kv ty) as [u| | | |]; cbn [pbind]; try reflexivity.
  destruct ty as [| | | |t| |]; try reflexivity.
  destruct (String.eqb t "array") eqn:E1.
  { apply String.eqb_eq in E1. subst t. cbn [String.eqb Ascii.eqb Bool.eqb orb].
    destruct (jget "items" kv); [|reflexivity]. destruct (rec _ ns false st None) as [[p s]| | | |]; cbn [pbind]; try reflexivity.
    destruct (check_default d is_jarr); reflexivity. }
  destruct (String.eqb t "map") eqn:E2.
  { apply String.eqb_eq in E2. subst t. cbn [String.eqb Ascii.eqb Bool.eqb orb].
    destruct (jget "values" kv); [|reflexivity]. destruct (rec _ ns false st None) as [[p s]| | | |]; cbn [pbind]; try reflexivity.
    destruct (check_default d is_jobj); reflexivity. }
  destruct (String.eqb t "enum") eqn:E3.
  { apply String.eqb_eq in E3. subst t. cbn [String.eqb Ascii.eqb Bool.eqb orb].
    destruct (schema_name kv ns) as [[a b]| | | |]; cbn [pbind]; try reflexivity.
    destruct (declare b st); cbn [pbind]; try reflexivity. destruct (validate_enum_symbols kv); cbn [pbind]; try reflexivity.
    destruct (check_default d is_jstr); cbn [pbind]; try reflexivity. destruct (jget "symbols" kv); reflexivity. }
  destruct (String.eqb t "fixed") eqn:E4.
  { apply String.eqb_eq in E4. subst t. cbn [String.eqb Ascii.eqb Bool.eqb orb].
    destruct (schema_name kv ns) as [[a b]| | | |]; cbn [pbind]; try reflexivity.
    destruct (declare b st); cbn [pbind]; try reflexivity.
    destruct (check_default d is_jstr); cbn [pbind]; try reflexivity. destruct (jget "size" kv); reflexivity. }
  destruct (String.eqb t "record" || String.eqb t "error") eqn:E5.
  { destruct (schema_name kv ns) as [[a b]| | | |]; cbn [pbind]; try reflexivity.
    destruct (declare b st); cbn [pbind]; try reflexivity.
    destruct (check_default d is_jobj); cbn [pbind]; try reflexivity.
    match goal with |- context [pbind ?e _] => destruct e; cbn [pbind]; try reflexivity end.
    match goal with |- context [pbind ?e _] => destruct e as [[fs s3]| | | |]; cbn [pbind]; try reflexivity end. }
  destruct (is_prim t); [|reflexivity].
  match goal with |- context [pbind ?e _] => destruct e; cbn [pbind]; reflexivity end.
Qed.

Lemma out_is_rec f kv ns st d kv0 st' :
  parse_rec f (JObj kv) ns false st d = POk (JObj kv0, st') -> is_rec_kv kv0 = is_rec_kv kv.
Proof.
  intros H. pose proof (shaped_false _ _ (parse_rec_pout f _ _ _ _ _ _ _ H)) as X.
  unfold pout in X. rewrite pout_m_obj in X. unfold pout_obj in X. unfold is_rec_kv.
  destruct (jget "type" kv) as [[| | | |t| |]|]; try discriminate X.
  fold (base_of kv (JStr t)) in X.
  destruct (String.eqb t "array") eqn:E1; [injection X as ->; getk; reflexivity|].
  destruct (String.eqb t "map") eqn:E2; [injection X as ->; getk; reflexivity|].
  destruct (String.eqb t "enum") eqn:E3; [injection X as ->; getk; reflexivity|].
  destruct (String.eqb t "fixed") eqn:E4; [injection X as ->; getk; reflexivity|].
  destruct (String.eqb t "record" || String.eqb t "error") eqn:E5; [injection X as ->; getk; now rewrite E5|].
  destruct (is_prim t); [injection X as ->; getk; now rewrite E5|discriminate X].
Qed.

Theorem reparse_accepted f kv ns wh st d p st' :
  keys_free MARKER_KEYS kv = true ->
  parse_rec f (JObj kv) ns wh st d = POk (p, st') ->
  parse_rec f (strip_markers p) ns wh st d = POk (p, st').
Proof.
  intros KF H. destruct wh.
  2:{ pose proof (shaped_false _ _ (parse_rec_pout f _ _ _ _ _ _ _ H)) as X.
      rewrite X, strip_pout; [|discriminate|exact KF]. rewrite <- X. exact (parse_rec_idem f _ _ _ _ _ _ H). }
  destruct f as [|f]; [discriminate H|]. cbn [parse_rec parse_node] in H. rewrite parse_dict_wh in H.
  destruct (parse_dict (parse_rec f) kv ns false st d) as [[p0 s]| | | |] eqn:E; try discriminate H.
  change (parse_rec (S f) (JObj kv) ns false st d = POk (p0, s)) in E.
  pose proof (shaped_false _ _ (parse_rec_pout (S f) _ _ _ _ _ _ _ E)) as X.
  pose proof (parse_rec_idem (S f) _ _ _ _ _ _ E) as I0.
  destruct (pout_obj_shape ns kv) as [Y|(kv0 & Y)]; rewrite Y in X; subst p0.
  - injection H as <- <-. exact I0.
  - pose proof (pout_markerfree _ _ _ KF Y) as K0.
    pose proof (out_is_rec _ _ _ _ _ _ _ E) as R.
    assert (SP : strip_markers p = JObj kv0).
    { destruct (is_rec_kv kv); injection H as <- <-; [now apply strip_mark|]. rewrite strip_obj. now rewrite keys_free_drop. }
    rewrite SP. cbn [parse_rec parse_node]. rewrite parse_dict_wh.
    cbn [parse_rec parse_node] in I0. rewrite I0, R. destruct (is_rec_kv kv); injection H as <- <-; reflexivity.
Qed.
