(** Python-level writer histories reduce to container-level histories; the validation gate. *)
From Coq Require Import Lia ZifyBool String.
From FA Require Import model.Base model.Varint model.Value model.Schema model.Codec model.Validate model.Write
                       model.Container model.ContainerPy proofs.CodecProofs proofs.ContainerProofs.
Open Scope Z_scope.

Section P.
  Variable compress : bytes -> bytes.
  Variable sync : bytes.
  Variables (fuel : nat) (wo : wopts) (validator : bool) (e : env) (s : schema).

  (* a rejected record leaves the writer -- stream, pending block, count -- exactly as it was *)
  Theorem gate_rejects st v : validator = true -> validate fuel wo e s (Some v) = Ok false ->
    pstep compress sync fuel wo validator e s st (PWrite v) = (st, PRaised).
  Proof. intros -> H. unfold pstep, lower. rewrite H. reflexivity. Qed.

  (* a record the writer cannot encode leaves it as it was, validated or not *)
  Theorem failed_write_noop st v : elab fuel wo e s v = WErr ->
    fst (pstep compress sync fuel wo validator e s st (PWrite v)) = st.
  Proof.
    intros H. unfold pstep, lower. destruct validator.
    - destruct (validate fuel wo e s (Some v)) as [[|]| |]; try reflexivity. rewrite H. reflexivity.
    - rewrite H. reflexivity.
  Qed.

  (* a whole Python-level history IS a container-level history *)
  Theorem prun_lowers : forall ops ws st, lower_all fuel wo validator e s ops = Some ws ->
    prun compress sync fuel wo validator e s st ops = run compress sync st ws.
  Proof.
    induction ops as [|o ops IH]; intros ws st H; cbn [lower_all] in H.
    - injection H as <-. reflexivity.
    - destruct (fst (lower fuel wo validator e s o)) as [w|] eqn:E; [|discriminate].
      destruct (lower_all fuel wo validator e s ops) as [ws'|] eqn:E2; [|discriminate]. injection H as <-.
      unfold prun, run in *. cbn [fold_left]. unfold pstep at 2.
      destruct (lower fuel wo validator e s o) as [[w'|] stt]; cbn [fst] in E; [|discriminate]. injection E as ->.
      cbn [fst]. apply IH. reflexivity.
  Qed.

  (* the records successfully submitted by a Python-level history *)
  Definition psubmitted (ops : list pop) : option (list aval) :=
    option_map submitted (lower_all fuel wo validator e s ops).
End P.
