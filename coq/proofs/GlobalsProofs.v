(** Proofs about model/Globals.v: results do not depend on the history (C17),
    frame of every API step. *)
From Coq Require Import ZArith List Bool Lia ZifyBool.
From FA Require Import model.Base model.Globals.

(** ---- generic: if every step's result is independent of the incoming shared state,
         any history gives the same result as the initial state ------------------------ *)
Lemma history_irrelevant :
  forall (G C R : Type) (stp : G -> C -> G * R),
    (forall g g' c, snd (stp g c) = snd (stp g' c)) ->
    forall (h : list C) (c : C) (g : G),
      snd (stp (fold_left (fun g c => fst (stp g c)) h g) c) = snd (stp g c).
Proof. intros G C R stp H h c g. apply H. Qed.

(** ---- "every cell is written before it is read within the same step" -------------- *)

(** the current read_decimal computes, from ANY incoming state, what a per-call context computes *)
Lemma read_decs_current_eq_fixed :
  forall ds g acc, snd (read_decs Current g ds acc) = snd (read_decs Fixed g ds acc).
Proof.
  induction ds as [|d ds IH]; intros g acc; cbn [read_decs].
  - reflexivity.
  - destruct (df_prec d <? 1); [reflexivity|].
    cbn [set_prec add_flags prec]. rewrite IH.
    clear. revert acc. generalize (scaleb (df_prec d) (create_decimal (df_prec d) (df_unscaled d)) (df_scale d)).
    intros y acc. revert g acc y. induction ds as [|e ds IH]; intros g acc y; cbn [read_decs].
    + reflexivity.
    + destruct (df_prec e <? 1); [reflexivity|]. apply IH.
Qed.

Lemma read_decs_fixed_indep :
  forall ds g g' acc, snd (read_decs Fixed g ds acc) = snd (read_decs Fixed g' ds acc).
Proof.
  induction ds as [|d ds IH]; intros g g' acc; cbn [read_decs].
  - reflexivity.
  - destruct (df_prec d <? 1); [reflexivity|]. apply IH.
Qed.

Lemma read_decs_indep :
  forall v ds g g' acc, snd (read_decs v g ds acc) = snd (read_decs v g' ds acc).
Proof.
  intros [|] ds g g' acc.
  - rewrite !read_decs_current_eq_fixed. apply read_decs_fixed_indep.
  - apply read_decs_fixed_indep.
Qed.

Lemma api_step_snd :
  forall v g c, snd (api_step_v v g c) =
                if raises c then RRaised else snd (read_decs v g (effects c) []).
Proof.
  intros v g c. unfold api_step_v. destruct (read_decs v g (effects c) []) as [g1 r]. reflexivity.
Qed.

Lemma api_step_fst :
  forall v g c, fst (api_step_v v g c) = fst (read_decs v g (effects c) []).
Proof.
  intros v g c. unfold api_step_v. destruct (read_decs v g (effects c) []) as [g1 r]. reflexivity.
Qed.

(** per-call independence of the incoming shared state *)
Lemma api_step_indep :
  forall v g g' c, snd (api_step_v v g c) = snd (api_step_v v g' c).
Proof.
  intros v g g' c. rewrite !api_step_snd. destruct (raises c); [reflexivity|]. apply read_decs_indep.
Qed.

(** sequentially the current code and the repaired code return the same results *)
Lemma api_step_current_eq_fixed :
  forall g c, snd (api_step_v Current g c) = snd (api_step_v Fixed g c).
Proof.
  intros g c. rewrite !api_step_snd. destruct (raises c); [reflexivity|]. apply read_decs_current_eq_fixed.
Qed.

Lemma noninterference_v :
  forall v (h : list api_call) (c : api_call) (g : gstate),
    snd (api_step_v v (fold_left (fun g c => fst (api_step_v v g c)) h g) c) = snd (api_step_v v g c).
Proof. intros v. apply history_irrelevant. apply api_step_indep. Qed.

Lemma noninterference :
  forall (h : list api_call) (c : api_call),
    snd (api_step (fold_left (fun g c => fst (api_step g c)) h g0) c) = snd (api_step g0 c).
Proof. intros h c. exact (noninterference_v Current h c g0). Qed.

Lemma noninterference_fixed :
  forall (h : list api_call) (c : api_call),
    snd (api_step_fixed (fold_left (fun g c => fst (api_step_fixed g c)) h g0) c) = snd (api_step_fixed g0 c).
Proof. intros h c. exact (noninterference_v Fixed h c g0). Qed.

(** ---- frame ------------------------------------------------------------------------- *)

Lemma read_decs_other :
  forall v ds g acc, other (fst (read_decs v g ds acc)) = other g.
Proof.
  intros v ds. induction ds as [|d ds IH]; intros g acc; cbn [read_decs].
  - reflexivity.
  - destruct (df_prec d <? 1); [reflexivity|]. destruct v.
    + rewrite IH. reflexivity.
    + apply IH.
Qed.

(** flags are sticky *)
Lemma read_decs_flags_monotone :
  forall v ds g acc,
    (inexact g = true -> inexact (fst (read_decs v g ds acc)) = true) /\
    (rounded g = true -> rounded (fst (read_decs v g ds acc)) = true).
Proof.
  intros v ds. induction ds as [|d ds IH]; intros g acc; cbn [read_decs].
  - auto.
  - destruct (df_prec d <? 1); [auto|]. destruct v.
    + match goal with |- context [read_decs Current ?g3 ds ?a] => destruct (IH g3 a) as [H1 H2] end.
      split; intros H; [apply H1|apply H2]; cbn; rewrite H; reflexivity.
    + apply IH.
Qed.

Lemma read_decs_fixed_frame :
  forall ds g acc, fst (read_decs Fixed g ds acc) = g.
Proof.
  induction ds as [|d ds IH]; intros g acc; cbn [read_decs].
  - reflexivity.
  - destruct (df_prec d <? 1); [reflexivity|]. apply IH.
Qed.

(** an API step changes the shared state at most in the cells of the decimal context:
    [prec] and the two sticky flags *)
Lemma frame_v :
  forall v g c, exists p i r, fst (api_step_v v g c) = mkG p i r (other g).
Proof.
  intros v g c.
  pose proof (read_decs_other v (effects c) g []) as H. rewrite <- api_step_fst in H.
  destruct (fst (api_step_v v g c)) as [p i r o]. cbn in *. exists p, i, r. congruence.
Qed.

Lemma frame :
  forall g c, other (fst (api_step g c)) = other g /\
              (exists p i r, fst (api_step g c) = mkG p i r (other g)) /\
              (inexact g = true -> inexact (fst (api_step g c)) = true) /\
              (rounded g = true -> rounded (fst (api_step g c)) = true).
Proof.
  intros g c. split; [|split].
  - unfold api_step, api_step_current. rewrite api_step_fst. apply read_decs_other.
  - apply frame_v.
  - unfold api_step, api_step_current. rewrite api_step_fst. apply read_decs_flags_monotone.
Qed.

(** the repaired code changes nothing at all *)
Lemma frame_fixed : forall g c, fst (api_step_fixed g c) = g.
Proof. intros g c. unfold api_step_fixed. rewrite api_step_fst. apply read_decs_fixed_frame. Qed.

(** calls that decode no decimal change nothing, in either variant *)
Lemma frame_no_decimal : forall v g c, effects c = [] -> fst (api_step_v v g c) = g.
Proof. intros v g c H. rewrite api_step_fst, H. reflexivity. Qed.

(** ---- rounding: sanity lemmas used by the examples ----------------------------------- *)
Lemma round_to_small : forall p d, ndigits (dcoef d) <= p -> round_to p d = d.
Proof. intros p d H. unfold round_to. destruct (ndigits (dcoef d) <=? p) eqn:E; [reflexivity|lia]. Qed.
