(** _inline_named_schemas is the identity on schemas in which every reference is preceded by
    its definition ([closed_m]); the parser's outputs are such schemas; hence
    to_parsing_canonical_form prints the parsed schema. *)
From Coq Require Import String Ascii Lia.
From FA Require Import model.Base model.Json model.Parse model.SchemaSpec model.Inline model.Canon
     proofs.JsonProofs proofs.ParseProofs.
Open Scope string_scope.

(** ---- depth ---- *)
Lemma jdepth_arr l : jdepth (JArr l) = S (list_max (map jdepth l)).
Proof. reflexivity. Qed.

Lemma jdepth_obj kv : jdepth (JObj kv) = S (list_max (map (fun p => jdepth (snd p)) kv)).
Proof. unfold jdepth. rewrite jfold_obj. now rewrite map_map. Qed.

Lemma list_max_in x l : In x l -> (x <= list_max l)%nat.
Proof.
  induction l as [|y r IH]; intros I; [destruct I|]. cbn [list_max fold_right].
  destruct I as [->|I]; [lia|]. specialize (IH I). unfold list_max in IH. lia.
Qed.

Lemma depth_member x l : In x l -> (jdepth x < jdepth (JArr l))%nat.
Proof.
  intros I. rewrite jdepth_arr. assert (In (jdepth x) (map jdepth l)) by now apply in_map.
  pose proof (list_max_in _ _ H). lia.
Qed.

Lemma depth_get k kv v : jget k kv = Some v -> (jdepth v < jdepth (JObj kv))%nat.
Proof.
  intros G. rewrite jdepth_obj.
  assert (In (jdepth v) (map (fun p => jdepth (snd p)) kv)).
  { induction kv as [|[k' v'] r IH]; cbn [jget] in G; [discriminate G|].
    destruct (String.eqb k k'); [injection G as <-; left; reflexivity|right; auto]. }
  pose proof (list_max_in _ _ H). lia.
Qed.

Lemma jset_same {A} k (v : A) kv : jget k kv = Some v -> jset k v kv = kv.
Proof.
  induction kv as [|[k' v'] r IH]; cbn [jget jset]; [discriminate|].
  destruct (String.eqb k k') eqn:E.
  - intros H. injection H as ->. apply String.eqb_eq in E. now subst.
  - intros H. now rewrite IH.
Qed.

(** ---- one-level unfoldings of the checker ---- *)
Lemma closed_m_arr l m defined :
  closed_m (JArr l) m defined =
  match m with
  | PSchema => ofold (map (fun j => closed_m j PSchema) l) defined
  | PFields => ofold (map (fun j => closed_m j PField) l) defined
  | PField => None
  end.
Proof. unfold closed_m. rewrite jfold_arr. destruct m; rewrite ?map_map; reflexivity. Qed.

Lemma closed_m_obj kv m defined :
  closed_m (JObj kv) m defined =
  let sub k m d := match jget k kv with Some v => closed_m v m d | None => None end in
  match m with
  | PField => sub "type" PSchema defined
  | PFields => None
  | PSchema =>
      match jget "type" kv with
      | Some (JStr t) =>
          let d0 := define kv t defined in
          if String.eqb t "array" then sub "items" PSchema d0
          else if String.eqb t "map" then sub "values" PSchema d0
          else if String.eqb t "record" || String.eqb t "error" then
            match jget "fields" kv with
            | Some (JArr _) => sub "fields" PFields d0
            | _ => None
            end
          else Some d0
      | Some _ => Some defined
      | None => None
      end
  end.
Proof.
  unfold closed_m at 1. rewrite jfold_obj. fold closed_m. unfold osub. rewrite !jget_map. cbv zeta.
  destruct m; repeat match goal with |- context [jget ?k kv] => destruct (jget k kv) end; reflexivity.
Qed.

(** ---- inlining a closed schema changes nothing ---- *)
Section Id.
  Variable tbl : named.

  Lemma inline_list_id rec l : forall defined defined',
    (forall x d d', In x l -> closed_m x PSchema d = Some d' -> rec x d = POk (x, d')) ->
    ofold (map (fun j => closed_m j PSchema) l) defined = Some defined' ->
    inline_list rec l defined = POk (l, defined').
  Proof.
    induction l as [|x r IH]; intros defined defined' H C; cbn [map ofold inline_list] in *.
    - now injection C as <-.
    - destruct (closed_m x PSchema defined) as [d1|] eqn:E; [|discriminate C].
      rewrite (H x _ _ (or_introl eq_refl) E). cbn [pbind].
      rewrite (IH d1 defined'); [reflexivity| |exact C]. intros y d d' I. apply H. now right.
  Qed.

  Lemma inline_fields_id rec l : forall defined defined',
    (forall fkv ty d d', In (JObj fkv) l -> jget "type" fkv = Some ty ->
        closed_m ty PSchema d = Some d' -> rec ty d = POk (ty, d')) ->
    ofold (map (fun j => closed_m j PField) l) defined = Some defined' ->
    inline_fields rec l defined = POk (l, defined').
  Proof.
    induction l as [|x r IH]; intros defined defined' H C; cbn [map ofold inline_fields] in *.
    - now injection C as <-.
    - destruct (closed_m x PField defined) as [d1|] eqn:E; [|discriminate C].
      assert (F : inline_field rec x defined = POk (x, d1)).
      { destruct x as [| | | | | |fkv]; try (unfold closed_m in E; cbn in E; discriminate E).
        rewrite closed_m_obj in E. cbv beta iota zeta in E. unfold inline_field.
        destruct (jget "type" fkv) as [ty|] eqn:T; [|discriminate E].
        rewrite (H fkv ty _ _ (or_introl eq_refl) T E). cbn [pbind]. now rewrite (jset_same _ _ _ T). }
      rewrite F. cbn [pbind].
      rewrite (IH d1 defined'); [reflexivity| |exact C]. intros fkv ty d d' I. apply H. now right.
  Qed.

  Theorem inline_closed_id : forall f p defined defined',
    (jdepth p < f)%nat -> closed_m p PSchema defined = Some defined' ->
    inline_rec f tbl p defined = POk (p, defined').
  Proof.
    induction f as [|f IH]; intros p defined defined' D C; [lia|].
    cbn [inline_rec]. destruct p as [| | | |s|l|kv]; try (unfold closed_m in C; cbn in C; injection C as <-; reflexivity).
    - (* name *)
      unfold closed_m in C. cbn [jfold] in C. cbn [inline_node].
      destruct (is_prim s || mem s defined); [now injection C as <-|discriminate C].
    - (* list *)
      rewrite closed_m_arr in C. cbn [inline_node].
      rewrite (inline_list_id _ l defined defined'); [reflexivity| |exact C].
      intros x d d' I X. apply IH; [|exact X]. pose proof (depth_member _ _ I). lia.
    - (* dict *)
      rewrite closed_m_obj in C. cbv beta iota zeta in C. cbn [inline_node].
      destruct (jget "type" kv) as [[| | | |t| |]|] eqn:T; try discriminate C; try (now injection C as <-).
      destruct (String.eqb t "array").
      { destruct (jget "items" kv) as [it|] eqn:G; [|discriminate C].
        rewrite (IH it _ _ ltac:(pose proof (depth_get _ _ _ G); lia) C). cbn [pbind]. now rewrite (jset_same _ _ _ G). }
      destruct (String.eqb t "map").
      { destruct (jget "values" kv) as [it|] eqn:G; [|discriminate C].
        rewrite (IH it _ _ ltac:(pose proof (depth_get _ _ _ G); lia) C). cbn [pbind]. now rewrite (jset_same _ _ _ G). }
      destruct (String.eqb t "record" || String.eqb t "error"); [|now injection C as <-].
      destruct (jget "fields" kv) as [[| | | | |fl|]|] eqn:G; try discriminate C. cbn [pbind].
      rewrite closed_m_arr in C.
      rewrite (inline_fields_id _ fl _ defined'); [cbn [pbind]; now rewrite (jset_same _ _ _ G)| |exact C].
      intros fkv ty d d' I TY X. apply IH; [|exact X].
      pose proof (depth_get _ _ _ G). pose proof (depth_member _ _ I). pose proof (depth_get _ _ _ TY). lia.
  Qed.
End Id.

(** ---- the parser's outputs are closed: a name is in the table before it is referred to ---- *)
Definition keys_in (tbl : named) (defined : list string) : Prop :=
  forall n, jhas n tbl = true -> mem n defined = true.
Definition grows (d d' : list string) : Prop := forall n, mem n d = true -> mem n d' = true.

Definition closed_spec (rec : recfun) : Prop :=
  forall j ns wh st d p st' defined,
    rec j ns wh st d = POk (p, st') -> keys_in (st_tbl st) defined ->
    exists defined', closed_m p PSchema defined = Some defined' /\ keys_in (st_tbl st') defined' /\ grows defined defined'.

Lemma keys_in_set tbl defined n v : keys_in tbl defined -> keys_in (jset n v tbl) (n :: defined).
Proof.
  intros K m H. cbn [mem existsb]. destruct (String.eqb_spec m n); [reflexivity|].
  rewrite jhas_jset_neq in H by (now apply String.eqb_neq). cbn [orb]. now apply K.
Qed.

Lemma grows_cons d n : grows d (n :: d).
Proof. intros m H. cbn [mem existsb]. unfold mem in H. rewrite H. apply Bool.orb_true_r. Qed.

Lemma grows_trans a b c : grows a b -> grows b c -> grows a c.
Proof. unfold grows. auto. Qed.

Section ClosedStep.
  Variable rec : recfun.
  Hypothesis IH : closed_spec rec.

  Lemma members_closed ns l st ps st' : members_ok rec ns l st ps st' -> forall defined,
    keys_in (st_tbl st) defined ->
    exists defined', ofold (map (fun j => closed_m j PSchema) ps) defined = Some defined' /\
                     keys_in (st_tbl st') defined' /\ grows defined defined'.
  Proof.
    induction 1 as [st|s r st p st1 ps st2 R M IHM]; intros defined K; cbn [map ofold].
    - exists defined. repeat split; auto. intros n H; exact H.
    - destruct (IH _ _ _ _ _ _ _ _ R K) as (d1 & C1 & K1 & G1). rewrite C1.
      destruct (IHM _ K1) as (d2 & C2 & K2 & G2). exists d2. repeat split; auto. eapply grows_trans; eauto.
  Qed.

  Lemma fields_closed ns l st ps st' : fields_ok rec ns l st ps st' -> forall defined,
    keys_in (st_tbl st) defined ->
    exists defined', ofold (map (fun j => closed_m j PField) ps) defined = Some defined' /\
                     keys_in (st_tbl st') defined' /\ grows defined defined'.
  Proof.
    induction 1 as [st|fd r st p st1 ps st2 F M IHM]; intros defined K; cbn [map ofold].
    - exists defined. repeat split; auto. intros n H; exact H.
    - destruct F as [fkv nm ty st p st1 N T R].
      destruct (IH _ _ _ _ _ _ _ _ R K) as (d1 & C1 & K1 & G1).
      rewrite closed_m_obj. cbv beta iota zeta. getk. rewrite C1.
      destruct (IHM _ K1) as (d2 & C2 & K2 & G2). exists d2. repeat split; auto. eapply grows_trans; eauto.
  Qed.

  Lemma node_closed : closed_spec (parse_node rec).
  Proof.
    intros j ns wh st d p st' defined H K. apply parse_node_inv in H.
    destruct H as [s ns wh st d P|s ns wh st d P J|l ns wh st d ps st' M|kv t ns wh st d T P
                   |kv it ns wh st d p st' T I R|kv it ns wh st d p st' T I R
                   |kv ns wh st d ns' full syms ss T SN D SY SS ND parsed
                   |kv ns wh st d ns' full sz T SN D SZ parsed
                   |kv t ns wh st d ns' full fl fs st3 T TT SN D FL FS reckv].
    - exists defined. unfold closed_m. cbn [jfold]. rewrite P. cbn [orb]. repeat split; auto. intros n H; exact H.
    - exists defined. unfold closed_m. cbn [jfold]. rewrite (K _ J), Bool.orb_true_r. repeat split; auto. intros n H; exact H.
    - rewrite closed_m_arr. exact (members_closed _ _ _ _ _ M _ K).
    - destruct (prim_not_complex _ P) as (N1 & N2 & N3 & N4 & N5 & N6).
      exists defined. rewrite closed_m_obj. cbv beta iota zeta. getk.
      unfold define, is_named_type. rewrite N1, N2, N3, N4, N5, N6. cbn [orb]. repeat split; auto. intros n H; exact H.
    - destruct (IH _ _ _ _ _ _ _ _ R K) as (d1 & C1 & K1 & G1). exists d1.
      rewrite closed_m_obj. cbv beta iota zeta. getk. cbn [String.eqb Ascii.eqb Bool.eqb define is_named_type orb]. auto.
    - destruct (IH _ _ _ _ _ _ _ _ R K) as (d1 & C1 & K1 & G1). exists d1.
      rewrite closed_m_obj. cbv beta iota zeta. getk. cbn [String.eqb Ascii.eqb Bool.eqb define is_named_type orb]. auto.
    - exists (full :: defined). subst parsed. rewrite closed_m_obj. cbv beta iota zeta. getk.
      cbn [String.eqb Ascii.eqb Bool.eqb define is_named_type orb]. getk.
      split; [reflexivity|]. split; [cbn [set_tbl declared st_tbl]; now apply keys_in_set|apply grows_cons].
    - exists (full :: defined). subst parsed. rewrite closed_m_obj. cbv beta iota zeta. getk.
      cbn [String.eqb Ascii.eqb Bool.eqb define is_named_type orb]. getk.
      split; [reflexivity|]. split; [cbn [set_tbl declared st_tbl]; now apply keys_in_set|apply grows_cons].
    - assert (K2 : keys_in (st_tbl (set_tbl full (JObj (rbase kv t full ns)) (declared full st))) (full :: defined)).
      { cbn [set_tbl declared st_tbl]. now apply keys_in_set. }
      destruct (fields_closed _ _ _ _ _ FS _ K2) as (d1 & C1 & K1 & G1). exists d1.
      assert (E : closed_m (mark wh reckv) PSchema defined = closed_m (JObj reckv) PSchema defined).
      { destruct wh; [|reflexivity]. unfold mark. rewrite !closed_m_obj. cbv beta iota zeta. unfold define. subst reckv. getk. reflexivity. }
      rewrite E. subst reckv. rewrite closed_m_obj. cbv beta iota zeta. unfold define. getk.
      assert (D0 : (if is_named_type t then full :: defined else defined) = full :: defined).
      { destruct TT as [-> | ->]; reflexivity. }
      rewrite D0, closed_m_arr.
      split; [destruct TT as [-> | ->]; cbn [String.eqb Ascii.eqb Bool.eqb orb]; exact C1|].
      split.
      + intros n H. cbn [set_tbl st_tbl] in H. destruct (String.eqb_spec n full) as [->|NE].
        * apply G1. cbn [mem existsb]. now rewrite String.eqb_refl.
        * rewrite jhas_jset_neq in H by (now apply String.eqb_neq). now apply K1.
      + eapply grows_trans; [apply grows_cons|exact G1].
  Qed.
End ClosedStep.

Theorem parse_rec_closed f : closed_spec (parse_rec f).
Proof.
  induction f as [|f IH]; cbn [parse_rec].
  - intros j ns wh st d p st' defined H. discriminate H.
  - apply node_closed. exact IH.
Qed.

(** ---- parse_schema: top-level unions, alias placeholders ---- *)
Lemma closed_m_jset_irrelevant kv v m d :
  closed_m (JObj (jset "__named_schemas" v kv)) m d = closed_m (JObj kv) m d.
Proof.
  rewrite !closed_m_obj. cbv beta iota zeta. unfold define.
  rewrite !jget_jset_neq by reflexivity. reflexivity.
Qed.

Lemma ofold_ext {A} (f g : A -> list string -> option (list string)) l :
  Forall (fun x => forall d, f x d = g x d) l -> forall d, ofold (map f l) d = ofold (map g l) d.
Proof.
  induction 1 as [|x r Hx Hr IH]; intros d; cbn [map ofold]; [reflexivity|].
  rewrite Hx. destruct (g x d); auto.
Qed.

Lemma closed_tie t p : forall m d, closed_m (tie t p) m d = closed_m p m d.
Proof.
  induction p as [| | | | |l IH|kv IH] using json_ind'; intros m d; try reflexivity.
  - unfold tie. rewrite jfold_arr. fold (tie t). rewrite !closed_m_arr, !map_map.
    assert (E : forall m', Forall (fun x => forall d, closed_m (tie t x) m' d = closed_m x m' d) l).
    { intros m'. induction IH as [|x r Hx Hr IHr]; constructor; auto. }
    destruct m; try reflexivity; apply ofold_ext; apply E.
  - unfold tie. rewrite jfold_obj.
    destruct (jget "__named_schemas" kv) as [[| | | | | |]|]; try reflexivity.
    apply closed_m_jset_irrelevant.
Qed.

Lemma parse_schema_rec_closed f : forall j st p st' defined,
  unmarked j = true -> parse_schema_rec f j st = POk (p, st') -> keys_in (st_tbl st) defined ->
  exists defined', closed_m p PSchema defined = Some defined' /\ keys_in (st_tbl st') defined' /\ grows defined defined'.
Proof.
  induction f as [|f IH]; intros j st p st' defined U H K; cbn [parse_schema_rec] in H; [discriminate H|].
  assert (RUN : forall j0, run_parse f j0 st = POk (p, st') ->
     exists defined', closed_m p PSchema defined = Some defined' /\ keys_in (st_tbl st') defined' /\ grows defined defined').
  { unfold run_parse. intros j0 R. exact (parse_rec_closed f _ _ _ _ _ _ _ _ R K). }
  destruct j as [| | | | |l|kv]; try (eapply RUN; exact H).
  - destruct (parse_tops (parse_schema_rec f) l st) as [[ps st1]| | | |] eqn:E; cbn [pbind] in H; try discriminate H.
    injection H as <- <-. rewrite unmarked_arr in U. rewrite closed_m_arr. clear RUN.
    revert st ps st1 defined E K. induction l as [|m r IHl]; intros st ps st1 defined E K; cbn [parse_tops] in E.
    + injection E as <- <-. exists defined. repeat split; auto. intros n H; exact H.
    + cbn [forallb] in U. apply Bool.andb_true_iff in U. destruct U as [U1 U2].
      destruct (parse_schema_rec f m st) as [[p1 st2]| | | |] eqn:E1; cbn [pbind] in E; try discriminate E.
      destruct (parse_tops (parse_schema_rec f) r st2) as [[ps2 st3]| | | |] eqn:E2; cbn [pbind] in E; try discriminate E.
      injection E as <- <-.
      destruct (IH _ _ _ _ _ U1 E1 K) as (d1 & C1 & K1 & G1).
      destruct (IHl U2 _ _ _ _ E2 K1) as (d2 & C2 & K2 & G2).
      cbn [map ofold]. rewrite C1. exists d2. repeat split; auto. eapply grows_trans; eauto.
  - rewrite unmarked_obj in U. apply Bool.negb_true_iff in U. rewrite U in H. eapply RUN. exact H.
Qed.

(* for a raw schema parsed from scratch, inlining is the identity ... *)
Theorem inline_id_on_parsed f j p t :
  unmarked j = true -> parse_schema f j [] = POk (p, t) -> inline t p = POk p.
Proof.
  unfold parse_schema. intros U H.
  destruct (parse_schema_rec f j (mkst [] [])) as [[p0 st1]| | | |] eqn:E; cbn [pbind] in H; try discriminate H.
  injection H as <- <-.
  destruct (parse_schema_rec_closed f _ _ _ _ [] U E) as (d' & C & _); [intros n H; discriminate H|].
  unfold inline. rewrite (inline_closed_id _ _ _ [] d'); [reflexivity|unfold inline_fuel; lia|].
  now rewrite closed_tie.
Qed.

(* ... so to_parsing_canonical_form prints the parsed schema *)
Theorem to_canonical_parsed j p t :
  unmarked j = true -> parse_auto j = POk (p, t) -> to_canonical j = POk (canon p).
Proof.
  intros U H. unfold to_canonical. rewrite H. cbn [pbind fst snd].
  unfold parse_auto in H. now rewrite (inline_id_on_parsed _ _ _ _ U H).
Qed.

Theorem parsed_is_closed f j p t :
  unmarked j = true -> parse_schema f j [] = POk (p, t) -> closed p = true.
Proof.
  unfold parse_schema, closed. intros U H.
  destruct (parse_schema_rec f j (mkst [] [])) as [[p0 st1]| | | |] eqn:E; cbn [pbind] in H; try discriminate H.
  injection H as <- <-.
  destruct (parse_schema_rec_closed f _ _ _ _ [] U E) as (d' & C & _); [intros n H; discriminate H|].
  now rewrite closed_tie, C.
Qed.

(** ---- what inlining achieves: every reference left either follows its definition or names a
    type that is not in the table ---- *)
Lemma closed_g_arr extra l m defined :
  closed_g extra (JArr l) m defined =
  match m with
  | PSchema => ofold (map (fun j => closed_g extra j PSchema) l) defined
  | PFields => ofold (map (fun j => closed_g extra j PField) l) defined
  | PField => None
  end.
Proof. unfold closed_g. rewrite jfold_arr. destruct m; rewrite ?map_map; reflexivity. Qed.

Lemma closed_g_obj extra kv m defined :
  closed_g extra (JObj kv) m defined =
  let sub k m d := match jget k kv with Some v => closed_g extra v m d | None => None end in
  match m with
  | PField => sub "type" PSchema defined
  | PFields => None
  | PSchema =>
      match jget "type" kv with
      | Some (JStr t) =>
          let d0 := define kv t defined in
          if String.eqb t "array" then sub "items" PSchema d0
          else if String.eqb t "map" then sub "values" PSchema d0
          else if String.eqb t "record" || String.eqb t "error" then
            match jget "fields" kv with
            | Some (JArr _) => sub "fields" PFields d0
            | _ => None
            end
          else Some d0
      | Some _ => Some defined
      | None => None
      end
  end.
Proof.
  unfold closed_g at 1. rewrite jfold_obj. fold (closed_g extra). unfold osub. rewrite !jget_map. cbv zeta.
  destruct m; repeat match goal with |- context [jget ?k kv] => destruct (jget k kv) end; reflexivity.
Qed.

Lemma define_jset kv k v t defined :
  String.eqb "name" k = false -> define (jset k v kv) t defined = define kv t defined.
Proof. intros N. unfold define. now rewrite jget_jset_neq. Qed.

Section Rel.
  Variable tbl : named.
  Let extra := fun s => negb (jhas s tbl).

  Lemma inline_list_rel rec l : forall defined ps defined',
    (forall x d q d', rec x d = POk (q, d') -> closed_g extra q PSchema d = Some d') ->
    inline_list rec l defined = POk (ps, defined') ->
    ofold (map (fun j => closed_g extra j PSchema) ps) defined = Some defined'.
  Proof.
    induction l as [|x r IH]; intros defined ps defined' H E; cbn [inline_list] in E.
    - injection E as <- <-. reflexivity.
    - destruct (rec x defined) as [[p d1]| | | |] eqn:E1; cbn [pbind] in E; try discriminate E.
      destruct (inline_list rec r d1) as [[ps' d2]| | | |] eqn:E2; cbn [pbind] in E; try discriminate E.
      injection E as <- <-. cbn [map ofold]. rewrite (H _ _ _ _ E1). eapply IH; eauto.
  Qed.

  Lemma inline_fields_rel rec l : forall defined ps defined',
    (forall x d q d', rec x d = POk (q, d') -> closed_g extra q PSchema d = Some d') ->
    inline_fields rec l defined = POk (ps, defined') ->
    ofold (map (fun j => closed_g extra j PField) ps) defined = Some defined'.
  Proof.
    induction l as [|x r IH]; intros defined ps defined' H E; cbn [inline_fields] in E.
    - injection E as <- <-. reflexivity.
    - destruct (inline_field rec x defined) as [[p d1]| | | |] eqn:E1; cbn [pbind] in E; try discriminate E.
      destruct (inline_fields rec r d1) as [[ps' d2]| | | |] eqn:E2; cbn [pbind] in E; try discriminate E.
      injection E as <- <-. cbn [map ofold].
      assert (F : closed_g extra p PField defined = Some d1).
      { unfold inline_field in E1. destruct x as [| | | | | |fkv]; try discriminate E1.
        destruct (jget "type" fkv) as [ty|]; [|discriminate E1].
        destruct (rec ty defined) as [[q dq]| | | |] eqn:E3; cbn [pbind] in E1; try discriminate E1.
        injection E1 as <- <-. rewrite closed_g_obj. cbv beta iota zeta. rewrite jget_jset_eq. eauto. }
      rewrite F. eapply IH; eauto.
  Qed.

  Theorem inline_closed_rel : forall f p defined q defined',
    inline_rec f tbl p defined = POk (q, defined') -> closed_g extra q PSchema defined = Some defined'.
  Proof.
    induction f as [|f IH]; intros p defined q defined' H; [discriminate H|].
    cbn [inline_rec] in H. destruct p as [| | | |s|l|kv]; cbn [inline_node] in H;
      try (injection H as <- <-; reflexivity).
    - (* name *)
      destruct (is_prim s || mem s defined) eqn:E.
      + injection H as <- <-. unfold closed_g. cbn [jfold]. now rewrite E.
      + destruct (jget s tbl) as [[| | | | | |dkv]|] eqn:G; try discriminate H.
        * eapply IH; eauto.
        * injection H as <- <-. unfold closed_g. cbn [jfold]. unfold extra, jhas. rewrite G. cbn [negb].
          now rewrite Bool.orb_true_r.
    - (* list *)
      destruct (inline_list (inline_rec f tbl) l defined) as [[ps d1]| | | |] eqn:E; cbn [pbind] in H; try discriminate H.
      injection H as <- <-. rewrite closed_g_arr. eapply inline_list_rel; eauto.
    - (* dict *)
      destruct (jget "type" kv) as [[| | | |t| |]|] eqn:T; try discriminate H;
        try (injection H as <- <-; rewrite closed_g_obj; cbv beta iota zeta; rewrite T; reflexivity).
      destruct (String.eqb t "array") eqn:E1.
      { destruct (jget "items" kv) as [it|] eqn:G; [|discriminate H].
        destruct (inline_rec f tbl it (define kv t defined)) as [[p d1]| | | |] eqn:E; cbn [pbind] in H; try discriminate H.
        injection H as <- <-. rewrite closed_g_obj. rewrite (jget_jset_neq "type") by reflexivity. rewrite T. cbv beta iota zeta.
        rewrite define_jset by reflexivity. rewrite E1, jget_jset_eq. eauto. }
      destruct (String.eqb t "map") eqn:E2.
      { destruct (jget "values" kv) as [it|] eqn:G; [|discriminate H].
        destruct (inline_rec f tbl it (define kv t defined)) as [[p d1]| | | |] eqn:E; cbn [pbind] in H; try discriminate H.
        injection H as <- <-. rewrite closed_g_obj. rewrite (jget_jset_neq "type") by reflexivity. rewrite T. cbv beta iota zeta.
        rewrite define_jset by reflexivity. rewrite E1, E2, jget_jset_eq. eauto. }
      destruct (String.eqb t "record" || String.eqb t "error") eqn:E3.
      { match type of H with pbind ?e _ = _ => destruct e as [fl| | | |] eqn:EF; cbn [pbind] in H; try discriminate H end.
        destruct (inline_fields (inline_rec f tbl) fl (define kv t defined)) as [[fs d1]| | | |] eqn:E; cbn [pbind] in H; try discriminate H.
        injection H as <- <-. rewrite closed_g_obj. rewrite (jget_jset_neq "type") by reflexivity. rewrite T. cbv beta iota zeta.
        rewrite define_jset by reflexivity. rewrite E1, E2, E3, jget_jset_eq.
        rewrite closed_g_arr. eapply inline_fields_rel; eauto. }
      injection H as <- <-. rewrite closed_g_obj. cbv beta iota zeta. now rewrite T, E1, E2, E3.
  Qed.
End Rel.

Theorem inline_result_closed_rel tbl p q : inline tbl p = POk q -> closed_rel tbl q = true.
Proof.
  unfold inline, closed_rel. intros H.
  destruct (inline_rec (inline_fuel tbl p) tbl p []) as [[q0 d]| | | |] eqn:E; cbn [pbind] in H; try discriminate H.
  injection H as <-. cbn [fst]. now rewrite (inline_closed_rel _ _ _ _ _ _ E).
Qed.
