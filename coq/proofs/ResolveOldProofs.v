(** The refutations of the full statement C08_factor about the code as it was before the repairs
    (model/ResolveOld.v): concrete witnesses, by computation.  Documentation of the old behaviour. *)
From Coq Require Import Lia ZifyBool String.
From FA Require Import model.Base model.Varint model.Value model.Schema model.Float model.Utf8 model.Codec
                       model.Validate model.Read model.Resolve model.ResolveOld
                       proofs.VarintProofs proofs.CodecProofs proofs.ResolveProofs.
Open Scope string_scope. Open Scope Z_scope.

Lemma old_F6 : rdec_old 3 [] [] ropts0 SBytes (Some f6_r) (wire f6_a) = ROk (PStr [97; 98; 99], []).
Proof. vm_compute; reflexivity. Qed.
Lemma old_F7 : rdec_old 5 f7_we f7_re ropts0 f7_w (Some f7_r) (wire f7_a) = RErrResolution.
Proof. vm_compute; reflexivity. Qed.
Lemma old_ref_vs_union_inline : rdec_old 5 g1_we g1_re ropts0 g1_w (Some g1_r) (wire g1_a) = RErrOther.
Proof. vm_compute; reflexivity. Qed.
Lemma old_kind :
  rdec_old 5 [(s2b "R", g2_w)] [(s2b "R", g2_r)] ropts0 g2_w (Some g2_r) (wire (ARecord [AInt 1])) = RErrOther /\
  rdec_old 5 [(s2b "F", F4)] [(s2b "F", g2b_r)] ropts0 F4 (Some g2b_r) (wire (AFixed [1; 2; 3; 4])) = ROk (PBytes [1; 2; 3; 4], []).
Proof. split; vm_compute; reflexivity. Qed.
Lemma old_default_bytes :
  rdec_old 5 [(s2b "R", g3_w)] [(s2b "R", g3_r)] ropts0 g3_w (Some g3_r) (wire (ARecord [AInt 1]))
  = ROk (PDict [(PStr (s2b "x"), PInt 1); (PStr (s2b "b"), PStr [195; 191])], []).
Proof. vm_compute; reflexivity. Qed.
Lemma old_int_to_float :
  rdec_old 3 [] [] ropts0 SInt (Some SFloat) (wire (AInt 16777217)) = ROk (PFloat 4715268810125344768, []).
Proof. vm_compute; reflexivity. Qed.
Lemma old_identity_same_unqualified_name : rdec_old 5 g5_e g5_e ropts0 g5_u (Some g5_u) (wire g5_v) = RErrResolution.
Proof. vm_compute; reflexivity. Qed.
Lemma old_refs_by_name_only :
  rdec_old 5 [(s2b "R", g6_w); (s2b "F", F4)] [(s2b "R", g6_r); (s2b "F", F5)] ropts0 g6_w (Some g6_r) (wire g6_a)
  = ROk (PDict [(PStr (s2b "u"), PNone); (PStr (s2b "xs"), PList [])], []).
Proof. vm_compute; reflexivity. Qed.
