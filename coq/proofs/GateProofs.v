(** C10: the validation gate of the Python-level writer (model/ContainerPy.v [pstep]: Writer.write = gate, elaboration
    into the pending block, block logic) connected with the validator model: a validating writer rejects everything
    validate rejects before any byte of that record reaches the pending block or the stream. *)
From Coq Require Import Lia ZifyBool String.
From FA Require Import model.Base model.Varint model.Value model.Schema model.Codec model.Validate model.Write model.Read
                       model.Conform model.Container model.ContainerPy
                       proofs.CodecProofs proofs.ContainerProofs proofs.ContainerPyProofs proofs.ElabProofs.
Open Scope Z_scope.

Section Gate.
  Variable compress : bytes -> bytes.
  Variable sync : bytes.
  Variables (fuel : nat) (wo : wopts) (e : env) (s : schema).
  Notation step := (pstep compress sync fuel wo true e s).
  Notation run_py := (prun compress sync fuel wo true e s).

  (* rejected by validate (raise_errors=False answers False  <=>  raise_errors=True raises ValidationError): the writer
     state -- stream, pending block, record count, sync interval -- is exactly what it was, and write raises *)
  Theorem gate_false st v : validate fuel wo e s (Some v) = Ok false -> step st (PWrite v) = (st, PRaised).
  Proof. apply gate_rejects. reflexivity. Qed.

  Theorem gate_raises st v : validate_raise fuel wo e s (Some v) = VRaised -> step st (PWrite v) = (st, PRaised).
  Proof. intros H. apply gate_false. apply validate_raise_iff. exact H. Qed.

  (* in terms of the documented mapping: whenever the validator answers on a datum that does not conform, the record
     is rejected with the writer untouched *)
  Theorem gate_nonconforming st v b : validate fuel wo e s (Some v) = Ok b -> ~ conformsP wo e s v ->
    step st (PWrite v) = (st, PRaised).
  Proof.
    intros H Hn. destruct b; [|apply gate_false; exact H]. exfalso. apply Hn. apply (validate_iff _ _ _ _ _ _ H). reflexivity.
  Qed.

  (* a foreign exception inside validation (unknown type name) also leaves the writer untouched *)
  Theorem gate_error st v : validate fuel wo e s (Some v) = Err -> step st (PWrite v) = (st, PRaised).
  Proof. intros H. unfold pstep, lower. rewrite H. reflexivity. Qed.

  (* no byte of the rejected record is emitted: the stream and the pending block are unchanged *)
  Corollary gate_no_byte st v : validate fuel wo e s (Some v) = Ok false ->
    out (fst (step st (PWrite v))) = out st /\ buf (fst (step st (PWrite v))) = buf st /\ cnt (fst (step st (PWrite v))) = cnt st.
  Proof. intros H. rewrite (gate_false st v H). repeat split. Qed.

  (* conversely only validated records get through: a successful write was accepted by validate and elaborated *)
  Theorem gate_only_validated st st' v : step st (PWrite v) = (st', POk) ->
    validate fuel wo e s (Some v) = Ok true /\ exists a, elab fuel wo e s v = WOk a /\ st' = wstep compress sync st (OWrite a).
  Proof.
    unfold pstep, lower. destruct (validate fuel wo e s (Some v)) as [[|]| |]; try (intros H; discriminate H).
    destruct (elab fuel wo e s v) as [a| | |]; intros H; try discriminate H. injection H as <-.
    split; [reflexivity|]. exists a. split; reflexivity.
  Qed.

  (* whatever happens before and after, the history with the rejected write is the history without it: the file
     finally on the stream holds exactly the other records *)
  Theorem gate_history st ops1 ops2 v : validate fuel wo e s (Some v) = Ok false ->
    run_py st (ops1 ++ PWrite v :: ops2) = run_py st (ops1 ++ ops2).
  Proof.
    intros H. unfold prun. rewrite !fold_left_app. cbn [fold_left]. rewrite (gate_false _ v H). reflexivity.
  Qed.
End Gate.
