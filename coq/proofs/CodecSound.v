(** Soundness of the decoder: whatever [dec] returns has the shape the schema prescribes -- in
    particular every union and enum index at every position is in range -- and is obtained by consuming
    a prefix of the input.  Hence an out-of-range index ANYWHERE in an encoding makes decoding fail. *)
From Coq Require Import Lia ZifyBool.
From FA Require Import model.Base model.Varint model.Value model.Schema model.Utf8 model.Codec
                       proofs.VarintProofs proofs.CodecProofs.

(* shape: like [typedn] without the numeric range conditions the decoder does not check *)
Fixpoint shape (n : nat) (e : env) (s : schema) (a : aval) {struct n} : Prop :=
  match n with
  | O => False
  | S n =>
    match s, a with
    | SNull, ANull => True
    | SBool, ABool _ => True
    | SInt, AInt _ | SLong, AInt _ => True
    | SFloat, AFloat _ | SDouble, ADouble _ => True
    | SBytes, ABytes _ => True
    | SString, AString b => utf8_valid b = true
    | SFixed _ _ size, AFixed b => len b = size
    | SEnum _ _ syms _, AEnum i => 0 <= i < len syms
    | SArray s, AArray l => Forall (shape n e s) l
    | SMap s, AMap l => Forall (fun kv => utf8_valid (fst kv) = true /\ shape n e s (snd kv)) l
    | SUnion l, AUnion i a => exists s, nthZ l i = Some s /\ 0 <= i < len l /\ shape n e s a
    | SRecord _ _ fs, ARecord l => Forall2 (fun f a => shape n e (ftype f) a) fs l
    | SRef nm, a => exists s, lookup e nm = Some s /\ shape n e s a
    | SAnnot _ s, a => shape n e s a
    | _, _ => False
    end
  end.

Lemma shape_ref n e nm a : shape (S n) e (SRef nm) a <-> exists s, lookup e nm = Some s /\ shape n e s a.
Proof. destruct a; reflexivity. Qed.
Lemma shape_annot n e lt s a : shape (S n) e (SAnnot lt s) a <-> shape n e s a.
Proof. destruct a; reflexivity. Qed.

Definition consumes {A} (bs : bytes) (x : A * bytes) : Prop := exists pre, bs = pre ++ snd x.

Lemma consumes_trans {A B} (bs mid : bytes) (a : A) (b : B) r :
  consumes bs (a, mid) -> consumes mid (b, r) -> consumes bs (b, r).
Proof. intros [p1 ->] [p2 H]. cbn [snd] in *. subst mid. exists (p1 ++ p2). rewrite app_assoc. reflexivity. Qed.

Lemma long_dec_consumes bs z r : long_dec bs = Ok (z, r) -> consumes bs (z, r).
Proof. intros H. destruct (long_dec_suffix _ _ _ H) as (pre & _ & ->). exists pre. reflexivity. Qed.

Lemma read_n_consumes n bs x r : read_n n bs = Ok (x, r) -> consumes bs (x, r).
Proof. intros H. destruct (read_n_split _ _ _ _ H) as [-> _]. exists x. reflexivity. Qed.

Lemma dec_bytes_consumes bs x r : dec_bytes bs = Ok (x, r) -> consumes bs (x, r).
Proof.
  unfold dec_bytes. intros H. inv_bind_n H n r0.
  eapply consumes_trans; [eapply long_dec_consumes; exact E|eapply read_n_consumes; exact H].
Qed.

Lemma dec_utf8_ok_inv bs x r : dec_utf8 bs = Ok (x, r) -> utf8_valid x = true /\ consumes bs (x, r).
Proof.
  unfold dec_utf8. intros H. inv_bind_n H b r0. destruct (utf8_valid b) eqn:U; [|discriminate].
  injection H as <- <-. split; [exact U|apply dec_bytes_consumes; exact E].
Qed.

Section Loops.
  Context {A : Type}.
  Variable rec : bytes -> res (A * bytes).
  Variable P : A -> Prop.
  Hypothesis Hrec : forall bs a r, rec bs = Ok (a, r) -> P a /\ consumes bs (a, r).

  Lemma items_pos_sound p : forall bs l r, items_pos rec p bs = Ok (l, r) -> Forall P l /\ consumes bs (l, r).
  Proof.
    induction p as [p IH|p IH|]; intros bs l r H; cbn [items_pos] in H.
    - inv_bind_n H a r0. inv_bind_n H l1 r1. inv_bind_n H l2 r2. injection H as <- <-.
      destruct (Hrec _ _ _ E) as [Ha Ca]. destruct (IH _ _ _ E0) as [H1 C1]. destruct (IH _ _ _ E1) as [H2 C2].
      split; [constructor; [exact Ha|apply Forall_app; split; assumption]|].
      eapply consumes_trans; [exact Ca|]. eapply consumes_trans; [exact C1|]. destruct C2 as [p2 ->]. exists p2. reflexivity.
    - inv_bind_n H l1 r1. inv_bind_n H l2 r2. injection H as <- <-.
      destruct (IH _ _ _ E) as [H1 C1]. destruct (IH _ _ _ E0) as [H2 C2].
      split; [apply Forall_app; split; assumption|]. eapply consumes_trans; [exact C1|]. destruct C2 as [p2 ->]. exists p2. reflexivity.
    - inv_bind_n H a r0. injection H as <- <-. destruct (Hrec _ _ _ E) as [Ha [pre ->]].
      split; [constructor; [exact Ha|constructor]|exists pre; reflexivity].
  Qed.

  Lemma items_Z_sound c bs l r : items_Z rec c bs = Ok (l, r) -> Forall P l /\ consumes bs (l, r).
  Proof.
    destruct c; cbn [items_Z]; try (intros H; injection H as <- <-; split; [constructor|exists []; reflexivity]).
    apply items_pos_sound.
  Qed.

  Lemma blocks_sound k : forall bs l r, blocks rec k bs = Ok (l, r) -> Forall P l /\ consumes bs (l, r).
  Proof.
    induction k as [|k IH]; intros bs l r H; cbn [blocks] in H; [discriminate|].
    inv_bind_n H c r0. pose proof (long_dec_consumes _ _ _ E) as C0.
    destruct (c =? 0).
    - injection H as <- <-. split; [constructor|]. destruct C0 as [p ->]. exists p. reflexivity.
    - destruct (c <? 0).
      + inv_bind_n H c' r1. inv_bind_n E0 sz r2. injection E0 as <- <-.
        inv_bind_n H l1 r3. inv_bind_n H l2 r4. injection H as <- <-.
        destruct (items_Z_sound _ _ _ _ E0) as [H1 C1]. destruct (IH _ _ _ E2) as [H2 C2].
        split; [apply Forall_app; split; assumption|].
        eapply consumes_trans; [exact C0|]. eapply consumes_trans; [eapply long_dec_consumes; exact E1|].
        eapply consumes_trans; [exact C1|]. destruct C2 as [p2 ->]. exists p2. reflexivity.
      + cbn [bind] in H. inv_bind_n H l1 r3. inv_bind_n H l2 r4. injection H as <- <-.
        destruct (items_Z_sound _ _ _ _ E0) as [H1 C1]. destruct (IH _ _ _ E1) as [H2 C2].
        split; [apply Forall_app; split; assumption|].
        eapply consumes_trans; [exact C0|]. eapply consumes_trans; [exact C1|]. destruct C2 as [p2 ->]. exists p2. reflexivity.
  Qed.
End Loops.

Lemma fields_sound rec (P : schema -> aval -> Prop) :
  (forall s bs a r, rec s bs = Ok (a, r) -> P s a /\ consumes bs (a, r)) ->
  forall fs bs l r, fields rec fs bs = Ok (l, r) -> Forall2 (fun f a => P (ftype f) a) fs l /\ consumes bs (l, r).
Proof.
  intros Hrec. induction fs as [|fd fs IH]; intros bs l r H; cbn [fields] in H.
  - injection H as <- <-. split; [constructor|exists []; reflexivity].
  - inv_bind_n H a r0. inv_bind_n H l1 r1. injection H as <- <-.
    destruct (Hrec _ _ _ _ E) as [Ha Ca]. destruct (IH _ _ _ E0) as [H1 C1].
    split; [constructor; assumption|]. eapply consumes_trans; [exact Ca|]. destruct C1 as [p ->]. exists p. reflexivity.
Qed.

Theorem dec_sound : forall f e s bs a r, dec f e s bs = Ok (a, r) -> shape f e s a /\ consumes bs (a, r).
Proof.
  induction f as [|f IH]; intros e s bs a r H; cbn [dec] in H; [discriminate|].
  destruct s.
  - injection H as <- <-. split; [exact I|exists []; reflexivity].
  - destruct bs as [|b bs]; [discriminate|]. injection H as <- <-. split; [exact I|exists [b]; reflexivity].
  - inv_bind_n H z r0. injection H as <- <-. split; [exact I|eapply long_dec_consumes; exact E].
  - inv_bind_n H z r0. injection H as <- <-. split; [exact I|eapply long_dec_consumes; exact E].
  - inv_bind_n H p r0. injection H as <- <-. split; [exact I|]. destruct (read_n_consumes _ _ _ _ E) as [pre ->]. exists pre. reflexivity.
  - inv_bind_n H p r0. injection H as <- <-. split; [exact I|]. destruct (read_n_consumes _ _ _ _ E) as [pre ->]. exists pre. reflexivity.
  - inv_bind_n H p r0. injection H as <- <-. split; [exact I|]. destruct (dec_bytes_consumes _ _ _ E) as [pre ->]. exists pre. reflexivity.
  - inv_bind_n H p r0. injection H as <- <-. destruct (dec_utf8_ok_inv _ _ _ E) as [U [pre ->]]. split; [exact U|exists pre; reflexivity].
  - inv_bind_n H p r0. injection H as <- <-. destruct (read_n_split _ _ _ _ E) as [-> Hl]. split; [exact Hl|exists p; reflexivity].
  - inv_bind_n H i r0. destruct ((0 <=? i) && (i <? len syms)) eqn:Ei; [|discriminate]. injection H as <- <-.
    split; [cbn [shape]; lia|]. destruct (long_dec_consumes _ _ _ E) as [pre ->]. exists pre. reflexivity.
  - inv_bind_n H l r0. injection H as <- <-.
    destruct (blocks_sound (dec f e s) (shape f e s) (fun b x y Hd => IH e s b x y Hd) _ _ _ _ E) as [Hl [pre ->]].
    split; [exact Hl|exists pre; reflexivity].
  - inv_bind_n H l r0. injection H as <- <-.
    assert (Hitem : forall b x y, map_item (dec f e s) b = Ok (x, y) ->
              (utf8_valid (fst x) = true /\ shape f e s (snd x)) /\ consumes b (x, y)).
    { intros b [k v] y Hm. unfold map_item in Hm. inv_bind_n Hm k0 r1. inv_bind_n Hm v0 r2. injection Hm as <- <- <-.
      destruct (dec_utf8_ok_inv _ _ _ E0) as [U C1]. destruct (IH _ _ _ _ _ E1) as [Hs C2]. cbn [fst snd].
      split; [split; assumption|]. eapply consumes_trans; [exact C1|]. destruct C2 as [p ->]. exists p. reflexivity. }
    destruct (blocks_sound (map_item (dec f e s)) _ Hitem _ _ _ _ E) as [Hl [pre ->]].
    split; [exact Hl|exists pre; reflexivity].
  - inv_bind_n H i r0. destruct (nthZ bs0 i) as [s0|] eqn:En; [|discriminate]. inv_bind_n H a0 r1. injection H as <- <-.
    destruct (IH _ _ _ _ _ E0) as [Hs C2]. pose proof (nthZ_range _ _ _ En) as Hr.
    split; [exists s0; repeat split; try assumption; lia|].
    eapply consumes_trans; [eapply long_dec_consumes; exact E|]. destruct C2 as [p ->]. exists p. reflexivity.
  - inv_bind_n H l r0. injection H as <- <-.
    destruct (fields_sound (dec f e) (shape f e) (fun s0 b x y Hd => IH e s0 b x y Hd) _ _ _ _ E) as [Hl [pre ->]].
    split; [exact Hl|exists pre; reflexivity].
  - destruct (lookup e n) as [s0|] eqn:El; [|discriminate]. destruct (IH _ _ _ _ _ H) as [Hs C].
    split; [apply shape_ref; exists s0; split; assumption|exact C].
  - destruct (IH _ _ _ _ _ H) as [Hs C]. split; [apply shape_annot; exact Hs|exact C].
Qed.

(** The global form of "a bad index is an error": no successful decoding contains, at any depth, a union
    branch index or an enum index outside its schema's range. *)
Corollary decoded_indices_in_range f e s bs a r : dec f e s bs = Ok (a, r) -> shape f e s a.
Proof. intros H. exact (proj1 (dec_sound f e s bs a r H)). Qed.
