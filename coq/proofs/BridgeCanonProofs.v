(** The codec schema of a parsed schema, erased, is the codec schema of the specification's
    canonical JSON of the raw schema: [erase_schema (schema_of_json (parse j)) =
    schema_of_json (pcf_json j)].  Hence a schema and its canonical form describe the same
    binary encoding (C13_same_encoding). *)
From Coq Require Import String Ascii Lia.
From FA Require Import model.Base model.Value model.Schema model.Json model.Parse model.SchemaSpec model.Inline
     model.Canon model.Bridge proofs.JsonProofs proofs.ParseProofs proofs.CanonProofs.
Open Scope string_scope.

Definition erase_field (f : field) : field := mkField (fname f) (erase_schema (ftype f)) None [].

(** ---- one-level unfoldings of the bridge ---- *)
Lemma bridge_m_obj kv m : bridge_m (JObj kv) m = bridge_obj kv (map (fun p => (fst p, bridge_m (snd p))) kv) m.
Proof. reflexivity. Qed.

Lemma bsubr_map k kv m :
  bsubr k (map (fun p => (fst p, bridge_m (snd p))) kv) m = match jget k kv with Some v => bridge_m v m | None => None end.
Proof. unfold bsubr. rewrite jget_map. destruct (jget k kv); reflexivity. Qed.

Lemma bridge_arr l :
  bridge_m (JArr l) BSchema =
  match all_some (map (fun j => as_schema (bridge_m j BSchema)) l) with Some x => Some (BS (SUnion x)) | None => None end.
Proof. unfold bridge_m. rewrite jfold_arr. now rewrite map_map. Qed.

Lemma bridge_fields l :
  bridge_m (JArr l) BFields =
  match all_some (map (fun j => as_field (bridge_m j BField)) l) with Some x => Some (BFs x) | None => None end.
Proof. unfold bridge_m. rewrite jfold_arr. now rewrite map_map. Qed.

Lemma prim_schema_prim s : is_prim s = true -> exists c, prim_schema s = Some c /\ erase_schema c = c.
Proof.
  unfold is_prim, mem, PRIMITIVES, prim_schema. cbn [existsb]. intros H.
  repeat match goal with |- context [String.eqb s ?x] => destruct (String.eqb s x) eqn:?; [eexists; split; reflexivity|] end.
  repeat match goal with E : String.eqb s _ = false |- _ => rewrite E in H; clear E end. discriminate H.
Qed.

Lemma prim_schema_nonprim s : is_prim s = false -> prim_schema s = None.
Proof.
  unfold is_prim, mem, PRIMITIVES, prim_schema. cbn [existsb]. intros H.
  repeat (apply Bool.orb_false_iff in H; destruct H as [? H]).
  repeat match goal with E : String.eqb s ?x = false |- _ => rewrite E; clear E end. reflexivity.
Qed.

Lemma erase_annot kv c : erase_schema (annot kv c) = erase_schema c.
Proof. unfold annot. destruct (lt_of kv); reflexivity. Qed.

Lemma strs_of_symbols syms ss : symbol_strings syms = Some ss -> strs_of syms = Some (map s2b ss).
Proof.
  revert ss. induction syms as [|[| | | |s| |] r IH]; intros ss H; cbn [symbol_strings] in H; try discriminate H.
  - injection H as <-. reflexivity.
  - destruct (symbol_ok s); [|discriminate H]. destruct (symbol_strings r) as [t|] eqn:E; [|discriminate H].
    injection H as <-. cbn [strs_of map]. now rewrite (IH t eq_refl).
Qed.

Lemma pcf_json_in_obj' kv ns : pcf_json_in ns (JObj kv) = pcf_obj kv (map (fun p => (fst p, pcf_m (snd p))) kv) PSchema ns.
Proof. reflexivity. Qed.

Definition bridge_spec (rec : recfun) : Prop :=
  forall j ns wh st d p st',
    simple_m j PSchema = true -> rec j ns wh st d = POk (p, st') ->
    option_map erase_schema (schema_of_json p) = schema_of_json (pcf_json_in ns j).

Section BridgeStep.
  Variable rec : recfun.
  Hypothesis IH : bridge_spec rec.

  Lemma members_bridge ns l st ps st' :
    forallb (fun j => simple_m j PSchema) l = true -> members_ok rec ns l st ps st' ->
    option_map (map erase_schema) (all_some (map (fun j => as_schema (bridge_m j BSchema)) ps)) =
    all_some (map (fun j => as_schema (bridge_m j BSchema)) (map (pcf_json_in ns) l)).
  Proof.
    intros S M. induction M as [|s r st p st1 ps st2 R M IHM]; [reflexivity|].
    cbn [forallb] in S. apply Bool.andb_true_iff in S. destruct S as [S1 S2].
    pose proof (IH _ _ _ _ _ _ _ S1 R) as A. specialize (IHM S2). unfold schema_of_json in A.
    cbn [map all_some]. rewrite <- A, <- IHM.
    destruct (as_schema (bridge_m p BSchema)); cbn [option_map]; [|reflexivity].
    destruct (all_some (map (fun j => as_schema (bridge_m j BSchema)) ps)); reflexivity.
  Qed.

  Lemma field_bridge ns fd st p st' :
    simple_m fd PField = true -> field_ok rec ns fd st p st' ->
    option_map erase_field (as_field (bridge_m p BField)) = as_field (bridge_m (pcf_m fd PField ns) BField).
  Proof.
    intros S F. destruct F as [fkv nm ty st p st1 N T R].
    rewrite simple_m_obj in S. cbn zeta in S. rewrite N, bsub_map, T in S.
    destruct nm as [| | | |nm| |]; try discriminate S. cbn [andb] in S.
    pose proof (IH _ _ _ _ _ _ _ S R) as A. unfold schema_of_json, pcf_json_in in A.
    rewrite pcf_m_obj. unfold pcf_obj, attr. rewrite N, psub_map, T.
    rewrite !bridge_m_obj. unfold bridge_obj. rewrite !bsubr_map. getk.
    cbn [jget String.eqb Ascii.eqb Bool.eqb]. rewrite <- A.
    destruct (as_schema (bridge_m p BSchema)); reflexivity.
  Qed.

  Lemma fields_bridge ns l st ps st' :
    forallb (fun j => simple_m j PField) l = true -> fields_ok rec ns l st ps st' ->
    option_map (map erase_field) (all_some (map (fun j => as_field (bridge_m j BField)) ps)) =
    all_some (map (fun j => as_field (bridge_m j BField)) (map (fun f => pcf_m f PField ns) l)).
  Proof.
    intros S M. induction M as [|s r st p st1 ps st2 R M IHM]; [reflexivity|].
    cbn [forallb] in S. apply Bool.andb_true_iff in S. destruct S as [S1 S2].
    pose proof (field_bridge _ _ _ _ _ S1 R) as A. specialize (IHM S2).
    cbn [map all_some]. rewrite <- A, <- IHM.
    destruct (as_field (bridge_m p BField)); cbn [option_map]; [|reflexivity].
    destruct (all_some (map (fun j => as_field (bridge_m j BField)) ps)); reflexivity.
  Qed.

  Lemma lt_of_lit l : lt_of l = match jget "logicalType" l with Some (JStr s) => s2b s | _ => [] end.
  Proof. reflexivity. Qed.

  Lemma node_bridge : bridge_spec (parse_node rec).
  Proof.
    intros j ns wh st d p st' S H. apply parse_node_inv in H.
    destruct H as [s ns wh st d P|s ns wh st d P J|l ns wh st d ps st' M|kv t ns wh st d T P
                   |kv it ns wh st d p st' T I R|kv it ns wh st d p st' T I R
                   |kv ns wh st d ns' full syms ss T SN D SY SS ND parsed
                   |kv ns wh st d ns' full sz T SN D SZ parsed
                   |kv t ns wh st d ns' full fl fs st3 T TT SN D FL FS reckv].
    - (* primitive name *)
      unfold pcf_json_in, pcf_m. cbn [jfold]. rewrite <- is_prim_spec, P.
      unfold schema_of_json, bridge_m. cbn [jfold]. destruct (prim_schema_prim _ P) as (c & -> & E). cbn. now rewrite E.
    - (* reference *)
      unfold pcf_json_in, pcf_m. cbn [jfold]. rewrite <- is_prim_spec, P, <- qualify_spec.
      assert (Q : is_prim (qualify ns s) = false).
      { unfold qualify. destruct (negb (has_dot s) && negb (String.eqb ns "")); [|exact P].
        destruct (is_prim (ns ++ "." ++ s)) eqn:Q; [|reflexivity].
        rewrite is_prim_spec in Q. apply prim_no_dot in Q. rewrite has_dot_join in Q. discriminate Q. }
      unfold schema_of_json, bridge_m. cbn [jfold]. now rewrite (prim_schema_nonprim _ Q).
    - (* union *)
      rewrite simple_arr in S. pose proof (members_bridge _ _ _ _ _ S M) as A.
      rewrite pcf_arr. unfold schema_of_json. rewrite !bridge_arr. rewrite <- A.
      destruct (all_some (map (fun j => as_schema (bridge_m j BSchema)) ps)); reflexivity.
    - (* primitive in dict form *)
      rewrite pcf_json_in_obj'. unfold pcf_obj. rewrite T, <- is_prim_spec, P.
      destruct (prim_schema_prim _ P) as (c & PC & E).
      unfold schema_of_json. rewrite bridge_m_obj. unfold bridge_obj. getk. rewrite PC.
      unfold bridge_m. cbn [jfold]. rewrite PC. cbn. now rewrite E.
    - (* array *)
      rewrite simple_m_obj in S. cbn zeta in S. rewrite (type_is_eq _ _ T) in S. cbn [String.eqb Ascii.eqb Bool.eqb] in S.
      rewrite bsub_map, I in S. pose proof (IH _ _ _ _ _ _ _ S R) as A. unfold schema_of_json, pcf_json_in in A.
      rewrite pcf_json_in_obj'. unfold pcf_obj. rewrite T.
      cbn [spec_is_prim mem existsb spec_prims String.eqb Ascii.eqb Bool.eqb orb]. rewrite psub_map, I.
      unfold schema_of_json. rewrite !bridge_m_obj. unfold bridge_obj. rewrite !bsubr_map. getk.
      cbn [jget prim_schema String.eqb Ascii.eqb Bool.eqb]. rewrite <- A.
      destruct (as_schema (bridge_m p BSchema)); cbn [option_map as_schema]; [|reflexivity].
      now rewrite erase_annot.
    - (* map *)
      rewrite simple_m_obj in S. cbn zeta in S. rewrite !(type_is_eq _ _ T) in S. cbn [String.eqb Ascii.eqb Bool.eqb] in S.
      rewrite bsub_map, I in S. pose proof (IH _ _ _ _ _ _ _ S R) as A. unfold schema_of_json, pcf_json_in in A.
      rewrite pcf_json_in_obj'. unfold pcf_obj. rewrite T.
      cbn [spec_is_prim mem existsb spec_prims String.eqb Ascii.eqb Bool.eqb orb]. rewrite psub_map, I.
      unfold schema_of_json. rewrite !bridge_m_obj. unfold bridge_obj. rewrite !bsubr_map. getk.
      cbn [jget prim_schema String.eqb Ascii.eqb Bool.eqb]. rewrite <- A.
      destruct (as_schema (bridge_m p BSchema)); cbn [option_map as_schema]; [|reflexivity].
      now rewrite erase_annot.
    - (* enum *)
      apply schema_name_spec in SN. destruct SN as (-> & -> & NM). subst parsed.
      rewrite pcf_json_in_obj'. unfold pcf_obj, attr. rewrite T, SY.
      cbn [spec_is_prim mem existsb spec_prims String.eqb Ascii.eqb Bool.eqb orb].
      unfold schema_of_json. rewrite !bridge_m_obj. unfold bridge_obj. getk.
      cbn [jget prim_schema String.eqb Ascii.eqb Bool.eqb]. rewrite (strs_of_symbols _ _ SS).
      cbn [option_map as_schema]. rewrite erase_annot. reflexivity.
    - (* fixed *)
      apply schema_name_spec in SN. destruct SN as (-> & -> & NM). subst parsed.
      rewrite simple_m_obj in S. cbn zeta in S. rewrite !(type_is_eq _ _ T) in S. cbn [String.eqb Ascii.eqb Bool.eqb] in S.
      rewrite SZ in S. destruct sz as [| |z| | | |]; try discriminate S.
      rewrite pcf_json_in_obj'. unfold pcf_obj, attr. rewrite T, SZ.
      cbn [spec_is_prim mem existsb spec_prims String.eqb Ascii.eqb Bool.eqb orb].
      unfold schema_of_json. rewrite !bridge_m_obj. unfold bridge_obj. getk.
      cbn [jget prim_schema String.eqb Ascii.eqb Bool.eqb option_map as_schema]. rewrite erase_annot. reflexivity.
    - (* record / error *)
      apply schema_name_spec in SN. destruct SN as (-> & -> & NM).
      assert (SFL : forallb (fun j => simple_m j PField) fl = true).
      { rewrite simple_m_obj in S. cbn zeta in S. rewrite !(type_is_eq _ _ T) in S.
        destruct FL as [FL|[FL ->]]; [|reflexivity].
        destruct TT as [-> | ->]; cbn [String.eqb Ascii.eqb Bool.eqb orb] in S; rewrite bsub_map, FL in S;
          now rewrite <- simple_fields. }
      pose proof (fields_bridge _ _ _ _ _ SFL FS) as A.
      assert (PF : match jget "fields" (map (fun p => (fst p, pcf_m (snd p))) kv) with
                   | Some r => r PFields (spec_namespace ns kv)
                   | None => JArr []
                   end = JArr (map (fun f => pcf_m f PField (spec_namespace ns kv)) fl)).
      { rewrite jget_map. destruct FL as [FL|[FL ->]]; rewrite FL; cbn [option_map]; [apply pcf_fields|reflexivity]. }
      rewrite pcf_json_in_obj'. unfold pcf_obj. rewrite T, PF.
      assert (BR : schema_of_json (mark wh reckv) = schema_of_json (JObj reckv)).
      { destruct wh; [|reflexivity]. unfold mark, schema_of_json. rewrite !bridge_m_obj. unfold bridge_obj, annot, lt_of, aliases_of.
        rewrite !bsubr_map. subst reckv. getk. reflexivity. }
      rewrite BR. subst reckv. unfold schema_of_json. rewrite !bridge_m_obj. unfold bridge_obj. rewrite !bsubr_map. getk.
      destruct TT as [-> | ->]; cbn [spec_is_prim mem existsb spec_prims jget prim_schema String.eqb Ascii.eqb Bool.eqb orb];
        rewrite ?bridge_m_obj; unfold bridge_obj; rewrite ?bsubr_map;
        cbn [jget prim_schema String.eqb Ascii.eqb Bool.eqb orb];
        rewrite !bridge_fields, <- A;
        (destruct (all_some (map (fun j => as_field (bridge_m j BField)) fs)); cbn [option_map as_schema as_fields]; [|reflexivity]);
        rewrite erase_annot; reflexivity.
  Qed.
End BridgeStep.

Theorem parse_rec_bridge f : bridge_spec (parse_rec f).
Proof.
  induction f as [|f IH]; cbn [parse_rec].
  - intros j ns wh st d p st' _ H. discriminate H.
  - apply node_bridge. exact IH.
Qed.

(** ---- parse_schema: alias placeholders and top-level unions ---- *)
Lemma bridge_jset_irrelevant kv v m :
  bridge_m (JObj (jset "__named_schemas" v kv)) m = bridge_m (JObj kv) m.
Proof.
  rewrite !bridge_m_obj. unfold bridge_obj, annot, lt_of, aliases_of. rewrite !bsubr_map.
  rewrite !jget_jset_neq by reflexivity. reflexivity.
Qed.

Lemma all_some_ext {A B} (f g : A -> option B) l : Forall (fun x => f x = g x) l -> all_some (map f l) = all_some (map g l).
Proof. induction 1 as [|x r Hx Hr IH]; cbn [map all_some]; [reflexivity|]. now rewrite Hx, IH. Qed.

Lemma bridge_tie t p : forall m, bridge_m (tie t p) m = bridge_m p m.
Proof.
  induction p as [| | | | |l IH|kv IH] using json_ind'; intros m; try reflexivity.
  - unfold tie. rewrite jfold_arr. fold (tie t). destruct m; try reflexivity.
    + rewrite !bridge_arr, map_map.
      rewrite (all_some_ext (fun x => as_schema (bridge_m (tie t x) BSchema)) (fun x => as_schema (bridge_m x BSchema)) l); [reflexivity|].
      induction IH as [|x r Hx Hr IHr]; constructor; auto. now rewrite Hx.
    + rewrite !bridge_fields, map_map.
      rewrite (all_some_ext (fun x => as_field (bridge_m (tie t x) BField)) (fun x => as_field (bridge_m x BField)) l); [reflexivity|].
      induction IH as [|x r Hx Hr IHr]; constructor; auto. now rewrite Hx.
  - unfold tie. rewrite jfold_obj.
    destruct (jget "__named_schemas" kv) as [[| | | | | |]|]; try reflexivity.
    apply bridge_jset_irrelevant.
Qed.

Lemma parse_schema_rec_bridge f : forall j st p st',
  simple_raw j = true -> parse_schema_rec f j st = POk (p, st') ->
  option_map erase_schema (schema_of_json p) = schema_of_json (pcf_json j).
Proof.
  induction f as [|f IH]; intros j st p st' S H; cbn [parse_schema_rec] in H; [discriminate H|].
  assert (RUN : forall j0, simple_raw j0 = true -> run_parse f j0 st = POk (p, st') ->
                option_map erase_schema (schema_of_json p) = schema_of_json (pcf_json j0)).
  { unfold run_parse, simple_raw. intros j0 S0 R. apply Bool.andb_true_iff in S0. destruct S0 as [S0 _].
    exact (parse_rec_bridge f _ _ _ _ _ _ _ S0 R). }
  destruct j as [| | | | |l|kv]; try (eapply RUN; eauto; fail).
  - destruct (parse_tops (parse_schema_rec f) l st) as [[ps st1]| | | |] eqn:E; cbn [pbind] in H; try discriminate H.
    injection H as <- <-. apply parse_tops_inv in E. apply simple_raw_arr in S. clear RUN.
    unfold pcf_json. rewrite pcf_arr. unfold schema_of_json. rewrite !bridge_arr, map_map.
    assert (A : option_map (map erase_schema) (all_some (map (fun j => as_schema (bridge_m j BSchema)) ps)) =
                all_some (map (fun x => as_schema (bridge_m (pcf_json_in "" x) BSchema)) l)).
    { induction E as [|s r t p t1' ps t2 R E IHE]; [reflexivity|].
      cbn [forallb] in S. apply Bool.andb_true_iff in S. destruct S as [S1 S2].
      pose proof (IH _ _ _ _ S1 R) as A1. specialize (IHE S2). unfold schema_of_json, pcf_json in A1.
      cbn [map all_some]. rewrite <- A1, <- IHE.
      destruct (as_schema (bridge_m p BSchema)); cbn [option_map]; [|reflexivity].
      destruct (all_some (map (fun j => as_schema (bridge_m j BSchema)) ps)); reflexivity. }
    rewrite <- A. destruct (all_some (map (fun j => as_schema (bridge_m j BSchema)) ps)); reflexivity.
  - assert (U : jhas "__fastavro_parsed" kv = false).
    { unfold simple_raw in S. apply Bool.andb_true_iff in S. destruct S as [_ U].
      rewrite unmarked_obj in U. now apply Bool.negb_true_iff in U. }
    rewrite U in H. eapply RUN; eauto.
Qed.

(* the erased codec schema of the parse is the codec schema of the canonical JSON *)
Theorem bridge_parse_is_canon f j t p t' :
  simple_raw j = true -> parse_schema f j t = POk (p, t') ->
  option_map erase_schema (schema_of_json p) = schema_of_json (pcf_json j).
Proof.
  unfold parse_schema. intros S H.
  destruct (parse_schema_rec f j (mkst [] t)) as [[p0 st1]| | | |] eqn:E; cbn [pbind] in H; try discriminate H.
  injection H as <- <-. unfold schema_of_json. rewrite bridge_tie. eapply parse_schema_rec_bridge; eauto.
Qed.

(* a schema and the parse of its canonical JSON have the same erased codec schema *)
Theorem same_erased_schema j f t p t' f2 t2 p2 t2' :
  ns_closed j = true -> simple_raw j = true -> simple_raw (pcf_json j) = true ->
  parse_schema f j t = POk (p, t') -> parse_schema f2 (pcf_json j) t2 = POk (p2, t2') ->
  option_map erase_schema (schema_of_json p2) = option_map erase_schema (schema_of_json p).
Proof.
  intros C S1 S2 H1 H2.
  rewrite (bridge_parse_is_canon _ _ _ _ _ S2 H2), (bridge_parse_is_canon _ _ _ _ _ S1 H1).
  now rewrite (pcf_json_fixed_point _ C).
Qed.
