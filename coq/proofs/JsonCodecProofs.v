(** Proofs about the JSON codec model: the equations of the specification's JSON encoding, the
    round trip json_dec (json_enc a) = a, agreement with the binary codec, defaults for absent keys. *)
From Coq Require Import Lia ZifyBool String.
From FA Require Import model.Base model.Varint model.Value model.Schema model.Float model.Utf8 model.Codec
                       model.Validate model.Write model.Read model.JsonCodec proofs.VarintProofs proofs.CodecProofs.
Ltac Zify.zify_post_hook ::= Z.to_euclidean_division_equations.
Open Scope Z_scope.
Open Scope list_scope.

(** *** byte strings as keys *)
Lemma jb_refl : forall a, bytes_eqb a a = true.
Proof. induction a as [|x a IH]; cbn [bytes_eqb]; [reflexivity|]. rewrite Z.eqb_refl, IH. reflexivity. Qed.

Lemma jb_eq : forall a b, bytes_eqb a b = true -> a = b.
Proof.
  induction a as [|x a IH]; intros [|y b] H; cbn [bytes_eqb] in H; try discriminate; [reflexivity|].
  apply andb_prop in H. destruct H as [H1 H2]. apply Z.eqb_eq in H1. rewrite (IH _ H2), H1. reflexivity.
Qed.

Lemma jb_neq : forall a b, a <> b -> bytes_eqb a b = false.
Proof. intros a b H. destruct (bytes_eqb a b) eqn:E; [|reflexivity]. apply jb_eq in E. contradiction. Qed.

Lemma existsb_in x l : existsb (bytes_eqb x) l = false -> ~ In x l.
Proof.
  induction l as [|y l IH]; cbn [existsb In]; intros H; [tauto|].
  apply orb_false_elim in H. destruct H as [H1 H2]. intros [->|Hin]; [rewrite jb_refl in H1; discriminate|exact (IH H2 Hin)].
Qed.

Lemma nthZ_in {A} (l : list A) : forall i x, nthZ l i = Some x -> In x l.
Proof.
  induction l as [|a l IH]; intros i x H; cbn [nthZ] in H; [discriminate|].
  destruct (i =? 0); [injection H as <-; left; reflexivity|]. destruct (i <? 0); [discriminate|]. right. exact (IH _ _ H).
Qed.

Lemma nthZ_cons {A} (a : A) l i : 0 < i -> nthZ (a :: l) i = nthZ l (i - 1).
Proof. intros H. cbn [nthZ]. destruct (i =? 0) eqn:E0; [lia|]. destruct (i <? 0) eqn:E1; [lia|]. reflexivity. Qed.

Lemma nthZ_some {A} (l : list A) : forall i, 0 <= i < len l -> exists x, nthZ l i = Some x.
Proof.
  induction l as [|a l IH]; intros i H; [unfold len in H; cbn [length] in H; lia|].
  rewrite len_cons in H. cbn [nthZ]. destruct (i =? 0) eqn:E0; [exists a; reflexivity|].
  destruct (i <? 0) eqn:E1; [lia|]. apply IH. lia.
Qed.

(** *** ISO-8859-1 strings *)
Lemma latin1_rt b : Forall is_byte b -> latin1_dec (latin1_enc b) = Some b.
Proof.
  induction 1 as [|x b Hx _ IH]; [reflexivity|]. unfold is_byte in Hx.
  unfold latin1_enc in *. cbn [flat_map]. unfold latin1_char at 1.
  destruct (x <? 128) eqn:E.
  - cbn [app latin1_dec]. rewrite E. destruct (0 <=? x) eqn:E0; [|lia]. rewrite IH. reflexivity.
  - cbn [app latin1_dec].
    destruct (192 + x / 64 <? 128) eqn:E1; [lia|].
    assert (Hc : ((192 + x / 64 =? 194) || (192 + x / 64 =? 195)) && cont (128 + x mod 64) = true).
    { unfold cont. apply andb_true_intro. split; [apply orb_true_intro|apply andb_true_intro; split]; lia. }
    rewrite Hc, IH. cbn [option_map]. do 2 f_equal. lia.
Qed.

Lemma latin1_valid b : Forall is_byte b -> utf8_valid (latin1_enc b) = true.
Proof.
  induction 1 as [|x b Hx _ IH]; [reflexivity|]. unfold is_byte in Hx.
  unfold latin1_enc in *. cbn [flat_map]. unfold latin1_char at 1.
  destruct (x <? 128) eqn:E.
  - cbn [app utf8_valid]. rewrite E, IH. destruct (0 <=? x) eqn:E0; [reflexivity|lia].
  - cbn [app utf8_valid].
    destruct (192 + x / 64 <? 128) eqn:E1; [lia|].
    assert (H1 : inr 194 223 (192 + x / 64) = true) by (unfold inr; apply andb_true_intro; split; lia).
    assert (H2 : cont (128 + x mod 64) = true) by (unfold cont; apply andb_true_intro; split; lia).
    rewrite H1, H2, IH. reflexivity.
Qed.

(** *** enum symbols, union labels *)
Lemma index_of_nth syms : nodupb syms = true -> forall i x k, nthZ syms i = Some x -> index_of syms x k = Some (k + i).
Proof.
  induction syms as [|y syms IH]; intros Hnd i x k H; cbn [nthZ] in H; [discriminate|].
  cbn [nodupb] in Hnd. apply andb_prop in Hnd. destruct Hnd as [Hy Hnd]. apply negb_true_iff in Hy.
  cbn [index_of]. destruct (i =? 0) eqn:E0.
  - injection H as <-. rewrite jb_refl. f_equal. lia.
  - destruct (i <? 0) eqn:E1; [discriminate|].
    rewrite jb_neq; [|intros ->; exact (existsb_in _ _ Hy (nthZ_in _ _ _ H))].
    rewrite (IH Hnd _ _ (k + 1) H). f_equal. lia.
Qed.

Lemma find_label_nth bs : nodupb (map jlabel bs) = true -> forall i b k, nthZ bs i = Some b -> find_label (jlabel b) bs k = Some (k + i).
Proof.
  induction bs as [|b0 bs IH]; intros Hnd i b k H; cbn [nthZ] in H; [discriminate|].
  cbn [map nodupb] in Hnd. apply andb_prop in Hnd. destruct Hnd as [Hy Hnd]. apply negb_true_iff in Hy.
  cbn [find_label]. destruct (i =? 0) eqn:E0.
  - injection H as <-. rewrite jb_refl. f_equal. lia.
  - destruct (i <? 0) eqn:E1; [discriminate|].
    rewrite jb_neq.
    + rewrite (IH Hnd _ _ (k + 1) H). f_equal. lia.
    + intros Heq. apply (existsb_in _ _ Hy). rewrite Heq. apply in_map. exact (nthZ_in _ _ _ H).
Qed.

Lemma find_null_nth e bs : nodupb (map jlabel bs) = true ->
  (forall b, is_null e b = true -> jlabel b = s2b "null"%string) ->
  forall i b k, nthZ bs i = Some b -> is_null e b = true -> find_null e bs k = Some (k + i).
Proof.
  intros Hnd Hlab. revert Hnd.
  induction bs as [|b0 bs IH]; intros Hnd i b k H Hb; cbn [nthZ] in H; [discriminate|].
  cbn [map nodupb] in Hnd. apply andb_prop in Hnd. destruct Hnd as [Hy Hnd]. apply negb_true_iff in Hy.
  cbn [find_null]. destruct (i =? 0) eqn:E0.
  - injection H as <-. rewrite Hb. f_equal. lia.
  - destruct (i <? 0) eqn:E1; [discriminate|].
    destruct (is_null e b0) eqn:E2.
    + exfalso. apply (existsb_in _ _ Hy). rewrite (Hlab _ E2), <- (Hlab _ Hb). apply in_map. exact (nthZ_in _ _ _ H).
    + rewrite (IH Hnd _ _ (k + 1) H Hb). f_equal. lia.
Qed.

(** *** environments *)
Lemma lookup_wf e : wf_envb e = true -> forall nm s, lookup e nm = Some s -> is_def s = true /\ wfb s = true.
Proof.
  induction e as [|[k s0] e IH]; intros Hwf nm s H; cbn [lookup] in H; [discriminate|].
  cbn [wf_envb forallb snd] in Hwf. apply andb_prop in Hwf. destruct Hwf as [H0 Hwf].
  destruct (bytes_eqb k nm).
  - injection H as <-. apply andb_prop in H0. exact H0.
  - exact (IH Hwf _ _ H).
Qed.

Lemma is_def_resolve e s : is_def s = true -> resolve e s = strip s.
Proof. unfold is_def, resolve. destruct (strip s); try discriminate; reflexivity. Qed.

Lemma resolve_ref e nm s : wf_envb e = true -> lookup e nm = Some s -> resolve e (SRef nm) = resolve e s.
Proof.
  intros Hwf Hl. destruct (lookup_wf e Hwf _ _ Hl) as [Hd _]. rewrite (is_def_resolve e s Hd).
  unfold resolve. cbn [strip]. rewrite Hl. reflexivity.
Qed.

Lemma resolve_annot e lt s : resolve e (SAnnot lt s) = resolve e s.
Proof. reflexivity. Qed.

Lemma is_null_label e : wf_envb e = true -> forall b, is_null e b = true -> jlabel b = s2b "null"%string.
Proof.
  intros Hwf b H. unfold is_null, resolve in H. unfold jlabel.
  destruct (strip b) eqn:Es; try discriminate; [reflexivity|].
  destruct (lookup e n) as [s'|] eqn:El; [|discriminate].
  destruct (lookup_wf e Hwf _ _ El) as [Hd _]. unfold is_def in Hd. destruct (strip s'); discriminate.
Qed.

(** the encoder looks at the schema only through [resolve] *)
Lemma enc_resolve wut e s s' a : resolve e s = resolve e s' -> json_enc_gen wut e s a = json_enc_gen wut e s' a.
Proof. intros H. destruct a; cbn [json_enc_gen]; rewrite H; reflexivity. Qed.

(** *** the loops, generically in the element encoder / decoder *)
Section Loops.
  Variable re : schema -> aval -> option jv.
  Variable rd : schema -> jv -> res aval.
  Definition rt_ok (s : schema) (x : aval) : Prop := exists j, re s x = Some j /\ rd s j = Ok x.

  Lemma items_rt s l : Forall (rt_ok s) l -> exists js, enc_items re s l = Some js /\ dec_items rd s js = Ok l.
  Proof.
    induction 1 as [|x l (j & He & Hd) _ (js & IHe & IHd)]; [exists []; split; reflexivity|].
    exists (j :: js). cbn [enc_items dec_items]. rewrite He, IHe, Hd. cbn [bind]. rewrite IHd. split; reflexivity.
  Qed.

  Lemma map_rt s l : Forall (fun kx => utf8_valid (fst kx) = true /\ rt_ok s (snd kx)) l ->
    exists kv, enc_map re s l = Some kv /\ dec_map rd s kv = Ok l.
  Proof.
    induction 1 as [|[k x] l (Hk & j & He & Hd) _ (kv & IHe & IHd)]; [exists []; split; reflexivity|].
    cbn [fst snd] in *. exists ((k, j) :: kv). cbn [enc_map dec_map fst snd]. rewrite He, IHe, Hk, Hd. cbn [bind]. rewrite IHd.
    split; reflexivity.
  Qed.

  Variable dfl : schema -> pyval -> res aval.

  Lemma jlookup_app pre kv k : jlookup pre k = None -> jlookup (pre ++ kv) k = jlookup kv k.
  Proof.
    induction pre as [|[k' v] pre IH]; cbn [app jlookup]; [reflexivity|].
    destruct (bytes_eqb k' k); [discriminate|exact IH].
  Qed.

  Lemma jlookup_snoc pre k j k' : jlookup pre k' = None -> k <> k' -> jlookup (pre ++ [(k, j)]) k' = None.
  Proof. intros H Hne. rewrite jlookup_app by exact H. cbn [jlookup]. rewrite jb_neq by exact Hne. reflexivity. Qed.

  Lemma fields_rt fs l : Forall2 (fun f x => rt_ok (ftype f) x) fs l -> nodupb (map (fun f => fname f) fs) = true ->
    exists kv, enc_fields re fs l = Some kv /\
      forall pre, (forall f, In f fs -> jlookup pre (fname f) = None) -> dec_fields rd dfl (pre ++ kv) fs = Ok l.
  Proof.
    induction 1 as [|f x fs l (j & He & Hd) _ IH]; intros Hnd.
    - exists []. split; [reflexivity|]. intros pre _. reflexivity.
    - cbn [map nodupb] in Hnd. apply andb_prop in Hnd. destruct Hnd as [Hf Hnd]. apply negb_true_iff in Hf.
      destruct (IH Hnd) as (kv & IHe & IHd). exists ((fname f, j) :: kv). cbn [enc_fields]. rewrite He, IHe.
      split; [reflexivity|]. intros pre Hpre. cbn [dec_fields]. unfold dec_field at 1.
      rewrite jlookup_app by (apply Hpre; left; reflexivity). cbn [jlookup]. rewrite jb_refl, Hd. cbn [bind].
      change (pre ++ (fname f, j) :: kv) with (pre ++ [(fname f, j)] ++ kv). rewrite app_assoc, IHd; [reflexivity|].
      intros f' Hin. apply jlookup_snoc; [apply Hpre; right; exact Hin|].
      intros Heq. apply (existsb_in _ _ Hf). rewrite Heq. apply (in_map (fun f => fname f)). exact Hin.
  Qed.
End Loops.

Lemma forallb_Forall {A} (p : A -> bool) l : forallb p l = true -> Forall (fun x => p x = true) l.
Proof. induction l as [|x l IH]; cbn [forallb]; intros H; constructor; apply andb_prop in H; [apply H|apply IH, H]. Qed.

Lemma Forall_and {A} (P Q : A -> Prop) l : Forall P l -> Forall Q l -> Forall (fun x => P x /\ Q x) l.
Proof. induction 1; intros HQ; inversion HQ; subst; constructor; auto. Qed.

Lemma Forall2_forallb {A B} (R : A -> B -> Prop) (p : A -> bool) (q : B -> bool) la lb :
  Forall2 R la lb -> forallb p la = true -> forallb q lb = true -> Forall2 (fun a b => R a b /\ p a = true /\ q b = true) la lb.
Proof.
  induction 1 as [|a b la lb H _ IH]; cbn [forallb]; intros Hp Hq; constructor;
    apply andb_prop in Hp; apply andb_prop in Hq; [tauto|apply IH; tauto].
Qed.

(** *** the round trip: every typed value whose float leaves are finite and survive widening/narrowing has a
        JSON encoding, and the decoder returns the value from it (any fuel not below the typing height) *)
Theorem json_rt : forall n e, wf_envb e = true -> forall s a, wfb s = true -> typedn n e s a -> float_leaves_ok a = true ->
  forall f, (n <= f)%nat -> exists j, json_enc e s a = Some j /\ json_dec f e s j = Ok a.
Proof.
  unfold json_enc.
  induction n as [|n IH]; intros e Hwe s a Hws Ht Hfl f Hf; [destruct Ht|].
  destruct f as [|f]; [lia|]. assert (Hf' : (n <= f)%nat) by lia.
  destruct s.
  15:{ (* reference *)
    apply typedn_ref in Ht. destruct Ht as (s0 & Hl & Ht). destruct (lookup_wf e Hwe _ _ Hl) as [_ Hw0].
    destruct (IH e Hwe s0 a Hw0 Ht Hfl f Hf') as (j & He & Hd). exists j.
    rewrite (enc_resolve true e _ s0 a (resolve_ref e n0 s0 Hwe Hl)). split; [exact He|].
    cbn [json_dec]. rewrite Hl. exact Hd. }
  15:{ (* annotation *)
    apply typedn_annot in Ht. cbn [wfb] in Hws.
    destruct (IH e Hwe s a Hws Ht Hfl f Hf') as (j & He & Hd). exists j.
    rewrite (enc_resolve true e _ s a (resolve_annot e lt s)). split; [exact He|]. cbn [json_dec]. exact Hd. }
  all: destruct a; cbn [typedn] in Ht; try contradiction; cbn [json_enc_gen resolve strip json_dec].
  - (* null *) exists JvNull. split; reflexivity.
  - (* boolean *) exists (JvBool b). split; reflexivity.
  - (* int *) exists (JvInt z). split; [reflexivity|]. unfold in_int32 in Ht. unfold INT_MIN, INT_MAX.
    destruct ((- 2 ^ 31 <=? z) && (z <=? 2 ^ 31 - 1)) eqn:E; [reflexivity|lia].
  - (* long *) exists (JvInt z). split; [reflexivity|]. unfold in_int64 in Ht. unfold LONG_MIN, LONG_MAX.
    destruct ((- 2 ^ 63 <=? z) && (z <=? 2 ^ 63 - 1)) eqn:E; [reflexivity|lia].
  - (* float *)
    cbn [float_leaves_ok] in Hfl. unfold float_leaf_ok in Hfl. apply andb_prop in Hfl. destruct Hfl as [Hfin Hrt].
    rewrite Hfin. exists (JvFloat (s2d bits)). split; [reflexivity|]. cbn [jnum_double bind].
    destruct (d2s (s2d bits)) as [y| |]; try discriminate. apply Z.eqb_eq in Hrt. subst y. reflexivity.
  - (* double *)
    cbn [float_leaves_ok] in Hfl. rewrite Hfl. exists (JvFloat bits). split; reflexivity.
  - (* bytes *)
    exists (JvStr (latin1_enc b)). split; [reflexivity|]. rewrite latin1_rt by apply Ht. reflexivity.
  - (* string *)
    exists (JvStr b). split; [reflexivity|]. destruct Ht as [_ Hu]. rewrite Hu. reflexivity.
  - (* fixed *)
    destruct Ht as [Hlen Hb]. exists (JvStr (latin1_enc b)). split; [reflexivity|]. rewrite latin1_rt by apply Hb.
    rewrite Hlen, Z.eqb_refl. reflexivity.
  - (* enum *)
    destruct Ht as [Hi _]. cbn [wfb] in Hws.
    destruct (nthZ_some syms i Hi) as [x En]. rewrite En.
    exists (JvStr x). split; [reflexivity|]. rewrite (index_of_nth syms Hws i x 0 En). reflexivity.
  - (* array *)
    destruct Ht as [_ Hl]. cbn [wfb] in Hws. cbn [float_leaves_ok] in Hfl. apply forallb_Forall in Hfl.
    destruct (items_rt (json_enc_gen true e) (json_dec f e) s l) as (js & He & Hd).
    { eapply Forall_impl; [|exact (Forall_and _ _ _ Hl Hfl)]. intros x [Hx Hfx]. apply IH; assumption. }
    exists (JvArr js). rewrite He, Hd. split; reflexivity.
  - (* map *)
    destruct Ht as [_ Hl]. cbn [wfb] in Hws. cbn [float_leaves_ok] in Hfl. apply forallb_Forall in Hfl.
    destruct (map_rt (json_enc_gen true e) (json_dec f e) s l) as (kv & He & Hd).
    { eapply Forall_impl; [|exact (Forall_and _ _ _ Hl Hfl)]. intros kx [[Hk Hx] Hfx]. split; [apply Hk|]. apply IH; assumption. }
    exists (JvObj kv). rewrite He, Hd. split; reflexivity.
  - (* union *)
    destruct Ht as (_ & b & Hn & Ht). cbn [wfb] in Hws. apply andb_prop in Hws. destruct Hws as [Hnd Hwb].
    assert (Hwb0 : wfb b = true).
    { apply forallb_Forall in Hwb. rewrite Forall_forall in Hwb. apply Hwb. exact (nthZ_in _ _ _ Hn). }
    cbn [float_leaves_ok] in Hfl. destruct (IH e Hwe b a Hwb0 Ht Hfl f Hf') as (j & He & Hd).
    rewrite Hn, He. cbn [negb orb]. rewrite orb_false_r. destruct (is_null e b) eqn:Enull.
    + (* the null branch: bare null *)
      assert (Hj : j = JvNull /\ a = ANull).
      { unfold is_null in Enull. destruct (resolve e b) eqn:Er; try discriminate.
        destruct a; cbn [json_enc_gen] in He; rewrite Er in He; try discriminate. injection He as <-. split; reflexivity. }
      destruct Hj as [-> ->]. exists JvNull. split; [reflexivity|].
      rewrite (find_null_nth e bs Hnd (is_null_label e Hwe) i b 0 Hn Enull). cbn [Z.add]. rewrite Hn, Hd. reflexivity.
    + exists (JvObj [(jlabel b, j)]). split; [reflexivity|].
      rewrite (find_label_nth bs Hnd i b 0 Hn). cbn [Z.add]. rewrite Hn, Enull, Hd. reflexivity.
  - (* record *)
    cbn [wfb] in Hws. apply andb_prop in Hws. destruct Hws as [Hnd Hwf]. cbn [float_leaves_ok] in Hfl.
    destruct (fields_rt (json_enc_gen true e) (json_dec f e) (dflt f e) fs l) as (kv & He & Hd).
    { pose proof (Forall2_forallb _ (fun f0 : field => wfb (ftype f0)) float_leaves_ok fs l Ht Hwf Hfl) as H2.
      eapply Forall2_impl'; [|exact H2]. intros fd x (Hx & Hwx & Hfx). apply IH; assumption. }
    { exact Hnd. }
    exists (JvObj kv). rewrite He. split; [reflexivity|]. cbn [option_map].
    specialize (Hd [] (fun _ _ => eq_refl)). cbn [app] in Hd. rewrite Hd. reflexivity.
Qed.

Corollary json_roundtrip n e s a j : wf_envb e = true -> wfb s = true -> typedn n e s a -> float_leaves_ok a = true ->
  json_enc e s a = Some j -> forall f, (n <= f)%nat -> json_dec f e s j = Ok a.
Proof.
  intros Hwe Hws Ht Hfl He f Hf. destruct (json_rt n e Hwe s a Hws Ht Hfl f Hf) as (j' & He' & Hd).
  rewrite He in He'. injection He' as <-. exact Hd.
Qed.

Corollary json_enc_total n e s a : wf_envb e = true -> wfb s = true -> typedn n e s a -> float_leaves_ok a = true ->
  exists j, json_enc e s a = Some j.
Proof. intros Hwe Hws Ht Hfl. destruct (json_rt n e Hwe s a Hws Ht Hfl n (le_n n)) as (j & He & _). exists j. exact He. Qed.

(** *** JSON and binary decode to the same Python value *)
Theorem json_binary_agree n e s a j ro pv : wf_envb e = true -> wfb s = true -> typedn n e s a -> float_leaves_ok a = true ->
  json_enc e s a = Some j -> py_of ro e s a = Some pv ->
  forall f, (n <= f)%nat -> json_read f ro e s j = Ok pv /\ read f ro e s (wire a) = Ok (pv, []).
Proof.
  intros Hwe Hws Ht Hfl He Hp f Hf. split.
  - unfold json_read. rewrite (json_roundtrip n e s a j Hwe Hws Ht Hfl He f Hf). cbn [bind]. rewrite Hp. reflexivity.
  - unfold read. pose proof (wire_dec n e s a Ht f Hf []) as H. rewrite app_nil_r in H. rewrite H. cbn [bind]. rewrite Hp. reflexivity.
Qed.

(** *** the equations of the specification's JSON encoding *)
Lemma enc_loops_eqs (re : schema -> aval -> option jv) :
  (forall s, enc_items re s [] = Some []) /\
  (forall s x l j js, re s x = Some j -> enc_items re s l = Some js -> enc_items re s (x :: l) = Some (j :: js)) /\
  (forall s, enc_map re s [] = Some []) /\
  (forall s k x l j kv, re s x = Some j -> enc_map re s l = Some kv -> enc_map re s ((k, x) :: l) = Some ((k, j) :: kv)) /\
  enc_fields re [] [] = Some [] /\
  (forall f fs x l j kv, re (ftype f) x = Some j -> enc_fields re fs l = Some kv ->
     enc_fields re (f :: fs) (x :: l) = Some ((fname f, j) :: kv)).
Proof.
  repeat split; try reflexivity.
  - intros s x l j js H1 H2. cbn [enc_items]. rewrite H1, H2. reflexivity.
  - intros s k x l j kv H1 H2. cbn [enc_map fst snd]. rewrite H1, H2. reflexivity.
  - intros f fs x l j kv H1 H2. cbn [enc_fields]. rewrite H1, H2. reflexivity.
Qed.

Lemma enc_eqs wut e s :
  (resolve e s = SNull -> json_enc_gen wut e s ANull = Some JvNull) /\
  (resolve e s = SBool -> forall b, json_enc_gen wut e s (ABool b) = Some (JvBool b)) /\
  (resolve e s = SInt \/ resolve e s = SLong -> forall z, json_enc_gen wut e s (AInt z) = Some (JvInt z)) /\
  (resolve e s = SFloat -> forall b, finite32 b = true -> json_enc_gen wut e s (AFloat b) = Some (JvFloat (s2d b))) /\
  (resolve e s = SDouble -> forall b, finite64 b = true -> json_enc_gen wut e s (ADouble b) = Some (JvFloat b)) /\
  (resolve e s = SBytes -> forall b, json_enc_gen wut e s (ABytes b) = Some (JvStr (latin1_enc b))) /\
  (resolve e s = SString -> forall b, json_enc_gen wut e s (AString b) = Some (JvStr b)) /\
  (forall n al sz, resolve e s = SFixed n al sz -> forall b, json_enc_gen wut e s (AFixed b) = Some (JvStr (latin1_enc b))) /\
  (forall n al syms d, resolve e s = SEnum n al syms d -> forall i x, nthZ syms i = Some x ->
     json_enc_gen wut e s (AEnum i) = Some (JvStr x)) /\
  (forall it, resolve e s = SArray it -> forall l js, enc_items (json_enc_gen wut e) it l = Some js ->
     json_enc_gen wut e s (AArray l) = Some (JvArr js)) /\
  (forall vs, resolve e s = SMap vs -> forall l kv, enc_map (json_enc_gen wut e) vs l = Some kv ->
     json_enc_gen wut e s (AMap l) = Some (JvObj kv)) /\
  (forall bs, resolve e s = SUnion bs -> forall i b x j, nthZ bs i = Some b -> json_enc_gen wut e b x = Some j ->
     json_enc_gen wut e s (AUnion i x) = Some (if is_null e b || negb wut then j else JvObj [(jlabel b, j)])) /\
  (forall n al fs, resolve e s = SRecord n al fs -> forall l kv, enc_fields (json_enc_gen wut e) fs l = Some kv ->
     json_enc_gen wut e s (ARecord l) = Some (JvObj kv)).
Proof.
  repeat split.
  - intros H. cbn [json_enc_gen]. rewrite H. reflexivity.
  - intros H b. cbn [json_enc_gen]. rewrite H. reflexivity.
  - intros [H|H] z; cbn [json_enc_gen]; rewrite H; reflexivity.
  - intros H b Hb. cbn [json_enc_gen]. rewrite H, Hb. reflexivity.
  - intros H b Hb. cbn [json_enc_gen]. rewrite H, Hb. reflexivity.
  - intros H b. cbn [json_enc_gen]. rewrite H. reflexivity.
  - intros H b. cbn [json_enc_gen]. rewrite H. reflexivity.
  - intros n al sz H b. cbn [json_enc_gen]. rewrite H. reflexivity.
  - intros n al syms d H i x Hx. cbn [json_enc_gen]. rewrite H, Hx. reflexivity.
  - intros it H l js Hl. cbn [json_enc_gen]. rewrite H, Hl. reflexivity.
  - intros vs H l kv Hl. cbn [json_enc_gen]. rewrite H, Hl. reflexivity.
  - intros bs H i b x j Hb Hj. cbn [json_enc_gen]. rewrite H, Hb, Hj. reflexivity.
  - intros n al fs H l kv Hl. cbn [json_enc_gen]. rewrite H, Hl. reflexivity.
Qed.

Lemma label_eqs :
  (forall n al fs, jlabel (SRecord n al fs) = n) /\ (forall n al syms d, jlabel (SEnum n al syms d) = n) /\
  (forall n al sz, jlabel (SFixed n al sz) = n) /\ (forall n, jlabel (SRef n) = n) /\
  jlabel SNull = s2b "null"%string /\ jlabel SBool = s2b "boolean"%string /\ jlabel SInt = s2b "int"%string /\
  jlabel SLong = s2b "long"%string /\ jlabel SFloat = s2b "float"%string /\ jlabel SDouble = s2b "double"%string /\
  jlabel SBytes = s2b "bytes"%string /\ jlabel SString = s2b "string"%string /\
  (forall it, jlabel (SArray it) = s2b "array"%string) /\ (forall vs, jlabel (SMap vs) = s2b "map"%string) /\
  (forall lt s, jlabel (SAnnot lt s) = jlabel s) /\
  (forall e s, is_null e s = true <-> resolve e s = SNull).
Proof.
  repeat split; try reflexivity.
  - unfold is_null. destruct (resolve e s); try discriminate. reflexivity.
  - intros H. unfold is_null. rewrite H. reflexivity.
Qed.

Lemma latin1_eqs :
  latin1_enc [] = [] /\ (forall x b, latin1_enc (x :: b) = latin1_char x ++ latin1_enc b) /\
  (forall x, 0 <= x < 128 -> latin1_char x = [x]) /\
  (forall x, 128 <= x < 256 -> latin1_char x = [192 + x / 64; 128 + x mod 64]).
Proof.
  repeat split; try reflexivity; intros x Hx; unfold latin1_char; destruct (x <? 128) eqn:E; try reflexivity; lia.
Qed.

(** *** absent keys take the field default *)
Lemma jlookup_remove_same k kv : jlookup (jremove k kv) k = None.
Proof.
  induction kv as [|[k' v] kv IH]; cbn [jremove jlookup]; [reflexivity|].
  destruct (bytes_eqb k' k) eqn:E; [exact IH|]. cbn [jlookup]. rewrite E. exact IH.
Qed.

Lemma jlookup_remove_other k k' kv : k <> k' -> jlookup (jremove k kv) k' = jlookup kv k'.
Proof.
  intros Hne. induction kv as [|[k0 v] kv IH]; cbn [jremove jlookup]; [reflexivity|].
  destruct (bytes_eqb k0 k) eqn:E.
  - apply jb_eq in E. subst k0. rewrite (jb_neq k k' Hne). exact IH.
  - cbn [jlookup]. rewrite IH. reflexivity.
Qed.

Section Defaults.
  Variable rd : schema -> jv -> res aval.
  Variable dfl : schema -> pyval -> res aval.

  Lemma dec_field_remove_other k kv f : k <> fname f -> dec_field rd dfl (jremove k kv) f = dec_field rd dfl kv f.
  Proof. intros H. unfold dec_field. rewrite jlookup_remove_other by exact H. reflexivity. Qed.

  Lemma dec_fields_remove_other k kv fs : ~ In k (map (fun f => fname f) fs) ->
    dec_fields rd dfl (jremove k kv) fs = dec_fields rd dfl kv fs.
  Proof.
    induction fs as [|f fs IH]; intros H; cbn [dec_fields]; [reflexivity|]. cbn [map In] in H.
    rewrite dec_field_remove_other by (intros Heq; apply H; left; symmetry; exact Heq).
    rewrite IH by (intros Hin; apply H; right; exact Hin). reflexivity.
  Qed.

  Lemma dec_fields_default kv : forall fs l, dec_fields rd dfl kv fs = Ok l -> nodupb (map (fun f => fname f) fs) = true ->
    forall i fd d dv, nth_error fs i = Some fd -> fdefault fd = Some d -> dfl (ftype fd) d = Ok dv ->
    dec_fields rd dfl (jremove (fname fd) kv) fs = Ok (set_nth i dv l).
  Proof.
    induction fs as [|f fs IH]; intros l Hd Hnd i fd d dv Hn Hdef Hdv; [destruct i; discriminate|].
    cbn [map nodupb] in Hnd. apply andb_prop in Hnd. destruct Hnd as [Hf Hnd]. apply negb_true_iff in Hf.
    apply existsb_in in Hf. cbn [dec_fields] in Hd.
    destruct (dec_field rd dfl kv f) as [a0| |] eqn:E0; cbn [bind] in Hd; try discriminate.
    destruct (dec_fields rd dfl kv fs) as [r| |] eqn:E1; cbn [bind] in Hd; try discriminate. injection Hd as <-.
    destruct i as [|i]; cbn [nth_error] in Hn.
    - injection Hn as <-. cbn [dec_fields set_nth]. unfold dec_field at 1. rewrite jlookup_remove_same, Hdef, Hdv. cbn [bind].
      rewrite dec_fields_remove_other by exact Hf. rewrite E1. reflexivity.
    - cbn [dec_fields set_nth].
      assert (Hne : fname fd <> fname f).
      { intros Heq. apply Hf. rewrite <- Heq. apply (in_map (fun f => fname f)). exact (nth_error_In _ _ Hn). }
      rewrite dec_field_remove_other by exact Hne. rewrite E0. cbn [bind].
      rewrite (IH r eq_refl Hnd i fd d dv Hn Hdef Hdv). reflexivity.
  Qed.

  (* ... and a key that is absent and has no default is an error ("no value and no default") *)
  Lemma dec_fields_no_default kv : forall fs l, dec_fields rd dfl kv fs = Ok l -> nodupb (map (fun f => fname f) fs) = true ->
    forall i fd, nth_error fs i = Some fd -> fdefault fd = None ->
    dec_fields rd dfl (jremove (fname fd) kv) fs = Err.
  Proof.
    induction fs as [|f fs IH]; intros l Hd Hnd i fd Hn Hdef; [destruct i; discriminate|].
    cbn [map nodupb] in Hnd. apply andb_prop in Hnd. destruct Hnd as [Hf Hnd]. apply negb_true_iff in Hf.
    apply existsb_in in Hf. cbn [dec_fields] in Hd.
    destruct (dec_field rd dfl kv f) as [a0| |] eqn:E0; cbn [bind] in Hd; try discriminate.
    destruct (dec_fields rd dfl kv fs) as [r| |] eqn:E1; cbn [bind] in Hd; try discriminate.
    destruct i as [|i]; cbn [nth_error] in Hn.
    - injection Hn as <-. cbn [dec_fields]. unfold dec_field at 1. rewrite jlookup_remove_same, Hdef. reflexivity.
    - cbn [dec_fields].
      assert (Hne : fname fd <> fname f).
      { intros Heq. apply Hf. rewrite <- Heq. apply (in_map (fun f => fname f)). exact (nth_error_In _ _ Hn). }
      rewrite dec_field_remove_other by exact Hne. rewrite E0. cbn [bind].
      rewrite (IH r eq_refl Hnd i fd Hn Hdef). reflexivity.
  Qed.
End Defaults.

Theorem json_defaults f e nm al fs kv l : nodupb (map (fun f => fname f) fs) = true ->
  json_dec (S f) e (SRecord nm al fs) (JvObj kv) = Ok (ARecord l) ->
  forall i fd, nth_error fs i = Some fd ->
  (forall d dv, fdefault fd = Some d -> dflt f e (ftype fd) d = Ok dv ->
     json_dec (S f) e (SRecord nm al fs) (JvObj (jremove (fname fd) kv)) = Ok (ARecord (set_nth i dv l))) /\
  (fdefault fd = None -> json_dec (S f) e (SRecord nm al fs) (JvObj (jremove (fname fd) kv)) = Err).
Proof.
  intros Hnd Hd i fd Hn. cbn [json_dec] in *.
  destruct (dec_fields (json_dec f e) (dflt f e) kv fs) as [r| |] eqn:E; cbn [bind] in Hd; try discriminate.
  injection Hd as <-. split.
  - intros d dv Hdef Hdv. rewrite (dec_fields_default _ _ kv fs r E Hnd i fd d dv Hn Hdef Hdv). reflexivity.
  - intros Hdef. rewrite (dec_fields_no_default _ _ kv fs r E Hnd i fd Hn Hdef). reflexivity.
Qed.

(** *** introduction rules for [typedn], one level each (the height stays a variable: unfolding [typedn] at a literal
    height is exponential in the height) *)
Lemma ty_null n e : typedn (S n) e SNull ANull. Proof. exact I. Qed.
Lemma ty_bool n e b : typedn (S n) e SBool (ABool b). Proof. exact I. Qed.
Lemma ty_int n e z : in_int32 z -> typedn (S n) e SInt (AInt z). Proof. intros H; exact H. Qed.
Lemma ty_long n e z : in_int64 z -> typedn (S n) e SLong (AInt z). Proof. intros H; exact H. Qed.
Lemma ty_float n e b : 0 <= b < 2 ^ 32 -> typedn (S n) e SFloat (AFloat b). Proof. intros H; exact H. Qed.
Lemma ty_double n e b : 0 <= b < 2 ^ 64 -> typedn (S n) e SDouble (ADouble b). Proof. intros H; exact H. Qed.
Lemma ty_bytes n e b : bytes_ok b -> typedn (S n) e SBytes (ABytes b). Proof. intros H; exact H. Qed.
Lemma ty_string n e b : key_ok b -> typedn (S n) e SString (AString b). Proof. intros H; exact H. Qed.
Lemma ty_fixed n e nm al sz b : len b = sz -> bytes_ok b -> typedn (S n) e (SFixed nm al sz) (AFixed b).
Proof. intros H1 H2; split; assumption. Qed.
Lemma ty_enum n e nm al syms d i : 0 <= i < len syms -> i < 2 ^ 63 -> typedn (S n) e (SEnum nm al syms d) (AEnum i).
Proof. intros H1 H2; split; assumption. Qed.
Lemma ty_array n e s l : len l < 2 ^ 63 -> Forall (typedn n e s) l -> typedn (S n) e (SArray s) (AArray l).
Proof. intros H1 H2; split; assumption. Qed.
Lemma ty_map n e s l : len l < 2 ^ 63 -> Forall (fun kv => key_ok (fst kv) /\ typedn n e s (snd kv)) l -> typedn (S n) e (SMap s) (AMap l).
Proof. intros H1 H2; split; assumption. Qed.
Lemma ty_union n e bs i s a : i < 2 ^ 63 -> nthZ bs i = Some s -> typedn n e s a -> typedn (S n) e (SUnion bs) (AUnion i a).
Proof. intros H1 H2 H3; split; [exact H1|]. exists s. split; assumption. Qed.
Lemma ty_record n e nm al fs l : Forall2 (fun f a => typedn n e (ftype f) a) fs l -> typedn (S n) e (SRecord nm al fs) (ARecord l).
Proof. intros H; exact H. Qed.
Lemma ty_ref n e nm s a : lookup e nm = Some s -> typedn n e s a -> typedn (S n) e (SRef nm) a.
Proof. intros H1 H2. apply typedn_ref. exists s. split; assumption. Qed.
Lemma ty_annot n e lt s a : typedn n e s a -> typedn (S n) e (SAnnot lt s) a.
Proof. intros H. apply typedn_annot. exact H. Qed.


(** *** the JSON reading of a default and the binary writer's elaboration of it *)
Section DE.
  Variable rd : schema -> pyval -> res aval.
  Variable re : schema -> pyval -> wres aval.
  Variable db : schema -> pyval -> bool.
  Hypothesis H : forall s x a, rd s x = Ok a -> db s x = true -> re s x = WOk a.

  Lemma items_de s : forall l r, dflt_items rd s l = Ok r -> forallb (db s) l = true -> elab_items re s l = WOk r.
  Proof.
    induction l as [|x l IH]; intros r Hd Hb; cbn [dflt_items elab_items forallb] in *; [injection Hd as <-; reflexivity|].
    apply andb_prop in Hb. destruct Hb as [Hx Hl].
    destruct (rd s x) as [a| |] eqn:Ex; cbn [bind] in Hd; try discriminate.
    destruct (dflt_items rd s l) as [r'| |] eqn:El; cbn [bind] in Hd; try discriminate. injection Hd as <-.
    rewrite (H _ _ _ Ex Hx). cbn [wbind]. rewrite (IH r' eq_refl Hl). reflexivity.
  Qed.

  Lemma map_de s : forall kv r, dflt_map rd s kv = Ok r -> forallb (fun p => db s (snd p)) kv = true -> elab_map re s kv = WOk r.
  Proof.
    induction kv as [|[k x] kv IH]; intros r Hd Hb; cbn [dflt_map elab_map forallb snd] in *; [injection Hd as <-; reflexivity|].
    apply andb_prop in Hb. destruct Hb as [Hx Hl]. destruct k; try discriminate.
    destruct (rd s x) as [a| |] eqn:Ex; cbn [bind] in Hd; try discriminate.
    destruct (dflt_map rd s kv) as [r'| |] eqn:El; cbn [bind] in Hd; try discriminate. injection Hd as <-.
    rewrite (H _ _ _ Ex Hx). cbn [wbind]. rewrite (IH r' eq_refl Hl). reflexivity.
  Qed.

  (* float(datum_value) for fields typed "float"/"double": the coerced datum has the same reading *)
  Hypothesis Hc : forall s x a, (s = SFloat \/ s = SDouble) -> rd s x = Ok a ->
    exists b, to_double x = WOk b /\ rd s (PFloat b) = Ok a /\ db s (PFloat b) = true.

  Lemma fields_de kv : forall fs r, dflt_fields rd kv fs = Ok r ->
    forallb (fun fd => match dict_get kv (fname fd) with
                       | Some x => db (ftype fd) x
                       | None => match fdefault fd with Some d => db (ftype fd) d | None => false end
                       end) fs = true ->
    elab_fields re wo0 kv fs = WOk r.
  Proof.
    induction fs as [|fd fs IH]; intros r Hd Hb; cbn [dflt_fields elab_fields forallb] in *; [injection Hd as <-; reflexivity|].
    apply andb_prop in Hb. destruct Hb as [Hx Hl]. unfold key_in. cbn [strict strict_allow_default wo0 orb andb].
    rewrite !andb_false_r. cbn [andb orb].
    destruct (dflt_fields rd kv fs) as [r'| |] eqn:El.
    2,3: destruct (match dict_get kv (fname fd) with Some v => rd (ftype fd) v | None => match fdefault fd with Some d => rd (ftype fd) d | None => Err end end); cbn [bind] in Hd; discriminate.
    specialize (IH r' eq_refl Hl).
    set (v := match dict_get kv (fname fd) with Some v => v | None => match fdefault fd with Some d => d | None => PNone end end).
    assert (Hv : exists a, rd (ftype fd) v = Ok a /\ db (ftype fd) v = true /\ r = a :: r' /\
                 (negb (match dict_get kv (fname fd) with Some _ => true | None => false end) &&
                  negb (match fdefault fd with Some _ => true | None => false end) && negb (nullok (ftype fd))) = false).
    { subst v. destruct (dict_get kv (fname fd)) as [x|] eqn:Eg.
      - destruct (rd (ftype fd) x) as [a| |] eqn:Ex; cbn [bind] in Hd; try discriminate. injection Hd as <-.
        exists a. repeat split; try assumption.
      - destruct (fdefault fd) as [d|] eqn:Ed; [|cbn [bind] in Hd; discriminate].
        destruct (rd (ftype fd) d) as [a| |] eqn:Ex; cbn [bind] in Hd; try discriminate. injection Hd as <-.
        exists a. repeat split; try assumption. }
    destruct Hv as (a & Ha & Hdb & -> & Hcond). rewrite Hcond.
    assert (Hgoal : forall v', re (ftype fd) v' = WOk a ->
              (let+ a0 := re (ftype fd) v' in let+ r0 := elab_fields re wo0 kv fs in WOk (a0 :: r0)) = WOk (a :: r')).
    { intros v' Hv'. rewrite Hv'. cbn [wbind]. rewrite IH. reflexivity. }
    destruct (ftype fd) eqn:Et; cbn [wbind]; try (apply Hgoal; apply H; assumption).
    - destruct (Hc SFloat v a (or_introl eq_refl) Ha) as (b & Hb1 & Hb2 & Hb3). rewrite Hb1. cbn [wbind]. apply Hgoal. apply H; assumption.
    - destruct (Hc SDouble v a (or_intror eq_refl) Ha) as (b & Hb1 & Hb2 & Hb3). rewrite Hb1. cbn [wbind]. apply Hgoal. apply H; assumption.
  Qed.
End DE.
Lemma coerce_float f e s x a : (s = SFloat \/ s = SDouble) -> dflt f e s x = Ok a ->
  exists b, to_double x = WOk b /\ dflt f e s (PFloat b) = Ok a /\ dflt_bin f e s (PFloat b) = true.
Proof.
  intros Hs Hd. destruct f as [|f]; [discriminate|].
  destruct Hs as [-> | ->]; cbn [dflt dflt_bin] in *.
  - destruct x; cbn [num_double bind] in Hd; try discriminate.
    + destruct (z2d z) as [b| |] eqn:Ez; cbn [bind] in Hd; try discriminate. exists b. cbn [to_double]. rewrite Ez. cbn [of_res num_double bind].
      repeat split; try reflexivity. exact Hd.
    + exists bits. repeat split; try reflexivity. exact Hd.
  - destruct x; cbn [num_double bind] in Hd; try discriminate.
    + destruct (z2d z) as [b| |] eqn:Ez; cbn [bind] in Hd; try discriminate. exists b. cbn [to_double]. rewrite Ez. cbn [of_res num_double bind].
      repeat split; try reflexivity. exact Hd.
    + exists bits. repeat split; try reflexivity. exact Hd.
Qed.

Theorem dflt_elab : forall f e s v a, dflt f e s v = Ok a -> dflt_bin f e s v = true -> elab f wo0 e s v = WOk a.
Proof.
  induction f as [|f IH]; intros e s v a Hd Hb; [discriminate|].
  destruct s; cbn [JsonCodec.dflt dflt_bin elab] in *; try discriminate.
  - destruct v; try discriminate. injection Hd as <-. reflexivity.
  - destruct v; try discriminate. injection Hd as <-. reflexivity.
  - destruct v; try discriminate. destruct ((INT_MIN <=? z) && (z <=? INT_MAX)); [injection Hd as <-; reflexivity|discriminate].
  - destruct v; try discriminate. destruct ((LONG_MIN <=? z) && (z <=? LONG_MAX)); [injection Hd as <-; reflexivity|discriminate].
  - destruct v; cbn [num_double bind] in Hd; try discriminate.
    + cbn [to_double]. destruct (z2d z) as [b| |]; cbn [bind of_res wbind] in *; try discriminate.
      destruct (d2s b) as [x| |]; cbn [bind of_res wbind] in *; try discriminate. injection Hd as <-. reflexivity.
    + cbn [to_double wbind]. destruct (d2s bits) as [x| |]; cbn [bind of_res wbind] in *; try discriminate. injection Hd as <-. reflexivity.
  - destruct v; cbn [num_double bind] in Hd; try discriminate.
    + cbn [to_double]. destruct (z2d z) as [b| |]; cbn [bind of_res wbind] in *; try discriminate. injection Hd as <-. reflexivity.
    + cbn [to_double wbind]. injection Hd as <-. reflexivity.
  - destruct v; try discriminate. injection Hd as <-. reflexivity.
  - destruct v; try discriminate. destruct (index_of syms s 0); [injection Hd as <-; reflexivity|discriminate].
  - destruct v; try discriminate.
    destruct (dflt_items (dflt f e) s l) as [r| |] eqn:El; cbn [bind] in Hd; try discriminate. injection Hd as <-.
    rewrite (items_de (dflt f e) (elab f wo0 e) (dflt_bin f e) (IH e) s l r El Hb). reflexivity.
  - destruct v; try discriminate.
    destruct (dflt_map (dflt f e) s kv) as [r| |] eqn:El; cbn [bind] in Hd; try discriminate. injection Hd as <-.
    rewrite (map_de (dflt f e) (elab f wo0 e) (dflt_bin f e) (IH e) s kv r El Hb). reflexivity.
  - destruct bs as [|b bs]; [discriminate|].
    apply andb_prop in Hb. destruct Hb as [Hb Hb3]. apply andb_prop in Hb. destruct Hb as [Hb1 Hb2].
    destruct (dflt f e b v) as [a0| |] eqn:Ea; cbn [bind] in Hd; try discriminate. injection Hd as <-.
    destruct (choose (fun c x => validate f wo0 e c (Some x)) e v (b :: bs) 0 (-1) (-1) false) as [i| |] eqn:Ec; try discriminate.
    destruct i; try discriminate.
    assert (Hgo : (let+ i := of_res (Ok 0) in if i <? 0 then WErr else
                   match nthZ (b :: bs) i with Some b0 => let+ a := elab f wo0 e b0 v in WOk (AUnion i a) | None => WErr end) = WOk (AUnion 0 a0)).
    { cbn [of_res wbind nthZ]. change (0 <? 0) with false. change (0 =? 0) with true. cbn iota. rewrite (IH e b v a0 Ea Hb3). reflexivity. }
    destruct v; cbn [is_tuple negb] in Hb1; try discriminate; exact Hgo.
  - destruct v; try discriminate.
    destruct (dflt_fields (dflt f e) kv fs) as [r| |] eqn:El; cbn [bind] in Hd; try discriminate. injection Hd as <-.
    cbn [strict strict_allow_default wo0 orb andb].
    rewrite (fields_de (dflt f e) (elab f wo0 e) (dflt_bin f e) (IH e) (coerce_float f e) kv fs r El Hb). reflexivity.
  - destruct (lookup e n) as [s'|]; [|discriminate]. apply IH; assumption.
  - apply IH; assumption.
Qed.

(** a sufficient condition for the union clause of [dflt_bin]: the first branch accepts the default and is neither a record
    (the search would go on looking for a record sharing more fields) nor float (it would go on looking for double) *)
Lemma choose_first val e v b bs : hint_pass e v b = true -> val b v = Ok true ->
  match (match strip b with SRef n => match lookup e n with Some d => strip d | None => strip b end | d => d end) with
  | SRecord _ _ _ | SFloat => False | _ => True end ->
  choose val e v (b :: bs) 0 (-1) (-1) false = Ok 0.
Proof.
  intros Hh Hv Hk. cbn [choose]. rewrite Hh, Hv. cbn [negb bind].
  destruct (match strip b with SRef n => match lookup e n with Some d => strip d | None => strip b end | d => d end); try reflexivity; contradiction.
Qed.

(** what the binary writer elaborates for a record datum that omits a defaulted field *)
Lemma elab_fields_omitted re kv : forall fs l, elab_fields re wo0 kv fs = WOk l ->
  forall i fd d, nth_error fs i = Some fd -> dict_get kv (fname fd) = None -> fdefault fd = Some d ->
  exists a, nth_error l i = Some a /\
    match ftype fd with
    | SFloat | SDouble => exists b, to_double d = WOk b /\ re (ftype fd) (PFloat b) = WOk a
    | _ => re (ftype fd) d = WOk a
    end.
Proof.
  induction fs as [|f0 fs IH]; intros l He i fd d Hn Hg Hd; [destruct i; discriminate|].
  cbn [elab_fields] in He. cbn [strict strict_allow_default wo0 orb andb] in He. rewrite !andb_false_r in He. cbn [andb orb] in He.
  destruct (negb (key_in kv (fname f0)) && negb (match fdefault f0 with Some _ => true | None => false end) && negb (nullok (ftype f0))); [discriminate|].
  set (v := match dict_get kv (fname f0) with Some v => v | None => match fdefault f0 with Some d => d | None => PNone end end) in He.
  destruct (match ftype f0 with SFloat | SDouble => let+ b := to_double v in WOk (PFloat b) | _ => WOk v end) as [v'| | |] eqn:Ev; cbn [wbind] in He; try discriminate.
  destruct (re (ftype f0) v') as [a0| | |] eqn:Ea; cbn [wbind] in He; try discriminate.
  destruct (elab_fields re wo0 kv fs) as [r| | |] eqn:Er; cbn [wbind] in He; try discriminate. injection He as <-.
  destruct i as [|i]; cbn [nth_error] in Hn.
  - injection Hn as <-. exists a0. split; [reflexivity|]. subst v. rewrite Hg, Hd in Ev.
    destruct (ftype f0); try (injection Ev as <-; exact Ea).
    + destruct (to_double d) as [b| | |]; cbn [wbind] in Ev; try discriminate. injection Ev as <-. exists b. split; [reflexivity|exact Ea].
    + destruct (to_double d) as [b| | |]; cbn [wbind] in Ev; try discriminate. injection Ev as <-. exists b. split; [reflexivity|exact Ea].
  - exact (IH r eq_refl i fd d Hn Hg Hd).
Qed.

(** C15_defaults in the normal form of the binary codec: the value json_reader supplies for an absent key is the wire value
    the binary writer elaborates when the datum omits that field *)
Theorem json_defaults_binary f e nm al fs kv l i fd d dv :
  nodupb (map (fun f => fname f) fs) = true ->
  json_dec (S f) e (SRecord nm al fs) (JvObj kv) = Ok (ARecord l) ->
  nth_error fs i = Some fd -> fdefault fd = Some d -> dflt f e (ftype fd) d = Ok dv -> dflt_bin f e (ftype fd) d = true ->
  json_dec (S f) e (SRecord nm al fs) (JvObj (jremove (fname fd) kv)) = Ok (ARecord (set_nth i dv l)) /\
  elab f wo0 e (ftype fd) d = WOk dv /\
  (forall dk l', dict_get dk (fname fd) = None -> elab (S f) wo0 e (SRecord nm al fs) (PDict dk) = WOk (ARecord l') ->
     nth_error l' i = Some dv).
Proof.
  intros Hnd Hj Hn Hdef Hdv Hb. split; [|split].
  - exact (proj1 (json_defaults f e nm al fs kv l Hnd Hj i fd Hn) d dv Hdef Hdv).
  - apply dflt_elab; assumption.
  - intros dk l' Hg He. cbn [elab] in He. cbn [strict strict_allow_default wo0 orb andb] in He.
    destruct (elab_fields (elab f wo0 e) wo0 dk fs) as [r| | |] eqn:Er; cbn [wbind] in He; try discriminate. injection He as <-.
    destruct (elab_fields_omitted (elab f wo0 e) dk fs r Er i fd d Hn Hg Hdef) as (a & Ha & Hm). rewrite Ha. f_equal.
    assert (Hplain : elab f wo0 e (ftype fd) d = WOk dv) by (apply dflt_elab; assumption).
    destruct (ftype fd) eqn:Et; try (rewrite Hplain in Hm; injection Hm as <-; reflexivity).
    + destruct Hm as (b & Hb1 & Hb2). destruct (coerce_float f e SFloat d dv (or_introl eq_refl) Hdv) as (b' & Hc1 & Hc2 & Hc3).
      rewrite Hb1 in Hc1. injection Hc1 as <-. rewrite (dflt_elab f e SFloat (PFloat b) dv Hc2 Hc3) in Hb2. injection Hb2 as <-. reflexivity.
    + destruct Hm as (b & Hb1 & Hb2). destruct (coerce_float f e SDouble d dv (or_intror eq_refl) Hdv) as (b' & Hc1 & Hc2 & Hc3).
      rewrite Hb1 in Hc1. injection Hc1 as <-. rewrite (dflt_elab f e SDouble (PFloat b) dv Hc2 Hc3) in Hb2. injection Hb2 as <-. reflexivity.
Qed.

(** *** stream behaviour *)
Lemma stream_app f ro e s : forall d1 d2 vs, json_read_stream f ro e s d1 = (vs, Ok tt) ->
  json_read_stream f ro e s (d1 ++ d2) = (vs ++ fst (json_read_stream f ro e s d2), snd (json_read_stream f ro e s d2)).
Proof.
  induction d1 as [|j d1 IH]; intros d2 vs H; cbn [json_read_stream app] in *.
  - injection H as <-. destruct (json_read_stream f ro e s d2); reflexivity.
  - destruct (json_read f ro e s j) as [v| |]; try (injection H as _ H; discriminate).
    destruct (json_read_stream f ro e s d1) as [vs1 r1] eqn:E1. injection H as <- ->.
    rewrite (IH d2 vs1 eq_refl). reflexivity.
Qed.

(* prefix-closed: the records yielded for the first documents do not depend on what follows, and a document that fails to decode
   cuts the output exactly there *)
Theorem stream_prefix f ro e s d1 d2 vs : json_read_stream f ro e s d1 = (vs, Ok tt) ->
  exists ws, fst (json_read_stream f ro e s (d1 ++ d2)) = vs ++ ws.
Proof. intros H. rewrite (stream_app f ro e s d1 d2 vs H). eexists. reflexivity. Qed.

Theorem stream_cut f ro e s d1 bad d2 vs : json_read_stream f ro e s d1 = (vs, Ok tt) -> json_read f ro e s bad = Err ->
  json_read_stream f ro e s (d1 ++ bad :: d2) = (vs, Err).
Proof.
  intros H Hb. rewrite (stream_app f ro e s d1 (bad :: d2) vs H). cbn [json_read_stream]. rewrite Hb. cbn [fst snd].
  rewrite app_nil_r. reflexivity.
Qed.

(* one document per record, each read exactly once, in order *)
Theorem stream_roundtrip n e s ro : wf_envb e = true -> wfb s = true -> forall avs js pvs,
  Forall2 (fun a j => typedn n e s a /\ float_leaves_ok a = true /\ json_enc e s a = Some j) avs js ->
  Forall2 (fun a pv => py_of ro e s a = Some pv) avs pvs ->
  forall f, (n <= f)%nat -> json_read_stream f ro e s js = (pvs, Ok tt).
Proof.
  intros Hwe Hws avs js pvs H. revert pvs.
  induction H as [|a j avs js (Ht & Hfl & He) _ IH]; intros pvs Hp f Hf; inversion Hp; subst; cbn [json_read_stream]; [reflexivity|].
  match goal with Hpy : py_of ro e s a = Some ?pv |- _ =>
    rewrite (proj1 (json_binary_agree n e s a j ro pv Hwe Hws Ht Hfl He Hpy f Hf)) end.
  match goal with Hrest : Forall2 _ avs ?l' |- _ => rewrite (IH l' Hrest f Hf) end. reflexivity.
Qed.

(** *** every member of a document is consumed exactly once *)
Lemma dec_items_length rd s : forall js l, dec_items rd s js = Ok l -> length l = length js.
Proof.
  induction js as [|j js IH]; intros l H; cbn [dec_items] in H; [injection H as <-; reflexivity|].
  destruct (rd s j); cbn [bind] in H; try discriminate. destruct (dec_items rd s js) as [r| |]; cbn [bind] in H; try discriminate.
  injection H as <-. cbn [length]. rewrite (IH r eq_refl). reflexivity.
Qed.

Lemma dec_map_keys rd s : forall kv l, dec_map rd s kv = Ok l -> map fst l = map fst kv.
Proof.
  induction kv as [|[k j] kv IH]; intros l H; cbn [dec_map fst snd] in H; [injection H as <-; reflexivity|].
  destruct (utf8_valid k); [|discriminate].
  destruct (rd s j); cbn [bind] in H; try discriminate. destruct (dec_map rd s kv) as [r| |]; cbn [bind] in H; try discriminate.
  injection H as <-. cbn [map fst]. rewrite (IH r eq_refl). reflexivity.
Qed.

(* a record object is read through its field names only: member order and members that are not fields do not matter *)
Lemma dec_fields_ext rd dfl kv kv' : forall fs, (forall fd, In fd fs -> jlookup kv (fname fd) = jlookup kv' (fname fd)) ->
  dec_fields rd dfl kv fs = dec_fields rd dfl kv' fs.
Proof.
  induction fs as [|fd fs IH]; intros H; cbn [dec_fields]; [reflexivity|].
  unfold dec_field. rewrite (H fd (or_introl eq_refl)). rewrite IH by (intros fd' Hin; apply H; right; exact Hin). reflexivity.
Qed.

Theorem json_dec_shape f e :
  (forall it js l, json_dec (S f) e (SArray it) (JvArr js) = Ok (AArray l) -> length l = length js) /\
  (forall vs kv l, json_dec (S f) e (SMap vs) (JvObj kv) = Ok (AMap l) -> map fst l = map fst kv) /\
  (forall nm al fs kv kv', (forall fd, In fd fs -> jlookup kv (fname fd) = jlookup kv' (fname fd)) ->
     json_dec (S f) e (SRecord nm al fs) (JvObj kv) = json_dec (S f) e (SRecord nm al fs) (JvObj kv')) /\
  (forall bs kv, (length kv <> 1)%nat -> json_dec (S f) e (SUnion bs) (JvObj kv) = Err).
Proof.
  repeat split.
  - intros it js l H. cbn [json_dec] in H. destruct (dec_items (json_dec f e) it js) as [r| |] eqn:E; cbn [bind] in H; try discriminate.
    injection H as <-. exact (dec_items_length _ _ _ _ E).
  - intros vs kv l H. cbn [json_dec] in H. destruct (dec_map (json_dec f e) vs kv) as [r| |] eqn:E; cbn [bind] in H; try discriminate.
    injection H as <-. exact (dec_map_keys _ _ _ _ E).
  - intros nm al fs kv kv' H. cbn [json_dec]. rewrite (dec_fields_ext _ _ kv kv' fs H). reflexivity.
  - intros bs kv H. cbn [json_dec]. destruct kv as [|[k x] [|p kv]]; try reflexivity. cbn [length] in H. lia.
Qed.

(** *** more fuel never changes a result *)
Definition jmono {A B} (r1 r2 : A -> res B) := forall x y, r1 x = Ok y -> r2 x = Ok y.

Lemma dec_items_mono r1 r2 s : jmono (r1 s) (r2 s) -> jmono (dec_items r1 s) (dec_items r2 s).
Proof.
  intros Hm js. induction js as [|j js IH]; intros l H; cbn [dec_items] in *; [exact H|].
  destruct (r1 s j) as [a| |] eqn:Ea; cbn [bind] in H; try discriminate. rewrite (Hm _ _ Ea). cbn [bind].
  destruct (dec_items r1 s js) as [r| |]; cbn [bind] in H; try discriminate. rewrite (IH r eq_refl). exact H.
Qed.

Lemma dec_map_mono r1 r2 s : jmono (r1 s) (r2 s) -> jmono (dec_map r1 s) (dec_map r2 s).
Proof.
  intros Hm kv. induction kv as [|[k j] kv IH]; intros l H; cbn [dec_map fst snd] in *; [exact H|].
  destruct (utf8_valid k); [|discriminate].
  destruct (r1 s j) as [a| |] eqn:Ea; cbn [bind] in H; try discriminate. rewrite (Hm _ _ Ea). cbn [bind].
  destruct (dec_map r1 s kv) as [r| |]; cbn [bind] in H; try discriminate. rewrite (IH r eq_refl). exact H.
Qed.

Lemma dec_fields_mono r1 r2 d1 d2 kv : (forall s, jmono (r1 s) (r2 s)) -> (forall s, jmono (d1 s) (d2 s)) ->
  forall fs l, dec_fields r1 d1 kv fs = Ok l -> dec_fields r2 d2 kv fs = Ok l.
Proof.
  intros Hr Hd. induction fs as [|fd fs IH]; intros l H; cbn [dec_fields] in *; [exact H|].
  destruct (dec_field r1 d1 kv fd) as [a| |] eqn:Ea; cbn [bind] in H; try discriminate.
  assert (Ha : dec_field r2 d2 kv fd = Ok a).
  { unfold dec_field in *. destruct (jlookup kv (fname fd)); [apply Hr; exact Ea|]. destruct (fdefault fd); [apply Hd; exact Ea|discriminate]. }
  rewrite Ha. cbn [bind]. destruct (dec_fields r1 d1 kv fs) as [r| |]; cbn [bind] in H; try discriminate. rewrite (IH r eq_refl). exact H.
Qed.

Lemma dflt_items_mono r1 r2 s : jmono (r1 s) (r2 s) -> jmono (dflt_items r1 s) (dflt_items r2 s).
Proof.
  intros Hm l. induction l as [|x l IH]; intros r H; cbn [dflt_items] in *; [exact H|].
  destruct (r1 s x) as [a| |] eqn:Ea; cbn [bind] in H; try discriminate. rewrite (Hm _ _ Ea). cbn [bind].
  destruct (dflt_items r1 s l) as [r'| |]; cbn [bind] in H; try discriminate. rewrite (IH r' eq_refl). exact H.
Qed.

Lemma dflt_map_mono r1 r2 s : jmono (r1 s) (r2 s) -> jmono (dflt_map r1 s) (dflt_map r2 s).
Proof.
  intros Hm kv. induction kv as [|[k x] kv IH]; intros r H; cbn [dflt_map] in *; [exact H|]. destruct k; try discriminate.
  destruct (r1 s x) as [a| |] eqn:Ea; cbn [bind] in H; try discriminate. rewrite (Hm _ _ Ea). cbn [bind].
  destruct (dflt_map r1 s kv) as [r'| |]; cbn [bind] in H; try discriminate. rewrite (IH r' eq_refl). exact H.
Qed.

Lemma dflt_fields_mono r1 r2 kv : (forall s, jmono (r1 s) (r2 s)) -> forall fs l, dflt_fields r1 kv fs = Ok l -> dflt_fields r2 kv fs = Ok l.
Proof.
  intros Hr. induction fs as [|fd fs IH]; intros l H; cbn [dflt_fields] in *; [exact H|].
  set (x1 := match dict_get kv (fname fd) with Some v => r1 (ftype fd) v | None => match fdefault fd with Some d => r1 (ftype fd) d | None => Err end end) in *.
  destruct x1 as [a| |] eqn:Ea; cbn [bind] in H; try discriminate.
  assert (Ha : match dict_get kv (fname fd) with Some v => r2 (ftype fd) v | None => match fdefault fd with Some d => r2 (ftype fd) d | None => Err end end = Ok a).
  { subst x1. destruct (dict_get kv (fname fd)); [apply Hr; exact Ea|]. destruct (fdefault fd); [apply Hr; exact Ea|discriminate]. }
  rewrite Ha. cbn [bind]. destruct (dflt_fields r1 kv fs) as [r| |]; cbn [bind] in H; try discriminate. rewrite (IH r eq_refl). exact H.
Qed.

Lemma dflt_mono : forall f f' e s, (f <= f')%nat -> jmono (dflt f e s) (dflt f' e s).
Proof.
  induction f as [|f IH]; intros f' e s Hf v a H; [discriminate|].
  destruct f' as [|f']; [lia|]. assert (Hf' : (f <= f')%nat) by lia.
  destruct s; cbn [JsonCodec.dflt] in H |- *; try exact H.
  - destruct v; try discriminate. destruct (dflt_items (dflt f e) s l) as [r| |] eqn:E; cbn [bind] in H; try discriminate.
    rewrite (dflt_items_mono _ _ s (IH f' e s Hf') l r E). exact H.
  - destruct v; try discriminate. destruct (dflt_map (dflt f e) s kv) as [r| |] eqn:E; cbn [bind] in H; try discriminate.
    rewrite (dflt_map_mono _ _ s (IH f' e s Hf') kv r E). exact H.
  - destruct bs as [|b bs]; [discriminate|]. destruct (dflt f e b v) as [a0| |] eqn:E; cbn [bind] in H; try discriminate.
    rewrite (IH f' e b Hf' v a0 E). exact H.
  - destruct v; try discriminate. destruct (dflt_fields (dflt f e) kv fs) as [r| |] eqn:E; cbn [bind] in H; try discriminate.
    rewrite (dflt_fields_mono _ _ kv (fun s0 => IH f' e s0 Hf') fs r E). exact H.
  - destruct (lookup e n); [|discriminate]. apply (IH f' e s Hf'). exact H.
  - apply (IH f' e s Hf'). exact H.
Qed.

Theorem json_dec_fuel_mono : forall f f' e s, (f <= f')%nat -> jmono (json_dec f e s) (json_dec f' e s).
Proof.
  induction f as [|f IH]; intros f' e s Hf j a H; [discriminate|].
  destruct f' as [|f']; [lia|]. assert (Hf' : (f <= f')%nat) by lia.
  destruct s; cbn [json_dec] in H |- *; try exact H.
  - destruct j; try discriminate. destruct (dec_items (json_dec f e) s l) as [r| |] eqn:E; cbn [bind] in H; try discriminate.
    rewrite (dec_items_mono _ _ s (IH f' e s Hf') l r E). exact H.
  - destruct j; try discriminate. destruct (dec_map (json_dec f e) s kv) as [r| |] eqn:E; cbn [bind] in H; try discriminate.
    rewrite (dec_map_mono _ _ s (IH f' e s Hf') kv r E). exact H.
  - destruct j; try discriminate.
    + destruct (find_null e bs 0) as [i|]; [|discriminate]. destruct (nthZ bs i) as [b|]; [|discriminate].
      destruct (json_dec f e b JvNull) as [a0| |] eqn:E; cbn [bind] in H; try discriminate. rewrite (IH f' e b Hf' _ a0 E). exact H.
    + destruct kv as [|[k x] [|p kv]]; try discriminate.
      destruct (find_label k bs 0) as [i|]; [|discriminate]. destruct (nthZ bs i) as [b|]; [|discriminate].
      destruct (is_null e b); [discriminate|].
      destruct (json_dec f e b x) as [a0| |] eqn:E; cbn [bind] in H; try discriminate. rewrite (IH f' e b Hf' _ a0 E). exact H.
  - destruct j; try discriminate.
    destruct (dec_fields (json_dec f e) (dflt f e) kv fs) as [r| |] eqn:E; cbn [bind] in H; try discriminate.
    rewrite (dec_fields_mono _ _ _ _ kv (fun s0 => IH f' e s0 Hf') (fun s0 => dflt_mono f f' e s0 Hf') fs r E). exact H.
  - destruct (lookup e n); [|discriminate]. apply (IH f' e s Hf'). exact H.
  - apply (IH f' e s Hf'). exact H.
Qed.

(** *** two different values never share a document *)
Theorem json_enc_injective n e s a a' j : wf_envb e = true -> wfb s = true ->
  typedn n e s a -> typedn n e s a' -> float_leaves_ok a = true -> float_leaves_ok a' = true ->
  json_enc e s a = Some j -> json_enc e s a' = Some j -> a = a'.
Proof.
  intros Hwe Hws Ht Ht' Hf Hf' He He'.
  pose proof (json_roundtrip n e s a j Hwe Hws Ht Hf He n (le_n n)) as H1.
  pose proof (json_roundtrip n e s a' j Hwe Hws Ht' Hf' He' n (le_n n)) as H2.
  rewrite H1 in H2. injection H2 as ->. reflexivity.
Qed.
