(** The float leaves of the codec against the real-number specification of IEEE-754 (Flocq):
    the standard library's executable [SpecFloat.binary_round] IS Flocq's [binary_round] in mode nearest-even, hence
      - pack("<f", x)  (d2s)  = round-to-nearest-even of x onto binary32, OverflowError iff the rounded magnitude reaches 2^128,
      - unpack("<f")   (s2d)  = exact widening,
      - float(n)       (z2d)  = round-to-nearest-even of n onto binary64, OverflowError iff it reaches 2^1024,
      - a number written under 'float' and read back is the double whose value is the binary32 rounding of the datum (C01's clause),
      - every pattern produced is in range (the [floats_ok] side condition).
    AXIOMS: these theorems depend on the standard library's axiomatisation of the real numbers (through Flocq):
    ClassicalDedekindReals.sig_forall_dec, ClassicalDedekindReals.sig_not_dec, FunctionalExtensionality.functional_extensionality_dep,
    Classical_Prop.classic.  Nothing else in the development does. *)
From Coq Require Import ZArith Reals Lia Lra SpecFloat Bool.
From Flocq Require Import Core Round Digits FLT Generic_fmt Float_prop Raux BinarySingleNaN.
From FA Require Import model.Base model.Float proofs.FloatBits.
Open Scope Z_scope.

(** the standard library's executable rounding is Flocq's [binary_round] in mode nearest-even *)
Lemma rne_choice sx mx lx : round_nearest_even mx lx = choice_mode mode_NE sx mx lx.
Proof. unfold round_nearest_even, choice_mode, cond_incr, round_N. destruct lx as [|[| |]]; cbn; try reflexivity.
  destruct (Z.even mx); reflexivity. Qed.
Lemma aux_bridge prec emax sx mx ex lx :
  SpecFloat.binary_round_aux prec emax sx mx ex lx = BinarySingleNaN.binary_round_aux prec emax mode_NE sx mx ex lx.
Proof. unfold SpecFloat.binary_round_aux, BinarySingleNaN.binary_round_aux.
  destruct (shr_fexp prec emax mx ex lx) as [mrs e']. rewrite (rne_choice sx).
  destruct (shr_fexp prec emax _ e' loc_Exact) as [mrs2 e2].
  destruct (shr_m mrs2); try reflexivity. Qed.
Lemma round_bridge prec emax sx mx ex :
  SpecFloat.binary_round prec emax sx mx ex = BinarySingleNaN.binary_round prec emax mode_NE sx mx ex.
Proof. unfold SpecFloat.binary_round, BinarySingleNaN.binary_round, shl_align_fexp.
  destruct (shl_align _ _ _) as [mz ez]. apply aux_bridge. Qed.

Definition rval (s : bool) (m : positive) (e : Z) : R := F2R (Float radix2 (cond_Zopp s (Zpos m)) e).
(** IEEE round-to-nearest-even onto the format with [prec] significant bits and exponent bound [emax] *)
Definition rne (prec emax : Z) (x : R) : R := round radix2 (SpecFloat.fexp prec emax) ZnearestE x.

Lemma spec_round prec emax s m e : 0 < prec -> prec < emax ->
  let z := SpecFloat.binary_round prec emax s m e in
  valid_binary prec emax z = true /\
  if Rlt_bool (Rabs (rne prec emax (rval s m e))) (bpow radix2 emax)
  then SF2R radix2 z = rne prec emax (rval s m e) /\ is_finite_SF z = true /\ sign_SF z = s
  else z = S754_infinity s.
Proof.
  intros Hp He z. subst z. rewrite round_bridge.
  exact (@binary_round_correct prec emax Hp He mode_NE s m e).
Qed.

(** ** pack("<f", x): IEEE round-to-nearest-even of the double's value, OverflowError iff the rounded magnitude reaches 2^128 *)
Theorem d2s_finite_spec bits s m e : fdecode 52 11 bits = S754_finite s m e ->
  let r := rne 24 128 (rval s m e) in
  if Rlt_bool (Rabs r) (bpow radix2 128)
  then exists y, d2s bits = Ok (fencode 23 8 y) /\ fdecode 23 8 (fencode 23 8 y) = y /\
                 SF2R radix2 y = r /\ is_finite_SF y = true /\ sign_SF y = s /\ 0 <= fencode 23 8 y < 2 ^ 32
  else d2s bits = Err.
Proof.
  intros Hd r. unfold d2s. rewrite Hd. destruct (spec_round 24 128 s m e ltac:(lia) ltac:(lia)) as [Hv Hs].
  fold r in Hs. destruct (Rlt_bool (Rabs r) (bpow radix2 128)).
  - destruct Hs as (Hr & Hf & Hsg). set (y := SpecFloat.binary_round 24 128 s m e) in *.
    exists y. assert (Hn : y <> S754_nan) by (intros E; rewrite E in Hf; discriminate).
    destruct (fdecode_fencode 23 8 ltac:(lia) ltac:(lia) y Hv Hn) as [Hrt Hrg].
    split; [destruct y; try reflexivity; discriminate|]. repeat split; try assumption; apply Hrg.
  - rewrite Hs. reflexivity.
Qed.

Lemma round_not_nan prec emax s m e : 0 < prec -> prec < emax -> SpecFloat.binary_round prec emax s m e <> S754_nan.
Proof.
  intros Hp He E. destruct (spec_round prec emax s m e Hp He) as [_ Hs]. rewrite E in Hs.
  destruct (Rlt_bool _ _); [destruct Hs as (_ & Hf & _); discriminate | discriminate].
Qed.

Lemma Ok_inj {A} (a b : A) : Ok a = Ok b -> a = b.
Proof. intros H; injection H; auto. Qed.

(** every pattern pack("<f") produces is a 32-bit pattern *)
Theorem d2s_range b x : d2s b = Ok x -> 0 <= x < 2 ^ 32.
Proof.
  intros H. unfold d2s in H. destruct (fdecode 52 11 b) as [s|s| |s m e] eqn:Hd.
  - apply Ok_inj in H; subst x. apply fencode32_range; [reflexivity|discriminate].
  - apply Ok_inj in H; subst x. apply fencode32_range; [reflexivity|discriminate].
  - apply Ok_inj in H; subst x. pose proof (frac_shift b) as Hf.
    pose proof (lor_lt (2 ^ 22) (Z.shiftr (frac64 b) 29) 23 ltac:(lia) ltac:(lia) Hf) as Hl.
    destruct (signbit_range 23 8 (Z.testbit b 63)) as [-> | ->]; replace (23 + 8) with 31 by reflexivity; lia.
  - destruct (spec_round 24 128 s m e ltac:(lia) ltac:(lia)) as [Hv _].
    pose proof (round_not_nan 24 128 s m e ltac:(lia) ltac:(lia)) as Hnn.
    destruct (SpecFloat.binary_round 24 128 s m e) as [s'|s'| |s' m' e'] eqn:Hb; try discriminate; try congruence;
      apply Ok_inj in H; subst x;
      apply fencode32_range; try assumption; discriminate.
Qed.

Theorem z2d_range z x : z2d z = Ok x -> 0 <= x < 2 ^ 64.
Proof.
  unfold z2d. intros H. destruct z as [|p|p]; cbv beta iota delta [SpecFloat.binary_normalize] in H.
  - apply Ok_inj in H; subst x. apply fencode64_range; [reflexivity|discriminate].
  - destruct (spec_round 53 1024 false p 0 ltac:(lia) ltac:(lia)) as [Hv _].
    pose proof (round_not_nan 53 1024 false p 0 ltac:(lia) ltac:(lia)) as Hnn.
    destruct (SpecFloat.binary_round 53 1024 false p 0) as [s'|s'| |s' m' e'] eqn:Hb; try discriminate; try congruence;
      apply Ok_inj in H; subst x;
      apply fencode64_range; try assumption; discriminate.
  - destruct (spec_round 53 1024 true p 0 ltac:(lia) ltac:(lia)) as [Hv _].
    pose proof (round_not_nan 53 1024 true p 0 ltac:(lia) ltac:(lia)) as Hnn.
    destruct (SpecFloat.binary_round 53 1024 true p 0) as [s'|s'| |s' m' e'] eqn:Hb; try discriminate; try congruence;
      apply Ok_inj in H; subst x;
      apply fencode64_range; try assumption; discriminate.
Qed.


(** the value a finite pattern denotes *)
Lemma format_le x : generic_format radix2 (SpecFloat.fexp 24 128) x -> generic_format radix2 (SpecFloat.fexp 53 1024) x.
Proof. apply generic_inclusion_mag. intros _. unfold SpecFloat.fexp, SpecFloat.emin. lia. Qed.

Lemma valid_generic prec emax s m e : valid_binary prec emax (S754_finite s m e) = true ->
  generic_format radix2 (SpecFloat.fexp prec emax) (rval s m e).
Proof.
  intros Hv. cbn [valid_binary] in Hv. unfold bounded in Hv. apply andb_prop in Hv as [Hc _].
  unfold rval. apply generic_format_canonical. apply canonical_canonical_mantissa. exact Hc.
Qed.

Lemma valid_lt_emax prec emax s m e : 0 < prec -> prec < emax -> valid_binary prec emax (S754_finite s m e) = true ->
  (Rabs (rval s m e) < bpow radix2 emax)%R.
Proof.
  intros Hp He Hv. unfold rval. rewrite F2R_cond_Zopp, abs_cond_Ropp.
  rewrite Rabs_pos_eq by (apply F2R_ge_0; cbn; lia).
  exact (@bounded_lt_emax prec emax m e Hv).
Qed.

(** ** unpack("<f"): exact widening -- the double returned has the value of the binary32 pattern *)
Theorem s2d_finite_exact bits s m e : fdecode 23 8 bits = S754_finite s m e ->
  exists y, s2d bits = fencode 52 11 y /\ fdecode 52 11 (s2d bits) = y /\ SF2R radix2 y = rval s m e /\ is_finite_SF y = true.
Proof.
  intros Hd. assert (Hv : valid_binary 24 128 (S754_finite s m e) = true) by (rewrite <- Hd; apply (fdecode_valid 23 8); lia).
  unfold s2d. rewrite Hd. destruct (spec_round 53 1024 s m e ltac:(lia) ltac:(lia)) as [Hv2 Hs].
  assert (Hr : rne 53 1024 (rval s m e) = rval s m e).
  { unfold rne. apply round_generic; [typeclasses eauto|]. apply format_le, valid_generic, Hv. }
  rewrite Hr in Hs. rewrite Rlt_bool_true in Hs.
  - destruct Hs as (Hx & Hf & _). set (y := SpecFloat.binary_round 53 1024 s m e) in *. exists y.
    assert (Hn : y <> S754_nan) by (intros E; rewrite E in Hf; discriminate).
    repeat split; try assumption. apply fdecode64_fencode; assumption.
  - eapply Rlt_trans; [apply (valid_lt_emax 24 128); try lia; exact Hv|]. apply bpow_lt. lia.
Qed.

Theorem s2d_range b : 0 <= s2d b < 2 ^ 64.
Proof.
  unfold s2d. destruct (fdecode 23 8 b) as [s|s| |s m e] eqn:Hd.
  - apply fencode64_range; [reflexivity|discriminate].
  - apply fencode64_range; [reflexivity|discriminate].
  - assert (Hf : 0 <= Z.shiftl (frac32 b) 29 < 2 ^ 52).
    { unfold frac32. rewrite land_ones' by lia. rewrite Z.shiftl_mul_pow2 by lia.
      pose proof (Z.mod_pos_bound b (2 ^ 23) ltac:(lia)) as Hm. replace (2 ^ 52) with (2 ^ 23 * 2 ^ 29) by reflexivity. nia. }
    pose proof (lor_lt (2 ^ 51) (Z.shiftl (frac32 b) 29) 52 ltac:(lia) ltac:(lia) Hf) as Hl.
    destruct (signbit_range 52 11 (Z.testbit b 31)) as [-> | ->]; replace (52 + 11) with 63 by reflexivity; lia.
  - destruct (spec_round 53 1024 s m e ltac:(lia) ltac:(lia)) as [Hv _].
    apply fencode64_range; [exact Hv | apply round_not_nan; lia].
Qed.

(** ** what comes back for a number written under 'float' (C01's normalisation clause):
    the double whose value is the IEEE round-to-nearest-even binary32 rounding of the datum's value *)
Theorem float_written_then_read bits s m e : fdecode 52 11 bits = S754_finite s m e ->
  let r := rne 24 128 (rval s m e) in
  if Rlt_bool (Rabs r) (bpow radix2 128)
  then exists w y, d2s bits = Ok w /\ 0 <= w < 2 ^ 32 /\ fdecode 52 11 (s2d w) = y /\ SF2R radix2 y = r /\ is_finite_SF y = true
  else d2s bits = Err.
Proof.
  intros Hd. pose proof (d2s_finite_spec bits s m e Hd) as Hs. cbv zeta in *.
  destruct (Rlt_bool _ _); [|exact Hs].
  destruct Hs as (y32 & Hw & Hdec & Hval & Hfin & _ & Hrg).
  exists (fencode 23 8 y32). destruct y32 as [s'|s'| |s' m' e']; try discriminate.
  - (* rounded to zero *) exists (S754_zero s'). split; [exact Hw|]. split; [exact Hrg|]. split; [|split; [exact Hval|reflexivity]].
    unfold s2d. rewrite Hdec. apply fdecode64_fencode; [reflexivity|discriminate].
  - destruct (s2d_finite_exact _ s' m' e' Hdec) as (y & _ & Hy & Hv & Hf). exists y.
    split; [exact Hw|]. split; [exact Hrg|]. split; [exact Hy|]. split; [rewrite Hv; exact Hval|exact Hf].
Qed.



Lemma rval_int s p : rval s p 0 = IZR (cond_Zopp s (Zpos p)).
Proof. unfold rval, F2R. cbn [Fnum Fexp]. simpl bpow. ring. Qed.

(** ** float(n) for a Python int n: round-to-nearest-even onto binary64; OverflowError iff the rounded magnitude reaches 2^1024 *)
Theorem z2d_spec z :
  let r := rne 53 1024 (IZR z) in
  if Rlt_bool (Rabs r) (bpow radix2 1024)
  then exists y, z2d z = Ok (fencode 52 11 y) /\ fdecode 52 11 (fencode 52 11 y) = y /\ SF2R radix2 y = r /\ is_finite_SF y = true
  else z2d z = Err.
Proof.
  unfold z2d. destruct z as [|p|p]; cbv beta iota delta [SpecFloat.binary_normalize]; cbv zeta.
  - unfold rne. rewrite round_0 by typeclasses eauto. rewrite Rabs_R0.
    rewrite Rlt_bool_true by apply bpow_gt_0. exists (S754_zero false).
    split; [reflexivity|]. split; [apply fdecode64_fencode; [reflexivity|discriminate]|]. split; reflexivity.
  - destruct (spec_round 53 1024 false p 0 ltac:(lia) ltac:(lia)) as [Hv Hs]. rewrite rval_int in Hs. cbn [cond_Zopp] in Hs.
    pose proof (round_not_nan 53 1024 false p 0 ltac:(lia) ltac:(lia)) as Hn.
    destruct (Rlt_bool _ _).
    + destruct Hs as (Hr & Hf & _). set (y := SpecFloat.binary_round 53 1024 false p 0) in *. exists y.
      split; [destruct y; try reflexivity; discriminate|]. split; [apply fdecode64_fencode; assumption|]. split; assumption.
    + rewrite Hs. reflexivity.
  - destruct (spec_round 53 1024 true p 0 ltac:(lia) ltac:(lia)) as [Hv Hs]. rewrite rval_int in Hs. cbn [cond_Zopp Z.opp] in Hs.
    pose proof (round_not_nan 53 1024 true p 0 ltac:(lia) ltac:(lia)) as Hn.
    destruct (Rlt_bool _ _).
    + destruct Hs as (Hr & Hf & _). set (y := SpecFloat.binary_round 53 1024 true p 0) in *. exists y.
      split; [destruct y; try reflexivity; discriminate|]. split; [apply fdecode64_fencode; assumption|]. split; assumption.
    + rewrite Hs. reflexivity.
Qed.

(** ** stability: narrowing what was widened gives the pattern back *)
Lemma rval_neq0 s m e : rval s m e <> 0%R.
Proof. unfold rval. intros H. apply eq_0_F2R in H. destruct s; discriminate H. Qed.

(** two valid finite values of one format with the same real value are the same value *)
Lemma valid_unique prec emax s1 m1 e1 s2 m2 e2 :
  valid_binary prec emax (S754_finite s1 m1 e1) = true -> valid_binary prec emax (S754_finite s2 m2 e2) = true ->
  rval s1 m1 e1 = rval s2 m2 e2 -> S754_finite s1 m1 e1 = S754_finite s2 m2 e2.
Proof.
  intros H1 H2 Hr. cbn [valid_binary] in H1, H2. unfold bounded in H1, H2.
  apply andb_prop in H1 as [C1 _]. apply andb_prop in H2 as [C2 _].
  pose proof (canonical_canonical_mantissa prec emax s1 m1 e1 C1) as K1.
  pose proof (canonical_canonical_mantissa prec emax s2 m2 e2 C2) as K2.
  pose proof (canonical_unique radix2 (SpecFloat.fexp prec emax) _ _ K1 K2 Hr) as E.
  injection E as Em Ee. subst e2. destruct s1, s2; cbn in Em; try discriminate Em; injection Em as <-; reflexivity.
Qed.

(** narrowing what was widened gives the pattern back (every non-NaN binary32 pattern) *)
Theorem d2s_s2d w : 0 <= w < 2 ^ 32 -> fdecode 23 8 w <> S754_nan -> d2s (s2d w) = Ok w.
Proof.
  intros Hw Hn. pose proof (fencode_fdecode 23 8 ltac:(lia) ltac:(lia) w Hw Hn) as Hfe.
  pose proof (fdecode_valid 23 8 ltac:(lia) ltac:(lia) w) as Hv. change (23 + 1) with 24 in Hv. change (2 ^ (8 - 1)) with 128 in Hv.
  destruct (fdecode 23 8 w) as [s|s| |s m e] eqn:Hd; [| |congruence|].
  - unfold s2d. rewrite Hd. unfold d2s. rewrite (fdecode64_fencode (S754_zero s)) by (reflexivity || discriminate). rewrite Hfe. reflexivity.
  - unfold s2d. rewrite Hd. unfold d2s. rewrite (fdecode64_fencode (S754_infinity s)) by (reflexivity || discriminate). rewrite Hfe. reflexivity.
  - destruct (s2d_finite_exact w s m e Hd) as (y & _ & Hy & Hval & Hfin).
    unfold d2s. rewrite Hy. destruct y as [s'|s'| |s' m' e']; try discriminate Hfin.
    + exfalso. cbn in Hval. symmetry in Hval. exact (rval_neq0 _ _ _ Hval).
    + change (SF2R radix2 (S754_finite s' m' e')) with (rval s' m' e') in Hval.
      destruct (spec_round 24 128 s' m' e' ltac:(lia) ltac:(lia)) as [Hv2 Hs]. rewrite Hval in Hs.
      assert (Hr : rne 24 128 (rval s m e) = rval s m e) by (unfold rne; apply round_generic; [typeclasses eauto|apply valid_generic, Hv]).
      rewrite Hr in Hs. rewrite Rlt_bool_true in Hs by (apply (valid_lt_emax 24 128); try lia; exact Hv).
      destruct Hs as (Hx & Hf & _).
      destruct (SpecFloat.binary_round 24 128 s' m' e') as [s2|s2| |s2 m2 e2] eqn:Hb; try discriminate Hf.
      * exfalso. cbn in Hx. symmetry in Hx. exact (rval_neq0 _ _ _ Hx).
      * change (SF2R radix2 (S754_finite s2 m2 e2)) with (rval s2 m2 e2) in Hx.
        rewrite (valid_unique 24 128 _ _ _ _ _ _ Hv2 Hv Hx). rewrite Hfe. reflexivity.
Qed.

(** hence: whatever pack("<f") produced for a non-NaN number survives widening and narrowing *)
Corollary d2s_stable_nonnan b x : d2s b = Ok x -> fdecode 23 8 x <> S754_nan -> d2s (s2d x) = Ok x.
Proof. intros H Hn. apply d2s_s2d; [exact (d2s_range b x H)|exact Hn]. Qed.

(** the quiet NaN pattern pack("<f") produces for a NaN survives widening and narrowing as well *)
Lemma nan_pattern_stable sb q : 0 <= sb <= 1 -> 0 <= q < 2 ^ 23 ->
  let x := sb * 2 ^ 31 + 255 * 2 ^ 23 + Z.lor (2 ^ 22) q in d2s (s2d x) = Ok x.
Proof.
  intros Hsb Hq x.
  pose proof (lor_lt (2 ^ 22) q 23 ltac:(lia) ltac:(lia) Hq) as HL. set (L := Z.lor (2 ^ 22) q) in *.
  assert (HL0 : L <> 0) by (apply lor_pow2_neq0; lia).
  assert (Hx : x = sb * 2 ^ (23 + 8) + 255 * 2 ^ 23 + L) by reflexivity.
  destruct (split_fields 23 8 sb 255 L ltac:(lia) ltac:(lia) HL ltac:(lia) Hsb) as (Hm & _ & Ht & _). rewrite <- Hx in Hm, Ht.
  assert (Hd : fdecode 23 8 x = S754_nan).
  { rewrite Hx, fdecode_fields by (try assumption; lia). cbv zeta. change (255 =? 0) with false. change (255 =? 2 ^ 8 - 1) with true. cbv iota.
    destruct (Z.eqb_spec L 0); [contradiction|reflexivity]. }
  unfold s2d. rewrite Hd. unfold frac32. rewrite land_ones' by lia. rewrite Hm. change (23 + 8) with 31 in Ht. rewrite Ht.
  assert (HLs : 0 <= Z.shiftl L 29 < 2 ^ 52).
  { rewrite Z.shiftl_mul_pow2 by lia. replace (2 ^ 52) with (2 ^ 23 * 2 ^ 29) by reflexivity. nia. }
  pose proof (lor_lt (2 ^ 51) (Z.shiftl L 29) 52 ltac:(lia) ltac:(lia) HLs) as HL'. set (L' := Z.lor (2 ^ 51) (Z.shiftl L 29)) in *.
  assert (HL'0 : L' <> 0) by (apply lor_pow2_neq0; lia).
  assert (Hsg : signbit 52 11 (sb =? 1) = sb * 2 ^ (52 + 11)).
  { unfold signbit. destruct (Z.eqb_spec sb 1) as [H1|H1]; [rewrite H1; lia|]. assert (H0 : sb = 0) by lia. rewrite H0. lia. }
  rewrite Hsg. set (y := sb * 2 ^ (52 + 11) + 2047 * 2 ^ 52 + L').
  destruct (split_fields 52 11 sb 2047 L' ltac:(lia) ltac:(lia) HL' ltac:(lia) Hsb) as (Hm2 & _ & Ht2 & _). fold y in Hm2, Ht2.
  assert (Hd2 : fdecode 52 11 y = S754_nan).
  { unfold y. rewrite fdecode_fields by (try assumption; lia). cbv zeta. change (2047 =? 0) with false. change (2047 =? 2 ^ 11 - 1) with true. cbv iota.
    destruct (Z.eqb_spec L' 0); [contradiction|reflexivity]. }
  unfold d2s. rewrite Hd2. unfold frac64. rewrite land_ones' by lia. rewrite Hm2. change (52 + 11) with 63 in Ht2. rewrite Ht2.
  f_equal. unfold x.
  assert (Hs2 : signbit 23 8 (sb =? 1) = sb * 2 ^ 31).
  { unfold signbit. destruct (Z.eqb_spec sb 1) as [H1|H1]; [rewrite H1; reflexivity|]. assert (H0 : sb = 0) by lia. rewrite H0. reflexivity. }
  rewrite Hs2.
  assert (Hsh : Z.shiftr L' 29 = L).
  { unfold L'. rewrite Z.shiftr_lor. rewrite Z.shiftr_shiftl_l by lia. change (29 - 29) with 0. rewrite Z.shiftl_0_r.
    change (Z.shiftr (2 ^ 51) 29) with (2 ^ 22). unfold L. rewrite Z.lor_assoc, Z.lor_diag. reflexivity. }
  rewrite Hsh. assert (Hid : Z.lor (2 ^ 22) L = L) by (unfold L; rewrite Z.lor_assoc, Z.lor_diag; reflexivity).
  rewrite Hid. reflexivity.
Qed.

Theorem d2s_image_stable b x : d2s b = Ok x -> d2s (s2d x) = Ok x.
Proof.
  intros H. destruct (fdecode 23 8 x) eqn:Hdx; try (apply (d2s_stable_nonnan b x H); rewrite Hdx; discriminate).
  (* x decodes to NaN: b was a NaN (a rounded finite value is never NaN) *)
  unfold d2s in H. destruct (fdecode 52 11 b) as [s|s| |s m e] eqn:Hd.
  - apply Ok_inj in H. subst x. rewrite (fdecode32_fencode (S754_zero s)) in Hdx by (reflexivity || discriminate). discriminate.
  - apply Ok_inj in H. subst x. rewrite (fdecode32_fencode (S754_infinity s)) in Hdx by (reflexivity || discriminate). discriminate.
  - apply Ok_inj in H. subst x. pose proof (frac_shift b) as Hf.
    destruct (signbit_range 23 8 (Z.testbit b 63)) as [E|E]; rewrite E.
    + exact (nan_pattern_stable 0 _ ltac:(lia) Hf).
    + change (2 ^ (23 + 8)) with (1 * 2 ^ 31). exact (nan_pattern_stable 1 _ ltac:(lia) Hf).
  - exfalso. destruct (spec_round 24 128 s m e ltac:(lia) ltac:(lia)) as [Hv _].
    pose proof (round_not_nan 24 128 s m e ltac:(lia) ltac:(lia)) as Hnn.
    destruct (SpecFloat.binary_round 24 128 s m e) as [s'|s'| |s' m' e'] eqn:Hbr; try discriminate H; try congruence;
      apply Ok_inj in H; subst x; rewrite fdecode32_fencode in Hdx by (assumption || discriminate); discriminate.
Qed.
