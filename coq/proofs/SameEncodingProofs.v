(** C13_same_encoding: schemas with the same canonical JSON type the same values (and hence have
    the same encoding, [wire] being schema-independent, and decode each other's output). *)
From Coq Require Import Lia ZifyBool String Ascii.
From FA Require Import model.Base model.Varint model.Value model.Schema model.Utf8 model.Codec
     model.Json model.Parse model.SchemaSpec model.Inline model.Canon model.Pout model.Bridge
     proofs.VarintProofs proofs.CodecProofs proofs.BridgeProofs proofs.JsonProofs proofs.ParseProofs
     proofs.CanonProofs proofs.FixedPointProofs proofs.PoutProofs proofs.InlineProofs proofs.PiecewiseInlineProofs proofs.BridgeCanonProofs proofs.TypedEraseProofs.
Open Scope string_scope.

(** ---- every definition node has its own accepted parse, in its namespace ---- *)
Lemma in_concat_map {A B} (g : A -> list B) l x : In x (concat (map g l)) -> exists a, In a l /\ In x (g a).
Proof.
  induction l as [|a r IH]; cbn [map concat]; [intros []|]. intros I. apply in_app_or in I.
  destruct I as [I|I]; [exists a; split; [now left|exact I]|]. destruct (IH I) as (b & Ib & Ix). exists b. split; [now right|exact Ix].
Qed.

Lemma fields_ok_obj rec ns l st ps st' fd : fields_ok rec ns l st ps st' -> In fd l -> exists fkv, fd = JObj fkv.
Proof.
  induction 1 as [|s r st p st1 ps st2 R M IHM]; intros I; [destruct I|].
  destruct I as [<-|I]; [|auto]. destruct R. eauto.
Qed.

Theorem defs_subparse : forall f j ns wh st d r, parse_rec f j ns wh st d = POk r ->
  forall n nsn node, In (n, (nsn, node)) (defs_of ns j) ->
  exists f' wh' st0 d0 r0, parse_rec f' node nsn wh' st0 d0 = POk r0.
Proof.
  induction f as [|f IH]; intros j ns wh st d [p st'] H n nsn node I; [discriminate H|].
  pose proof H as H0. cbn [parse_rec] in H. apply parse_node_inv in H.
  destruct H as [s ns wh st d P|s ns wh st d P J|l ns wh st d ps st' M|kv t ns wh st d T P
                 |kv it ns wh st d p st' T I0 R|kv it ns wh st d p st' T I0 R
                 |kv ns wh st d ns' full syms ss T SN D SY SS ND parsed
                 |kv ns wh st d ns' full sz T SN D SZ parsed
                 |kv t ns wh st d ns' full fl fs st3 T TT SN D FL FS reckv].
  - destruct I.
  - destruct I.
  - unfold defs_of in I. rewrite defs_of_m_arr in I. apply in_concat_map in I. destruct I as (m & Im & Ix).
    destruct (members_ok_in _ _ _ _ _ _ _ M Im) as (st0 & r0 & R). eapply IH; eauto.
  - destruct (prim_not_complex _ P) as (N1 & N2 & N3 & N4 & N5 & N6).
    unfold defs_of in I. rewrite defs_of_m_obj in I. cbv beta iota zeta in I.
    rewrite !(type_is_get _ _ _ T), N1, N2, N3, N4, N5, N6 in I. destruct I.
  - unfold defs_of in I. rewrite defs_of_m_obj in I. cbv beta iota zeta in I.
    rewrite !(type_is_get _ _ _ T) in I. cbn [String.eqb Ascii.eqb Bool.eqb] in I. rewrite I0 in I. eapply IH; eauto.
  - unfold defs_of in I. rewrite defs_of_m_obj in I. cbv beta iota zeta in I.
    rewrite !(type_is_get _ _ _ T) in I. cbn [String.eqb Ascii.eqb Bool.eqb] in I. rewrite I0 in I. eapply IH; eauto.
  - unfold defs_of in I. rewrite defs_of_m_obj in I. cbv beta iota zeta in I.
    rewrite !(type_is_get _ _ _ T) in I. cbn [String.eqb Ascii.eqb Bool.eqb orb] in I.
    destruct I as [I|[]]. injection I as <- <- <-. eauto 10.
  - unfold defs_of in I. rewrite defs_of_m_obj in I. cbv beta iota zeta in I.
    rewrite !(type_is_get _ _ _ T) in I. cbn [String.eqb Ascii.eqb Bool.eqb orb] in I.
    destruct I as [I|[]]. injection I as <- <- <-. eauto 10.
  - apply schema_name_spec in SN. destruct SN as (-> & -> & NM).
    unfold defs_of in I. rewrite defs_of_m_obj in I. cbv beta iota zeta in I.
    rewrite !(type_is_get _ _ _ T) in I.
    assert (I' : (spec_fullname ns kv, (ns, JObj kv)) = (n, (nsn, node)) \/
                 In (n, (nsn, node)) (match jget "fields" kv with Some v => defs_of_m v PFields (spec_namespace ns kv) | None => [] end)).
    { destruct TT as [-> | ->]; cbn [String.eqb Ascii.eqb Bool.eqb orb] in I; exact I. }
    clear I. destruct I' as [I|I]; [injection I as <- <- <-; eauto 10|].
    destruct FL as [FL|[FL ->]]; rewrite FL in I; [|destruct I].
    rewrite defs_of_m_arr in I. apply in_concat_map in I. destruct I as (fd & Ifd & Ix).
    cbv beta iota in Ix. destruct (fields_ok_obj _ _ _ _ _ _ _ FS Ifd) as (fkv & ->).
    rewrite defs_of_m_obj in Ix. cbv beta iota zeta in Ix.
    destruct (jget "type" fkv) as [ty|] eqn:TY; [|destruct Ix].
    destruct (fields_ok_in _ _ _ _ _ _ _ _ FS Ifd TY) as (st0 & d0 & r0 & R). eapply IH; eauto.
Qed.

(** ---- the class "simple" is inherited by the definitions ---- *)
Lemma simple_arr_any l m :
  simple_m (JArr l) m = forallb (fun j => simple_m j (match m with PFields => PField | _ => PSchema end)) l.
Proof. unfold simple_m. rewrite jfold_arr. now rewrite forallb_map. Qed.

Lemma simple_defs j : forall m ns n nsn node,
  In (n, (nsn, node)) (defs_of_m j m ns) -> simple_m j m = true -> simple_m node PSchema = true.
Proof.
  induction j as [| | | | |l IH|kv IH] using json_ind'; intros m ns n nsn node I S; try (destruct I; fail).
  - rewrite defs_of_m_arr in I. rewrite simple_arr_any in S. apply in_concat_map in I. destruct I as (x & Ix & I).
    rewrite Forall_forall in IH. rewrite forallb_forall in S. eapply IH; eauto.
  - assert (IH' : forall k v, jget k kv = Some v -> forall m ns n nsn node,
               In (n, (nsn, node)) (defs_of_m v m ns) -> simple_m v m = true -> simple_m node PSchema = true).
    { intros k v G. exact (jget_Forall (fun v => forall m ns n nsn node,
               In (n, (nsn, node)) (defs_of_m v m ns) -> simple_m v m = true -> simple_m node PSchema = true) k kv v IH G). }
    assert (PS : forall n nsn node, In (n, (nsn, node)) (defs_of_m (JObj kv) PSchema ns) -> simple_m (JObj kv) PSchema = true ->
                 simple_m node PSchema = true).
    { clear I S. intros n0 nsn0 node0 I S. pose proof S as S0.
      rewrite defs_of_m_obj in I. rewrite simple_m_obj in S. cbv beta iota zeta in I, S. rewrite ?bsub_map in S.
      destruct (type_is kv "array"). { destruct (jget "items" kv) eqn:G; [eapply IH'; eauto|destruct I]. }
      destruct (type_is kv "map"). { destruct (jget "values" kv) eqn:G; [eapply IH'; eauto|destruct I]. }
      destruct (type_is kv "enum" || type_is kv "fixed") eqn:EF.
      { destruct I as [I|[]]. injection I as <- <- <-. exact S0. }
      destruct (type_is kv "fixed"); [rewrite Bool.orb_true_r in EF; discriminate EF|].
      destruct (type_is kv "record" || type_is kv "error"); [|destruct I].
      destruct I as [I|I]; [injection I as <- <- <-; exact S0|].
      destruct (jget "fields" kv) eqn:G; [eapply IH'; eauto|destruct I]. }
    destruct m.
    + eapply PS; eauto.
    + eapply PS; [|rewrite simple_m_obj in S |- *; exact S]. rewrite defs_of_m_obj in I |- *. exact I.
    + rewrite defs_of_m_obj in I. rewrite simple_m_obj in S. cbv beta iota zeta in I, S. rewrite ?bsub_map in S.
      apply Bool.andb_true_iff in S. destruct S as [_ S]. destruct (jget "type" kv) eqn:G; [eapply IH'; eauto|destruct I].
Qed.


(** ---- names as bytes ---- *)
Lemma s2b_eqb a : forall b, bytes_eqb (s2b a) (s2b b) = String.eqb a b.
Proof.
  unfold s2b. induction a as [|x a IH]; intros [|y b]; cbn [list_ascii_of_string map bytes_eqb String.eqb]; try reflexivity.
  rewrite IH. destruct (Ascii.eqb_spec x y) as [->|N].
  - now rewrite Z.eqb_refl.
  - assert (E : (Z.of_N (N_of_ascii x) =? Z.of_N (N_of_ascii y))%Z = false); [|now rewrite E].
    apply Z.eqb_neq. intros E. apply N2Z.inj in E. apply N. rewrite <- (ascii_N_embedding x), <- (ascii_N_embedding y). now rewrite E.
Qed.

Lemma bytes_eqb_true a : forall b, bytes_eqb a b = true -> a = b.
Proof.
  induction a as [|x a IH]; intros [|y b] H; cbn [bytes_eqb] in H; try discriminate H; [reflexivity|].
  apply Bool.andb_true_iff in H. destruct H as [H1 H2]. apply Z.eqb_eq in H1. subst y. now rewrite (IH _ H2).
Qed.

(* lookup by bytes in an association list keyed by strings *)
Fixpoint alookup (L : list (string * json)) (nm : str) : option schema :=
  match L with
  | [] => None
  | (k, v) :: r => if bytes_eqb (s2b k) nm then schema_of_json v else alookup r nm
  end.

Lemma lookup_table t : forall e nm, env_of_table t = Some e -> lookup e nm = alookup t nm.
Proof.
  induction t as [|[k v] r IH]; intros e nm H; cbn [env_of_table] in H.
  - now injection H as <-.
  - destruct (schema_of_json v) as [s|] eqn:S; [|discriminate H]. destruct (env_of_table r) as [e'|]; [|discriminate H].
    injection H as <-. cbn [lookup alookup]. destruct (bytes_eqb (s2b k) nm); [now rewrite S|]. now apply IH.
Qed.

Lemma alookup_name L k : alookup L (s2b k) = match jget k L with Some v => schema_of_json v | None => None end.
Proof.
  induction L as [|[k' v] r IH]; cbn [alookup jget fst snd]; [reflexivity|].
  rewrite s2b_eqb, String.eqb_sym. destruct (String.eqb k k'); [reflexivity|exact IH].
Qed.

Lemma alookup_some L nm s : alookup L nm = Some s -> exists k, nm = s2b k.
Proof.
  induction L as [|[k' v] r IH]; cbn [alookup]; [discriminate|].
  destruct (bytes_eqb (s2b k') nm) eqn:E; [|exact IH]. intros _. exists k'. symmetry. now apply bytes_eqb_true.
Qed.

Lemma jget_nodup {A} (L : list (string * A)) k v : NoDup (map fst L) -> In (k, v) L -> jget k L = Some v.
Proof.
  induction L as [|[k' v'] r IH]; intros N I; [destruct I|]. cbn [map fst] in N. inversion N as [|? ? NI N']; subst.
  cbn [jget fst snd]. destruct I as [I|I].
  - injection I as -> ->. now rewrite String.eqb_refl.
  - destruct (String.eqb_spec k k') as [->|_]; [|auto]. exfalso. apply NI. change k' with (fst (k', v)). now apply in_map.
Qed.

Lemma jget_none {A} (L : list (string * A)) k : ~ In k (map fst L) -> jget k L = None.
Proof.
  induction L as [|[k' v'] r IH]; intros NI; [reflexivity|]. cbn [jget fst snd map] in *.
  destruct (String.eqb_spec k k') as [->|_]; [exfalso; apply NI; now left|]. apply IH. intros I. apply NI. now right.
Qed.

(** ---- the definitions of the canonical JSON ---- *)
Definition csubd (k : string) (rs : list (string * (pmode -> list (string * json)))) (m : pmode) : list (string * json) :=
  match jget k rs with Some r => r m | None => [] end.

Definition cdefs_m : json -> pmode -> list (string * json) :=
  jfold
    (fun _ _ => [])
    (fun _ rs m => concat (map (fun r => r (match m with PFields => PField | _ => PSchema end)) rs))
    (fun kv rs m =>
       match m with
       | PField => csubd "type" rs PSchema
       | _ =>
           if type_is kv "array" then csubd "items" rs PSchema
           else if type_is kv "map" then csubd "values" rs PSchema
           else if type_is kv "enum" || type_is kv "fixed" then [(name_attr kv, JObj kv)]
           else if type_is kv "record" || type_is kv "error" then (name_attr kv, JObj kv) :: csubd "fields" rs PFields
           else []
       end).

Lemma cdefs_m_arr l m :
  cdefs_m (JArr l) m = concat (map (fun j => cdefs_m j (match m with PFields => PField | _ => PSchema end)) l).
Proof. unfold cdefs_m. rewrite jfold_arr. now rewrite map_map. Qed.

Lemma cdefs_m_obj kv m :
  cdefs_m (JObj kv) m =
  let sub k m := match jget k kv with Some v => cdefs_m v m | None => [] end in
  match m with
  | PField => sub "type" PSchema
  | _ =>
      if type_is kv "array" then sub "items" PSchema
      else if type_is kv "map" then sub "values" PSchema
      else if type_is kv "enum" || type_is kv "fixed" then [(name_attr kv, JObj kv)]
      else if type_is kv "record" || type_is kv "error" then (name_attr kv, JObj kv) :: sub "fields" PFields
      else []
  end.
Proof.
  unfold cdefs_m at 1. rewrite jfold_obj. fold cdefs_m. unfold csubd. rewrite !jget_map.
  cbv zeta. destruct m; repeat match goal with |- context [jget ?k kv] => destruct (jget k kv) end; reflexivity.
Qed.

Definition cdef (x : string * (string * json)) : string * json := (fst x, pcf_json_in (fst (snd x)) (snd (snd x))).

Lemma cdefs_pcf j : forall m ns, cdefs_m (pcf_m j m ns) m = map cdef (defs_of_m j m ns).
Proof.
  induction j as [| | | |s|l IH|kv IH] using json_ind'; intros m ns; try reflexivity.
  - unfold pcf_m. cbn [jfold]. destruct (spec_is_prim s); reflexivity.
  - rewrite pcf_m_arr, cdefs_m_arr, defs_of_m_arr, concat_map, !map_map. f_equal.
    induction IH as [|x r Hx Hr IHr]; [reflexivity|]. cbn [map]. rewrite IHr. f_equal. destruct m; apply Hx.
  - assert (IH' : forall k v, jget k kv = Some v -> forall m ns, cdefs_m (pcf_m v m ns) m = map cdef (defs_of_m v m ns)).
    { intros k v G. exact (jget_Forall (fun v => forall m ns, cdefs_m (pcf_m v m ns) m = map cdef (defs_of_m v m ns)) k kv v IH G). }
    assert (PS : forall ns, cdefs_m (pcf_m (JObj kv) PSchema ns) PSchema = map cdef (defs_of_m (JObj kv) PSchema ns)).
    { intros ns0. rewrite pcf_m_obj, defs_of_m_obj. unfold pcf_obj. cbv zeta. unfold type_is.
      destruct (jget "type" kv) as [[| | | |t| |]|] eqn:T; try reflexivity.
      destruct (spec_is_prim t) eqn:P.
      { rewrite is_prim_spec in P || rewrite <- is_prim_spec in P. destruct (prim_not_complex _ P) as (N1 & N2 & N3 & N4 & N5 & N6).
        now rewrite N1, N2, N3, N4, N5, N6. }
      destruct (String.eqb t "array") eqn:E1.
      { rewrite cdefs_m_obj. cbv zeta. unfold type_is. cbn [jget String.eqb Ascii.eqb Bool.eqb fst snd].
        rewrite psub_map. destruct (jget "items" kv) eqn:G; [eapply IH'; eauto|reflexivity]. }
      destruct (String.eqb t "map") eqn:E2.
      { rewrite cdefs_m_obj. cbv zeta. unfold type_is. cbn [jget String.eqb Ascii.eqb Bool.eqb fst snd].
        rewrite psub_map. destruct (jget "values" kv) eqn:G; [eapply IH'; eauto|reflexivity]. }
      destruct (String.eqb t "enum") eqn:E3.
      { rewrite cdefs_m_obj. cbv zeta. unfold type_is, name_attr. cbn [jget String.eqb Ascii.eqb Bool.eqb fst snd orb map cdef].
        unfold cdef. cbn [fst snd]. unfold pcf_json_in. rewrite pcf_m_obj. unfold pcf_obj. rewrite T, P, E1, E2, E3. reflexivity. }
      destruct (String.eqb t "fixed") eqn:E4.
      { rewrite cdefs_m_obj. cbv zeta. unfold type_is, name_attr. cbn [jget String.eqb Ascii.eqb Bool.eqb fst snd orb map cdef].
        unfold cdef. cbn [fst snd]. unfold pcf_json_in. rewrite pcf_m_obj. unfold pcf_obj. rewrite T, P, E1, E2, E3, E4. reflexivity. }
      cbn [orb]. destruct (String.eqb t "record" || String.eqb t "error") eqn:E5; [|reflexivity].
      rewrite cdefs_m_obj. cbv zeta. unfold type_is, name_attr. cbn [jget String.eqb Ascii.eqb Bool.eqb fst snd orb map cdef].
      f_equal.
      + unfold cdef. cbn [fst snd]. unfold pcf_json_in. rewrite pcf_m_obj. unfold pcf_obj. rewrite T, P, E1, E2, E3, E4, E5. reflexivity.
      + rewrite jget_map. destruct (jget "fields" kv) eqn:G; cbn [option_map]; [eapply IH'; eauto|reflexivity]. }
    destruct m.
    + apply PS.
    + assert (E1 : pcf_m (JObj kv) PFields ns = pcf_json_in ns (JObj kv)) by reflexivity.
      rewrite E1. assert (NA : forall l, pcf_json_in ns (JObj kv) <> JArr l) by (apply pcf_not_arr; discriminate).
      transitivity (cdefs_m (pcf_json_in ns (JObj kv)) PSchema).
      * destruct (pcf_json_in ns (JObj kv)) as [| | | | |l|kv']; try reflexivity; try (now rewrite !cdefs_m_obj). exfalso. now apply (NA l).
      * unfold pcf_json_in. rewrite PS. now rewrite !defs_of_m_obj.
    + rewrite pcf_m_obj, defs_of_m_obj. unfold pcf_obj. cbv zeta. rewrite cdefs_m_obj. cbv zeta.
      cbn [jget String.eqb Ascii.eqb Bool.eqb fst snd]. rewrite psub_map.
      destruct (jget "type" kv) eqn:G; [eapply IH'; eauto|reflexivity].
Qed.

(** ---- the table entry of every definition, as a codec schema ---- *)
Lemma bridge_parsed_irrelevant kv v m :
  bridge_m (JObj (jset "__fastavro_parsed" v kv)) m = bridge_m (JObj kv) m.
Proof.
  rewrite !bridge_m_obj. unfold bridge_obj, annot, lt_of, aliases_of. rewrite !bsubr_map.
  rewrite !jget_jset_neq by reflexivity. reflexivity.
Qed.

Lemma bridge_mark kv m : bridge_m (mark true kv) m = bridge_m (JObj kv) m.
Proof. unfold mark. now rewrite bridge_jset_irrelevant, bridge_parsed_irrelevant. Qed.

Lemma bridge_pout_def f j ns wh st d r n nsn node :
  simple_m j PSchema = true -> parse_rec f j ns wh st d = POk r -> In (n, (nsn, node)) (defs_of ns j) ->
  option_map erase_schema (schema_of_json (pout nsn node)) = schema_of_json (pcf_json_in nsn node).
Proof.
  intros S H I. pose proof (simple_defs _ _ _ _ _ _ I S) as SN.
  destruct (defs_subparse _ _ _ _ _ _ _ H _ _ _ I) as (f' & wh' & st0 & d0 & [p0 st0'] & R).
  rewrite <- (parse_rec_bridge f' _ _ _ _ _ _ _ SN R).
  destruct (parse_rec_pout f' _ _ _ _ _ _ _ R) as [->|(_ & kv' & Q & ->)]; [reflexivity|].
  rewrite Q. unfold schema_of_json. now rewrite bridge_mark.
Qed.

(* top level *)
Lemma parse_schema_rec_defs f : forall j st p st',
  unmarked j = true -> parse_schema_rec f j st = POk (p, st') -> NoDup (st_names st) ->
  forall n nsn node, In (n, (nsn, node)) (defs_of "" j) ->
  jget n (st_tbl st') = Some (pout nsn node) /\ (simple_m j PSchema = true -> option_map erase_schema (schema_of_json (pout nsn node)) = schema_of_json (pcf_json_in nsn node)).
Proof.
  induction f as [|f IH]; intros j st p st' U H ND n nsn node I; [discriminate H|].
  assert (RUN : forall j0, run_parse f j0 st = POk (p, st') -> In (n, (nsn, node)) (defs_of "" j0) ->
                jget n (st_tbl st') = Some (pout nsn node) /\ (simple_m j0 PSchema = true -> option_map erase_schema (schema_of_json (pout nsn node)) = schema_of_json (pcf_json_in nsn node))).
  { intros j0 R I0. unfold run_parse in R. split.
    - exact (proj2 (parse_rec_entries_pout f _ _ _ _ _ _ _ R ND) _ _ _ I0).
    - intros S. eapply bridge_pout_def; eauto. }
  cbn [parse_schema_rec] in H. destruct j as [| | | | |l|kv]; try (exact (RUN _ H I)).
  - destruct (parse_tops (parse_schema_rec f) l st) as [[ps st1]| | | |] eqn:E; cbn [pbind] in H; try discriminate H.
    injection H as <- <-. rewrite unmarked_arr in U. unfold defs_of in I. rewrite defs_of_m_arr in I. fold (defs_of "") in I.
    rewrite simple_arr. clear RUN. revert st ps st1 E ND. induction l as [|m r IHl]; intros st ps st1 E ND; cbn [parse_tops] in E.
    + destruct I.
    + cbn [forallb] in U. apply Bool.andb_true_iff in U. destruct U as [U1 U2].
      destruct (parse_schema_rec f m st) as [[p1 st2]| | | |] eqn:E1; cbn [pbind] in E; try discriminate E.
      destruct (parse_tops (parse_schema_rec f) r st2) as [[ps2 st3]| | | |] eqn:E2; cbn [pbind] in E; try discriminate E.
      injection E as <- <-. cbn [map concat] in I. apply in_app_or in I.
      destruct (parse_schema_rec_names f _ _ _ _ U1 E1) as [A1 B1].
      destruct I as [I|I].
      * destruct (IH _ _ _ _ U1 E1 ND _ _ _ I) as [G1 G2]. split.
        -- rewrite <- G1.
           assert (E2' : parse_schema_rec (S f) (JArr r) st2 = POk (JArr ps2, st3)) by (cbn [parse_schema_rec]; now rewrite E2).
           assert (UR : unmarked (JArr r) = true) by now rewrite unmarked_arr.
           apply (parse_schema_rec_keeps (S f) _ _ _ _ UR E2' (B1 ND)).
           destruct (parse_schema_rec_names (S f) _ _ _ _ UR E2') as [A2 B2]. specialize (B2 (B1 ND)).
           rewrite A2, A1 in B2. intros X. apply (nodup_app_disjoint _ _ n B2); [|exact X].
           apply in_or_app. right. unfold spec_names. rewrite <- defs_names. eapply in_defs_names; eauto.
        -- cbn [forallb]. intros S. apply Bool.andb_true_iff in S. now apply G2.
      * destruct (IHl U2 I _ _ _ E2 (B1 ND)) as [G1 G2]. split; [exact G1|].
        cbn [forallb]. intros S. apply Bool.andb_true_iff in S. now apply G2.
  - rewrite unmarked_obj in U. apply Bool.negb_true_iff in U. rewrite U in H. exact (RUN _ H I).
Qed.

(** ---- the erased table of a parse, as a function of the canonical JSON ---- *)
Lemma table_of_canon f j p t e :
  simple_raw j = true -> parse_schema f j [] = POk (p, t) -> env_of_table t = Some e ->
  forall nm, lookup (erase_env e) nm = alookup (cdefs_m (pcf_json j) PSchema) nm.
Proof.
  intros S H E. unfold simple_raw in S. apply Bool.andb_true_iff in S. destruct S as [S U].
  pose proof (parse_schema_names_unique _ _ _ _ _ U H) as ND.
  unfold parse_schema in H.
  destruct (parse_schema_rec f j (mkst [] [])) as [[p0 st1]| | | |] eqn:P; cbn [pbind] in H; try discriminate H.
  injection H as <- <-.
  assert (K : forall k, option_map erase_schema (alookup (st_tbl st1) (s2b k)) = alookup (cdefs_m (pcf_json j) PSchema) (s2b k)).
  { intros k. rewrite !alookup_name. unfold pcf_json, pcf_json_in. rewrite cdefs_pcf. fold (defs_of "" j).
    assert (NDc : NoDup (map fst (map cdef (defs_of "" j)))).
    { rewrite map_map. unfold cdef. cbn [fst]. unfold defs_of. rewrite defs_names. exact ND. }
    destruct (in_dec string_dec k (spec_names "" j)) as [I|NI].
    - unfold spec_names in I. rewrite <- defs_names in I. apply in_map_iff in I. destruct I as ([n [nsn node]] & <- & I).
      cbn [fst]. destruct (parse_schema_rec_defs f _ _ _ _ U P (NoDup_nil _) _ _ _ I) as [G1 G2].
      rewrite G1. rewrite (jget_nodup _ n (pcf_json_in nsn node) NDc); [now apply G2|].
      change (n, pcf_json_in nsn node) with (cdef (n, (nsn, node))). now apply in_map.
    - rewrite (parse_schema_rec_keeps f _ _ _ _ U P (NoDup_nil _) k NI). cbn [st_tbl jget option_map].
      rewrite jget_none; [reflexivity|]. rewrite map_map. unfold cdef. cbn [fst]. unfold defs_of. now rewrite defs_names. }
  intros nm. rewrite lookup_erase, (lookup_table _ _ nm E).
  destruct (alookup (st_tbl st1) nm) as [s|] eqn:A.
  - destruct (alookup_some _ _ _ A) as [k ->]. now rewrite <- K, A.
  - destruct (alookup (cdefs_m (pcf_json j) PSchema) nm) as [s|] eqn:B; [|reflexivity].
    destruct (alookup_some _ _ _ B) as [k ->]. now rewrite <- B, <- K, A.
Qed.

(** ---- C13_same_encoding ---- *)
Theorem same_canon_same_typed j1 j2 f1 f2 p1 t1 p2 t2 s1 e1 s2 e2 :
  simple_raw j1 = true -> simple_raw j2 = true -> pcf_json j1 = pcf_json j2 ->
  parse_schema f1 j1 [] = POk (p1, t1) -> parse_schema f2 j2 [] = POk (p2, t2) ->
  schema_of_json p1 = Some s1 -> env_of_table t1 = Some e1 ->
  schema_of_json p2 = Some s2 -> env_of_table t2 = Some e2 ->
  forall a, typed e1 s1 a <-> typed e2 s2 a.
Proof.
  intros S1 S2 C P1 P2 B1 E1 B2 E2 a.
  apply typed_same_erasure.
  - pose proof (bridge_parse_is_canon _ _ _ _ _ S1 P1) as X1. pose proof (bridge_parse_is_canon _ _ _ _ _ S2 P2) as X2.
    rewrite B1 in X1. rewrite B2 in X2. rewrite C in X1. rewrite <- X2 in X1. cbn [option_map] in X1. now injection X1.
  - intros n. rewrite (table_of_canon _ _ _ _ _ S1 P1 E1), (table_of_canon _ _ _ _ _ S2 P2 E2). now rewrite C.
Qed.

(* [wire] does not take a schema: the encoding of a value typed under one schema is decoded back to
   it under the other *)
Corollary same_canon_same_wire j1 j2 f1 f2 p1 t1 p2 t2 s1 e1 s2 e2 :
  simple_raw j1 = true -> simple_raw j2 = true -> pcf_json j1 = pcf_json j2 ->
  parse_schema f1 j1 [] = POk (p1, t1) -> parse_schema f2 j2 [] = POk (p2, t2) ->
  schema_of_json p1 = Some s1 -> env_of_table t1 = Some e1 ->
  schema_of_json p2 = Some s2 -> env_of_table t2 = Some e2 ->
  forall a, typed e1 s1 a ->
  exists n, forall f, (n <= f)%nat -> forall r, dec f e1 s1 (wire a ++ r)%list = Ok (a, r) /\ dec f e2 s2 (wire a ++ r)%list = Ok (a, r).
Proof.
  intros S1 S2 C P1 P2 B1 E1 B2 E2 a T1.
  pose proof (proj1 (same_canon_same_typed _ _ _ _ _ _ _ _ _ _ _ _ S1 S2 C P1 P2 B1 E1 B2 E2 a) T1) as T2.
  destruct T1 as [n1 T1]. destruct T2 as [n2 T2]. exists (Nat.max n1 n2). intros f F r. split.
  - apply (wire_dec n1); [exact T1|lia].
  - apply (wire_dec n2); [exact T2|lia].
Qed.

(* the decoder on ARBITRARY bytes (any block layout): what decodes under one schema decodes to the
   same value under the other, with one more unit of fuel per nested annotation of the second *)
Theorem same_canon_same_decoding j1 j2 f1 f2 p1 t1 p2 t2 s1 e1 s2 e2 a :
  simple_raw j1 = true -> simple_raw j2 = true -> pcf_json j1 = pcf_json j2 ->
  parse_schema f1 j1 [] = POk (p1, t1) -> parse_schema f2 j2 [] = POk (p2, t2) ->
  schema_of_json p1 = Some s1 -> env_of_table t1 = Some e1 ->
  schema_of_json p2 = Some s2 -> env_of_table t2 = Some e2 ->
  achk a s2 = true -> (forall n d, lookup e2 n = Some d -> achk a d = true) ->
  forall f, mono (dec f e1 s1) (dec (f * S a) e2 s2).
Proof.
  intros S1 S2 C P1 P2 B1 E1 B2 E2 A1 A2 f.
  apply dec_same_erasure_lookup; [| |exact A1|exact A2].
  - pose proof (bridge_parse_is_canon _ _ _ _ _ S1 P1) as X1. pose proof (bridge_parse_is_canon _ _ _ _ _ S2 P2) as X2.
    rewrite B1 in X1. rewrite B2 in X2. rewrite C in X1. rewrite <- X2 in X1. cbn [option_map] in X1. now injection X1.
  - intros n. rewrite (table_of_canon _ _ _ _ _ S1 P1 E1), (table_of_canon _ _ _ _ _ S2 P2 E2). now rewrite C.
Qed.

(** closed boolean computation of the hypotheses, for instances *)
Definition same_canon_check (j1 j2 : json) : bool :=
  simple_raw j1 && simple_raw j2 && json_eqb (pcf_json j1) (pcf_json j2) && negb (json_eqb j1 j2) &&
  match parse_auto j1, parse_auto j2 with
  | POk (p1, t1), POk (p2, t2) =>
      match schema_of_json p1, env_of_table t1, schema_of_json p2, env_of_table t2 with
      | Some s1, Some e1, Some s2, Some e2 => negb (schema_eqb s1 s2) || negb (env_eqb e1 e2)
      | _, _, _, _ => false
      end
  | _, _ => false
  end.

(* the hypotheses only (the correspondence evaluates them on every generated pair) *)
Definition same_canon_hyps (j1 j2 : json) : bool :=
  simple_raw j1 && simple_raw j2 && json_eqb (pcf_json j1) (pcf_json j2) &&
  match parse_auto j1, parse_auto j2 with
  | POk (p1, t1), POk (p2, t2) =>
      match schema_of_json p1, env_of_table t1, schema_of_json p2, env_of_table t2 with
      | Some _, Some _, Some _, Some _ => true
      | _, _, _, _ => false
      end
  | _, _ => false
  end.
