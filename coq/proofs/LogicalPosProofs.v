(** Proofs for the second half of C16: exact inverse read (prepare x) = normal form of x for every
    logical type (including where writer or reader raises), independence of the process time zone,
    and the position theorem: conversion commutes with array / map / union / record construction
    and by-name references (induction over the traversal).  Model: model/LogicalPos.v. *)
From Coq Require Import ZArith List Bool Lia ZifyBool String.
From FA Require Import model.Base model.Logical model.LogicalPos proofs.LogicalProofs.
Ltac Zify.zify_post_hook ::= Z.to_euclidean_division_equations.
Open Scope Z_scope.

(** *** leaves: exact inverse *)
Lemma read_date_prepare o :
  read_date (prepare_date o) = if (1 <=? o) && (o <=? MAX_ORDINAL) then Ok o else Err.
Proof.
  unfold read_date, prepare_date, MIN_ORDINAL. replace (o - DAYS_SHIFT + DAYS_SHIFT) with o by lia. reflexivity.
Qed.

Lemma in_range_floor t : in_range (1000 * (t / 1000)) = in_range t.
Proof.
  unfold in_range, DT_MIN, DT_MAX.
  destruct ((-62135596800000000 <=? t) && (t <=? 253402300799999999)) eqn:E;
  destruct ((-62135596800000000 <=? 1000 * (t / 1000)) && (1000 * (t / 1000) <=? 253402300799999999)) eqn:E2; lia.
Qed.

Lemma mk_datetime_in_range t : mk_datetime t = if in_range t then Ok t else Err.
Proof. reflexivity. Qed.

Lemma read_ts_millis_prepare t :
  read_timestamp_millis (prepare_timestamp_millis t) = if in_range t then Ok (1000 * (t / 1000)) else Err.
Proof.
  unfold read_timestamp_millis. rewrite prepare_ts_millis_floor, mk_datetime_in_range.
  replace (t / 1000 * 1000) with (1000 * (t / 1000)) by lia. rewrite in_range_floor. reflexivity.
Qed.

Lemma read_ts_micros_prepare t :
  read_timestamp_micros (prepare_timestamp_micros t) = if in_range t then Ok t else Err.
Proof. unfold read_timestamp_micros. rewrite prepare_ts_micros_id. apply mk_datetime_in_range. Qed.

Lemma naive_millis M w :
  M * MLS_PER_SECOND + int_truediv (w mod 1000000) 1000 = (M * 1000000 + w mod 1000000) / 1000.
Proof. unfold MLS_PER_SECOND, int_truediv. lia. Qed.

Lemma read_decimal_nf precision scale bs : 1 <= precision ->
  (let* d := read_decimal precision scale bs in Ok (LDecV (fst d) (snd d))) = Ok (dec_nf precision scale (from_be_signed bs)).
Proof.
  intros H. unfold read_decimal. destruct (precision <? 1) eqn:E; [lia|]. reflexivity.
Qed.

Lemma read_decimal_low precision scale bs : precision < 1 -> read_decimal precision scale bs = Err.
Proof. intros H. unfold read_decimal. destruct (precision <? 1) eqn:E; [reflexivity|lia]. Qed.

Lemma su_of_signed scale sg ds e : su_of scale sg ds e = signed sg (unscaled scale ds e).
Proof. reflexivity. Qed.

Theorem exact_inverse mk l x : wf_lval x ->
  (let* r := prepare mk l x in readl l r) = normal_form mk l x.
Proof.
  intros W. destruct l, x; try reflexivity; cbn [prepare normal_form bind readl wf_lval] in *.
  - (* date *) rewrite read_date_prepare. destruct ((1 <=? ordinal) && (ordinal <=? MAX_ORDINAL)); reflexivity.
  - (* time-millis *)
    destruct (time_millis_ok h m s us W) as (_ & _ & R). rewrite R. reflexivity.
  - (* time-micros *)
    destruct (time_micros_ok h m s us W) as (_ & _ & R). rewrite R. reflexivity.
  - (* timestamp-millis, aware *) rewrite read_ts_millis_prepare. destruct (in_range (wall - off)); reflexivity.
  - (* timestamp-millis, naive *)
    rewrite naive_millis. set (t := mk (wall / 1000000) * 1000000 + wall mod 1000000).
    unfold read_timestamp_millis. rewrite mk_datetime_in_range.
    replace (t / 1000 * 1000) with (1000 * (t / 1000)) by lia.
    destruct (in_range (1000 * (t / 1000))); reflexivity.
  - (* timestamp-micros, aware *) rewrite read_ts_micros_prepare. destruct (in_range (wall - off)); reflexivity.
  - (* timestamp-micros, naive *)
    unfold MCS_PER_SECOND, read_timestamp_micros. rewrite mk_datetime_in_range.
    destruct (in_range (mk (wall / 1000000) * 1000000 + wall mod 1000000)); reflexivity.
  - (* local millis, aware *) unfold prepare_local_timestamp_millis, read_local_timestamp_millis.
    fold (read_timestamp_millis (prepare_timestamp_millis wall)). rewrite read_ts_millis_prepare.
    destruct (in_range wall); reflexivity.
  - unfold prepare_local_timestamp_millis, read_local_timestamp_millis.
    fold (read_timestamp_millis (prepare_timestamp_millis wall)). rewrite read_ts_millis_prepare.
    destruct (in_range wall); reflexivity.
  - (* local micros *) unfold prepare_local_timestamp_micros, read_local_timestamp_micros.
    fold (read_timestamp_micros (prepare_timestamp_micros wall)). rewrite read_ts_micros_prepare.
    destruct (in_range wall); reflexivity.
  - unfold prepare_local_timestamp_micros, read_local_timestamp_micros.
    fold (read_timestamp_micros (prepare_timestamp_micros wall)). rewrite read_ts_micros_prepare.
    destruct (in_range wall); reflexivity.
  - (* uuid *) rewrite uuid_roundtrip. reflexivity.
  - (* decimal, bytes *)
    assert (Hd : Forall is_digit ds) by exact W.
    destruct (decimal_bytes_ok precision scale sign ds exp Hd) as (A & B & C).
    unfold write_bytes_decimal.
    destruct (len ds >? precision) eqn:E1; cbn [orb]; [rewrite B by lia; reflexivity|].
    destruct (exp + scale <? 0) eqn:E2; cbn [orb]; [rewrite C by lia; reflexivity|].
    destruct (A ltac:(lia) ltac:(lia)) as (A1 & _ & _ & _ & A5). rewrite A1. cbn [bind].
    destruct (precision <? 1) eqn:E3.
    + rewrite read_decimal_low by lia. reflexivity.
    + rewrite read_decimal_nf by lia. rewrite A5, su_of_signed. reflexivity.
  - (* decimal, fixed *)
    assert (Hd : Forall is_digit ds) by exact W.
    destruct (Z_lt_le_dec size 0) as [Hneg|Hsz].
    { (* a negative size: bits_req > 8 * size always *)
      unfold write_fixed_decimal, prepare_fixed_decimal.
      destruct (len ds >? precision) eqn:E1; cbn [orb]; [reflexivity|].
      destruct (- exp >? scale) eqn:E2.
      - replace (exp + scale <? 0) with true by lia. reflexivity.
      - replace (exp + scale <? 0) with false by lia. cbn [orb]. cbv zeta.
        set (u := digits_val _). pose proof (bit_length_nonneg u).
        destruct (bit_length u + 1 >? size * 8) eqn:E3; [|lia]. cbn [bind].
        destruct (precision <? 1); [reflexivity|].
        rewrite (Z.pow_neg_r 2 (8 * size - 1)) by lia.
        destruct ((- 0 <? su_of scale sign ds exp) && (su_of scale sign ds exp <? 0)) eqn:E4; [lia|reflexivity]. }
    destruct (decimal_fixed_ok precision scale size sign ds exp Hd Hsz) as (A & B & C & D).
    destruct (len ds >? precision) eqn:E1; cbn [orb]; [rewrite C by lia; reflexivity|].
    destruct (exp + scale <? 0) eqn:E2; cbn [orb]; [rewrite D by lia; reflexivity|].
    rewrite su_of_signed. set (su := signed sign (unscaled scale ds exp)) in *.
    destruct ((- 2 ^ (8 * size - 1) <? su) && (su <? 2 ^ (8 * size - 1))) eqn:E4.
    + destruct (A ltac:(lia) ltac:(lia) ltac:(unfold fits; lia)) as (bs & Wb & _ & _ & _ & F4).
      rewrite Wb. cbn [bind]. destruct (precision <? 1) eqn:E3.
      * rewrite read_decimal_low by lia. reflexivity.
      * rewrite read_decimal_nf by lia. rewrite F4. reflexivity.
    + rewrite B by (unfold fits; lia). destruct (precision <? 1); reflexivity.
Qed.

(** a decimal's normal form is the same number *)
Theorem decimal_nf_equal precision scale sg ds e :
  Forall is_digit ds -> 1 <= precision -> len ds <= precision -> 0 <= e + scale ->
  match dec_nf precision scale (su_of scale sg ds e) with
  | LDecV c k => dec_eq (c, k) (dec_of_tuple sg ds e)
  | _ => False
  end.
Proof.
  intros Hd Hp Hl Hs. unfold dec_nf. rewrite su_of_signed.
  pose proof (digits_val_range ds Hd) as Hv.
  assert (10 ^ len ds <= 10 ^ precision) by (apply Z.pow_le_mono_r; lia).
  set (su := signed sg (unscaled scale ds e)).
  assert (Ha : Z.abs su = digits_val ds * 10 ^ (e + scale)).
  { unfold su. rewrite abs_signed by (apply unscaled_nonneg; exact Hd). reflexivity. }
  rewrite Ha. pose proof (excess_digits_bound (digits_val ds) (e + scale) precision ltac:(lia) Hs ltac:(lia)) as Hk.
  set (k := excess_digits (digits_val ds * 10 ^ (e + scale)) precision) in *.
  unfold dec_of_tuple. apply dec_eq_of_unscaled; try lia.
  rewrite <- Z.mul_assoc. rewrite round_exact; [| lia |].
  - rewrite <- Ha. rewrite Z.mul_comm, Z.abs_sgn. unfold su, unscaled. rewrite signed_mul. reflexivity.
  - replace (e + scale) with ((e + scale - k) + k) by lia. rewrite Z.pow_add_r by lia.
    rewrite Z.mul_assoc. apply Z.mod_mul. pose proof (pow10_gt0 k ltac:(lia)). lia.
Qed.

(** *** the process time zone *)
Theorem tz_independent mk1 mk2 l x : tz_free l x -> prepare mk1 l x = prepare mk2 l x.
Proof. destruct l, x; cbn [tz_free prepare]; intros H; try reflexivity; contradiction. Qed.

Theorem aware_instant_only mk1 mk2 w1 o1 w2 o2 : w1 - o1 = w2 - o2 ->
  prepare mk1 LTsMillis (LAware w1 o1) = prepare mk2 LTsMillis (LAware w2 o2) /\
  prepare mk1 LTsMillis (LAware w1 o1) = Ok (RInt ((w1 - o1) / 1000)) /\
  prepare mk1 LTsMicros (LAware w1 o1) = prepare mk2 LTsMicros (LAware w2 o2) /\
  prepare mk1 LTsMicros (LAware w1 o1) = Ok (RInt (w1 - o1)).
Proof.
  intros E. cbn [prepare]. rewrite E, prepare_ts_millis_floor, prepare_ts_micros_id. repeat split; reflexivity.
Qed.

Definition wall_of (x : lval) : option Z :=
  match x with LAware w _ => Some w | LNaive w => Some w | _ => None end.

Theorem local_wall_only mk1 mk2 x1 x2 w : wall_of x1 = Some w -> wall_of x2 = Some w ->
  prepare mk1 LLocalTsMillis x1 = prepare mk2 LLocalTsMillis x2 /\
  prepare mk1 LLocalTsMillis x1 = Ok (RInt (w / 1000)) /\
  prepare mk1 LLocalTsMicros x1 = prepare mk2 LLocalTsMicros x2 /\
  prepare mk1 LLocalTsMicros x1 = Ok (RInt w).
Proof.
  intros H1 H2. destruct x1, x2; try discriminate; cbn [wall_of] in *;
  injection H1 as ->; injection H2 as ->; cbn [prepare];
  unfold prepare_local_timestamp_millis, prepare_local_timestamp_micros;
  rewrite prepare_ts_millis_floor, prepare_ts_micros_id; repeat split; reflexivity.
Qed.

(** under TZ=UTC (mktime is the identity on whole seconds) a naive datum is read as UTC *)
Theorem naive_utc w :
  prepare (fun s => s) LTsMillis (LNaive w) = prepare (fun s => s) LTsMillis (LAware w 0) /\
  prepare (fun s => s) LTsMicros (LNaive w) = prepare (fun s => s) LTsMicros (LAware w 0).
Proof.
  cbn [prepare]. rewrite Z.sub_0_r, prepare_ts_millis_floor, prepare_ts_micros_id.
  unfold MLS_PER_SECOND, MCS_PER_SECOND, int_truediv. split; do 2 f_equal; lia.
Qed.

(** in another zone it is not: the stored value moves with the zone's offset *)
Theorem naive_other_zone off w :
  prepare (fun s => s - off) LTsMicros (LNaive w) = Ok (RInt (w - off * 1000000)).
Proof. cbn [prepare]. unfold MCS_PER_SECOND. do 2 f_equal. lia. Qed.

(** *** positions *)
Section Fuse.
  Context {A B C : Type}.

  Lemma mapM_fuse (g : A -> res B) (h : B -> res C) (k : A -> res C) :
    (forall x y, g x = Ok y -> h y = k x) ->
    forall l l', mapM g l = Ok l' -> mapM h l' = mapM k l.
  Proof.
    intros H. induction l as [|x l IH]; intros l' E; cbn [mapM] in *.
    - injection E as <-. reflexivity.
    - destruct (g x) as [y| |] eqn:G; cbn [bind] in E; try discriminate.
      destruct (mapM g l) as [r| |] eqn:M; cbn [bind] in E; try discriminate.
      injection E as <-. cbn [mapM]. rewrite (H x y G), (IH r eq_refl). reflexivity.
  Qed.

  Lemma zipM_fuse {S} (g : S -> A -> res B) (h : S -> B -> res C) (k : S -> A -> res C) :
    (forall s x y, g s x = Ok y -> h s y = k s x) ->
    forall ss l l', zipM g ss l = Ok l' -> zipM h ss l' = zipM k ss l.
  Proof.
    intros H. induction ss as [|s ss IH]; intros l l' E; destruct l as [|x l]; cbn [zipM] in *; try discriminate.
    - injection E as <-. reflexivity.
    - destruct (g s x) as [y| |] eqn:G; cbn [bind] in E; try discriminate.
      destruct (zipM g ss l) as [r| |] eqn:M; cbn [bind] in E; try discriminate.
      injection E as <-. cbn [zipM]. rewrite (H s x y G), (IH l r M). reflexivity.
  Qed.
End Fuse.

(** reading what was written = the structure of (read after write) at every annotated position *)
Lemma trav_named {A B} (g : ltype -> A -> res B) f env n u :
  trav g (S f) env (SNamed n) u = match lookup_l env n with Some s' => trav g f env s' u | None => Err end.
Proof. destruct u; reflexivity. Qed.

Theorem trav_fuse {A B C} (g : ltype -> A -> res B) (h : ltype -> B -> res C) fuel :
  forall env s t w, trav g fuel env s t = Ok w ->
  trav h fuel env s w = trav (fun l x => let* y := g l x in h l y) fuel env s t.
Proof.
  induction fuel as [|f IH]; intros env s t w E; [discriminate|].
  destruct s.
  - destruct t; cbn [trav] in E |- *; try discriminate. injection E as <-. reflexivity.
  - destruct t; cbn [trav] in E |- *; try discriminate.
    destruct (g l a) as [b| |] eqn:G; cbn [bind] in E |- *; try discriminate. injection E as <-.
    cbn [trav]. reflexivity.
  - destruct t; cbn [trav] in E |- *; try discriminate.
    destruct (mapM (trav g f env s) l) as [l'| |] eqn:M; cbn [bind] in E; try discriminate. injection E as <-.
    cbn [trav]. rewrite (mapM_fuse _ _ (trav (fun l x => let* y := g l x in h l y) f env s) (fun x y => IH env s x y) l l' M).
    reflexivity.
  - destruct t; cbn [trav] in E |- *; try discriminate.
    destruct (mapM (fun p => let* v := trav g f env s (snd p) in Ok (fst p, v)) kv) as [kv'| |] eqn:M;
      cbn [bind] in E; try discriminate. injection E as <-. cbn [trav].
    assert (P : forall (x : Z * tree A) (y : Z * tree B),
               (let* v := trav g f env s (snd x) in Ok (fst x, v)) = Ok y ->
               (let* v := trav h f env s (snd y) in Ok (fst y, v)) =
               (let* v := trav (fun l x => let* y := g l x in h l y) f env s (snd x) in Ok (fst x, v))).
    { intros [k v] y G. cbn [fst snd] in *.
      destruct (trav g f env s v) as [v0| |] eqn:T; cbn [bind] in G; try discriminate.
      injection G as <-. cbn [fst snd]. rewrite (IH env s v v0 T). reflexivity. }
    rewrite (mapM_fuse _ _ _ P kv kv' M). reflexivity.
  - destruct t; cbn [trav] in E |- *; try discriminate.
    destruct (nth_branch branches i) as [b|] eqn:N; try discriminate.
    destruct (trav g f env b t) as [v'| |] eqn:T; cbn [bind] in E; try discriminate. injection E as <-.
    cbn [trav]. rewrite N, (IH env b t v' T). reflexivity.
  - destruct t; cbn [trav] in E |- *; try discriminate.
    destruct (zipM (trav g f env) fields l) as [l'| |] eqn:M; cbn [bind] in E; try discriminate. injection E as <-.
    cbn [trav]. rewrite (zipM_fuse _ _ (trav (fun l x => let* y := g l x in h l y) f env) (fun s x y => IH env s x y) fields l l' M).
    reflexivity.
  - rewrite trav_named in E. rewrite !trav_named.
    destruct (lookup_l env name) as [s'|] eqn:L; try discriminate. apply IH. exact E.
Qed.

Lemma mapM_ext_on {A B} (P : A -> Prop) (g k : A -> res B) :
  (forall x, P x -> g x = k x) -> forall l, allP P l -> mapM g l = mapM k l.
Proof.
  intros H. induction l as [|x l IH]; intros Hl; [reflexivity|].
  destruct Hl as [Hx Hl]. cbn [mapM]. rewrite (H x Hx), (IH Hl). reflexivity.
Qed.

Lemma zipM_ext_on {S A B} (P : A -> Prop) (g k : S -> A -> res B) :
  (forall s x, P x -> g s x = k s x) -> forall ss l, allP P l -> zipM g ss l = zipM k ss l.
Proof.
  intros H. induction ss as [|s ss IH]; intros l Hl; destruct l as [|x l]; try reflexivity.
  destruct Hl as [Hx Hl]. cbn [zipM]. rewrite (H s x Hx), (IH l Hl). reflexivity.
Qed.

Theorem trav_ext_on {A B} (Q : A -> Prop) (g k : ltype -> A -> res B) :
  (forall l a, Q a -> g l a = k l a) ->
  forall fuel env s t, all_leaves Q t -> trav g fuel env s t = trav k fuel env s t.
Proof.
  intros H. induction fuel as [|f IH]; intros env s t Ht; [reflexivity|].
  destruct s.
  - destruct t; reflexivity.
  - destruct t; cbn [trav]; try reflexivity. cbn [all_leaves] in Ht. rewrite (H l a Ht). reflexivity.
  - destruct t; cbn [trav]; try reflexivity. cbn [all_leaves] in Ht.
    rewrite (mapM_ext_on (all_leaves Q) _ (trav k f env s) (fun x Hx => IH env s x Hx) l Ht). reflexivity.
  - destruct t; cbn [trav]; try reflexivity. cbn [all_leaves] in Ht.
    assert (P : forall p : Z * tree A, all_leaves Q (snd p) ->
               (let* v := trav g f env s (snd p) in Ok (fst p, v)) = (let* v := trav k f env s (snd p) in Ok (fst p, v)))
      by (intros p Hp; rewrite (IH env s (snd p) Hp); reflexivity).
    rewrite (mapM_ext_on (fun p => all_leaves Q (snd p)) _ _ P kv Ht). reflexivity.
  - destruct t; cbn [trav]; try reflexivity. cbn [all_leaves] in Ht.
    destruct (nth_branch branches i) as [b|]; [|reflexivity]. rewrite (IH env b t Ht). reflexivity.
  - destruct t; cbn [trav]; try reflexivity. cbn [all_leaves] in Ht.
    rewrite (zipM_ext_on (all_leaves Q) _ (trav k f env) (fun s x Hx => IH env s x Hx) fields l Ht). reflexivity.
  - rewrite !trav_named. destruct (lookup_l env name) as [s'|]; [|reflexivity]. apply IH. exact Ht.
Qed.

(** the position theorem *)
Theorem positions mk fuel env s v w :
  all_leaves wf_lval v ->
  write_tree mk fuel env s v = Ok w ->
  read_tree fuel env s w = normal_tree mk fuel env s v.
Proof.
  intros Hv Hw. unfold read_tree, normal_tree, write_tree in *.
  rewrite (trav_fuse (prepare mk) readl fuel env s v w Hw).
  apply (trav_ext_on wf_lval); [|exact Hv].
  intros l a Ha. apply exact_inverse. exact Ha.
Qed.

(** the process time zone does not matter for a structure without naive data under timestamp-* ...
    stated for structures without any naive datetime at an annotated timestamp-* position: here, simply
    for leaves that are [tz_free] under every annotation *)
Theorem positions_tz mk1 mk2 fuel env s v :
  all_leaves (fun x => forall l, tz_free l x) v ->
  write_tree mk1 fuel env s v = write_tree mk2 fuel env s v.
Proof.
  intros H. unfold write_tree. apply (trav_ext_on (fun x => forall l, tz_free l x)); [|exact H].
  intros l a Ha. apply tz_independent. apply Ha.
Qed.
