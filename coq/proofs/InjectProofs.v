(** _inject_schema: where it puts the loaded sub-schema, up to the specification's canonical JSON. *)
From Coq Require Import String Ascii Lia.
From FA Require Import model.Base model.Json model.Parse model.SchemaSpec model.Inline model.Canon model.Repo
     proofs.JsonProofs proofs.ParseProofs proofs.AcceptProofs proofs.CanonProofs proofs.FixedPointProofs proofs.InlineProofs proofs.PiecewiseProofs
     proofs.PiecewiseInlineProofs proofs.UnknownProofs.
Open Scope string_scope.

(** ---- canonical JSON of a node whose child was replaced ---- *)
Lemma pcf_items ns kv v :
  jget "type" kv = Some (JStr "array") ->
  pcf_json_in ns (JObj (jset "items" v kv)) = JObj [("type", JStr "array"); ("items", pcf_json_in ns v)].
Proof.
  intros T. rewrite pcf_json_in_obj. unfold pcf_obj. rewrite jget_jset_neq by reflexivity. rewrite T.
  cbn [spec_is_prim mem existsb spec_prims String.eqb Ascii.eqb Bool.eqb orb]. now rewrite psub_map, jget_jset_eq.
Qed.

Lemma pcf_values ns kv v :
  jget "type" kv = Some (JStr "map") ->
  pcf_json_in ns (JObj (jset "values" v kv)) = JObj [("type", JStr "map"); ("values", pcf_json_in ns v)].
Proof.
  intros T. rewrite pcf_json_in_obj. unfold pcf_obj. rewrite jget_jset_neq by reflexivity. rewrite T.
  cbn [spec_is_prim mem existsb spec_prims String.eqb Ascii.eqb Bool.eqb orb]. now rewrite psub_map, jget_jset_eq.
Qed.

Lemma pcf_field ns fkv v :
  pcf_m (JObj (jset "type" v fkv)) PField ns = JObj [("name", attr "name" fkv); ("type", pcf_json_in ns v)].
Proof.
  rewrite pcf_m_obj. unfold pcf_obj, attr. rewrite psub_map, jget_jset_eq. now rewrite jget_jset_neq by reflexivity.
Qed.

Lemma pcf_record ns kv t :
  jget "type" kv = Some (JStr t) -> (t = "record" \/ t = "error") ->
  pcf_json_in ns (JObj kv) =
  JObj [("name", JStr (spec_fullname ns kv)); ("type", JStr "record");
        ("fields", match jget "fields" kv with Some v => pcf_m v PFields (spec_namespace ns kv) | None => JArr [] end)].
Proof.
  intros T TT. rewrite pcf_json_in_obj. unfold pcf_obj. rewrite T, jget_map.
  destruct TT as [-> | ->]; cbn [spec_is_prim mem existsb spec_prims String.eqb Ascii.eqb Bool.eqb orb];
    destruct (jget "fields" kv); reflexivity.
Qed.

Lemma pcf_record_set ns kv t fs :
  jget "type" kv = Some (JStr t) -> (t = "record" \/ t = "error") ->
  pcf_json_in ns (JObj (jset "fields" (JArr fs) kv)) =
  JObj [("name", JStr (spec_fullname ns kv)); ("type", JStr "record");
        ("fields", JArr (map (fun fd => pcf_m fd PField (spec_namespace ns kv)) fs))].
Proof.
  intros T TT. rewrite (pcf_record ns _ t); [|now rewrite jget_jset_neq by reflexivity|exact TT].
  rewrite jget_jset_eq, pcf_fields, spec_fullname_jset, spec_namespace_jset by reflexivity. reflexivity.
Qed.

Section Inject.
  Variable sub : json.
  Variable q : string.
  Let irec (f : nat) := inject_rec f sub (JStr q).

  Lemma tbl_mono f j ns wh st d p st' n :
    parse_rec f j ns wh st d = POk (p, st') -> jhas n (st_tbl st') = false -> jhas n (st_tbl st) = false.
  Proof.
    intros H N. destruct (jhas n (st_tbl st)) eqn:E; [|reflexivity].
    rewrite (proj1 (parse_rec_refs f _ _ _ _ _ _ _ H) n E) in N. discriminate N.
  Qed.

  (** a part that was parsed against dictionaries without q holds no reference to q: the traversal
      only rewrites its references to full names *)
  Definition nohit_spec (f : nat) : Prop :=
    forall j ns wh st d p st', parse_rec f j ns wh st d = POk (p, st') -> jhas q (st_tbl st') = false ->
      exists j', irec f j ns false = POk (j', false) /\ pcf_json_in ns j' = pcf_json_in ns j.

  Section NoHitStep.
    Variable f : nat.
    Hypothesis IH : nohit_spec f.

    Lemma nohit_members ns l st ps st' :
      members_ok (parse_rec f) ns l st ps st' -> jhas q (st_tbl st') = false ->
      exists l', inject_members (irec f) ns l false = POk (l', false) /\ map (pcf_json_in ns) l' = map (pcf_json_in ns) l.
    Proof.
      induction 1 as [st|s r st p st1 ps st2 R M IHM]; intros N.
      - exists []. split; reflexivity.
      - destruct (IHM N) as (l' & E2 & P2).
        assert (N1 : jhas q (st_tbl st1) = false).
        { destruct (jhas q (st_tbl st1)) eqn:E; [|reflexivity].
          rewrite (proj1 (members_refs _ (parse_rec_refs f) _ _ _ _ _ M) q E) in N. discriminate N. }
        destruct (IH _ _ _ _ _ _ _ R N1) as (s' & E1 & P1).
        exists (s' :: l'). cbn [inject_members]. rewrite E1. cbn [pbind]. rewrite E2. cbn [pbind map]. now rewrite P1, P2.
    Qed.

    Lemma nohit_fields ns l st ps st' :
      fields_ok (parse_rec f) ns l st ps st' -> jhas q (st_tbl st') = false ->
      exists l', inject_fields (irec f) ns l false = POk (l', false) /\
                 map (fun fd => pcf_m fd PField ns) l' = map (fun fd => pcf_m fd PField ns) l.
    Proof.
      induction 1 as [st|s r st p st1 ps st2 R M IHM]; intros N.
      - exists []. split; reflexivity.
      - destruct (IHM N) as (l' & E2 & P2).
        assert (N1 : jhas q (st_tbl st1) = false).
        { destruct (jhas q (st_tbl st1)) eqn:E; [|reflexivity].
          rewrite (proj1 (fields_refs _ (parse_rec_refs f) _ _ _ _ _ M) q E) in N. discriminate N. }
        destruct R as [fkv nm ty st p st1 NM T R].
        destruct (IH _ _ _ _ _ _ _ R N1) as (ty' & E1 & P1).
        exists (JObj (jset "type" ty' fkv) :: l'). cbn [inject_fields]. rewrite T, E1. cbn [pbind]. rewrite E2. cbn [pbind map].
        rewrite P2, pcf_field, P1. f_equal.
        rewrite pcf_m_obj. unfold pcf_obj. now rewrite psub_map, T.
    Qed.

    Lemma nohit_node : nohit_spec (S f).
    Proof.
      intros j ns wh st d p st' H N. cbn [parse_rec] in H. apply parse_node_inv in H. unfold irec. cbn [inject_rec].
      destruct H as [s ns wh st d P|s ns wh st d P J|l ns wh st d ps st' M|kv t ns wh st d T P
                     |kv it ns wh st d p st' T I R|kv it ns wh st d p st' T I R
                     |kv ns wh st d ns' full syms ss T SN D SY SS ND parsed
                     |kv ns wh st d ns' full sz T SN D SZ parsed
                     |kv t ns wh st d ns' full fl fs st3 T TT SN D FL FS reckv]; cbn [inject_node].
      - rewrite P. eauto.
      - rewrite P. assert (E : json_eqb (JStr (qualify ns s)) (JStr q) = false).
        { cbn [json_eqb]. apply String.eqb_neq. intros X. rewrite X in J. rewrite J in N. discriminate N. }
        rewrite E. eexists. split; [reflexivity|]. unfold pcf_json_in, pcf_m. cbn [jfold].
        rewrite <- !is_prim_spec, P, (qualify_nonprim _ _ P), qualify_spec. now rewrite spec_ref_idem.
      - destruct (nohit_members _ _ _ _ _ M N) as (l' & E & PE). fold (irec f). rewrite E. cbn [pbind].
        eexists. split; [reflexivity|]. now rewrite !pcf_arr, PE.
      - rewrite T. destruct (prim_not_complex _ P) as (N1 & N2 & N3 & N4 & N5 & N6). rewrite N1, N2, N3, N4, N5, N6, P. cbn [orb]. eauto.
      - rewrite T, I. cbn [String.eqb Ascii.eqb Bool.eqb]. destruct (IH _ _ _ _ _ _ _ R N) as (it' & E & PE).
        fold (irec f). rewrite E. cbn [pbind]. eexists. split; [reflexivity|].
        rewrite (pcf_items _ _ _ T), PE, <- (pcf_items _ _ _ T). now rewrite (jset_same _ _ _ I).
      - rewrite T, I. cbn [String.eqb Ascii.eqb Bool.eqb]. destruct (IH _ _ _ _ _ _ _ R N) as (it' & E & PE).
        fold (irec f). rewrite E. cbn [pbind]. eexists. split; [reflexivity|].
        rewrite (pcf_values _ _ _ T), PE, <- (pcf_values _ _ _ T). now rewrite (jset_same _ _ _ I).
      - rewrite T. cbn [String.eqb Ascii.eqb Bool.eqb orb]. eauto.
      - rewrite T. cbn [String.eqb Ascii.eqb Bool.eqb orb]. eauto.
      - rewrite T.
        assert (X : String.eqb t "array" = false /\ String.eqb t "map" = false /\
                    (String.eqb t "enum" || String.eqb t "fixed") = false /\ (String.eqb t "record" || String.eqb t "error") = true).
        { destruct TT as [-> | ->]; repeat split; reflexivity. }
        destruct X as (-> & -> & -> & ->). rewrite SN. cbn [pbind].
        assert (N3 : jhas q (st_tbl st3) = false).
        { destruct (jhas q (st_tbl st3)) eqn:E; [|reflexivity]. cbn [set_tbl st_tbl] in N. rewrite jhas_jset_mono in N by exact E. discriminate N. }
        destruct (nohit_fields _ _ _ _ _ FS N3) as (fs' & E & PE).
        assert (FLE : match jget "fields" kv with None => POk [] | Some (JArr fl0) => POk fl0 | Some _ => PErrOther end = POk fl).
        { destruct FL as [FL|[FL ->]]; now rewrite FL. }
        rewrite FLE. cbn [pbind]. fold (irec f). rewrite E. cbn [pbind]. eexists. split; [reflexivity|].
        apply schema_name_spec in SN. destruct SN as (-> & -> & NM).
        destruct fs' as [|x r].
        + reflexivity.
        + rewrite (pcf_record_set _ _ t _ T TT), PE, (pcf_record _ _ t T TT).
          destruct FL as [FL|[FL ->]]; [rewrite FL; now rewrite pcf_fields|].
          cbn [map] in PE. discriminate PE.
    Qed.
  End NoHitStep.

  Theorem inject_nohit f : nohit_spec f.
  Proof.
    induction f as [|f IH]; [intros j ns wh st d p st' H; discriminate H|]. now apply nohit_node.
  Qed.

  (** the schema with exactly the node C19_first_unknown names replaced by [sub], nothing else touched *)
  Inductive filled : nat -> json -> string -> pstate -> named -> json -> Prop :=
  | FlRef f s ns st :
      is_prim s = false -> qualify ns s = q -> filled (S f) (JStr s) ns st (st_tbl st) sub
  | FlMember f pre x post ns st ps st1 junk y :
      members_ok (parse_rec f) ns pre st ps st1 -> filled f x ns st1 junk y ->
      filled (S f) (JArr (pre ++ x :: post)) ns st junk (JArr (pre ++ y :: post))
  | FlItems f kv it ns st junk y :
      jget "type" kv = Some (JStr "array") -> jget "items" kv = Some it -> filled f it ns st junk y ->
      filled (S f) (JObj kv) ns st junk (JObj (jset "items" y kv))
  | FlValues f kv it ns st junk y :
      jget "type" kv = Some (JStr "map") -> jget "values" kv = Some it -> filled f it ns st junk y ->
      filled (S f) (JObj kv) ns st junk (JObj (jset "values" y kv))
  | FlField f kv t ns st ns' full pre fkv post fs st3 ty junk y :
      jget "type" kv = Some (JStr t) -> (t = "record" \/ t = "error") ->
      schema_name kv ns = POk (ns', full) -> mem full (st_names st) = false ->
      jget "fields" kv = Some (JArr (pre ++ JObj fkv :: post)) ->
      fields_ok (parse_rec f) ns' pre (set_tbl full (JObj (rbase kv t full ns)) (declared full st)) fs st3 ->
      jget "type" fkv = Some ty -> filled f ty ns' st3 junk y ->
      filled (S f) (JObj kv) ns st junk (JObj (jset "fields" (JArr (pre ++ JObj (jset "type" y fkv) :: post)) kv)).

  (* a failure on the reference q (not the "<dict>" failure) has such a filling *)
  Lemma first_unknown_filled f j ns st q0 junk :
    first_unknown f j ns st q0 junk -> q0 = q -> q <> "<dict>" -> exists y, filled f j ns st junk y.
  Proof.
    induction 1 as [f s ns st P J|f kv ns st D|f pre x post ns st ps st1 q0 junk M F IH
                    |f kv it ns st q0 junk T I F IH|f kv it ns st q0 junk T I F IH
                    |f kv t ns st ns' full pre fkv post fs st3 ty q0 junk T TT SN MF FL FS TY F IH]; intros E ND.
    - eexists. now constructor.
    - exfalso. now apply ND.
    - destruct (IH E ND) as (y & Y). eexists. econstructor; eauto.
    - destruct (IH E ND) as (y & Y). eexists. econstructor; eauto.
    - destruct (IH E ND) as (y & Y). eexists. eapply FlValues; eauto.
    - destruct (IH E ND) as (y & Y). eexists. eapply FlField; eauto.
  Qed.

  Lemma filled_mono f j ns st junk y :
    filled f j ns st junk y -> forall n, jhas n (st_tbl st) = true -> jhas n junk = true.
  Proof.
    induction 1 as [f s ns st P Q|f pre x post ns st ps st1 junk y M F IH|f kv it ns st junk y T I F IH
                    |f kv it ns st junk y T I F IH|f kv t ns st ns' full pre fkv post fs st3 ty junk y T TT SN MF FL FS TY F IH];
      intros n H; auto.
    - apply IH. exact (proj1 (members_refs _ (parse_rec_refs f) _ _ _ _ _ M) n H).
    - apply IH. apply (proj1 (fields_refs _ (parse_rec_refs f) _ _ _ _ _ FS) n). cbn [set_tbl declared st_tbl]. now apply jhas_jset_mono.
  Qed.

  Lemma inject_members_true rec ns l : inject_members rec ns l true = POk (l, true).
  Proof. induction l as [|x r IH]; cbn [inject_members]; [reflexivity|]. now rewrite IH. Qed.

  Lemma inject_fields_true rec ns l : inject_fields rec ns l true = POk (l, true).
  Proof. induction l as [|x r IH]; cbn [inject_fields]; [reflexivity|]. now rewrite IH. Qed.

  Lemma inject_members_app rec ns pre pre' r :
    inject_members rec ns pre false = POk (pre', false) ->
    inject_members rec ns (pre ++ r) false = (let+ (ps, i) := inject_members rec ns r false in POk ((pre' ++ ps)%list, i)).
  Proof.
    revert pre'. induction pre as [|x l IH]; intros pre' H; cbn [inject_members app] in *.
    - injection H as <-. destruct (inject_members rec ns r false) as [[ps i]| | | |]; reflexivity.
    - destruct (rec x ns false) as [[p i1]| | | |]; cbn [pbind] in *; try discriminate H.
      destruct i1.
      + rewrite inject_members_true in H. cbn [pbind] in H. discriminate H.
      + destruct (inject_members rec ns l false) as [[ps i2]| | | |] eqn:E; cbn [pbind] in H; try discriminate H.
        injection H as <- ->. rewrite (IH _ eq_refl). destruct (inject_members rec ns r false) as [[ps2 i]| | | |]; reflexivity.
  Qed.

  Lemma inject_fields_app rec ns pre pre' r :
    inject_fields rec ns pre false = POk (pre', false) ->
    inject_fields rec ns (pre ++ r) false = (let+ (ps, i) := inject_fields rec ns r false in POk ((pre' ++ ps)%list, i)).
  Proof.
    revert pre'. induction pre as [|x l IH]; intros pre' H; cbn [inject_fields app] in *.
    - injection H as <-. destruct (inject_fields rec ns r false) as [[ps i]| | | |]; reflexivity.
    - destruct x as [| | | | | |fkv]; try discriminate H. destruct (jget "type" fkv) as [ty|]; [|discriminate H].
      destruct (rec ty ns false) as [[p i1]| | | |]; cbn [pbind] in *; try discriminate H.
      destruct i1.
      + rewrite inject_fields_true in H. cbn [pbind] in H. discriminate H.
      + destruct (inject_fields rec ns l false) as [[ps i2]| | | |] eqn:E; cbn [pbind] in H; try discriminate H.
        injection H as <- ->. rewrite (IH _ eq_refl). destruct (inject_fields rec ns r false) as [[ps2 i]| | | |]; reflexivity.
  Qed.

  (** (a): _inject_schema puts the sub-schema exactly there (and rewrites the references before it
      to full names, which the canonical JSON does not see) *)
  Theorem inject_filled f j ns st junk y :
    filled f j ns st junk y -> jhas q junk = false ->
    exists j', irec f j ns false = POk (j', true) /\ pcf_json_in ns j' = pcf_json_in ns y.
  Proof.
    induction 1 as [f s ns st P Q|f pre x post ns st ps st1 junk y M F IH|f kv it ns st junk y T I F IH
                    |f kv it ns st junk y T I F IH|f kv t ns st ns' full pre fkv post fs st3 ty junk y T TT SN MF FL FS TY F IH];
      intros N; unfold irec; cbn [inject_rec inject_node].
    - rewrite P, Q. cbn [json_eqb]. rewrite String.eqb_refl. eauto.
    - destruct (IH N) as (x' & E & PE).
      assert (N1 : jhas q (st_tbl st1) = false).
      { destruct (jhas q (st_tbl st1)) eqn:X; [|reflexivity]. rewrite (filled_mono _ _ _ _ _ _ F q X) in N. discriminate N. }
      destruct (nohit_members f (inject_nohit f) _ _ _ _ _ M N1) as (pre' & E1 & P1).
      fold (irec f). rewrite (inject_members_app _ _ _ _ _ E1). cbn [inject_members]. rewrite E. cbn [pbind].
      rewrite inject_members_true. cbn [pbind]. eexists. split; [reflexivity|].
      rewrite !pcf_arr, !map_app. cbn [map]. now rewrite P1, PE.
    - rewrite T, I. cbn [String.eqb Ascii.eqb Bool.eqb]. destruct (IH N) as (x' & E & PE). fold (irec f). rewrite E. cbn [pbind].
      eexists. split; [reflexivity|]. now rewrite !(pcf_items _ _ _ T), PE.
    - rewrite T, I. cbn [String.eqb Ascii.eqb Bool.eqb]. destruct (IH N) as (x' & E & PE). fold (irec f). rewrite E. cbn [pbind].
      eexists. split; [reflexivity|]. now rewrite !(pcf_values _ _ _ T), PE.
    - rewrite T.
      assert (X : String.eqb t "array" = false /\ String.eqb t "map" = false /\
                  (String.eqb t "enum" || String.eqb t "fixed") = false /\ (String.eqb t "record" || String.eqb t "error") = true).
      { destruct TT as [-> | ->]; repeat split; reflexivity. }
      destruct X as (-> & -> & -> & ->). rewrite SN, FL. cbn [pbind].
      destruct (IH N) as (ty' & E & PE).
      assert (N3 : jhas q (st_tbl st3) = false).
      { destruct (jhas q (st_tbl st3)) eqn:X; [|reflexivity]. rewrite (filled_mono _ _ _ _ _ _ F q X) in N. discriminate N. }
      destruct (nohit_fields f (inject_nohit f) _ _ _ _ _ FS N3) as (pre' & E1 & P1).
      fold (irec f). rewrite (inject_fields_app _ _ _ _ _ E1). cbn [inject_fields]. rewrite TY, E. cbn [pbind].
      rewrite inject_fields_true. cbn [pbind]. eexists. split; [reflexivity|].
      apply schema_name_spec in SN. destruct SN as (-> & -> & NM).
      destruct (pre' ++ JObj (jset "type" ty' fkv) :: post)%list eqn:L; [destruct pre'; discriminate L|]. rewrite <- L.
      rewrite !(pcf_record_set _ _ t _ T TT), !map_app. cbn [map]. now rewrite P1, !pcf_field, PE.
  Qed.
End Inject.

Lemma inject_rec_fuel sub nm f : forall x ns b r, inject_rec f sub nm x ns b = POk r -> inject_rec (S f) sub nm x ns b = POk r.
Proof.
  induction f as [|f IH]; intros x ns b r H; [discriminate H|].
  assert (L : forall l b r, inject_members (inject_rec f sub nm) ns l b = POk r -> inject_members (inject_rec (S f) sub nm) ns l b = POk r).
  { induction l as [|y l IHl]; intros b0 r0 H0; [exact H0|]. cbn [inject_members] in *. destruct b0.
    - destruct (inject_members (inject_rec f sub nm) ns l true) as [[ps i2]| | | |] eqn:E; cbn [pbind] in H0; try discriminate H0.
      now rewrite (IHl _ _ E).
    - destruct (inject_rec f sub nm y ns false) as [[p i1]| | | |] eqn:E1; cbn [pbind] in H0; try discriminate H0.
      rewrite (IH _ _ _ _ E1). cbn [pbind].
      destruct (inject_members (inject_rec f sub nm) ns l (if i1 then true else false)) as [[ps i2]| | | |] eqn:E; cbn [pbind] in H0; try discriminate H0.
      now rewrite (IHl _ _ E). }
  assert (F : forall ns l b r, inject_fields (inject_rec f sub nm) ns l b = POk r -> inject_fields (inject_rec (S f) sub nm) ns l b = POk r).
  { intros ns0. induction l as [|y l IHl]; intros b0 r0 H0; [exact H0|]. cbn [inject_fields] in *. destruct b0.
    - destruct (inject_fields (inject_rec f sub nm) ns0 l true) as [[ps i2]| | | |] eqn:E; cbn [pbind] in H0; try discriminate H0.
      now rewrite (IHl _ _ E).
    - destruct y as [| | | | | |fkv]; try discriminate H0. destruct (jget "type" fkv) as [ty|]; [|discriminate H0].
      destruct (inject_rec f sub nm ty ns0 false) as [[p i1]| | | |] eqn:E1; cbn [pbind] in H0; try discriminate H0.
      rewrite (IH _ _ _ _ E1). cbn [pbind].
      destruct (inject_fields (inject_rec f sub nm) ns0 l (if i1 then true else false)) as [[ps i2]| | | |] eqn:E; cbn [pbind] in H0; try discriminate H0.
      now rewrite (IHl _ _ E). }
  remember (S f) as f1. cbn [inject_rec]. subst f1. cbn [inject_rec] in H. unfold inject_node in *.
  destruct b; [exact H|].
  destruct x as [| | | |s|l|kv]; try exact H.
  - destruct (inject_members (inject_rec f sub nm) ns l false) as [[ps i]| | | |] eqn:E; cbn [pbind] in H; try discriminate H.
    now rewrite (L _ _ _ E).
  - destruct (jget "type" kv) as [[| | | |t| |]|]; try exact H.
    destruct (String.eqb t "array").
    { destruct (jget "items" kv); [|exact H]. destruct (inject_rec f sub nm j ns false) as [[p i]| | | |] eqn:E; cbn [pbind] in H; try discriminate H.
      now rewrite (IH _ _ _ _ E). }
    destruct (String.eqb t "map").
    { destruct (jget "values" kv); [|exact H]. destruct (inject_rec f sub nm j ns false) as [[p i]| | | |] eqn:E; cbn [pbind] in H; try discriminate H.
      now rewrite (IH _ _ _ _ E). }
    destruct (String.eqb t "enum" || String.eqb t "fixed"); [exact H|].
    destruct (String.eqb t "record" || String.eqb t "error"); [|exact H].
    destruct (schema_name kv ns) as [[ns' full]| | | |]; cbn [pbind] in *; try discriminate H.
    match type of H with pbind ?e _ = _ => destruct e as [fl| | | |]; cbn [pbind] in *; try discriminate H end.
    destruct (inject_fields (inject_rec f sub nm) ns' fl false) as [[fs i]| | | |] eqn:E; cbn [pbind] in H; try discriminate H.
    now rewrite (F _ _ _ _ E).
Qed.

(* the loader's call *)
Theorem inject_at_unknown wh kv tbl q junk ikv :
  jhas "__fastavro_parsed" kv = false ->
  parse_schema_g wh (fuel_for (JObj kv)) (JObj kv) tbl = PErrUnknown q junk -> q <> "<dict>" ->
  jget "name" ikv = Some (JStr q) ->
  exists y x', filled (JObj ikv) q (S (jdepth (JObj kv))) (JObj kv) "" (mkst [] tbl) junk y /\
               inject (JObj kv) (JObj ikv) = POk (x', true) /\ pcf_json x' = pcf_json y.
Proof.
  intros U H ND NM. unfold fuel_for in H. apply (parse_schema_unknown _ _ _ _ _ _ U) in H.
  destruct (first_unknown_table _ _ _ _ _ _ H) as [_ [N|N]]; [|contradiction].
  destruct (first_unknown_filled (JObj ikv) q _ _ _ _ _ _ H eq_refl ND) as (y & Y).
  destruct (inject_filled _ _ _ _ _ _ _ _ Y N) as (x' & E & PE).
  exists y, x'. split; [exact Y|]. split; [|exact PE].
  unfold inject. rewrite NM. now apply inject_rec_fuel.
Qed.
