(** Proofs for C16 (logical types): date / time / timestamp arithmetic over Z, a
    two's-complement byte library (be_loop / be_value / from_be_signed, bit_length),
    decimal <-> bytes / fixed, the rounding of read_decimal, the uuid string.
    Model: model/Logical.v.  Statements of the property: props/C16.v. *)
From Coq Require Import ZArith List Bool Lia ZifyBool String Ascii.
From FA Require Import model.Base model.Logical.
Ltac Zify.zify_post_hook ::= Z.to_euclidean_division_equations.
Open Scope Z_scope.

(* ------------------------------------------------------------------ *)
Lemma date_ok o : 1 <= o <= 3652059 ->
  prepare_date o = o - 719163 /\ read_date (prepare_date o) = Ok o /\
  INT_MIN_VALUE <= prepare_date o <= INT_MAX_VALUE.
Proof.
  intros H. unfold read_date, prepare_date, DAYS_SHIFT, MIN_ORDINAL, MAX_ORDINAL, INT_MIN_VALUE, INT_MAX_VALUE.
  repeat split; try lia.
  replace (o - 719163 + 719163) with o by lia.
  destruct ((1 <=? o) && (o <=? 3652059)) eqn:E; [reflexivity|lia].
Qed.

Definition valid_tod (h m s us : Z) : Prop :=
  0 <= h < 24 /\ 0 <= m < 60 /\ 0 <= s < 60 /\ 0 <= us < 1000000.

Lemma mk_time_ok h m s us : valid_tod h m s us -> mk_time h m s us = Ok (h, m, s, us).
Proof.
  unfold valid_tod, mk_time. intros H.
  destruct ((0 <=? h) && (h <? 24) && (0 <=? m) && (m <? 60) && (0 <=? s) && (s <? 60) && (0 <=? us) && (us <? 1000000)) eqn:E;
  [reflexivity|lia].
Qed.

Lemma time_millis_ok h m s us : valid_tod h m s us ->
  prepare_time_millis h m s us = ((h * 60 + m) * 60 + s) * 1000 + us / 1000 /\
  0 <= prepare_time_millis h m s us < 86400000 /\
  read_time_millis (prepare_time_millis h m s us) = Ok (h, m, s, us / 1000 * 1000).
Proof.
  intros H. pose proof H as H0. unfold valid_tod in H.
  assert (E : prepare_time_millis h m s us = ((h * 60 + m) * 60 + s) * 1000 + us / 1000).
  { unfold prepare_time_millis, int_truediv, MLS_PER_HOUR, MLS_PER_MINUTE, MLS_PER_SECOND. lia. }
  split; [exact E|]. split; [rewrite E; lia|].
  rewrite E. unfold read_time_millis, int_truediv, MLS_PER_HOUR, MLS_PER_MINUTE, MLS_PER_SECOND.
  set (n := ((h * 60 + m) * 60 + s) * 1000 + us / 1000).
  assert (E1 : n ÷ 3600000 = h) by (subst n; lia).
  assert (E2 : n ÷ 60000 mod 60 = m) by (subst n; lia).
  assert (E3 : n ÷ 1000 mod 60 = s) by (subst n; lia).
  assert (E4 : n mod 1000 * 1000 = us / 1000 * 1000) by (subst n; lia).
  rewrite E1, E2, E3, E4. apply mk_time_ok. unfold valid_tod. lia.
Qed.

(* ------------------------------------------------------------------ *)
Lemma time_micros_ok h m s us : valid_tod h m s us ->
  prepare_time_micros h m s us = ((h * 60 + m) * 60 + s) * 1000000 + us /\
  0 <= prepare_time_micros h m s us < 86400000000 /\
  read_time_micros (prepare_time_micros h m s us) = Ok (h, m, s, us).
Proof.
  intros H. pose proof H as H0. unfold valid_tod in H.
  assert (E : prepare_time_micros h m s us = ((h * 60 + m) * 60 + s) * 1000000 + us).
  { unfold prepare_time_micros, MCS_PER_HOUR, MCS_PER_MINUTE, MCS_PER_SECOND. lia. }
  split; [exact E|]. split; [rewrite E; lia|].
  rewrite E. unfold read_time_micros, int_truediv, MCS_PER_HOUR, MCS_PER_MINUTE, MCS_PER_SECOND.
  set (n := ((h * 60 + m) * 60 + s) * 1000000 + us).
  assert (E1 : n ÷ 3600000000 = h) by (subst n; lia).
  assert (E2 : n ÷ 60000000 mod 60 = m) by (subst n; lia).
  assert (E3 : n ÷ 1000000 mod 60 = s) by (subst n; lia).
  assert (E4 : n mod 1000000 = us) by (subst n; lia).
  rewrite E1, E2, E3, E4. apply mk_time_ok. exact H0.
Qed.

(** every unit count of the day is the image of exactly the time the reader returns *)
Lemma time_millis_onto n : 0 <= n < 86400000 ->
  exists h m s ms, valid_tod h m s (ms * 1000) /\ 0 <= ms < 1000 /\
    read_time_millis n = Ok (h, m, s, ms * 1000) /\ prepare_time_millis h m s (ms * 1000) = n.
Proof.
  intros H. exists (n / 3600000), (n / 60000 mod 60), (n / 1000 mod 60), (n mod 1000).
  assert (V : valid_tod (n / 3600000) (n / 60000 mod 60) (n / 1000 mod 60) (n mod 1000 * 1000))
    by (unfold valid_tod; lia).
  split; [exact V|]. split; [lia|]. split.
  - unfold read_time_millis, int_truediv, MLS_PER_HOUR, MLS_PER_MINUTE, MLS_PER_SECOND.
    replace (n ÷ 3600000) with (n / 3600000) by lia.
    replace (n ÷ 60000) with (n / 60000) by lia.
    replace (n ÷ 1000) with (n / 1000) by lia.
    apply mk_time_ok. exact V.
  - unfold prepare_time_millis, int_truediv, MLS_PER_HOUR, MLS_PER_MINUTE, MLS_PER_SECOND. lia.
Qed.

Lemma time_micros_onto n : 0 <= n < 86400000000 ->
  exists h m s us, valid_tod h m s us /\
    read_time_micros n = Ok (h, m, s, us) /\ prepare_time_micros h m s us = n.
Proof.
  intros H. exists (n / 3600000000), (n / 60000000 mod 60), (n / 1000000 mod 60), (n mod 1000000).
  assert (V : valid_tod (n / 3600000000) (n / 60000000 mod 60) (n / 1000000 mod 60) (n mod 1000000))
    by (unfold valid_tod; lia).
  split; [exact V|]. split.
  - unfold read_time_micros, int_truediv, MCS_PER_HOUR, MCS_PER_MINUTE, MCS_PER_SECOND.
    replace (n ÷ 3600000000) with (n / 3600000000) by lia.
    replace (n ÷ 60000000) with (n / 60000000) by lia.
    replace (n ÷ 1000000) with (n / 1000000) by lia.
    apply mk_time_ok. exact V.
  - unfold prepare_time_micros, MCS_PER_HOUR, MCS_PER_MINUTE, MCS_PER_SECOND. lia.
Qed.

(** *** timestamps *)
Lemma prepare_ts_millis_floor t : prepare_timestamp_millis t = t / 1000.
Proof.
  unfold prepare_timestamp_millis, td_days, td_seconds, td_microseconds, int_truediv, US_PER_DAY, MLS_PER_SECOND. lia.
Qed.

Lemma prepare_ts_micros_id t : prepare_timestamp_micros t = t.
Proof.
  unfold prepare_timestamp_micros, td_days, td_seconds, td_microseconds, US_PER_DAY, MCS_PER_SECOND. lia.
Qed.

Lemma prepare_ts_millis_naive_floor t : prepare_timestamp_millis_naive_utc t = t / 1000.
Proof. unfold prepare_timestamp_millis_naive_utc, int_truediv, MLS_PER_SECOND. lia. Qed.

Lemma prepare_ts_micros_naive_id t : prepare_timestamp_micros_naive_utc t = t.
Proof. unfold prepare_timestamp_micros_naive_utc, MCS_PER_SECOND. lia. Qed.

Definition in_datetime_range (t : Z) : Prop := DT_MIN <= t <= DT_MAX.

Lemma mk_datetime_ok t : in_datetime_range t -> mk_datetime t = Ok t.
Proof.
  unfold in_datetime_range, mk_datetime. intros H.
  destruct ((DT_MIN <=? t) && (t <=? DT_MAX)) eqn:E; [reflexivity|lia].
Qed.

Lemma ts_millis_ok t :
  prepare_timestamp_millis t = t / 1000 /\
  (in_datetime_range t ->
     LONG_MIN_VALUE <= prepare_timestamp_millis t <= LONG_MAX_VALUE /\
     read_timestamp_millis (prepare_timestamp_millis t) = Ok (1000 * (t / 1000)) /\
     t - 1000 < 1000 * (t / 1000) <= t).
Proof.
  split; [apply prepare_ts_millis_floor|]. intros H. rewrite prepare_ts_millis_floor.
  unfold in_datetime_range, DT_MIN, DT_MAX, LONG_MIN_VALUE, LONG_MAX_VALUE in *.
  split; [lia|]. split; [|lia].
  unfold read_timestamp_millis. replace (t / 1000 * 1000) with (1000 * (t / 1000)) by lia.
  apply mk_datetime_ok. unfold in_datetime_range, DT_MIN, DT_MAX. lia.
Qed.

Lemma ts_micros_ok t :
  prepare_timestamp_micros t = t /\
  (in_datetime_range t ->
     LONG_MIN_VALUE <= prepare_timestamp_micros t <= LONG_MAX_VALUE /\
     read_timestamp_micros (prepare_timestamp_micros t) = Ok t).
Proof.
  split; [apply prepare_ts_micros_id|]. intros H. rewrite prepare_ts_micros_id.
  split; [unfold in_datetime_range, DT_MIN, DT_MAX, LONG_MIN_VALUE, LONG_MAX_VALUE in *; lia|].
  apply mk_datetime_ok, H.
Qed.

(* ------------------------------------------------------------------ *)
(** *** powers *)
Lemma pow2_pos n : 0 < 2 ^ n \/ (n < 0 /\ 2 ^ n = 0).
Proof. destruct (Z_lt_le_dec n 0); [right; split; [lia|apply Z.pow_neg_r; lia]|left; apply Z.pow_pos_nonneg; lia]. Qed.

Lemma pow2_gt0 n : 0 <= n -> 0 < 2 ^ n.
Proof. intros; apply Z.pow_pos_nonneg; lia. Qed.

Lemma pow10_gt0 n : 0 <= n -> 0 < 10 ^ n.
Proof. intros; apply Z.pow_pos_nonneg; lia. Qed.

Lemma pow2_double n : 0 <= n -> 2 ^ (n + 1) = 2 * 2 ^ n.
Proof. intros. rewrite Z.pow_add_r by lia. change (2 ^ 1) with 2. lia. Qed.

Lemma pow256 i : 0 <= i -> 2 ^ (8 * i) = 256 ^ i.
Proof. intros. rewrite Z.pow_mul_r by lia. reflexivity. Qed.

Lemma pow2_8succ i : 0 <= i -> 2 ^ (8 * (i + 1)) = 2 ^ (8 * i) * 256.
Proof. intros. replace (8 * (i + 1)) with (8 * i + 8) by lia. rewrite Z.pow_add_r by lia. reflexivity. Qed.

(** *** be_loop / be_value *)
Lemma be_loop_length n u : List.length (be_loop n u) = n.
Proof. induction n; cbn [be_loop List.length]; congruence. Qed.

Lemma be_loop_len n u : len (be_loop n u) = Z.of_nat n.
Proof. unfold len. rewrite be_loop_length. reflexivity. Qed.

Lemma byte_of_shift u i : 0 <= i -> Z.land (Z.shiftr u (8 * i)) 255 = (u / 2 ^ (8 * i)) mod 256.
Proof.
  intros. rewrite Z.shiftr_div_pow2 by lia. change 255 with (Z.ones 8).
  rewrite Z.land_ones by lia. reflexivity.
Qed.

Lemma be_loop_bytes n u : Forall is_byte (be_loop n u).
Proof.
  induction n; cbn [be_loop]; constructor; auto.
  unfold is_byte. rewrite byte_of_shift by lia. apply Z.mod_pos_bound. lia.
Qed.

Lemma fold_be_acc l a : fold_left (fun a b => a * 256 + b) l a = a * 256 ^ len l + be_value l.
Proof.
  unfold be_value, len. revert a. induction l as [|b l IH]; intros a.
  - cbn. lia.
  - cbn [fold_left List.length]. rewrite IH. rewrite (IH (0 * 256 + b)).
    rewrite Nat2Z.inj_succ, Z.pow_succ_r by lia. lia.
Qed.

Lemma be_value_cons b l : be_value (b :: l) = b * 256 ^ len l + be_value l.
Proof. unfold be_value at 1. cbn [fold_left]. rewrite fold_be_acc. lia. Qed.

Lemma be_value_be_loop n u : be_value (be_loop n u) = u mod 2 ^ (8 * Z.of_nat n).
Proof.
  induction n as [|i IH].
  - cbn. rewrite Z.mod_1_r. reflexivity.
  - cbn [be_loop]. rewrite be_value_cons, be_loop_len, IH, byte_of_shift by lia.
    rewrite Nat2Z.inj_succ. unfold Z.succ. rewrite pow2_8succ by lia.
    rewrite <- pow256 by lia.
    pose proof (pow2_gt0 (8 * Z.of_nat i) ltac:(lia)).
    rewrite Z.rem_mul_r by lia. lia.
Qed.

Lemma be_value_range l : Forall is_byte l -> 0 <= be_value l < 256 ^ len l.
Proof.
  induction 1 as [|b l Hb Hl IH].
  - cbn. lia.
  - rewrite be_value_cons. unfold len in *. cbn [List.length]. rewrite Nat2Z.inj_succ, Z.pow_succ_r by lia.
    unfold is_byte in Hb. nia.
Qed.

(** adding a multiple of 2^(8n) does not change the n low bytes *)
Lemma be_loop_add_mult n : forall u c, be_loop n (u + c * 2 ^ (8 * Z.of_nat n)) = be_loop n u.
Proof.
  induction n as [|i IH]; intros u c; [reflexivity|].
  cbn [be_loop]. f_equal.
  - rewrite !byte_of_shift by lia. rewrite Nat2Z.inj_succ. unfold Z.succ. rewrite pow2_8succ by lia.
    pose proof (pow2_gt0 (8 * Z.of_nat i) ltac:(lia)).
    replace (u + c * (2 ^ (8 * Z.of_nat i) * 256)) with (u + (c * 256) * 2 ^ (8 * Z.of_nat i)) by lia.
    rewrite Z.div_add by lia. rewrite Z.mod_add by lia. reflexivity.
  - rewrite Nat2Z.inj_succ. unfold Z.succ. rewrite pow2_8succ by lia.
    replace (u + c * (2 ^ (8 * Z.of_nat i) * 256)) with (u + (c * 256) * 2 ^ (8 * Z.of_nat i)) by lia.
    apply IH.
Qed.

(** bytes above the value are zero *)
Lemma be_loop_high m u : 0 <= u < 2 ^ (8 * Z.of_nat m) ->
  forall n, be_loop (n + m) u = repeat 0 n ++ be_loop m u.
Proof.
  intros Hu. induction n as [|n IH]; [reflexivity|].
  cbn [Nat.add be_loop repeat app]. f_equal; [|exact IH].
  rewrite byte_of_shift by lia.
  assert (2 ^ (8 * Z.of_nat m) <= 2 ^ (8 * Z.of_nat (n + m))) by (apply Z.pow_le_mono_r; lia).
  rewrite Z.div_small by lia. reflexivity.
Qed.

(** *** signed reading *)
Lemma from_be_signed_be_loop n x : (0 < n)%nat ->
  - 2 ^ (8 * Z.of_nat n - 1) <= x < 2 ^ (8 * Z.of_nat n - 1) ->
  from_be_signed (be_loop n x) = x.
Proof.
  intros Hn Hx. unfold from_be_signed. rewrite be_loop_len, be_value_be_loop.
  set (P := 2 ^ (8 * Z.of_nat n - 1)) in *.
  assert (E : 2 ^ (8 * Z.of_nat n) = 2 * P).
  { subst P. replace (8 * Z.of_nat n) with (8 * Z.of_nat n - 1 + 1) at 1 by lia. apply pow2_double. lia. }
  assert (HP : 0 < P) by (subst P; apply pow2_gt0; lia).
  rewrite E. destruct (Z_lt_le_dec x 0) as [Hneg|Hpos].
  - assert (M : x mod (2 * P) = x + 2 * P).
    { symmetry. apply (Z.mod_unique x (2 * P) (-1) (x + 2 * P)); lia. }
    rewrite M. destruct ((0 <? Z.of_nat n) && (P <=? x + 2 * P)) eqn:C; lia.
  - rewrite Z.mod_small by lia.
    destruct ((0 <? Z.of_nat n) && (P <=? x)) eqn:C; lia.
Qed.

Lemma to_bytes_signed_ok k x : 0 < k -> - 2 ^ (8 * k - 1) <= x < 2 ^ (8 * k - 1) ->
  to_bytes_signed k x = Ok (be_loop (Z.to_nat k) x) /\
  len (be_loop (Z.to_nat k) x) = k /\
  from_be_signed (be_loop (Z.to_nat k) x) = x.
Proof.
  intros Hk Hx. unfold to_bytes_signed.
  destruct (k <=? 0) eqn:E0; [lia|].
  destruct ((- 2 ^ (8 * k - 1) <=? x) && (x <? 2 ^ (8 * k - 1))) eqn:E1; [|lia].
  split; [reflexivity|]. split; [rewrite be_loop_len; lia|].
  apply from_be_signed_be_loop; [lia|]. rewrite Z2Nat.id by lia. exact Hx.
Qed.

(** *** bit_length *)
Lemma bit_length_0 : bit_length 0 = 0.
Proof. reflexivity. Qed.

Lemma bit_length_nonneg x : 0 <= bit_length x.
Proof. unfold bit_length. destruct (x =? 0); [lia|]. pose proof (Z.log2_nonneg (Z.abs x)). lia. Qed.

Lemma bit_length_spec x : 0 < x -> 2 ^ (bit_length x - 1) <= x < 2 ^ bit_length x.
Proof.
  intros H. unfold bit_length. destruct (x =? 0) eqn:E; [lia|].
  rewrite Z.abs_eq by lia. replace (Z.log2 x + 1 - 1) with (Z.log2 x) by lia.
  apply Z.log2_spec. exact H.
Qed.

Lemma bit_length_pos x : 0 < x -> 0 < bit_length x.
Proof. intros H. unfold bit_length. destruct (x =? 0) eqn:E; [lia|]. pose proof (Z.log2_nonneg (Z.abs x)). lia. Qed.

Lemma bit_length_le_iff u n : 0 <= u -> bit_length u <= n <-> u < 2 ^ n.
Proof.
  intros Hu. destruct (Z.eq_dec u 0) as [->|Hnz].
  - rewrite bit_length_0. destruct (Z_lt_le_dec n 0) as [H|H].
    + rewrite Z.pow_neg_r by lia. lia.
    + pose proof (pow2_gt0 n H). lia.
  - unfold bit_length. destruct (u =? 0) eqn:E; [lia|]. rewrite Z.abs_eq by lia.
    rewrite (Z.log2_lt_pow2 u n) by lia. lia.
Qed.

(* ------------------------------------------------------------------ *)
(** *** digits *)
Definition is_digit (d : Z) : Prop := 0 <= d <= 9.

Lemma fold_digits_acc l a : fold_left (fun u d => u * 10 + d) l a = a * 10 ^ len l + digits_val l.
Proof.
  unfold digits_val, len. revert a. induction l as [|b l IH]; intros a.
  - cbn. lia.
  - cbn [fold_left List.length]. rewrite IH. rewrite (IH (0 * 10 + b)).
    rewrite Nat2Z.inj_succ, Z.pow_succ_r by lia. lia.
Qed.

Lemma digits_val_cons d l : digits_val (d :: l) = d * 10 ^ len l + digits_val l.
Proof. unfold digits_val at 1. cbn [fold_left]. rewrite fold_digits_acc. lia. Qed.

Lemma digits_val_range l : Forall is_digit l -> 0 <= digits_val l < 10 ^ len l.
Proof.
  induction 1 as [|b l Hb Hl IH].
  - cbn. lia.
  - rewrite digits_val_cons. unfold len in *. cbn [List.length]. rewrite Nat2Z.inj_succ, Z.pow_succ_r by lia.
    unfold is_digit in Hb. nia.
Qed.

Lemma digits_val_app l1 l2 : digits_val (l1 ++ l2) = digits_val l1 * 10 ^ len l2 + digits_val l2.
Proof. unfold digits_val at 1. rewrite fold_left_app. fold (digits_val l1). apply fold_digits_acc. Qed.

Lemma digits_val_zeros n : digits_val (repeat 0 n) = 0.
Proof.
  induction n; [reflexivity|]. cbn [repeat]. rewrite digits_val_cons, IHn. lia.
Qed.

Lemma len_repeat {A} (x : A) n : len (repeat x n) = Z.of_nat n.
Proof. unfold len. rewrite repeat_length. reflexivity. Qed.

Lemma digits_val_pad l delta :
  digits_val (if delta >? 0 then l ++ repeat 0 (Z.to_nat delta) else l) = digits_val l * 10 ^ Z.max 0 delta.
Proof.
  destruct (delta >? 0) eqn:E.
  - rewrite digits_val_app, digits_val_zeros, len_repeat, Z2Nat.id by lia.
    replace (Z.max 0 delta) with delta by lia. lia.
  - replace (Z.max 0 delta) with 0 by lia. lia.
Qed.

(** the unscaled integer of a datum under a scale *)
Definition unscaled (scale : Z) (ds : list Z) (exp : Z) : Z := digits_val ds * 10 ^ (exp + scale).
Definition signed (sign : bool) (u : Z) : Z := if sign then - u else u.

Lemma unscaled_nonneg scale ds exp : Forall is_digit ds -> 0 <= unscaled scale ds exp.
Proof.
  intros H. unfold unscaled. pose proof (digits_val_range ds H).
  destruct (Z_lt_le_dec (exp + scale) 0).
  - rewrite Z.pow_neg_r by lia. lia.
  - pose proof (pow10_gt0 (exp + scale) ltac:(lia)). nia.
Qed.

(** *** bytes decimal *)
Lemma bytes_req_enough u : 0 <= u ->
  let k := (bit_length u + 8) / 8 in 0 < k /\ u < 2 ^ (8 * k - 1).
Proof.
  intros Hu k. pose proof (bit_length_nonneg u) as Hb.
  assert (Hk : 0 < k /\ bit_length u <= 8 * k - 1) by (subst k; lia).
  split; [lia|]. apply (bit_length_le_iff u (8 * k - 1) Hu). lia.
Qed.

Theorem decimal_bytes_ok precision scale sign ds exp :
  Forall is_digit ds ->
  let u := unscaled scale ds exp in
  let k := (bit_length u + 8) / 8 in
  (len ds <= precision -> 0 <= exp + scale ->
     prepare_bytes_decimal precision scale sign ds exp = Ok (be_loop (Z.to_nat k) (signed sign u)) /\
     to_bytes_signed k (signed sign u) = Ok (be_loop (Z.to_nat k) (signed sign u)) /\
     len (be_loop (Z.to_nat k) (signed sign u)) = k /\
     Forall is_byte (be_loop (Z.to_nat k) (signed sign u)) /\
     from_be_signed (be_loop (Z.to_nat k) (signed sign u)) = signed sign u) /\
  (precision < len ds -> prepare_bytes_decimal precision scale sign ds exp = Err) /\
  (exp + scale < 0 -> prepare_bytes_decimal precision scale sign ds exp = Err).
Proof.
  intros Hd u k. split; [|split].
  - intros Hp Hs. pose proof (unscaled_nonneg scale ds exp Hd) as Hu. fold u in Hu.
    destruct (bytes_req_enough u Hu) as [Hk Hlt]. fold k in Hk, Hlt.
    assert (R : - 2 ^ (8 * k - 1) <= signed sign u < 2 ^ (8 * k - 1)) by (unfold signed; destruct sign; lia).
    destruct (to_bytes_signed_ok k (signed sign u) Hk R) as (T1 & T2 & T3).
    split; [|split; [exact T1|split; [exact T2|split; [apply be_loop_bytes|exact T3]]]].
    unfold prepare_bytes_decimal.
    destruct (len ds >? precision) eqn:E1; [lia|].
    destruct (exp + scale <? 0) eqn:E2; [lia|].
    replace (10 ^ (exp + scale) * digits_val ds) with u by (unfold u, unscaled; lia).
    fold k. exact T1.
  - intros H. unfold prepare_bytes_decimal. destruct (len ds >? precision) eqn:E1; [reflexivity|lia].
  - intros H. unfold prepare_bytes_decimal. destruct (len ds >? precision) eqn:E1; [reflexivity|].
    destruct (exp + scale <? 0) eqn:E2; [reflexivity|lia].
Qed.

(** *** the mask loop *)
Lemma land_small_shiftl x y b : 0 <= b -> 0 <= x < 2 ^ b -> Z.land x (Z.shiftl y b) = 0.
Proof.
  intros Hb Hx. apply Z.bits_inj'. intros n Hn. rewrite Z.land_spec, Z.bits_0.
  destruct (Z_lt_le_dec n b) as [L|G].
  - rewrite Z.shiftl_spec_low by lia. apply andb_false_r.
  - destruct (Z.eq_dec x 0) as [->|Hnz]; [rewrite Z.bits_0; reflexivity|].
    rewrite (Z.bits_above_log2 x n); [reflexivity|lia|].
    assert (Z.log2 x < b) by (apply Z.log2_lt_pow2; lia). lia.
Qed.

Lemma lxor_disjoint_shiftl x y b : 0 <= b -> 0 <= x < 2 ^ b -> Z.lxor x (y * 2 ^ b) = x + y * 2 ^ b.
Proof.
  intros Hb Hx. rewrite <- Z.shiftl_mul_pow2 by lia. symmetry. apply Z.add_nocarry_lxor.
  apply land_small_shiftl; assumption.
Qed.

Lemma lor_disjoint_shiftl x y b : 0 <= b -> 0 <= x < 2 ^ b -> Z.lor (y * 2 ^ b) x = x + y * 2 ^ b.
Proof.
  intros Hb Hx. rewrite Z.lor_comm. rewrite <- lxor_disjoint_shiftl by assumption.
  rewrite <- Z.shiftl_mul_pow2 by lia. symmetry. apply Z.lxor_lor. apply land_small_shiftl; assumption.
Qed.

Lemma mask_loop_spec n : forall m i, 0 <= i ->
  mask_loop n m (2 ^ i) = Z.lxor m ((2 ^ Z.of_nat n - 1) * 2 ^ i).
Proof.
  induction n as [|n IH]; intros m i Hi.
  - cbn [mask_loop]. change (2 ^ Z.of_nat 0) with 1. cbn. rewrite Z.lxor_0_r. reflexivity.
  - cbn [mask_loop]. rewrite Z.shiftl_mul_pow2 by lia. change (2 ^ 1) with 2.
    replace (2 ^ i * 2) with (2 ^ (i + 1)) by (rewrite pow2_double by lia; lia).
    rewrite IH by lia. rewrite Z.lxor_assoc. f_equal.
    rewrite Nat2Z.inj_succ. unfold Z.succ. rewrite (pow2_double (Z.of_nat n)) by lia.
    pose proof (pow2_gt0 i Hi). pose proof (pow2_gt0 (Z.of_nat n) ltac:(lia)).
    rewrite (pow2_double i) by lia.
    replace ((2 ^ Z.of_nat n - 1) * (2 * 2 ^ i)) with (((2 ^ Z.of_nat n - 1) * 2) * 2 ^ i) by lia.
    replace (2 ^ i) with (1 * 2 ^ i) at 1 by lia.
    rewrite <- (Z.shiftl_mul_pow2 1), <- (Z.shiftl_mul_pow2 ((2 ^ Z.of_nat n - 1) * 2)) by lia.
    rewrite <- Z.shiftl_lxor. rewrite Z.shiftl_mul_pow2 by lia.
    f_equal. replace ((2 ^ Z.of_nat n - 1) * 2) with ((2 ^ Z.of_nat n - 1) * 2 ^ 1) by reflexivity.
    rewrite lxor_disjoint_shiftl by (change (2^1) with 2; lia). change (2 ^ 1) with 2. lia.
Qed.

Lemma lxor_ones_diff a b : 0 <= b <= a -> Z.lxor (2 ^ a - 1) (2 ^ b - 1) = 2 ^ a - 2 ^ b.
Proof.
  intros H. pose proof (pow2_gt0 b ltac:(lia)). pose proof (pow2_gt0 (a - b) ltac:(lia)).
  assert (E : 2 ^ a = 2 ^ (a - b) * 2 ^ b) by (rewrite <- Z.pow_add_r by lia; f_equal; lia).
  replace (2 ^ a - 1) with (Z.lxor (2 ^ b - 1) ((2 ^ (a - b) - 1) * 2 ^ b)).
  2:{ rewrite lxor_disjoint_shiftl by lia. lia. }
  rewrite Z.lxor_comm, <- Z.lxor_assoc, Z.lxor_nilpotent, Z.lxor_0_l. lia.
Qed.

Lemma mask_fits S br : 0 <= br <= S ->
  mask_loop (Z.to_nat br) (2 ^ S - 1) 1 = (2 ^ (S - br) - 1) * 2 ^ br.
Proof.
  intros H. change 1 with (2 ^ 0) at 2. rewrite mask_loop_spec by lia.
  rewrite Z2Nat.id by lia. change (2 ^ 0) with 1. rewrite Z.mul_1_r.
  rewrite lxor_ones_diff by lia.
  assert (E : 2 ^ S = 2 ^ (S - br) * 2 ^ br) by (rewrite <- Z.pow_add_r by lia; f_equal; lia).
  lia.
Qed.

(* ------------------------------------------------------------------ *)
(** *** fixed_core *)
Definition fits (size su : Z) : Prop := - 2 ^ (8 * size - 1) < su < 2 ^ (8 * size - 1).

Lemma bits_req_fits size u : 0 <= u -> (bit_length u + 1 <= size * 8 <-> u < 2 ^ (8 * size - 1)).
Proof. intros Hu. rewrite <- (bit_length_le_iff u (8 * size - 1) Hu). lia. Qed.

Definition bytes_req_of (bits_req : Z) : Z :=
  if bits_req <? 8 then 1 else bits_req / 8 + (if bits_req mod 8 =? 0 then 0 else 1).

Lemma bytes_req_spec br : 1 <= br -> br <= 8 * bytes_req_of br < br + 8.
Proof.
  intros H. unfold bytes_req_of. destruct (br <? 8) eqn:E; [lia|].
  destruct (br mod 8 =? 0) eqn:E2; lia.
Qed.

(** positive path, value fits: zero bytes, then the value: exactly [size] bytes *)
Lemma fixed_core_pos_fits size u : 0 <= u -> bit_length u + 1 <= size * 8 ->
  fixed_core size false u = be_loop (Z.to_nat size) u.
Proof.
  intros Hu Hf. unfold fixed_core. cbv zeta. fold (bytes_req_of (bit_length u + 1)).
  pose proof (bit_length_nonneg u) as Hb.
  pose proof (bytes_req_spec (bit_length u + 1) ltac:(lia)) as Hr.
  set (br := bit_length u + 1) in *. set (m := bytes_req_of br) in *.
  assert (Hsz : Z.to_nat size = (Z.to_nat ((size * 8 - br) / 8) + Z.to_nat m)%nat) by lia.
  rewrite Hsz. symmetry. apply be_loop_high. split; [lia|].
  rewrite Z2Nat.id by lia.
  apply (bit_length_le_iff u (8 * m) Hu). lia.
Qed.

(** positive path, value does not fit: more than [size] bytes, so write_fixed raises *)
Lemma fixed_core_pos_overflow size u : 0 <= size -> 0 <= u -> size * 8 < bit_length u + 1 ->
  size < len (fixed_core size false u).
Proof.
  intros Hs Hu Hf. unfold fixed_core. cbv zeta. fold (bytes_req_of (bit_length u + 1)).
  pose proof (bit_length_nonneg u) as Hb.
  pose proof (bytes_req_spec (bit_length u + 1) ltac:(lia)) as Hr.
  unfold len. rewrite app_length, repeat_length, be_loop_length. lia.
Qed.

(** negative path, non-zero magnitude that fits *)
Lemma fixed_core_neg_fits size u : 0 < u -> bit_length u + 1 <= size * 8 ->
  fixed_core size true u = be_loop (Z.to_nat size) (- u).
Proof.
  intros Hu Hf. unfold fixed_core. cbv zeta.
  pose proof (bit_length_pos u Hu) as Hb. pose proof (bit_length_spec u Hu) as [_ Hlt].
  set (br := bit_length u + 1) in *.
  assert (Hbr : 2 ^ br = 2 * 2 ^ bit_length u) by (subst br; apply pow2_double; lia).
  pose proof (pow2_gt0 (bit_length u) ltac:(lia)) as Hp.
  rewrite mask_fits by lia.
  rewrite Z.shiftl_mul_pow2, Z.mul_1_l by lia.
  rewrite lor_disjoint_shiftl by lia.
  assert (E : 2 ^ (size * 8) = 2 ^ (size * 8 - br) * 2 ^ br) by (rewrite <- Z.pow_add_r by lia; f_equal; lia).
  replace (2 ^ br - u + (2 ^ (size * 8 - br) - 1) * 2 ^ br) with (- u + 1 * 2 ^ (size * 8)) by lia.
  replace (size * 8) with (8 * Z.of_nat (Z.to_nat size)) by lia.
  apply be_loop_add_mult.
Qed.

Lemma from_be_signed_fixed size su : 0 <= size -> fits size su \/ su = - 2 ^ (8 * size - 1) /\ 0 < size ->
  from_be_signed (be_loop (Z.to_nat size) su) = su.
Proof.
  intros Hs H. destruct (Z.eq_dec size 0) as [->|Hnz].
  - unfold fits in H. change (2 ^ (8 * 0 - 1)) with 0 in H. lia.
  - apply from_be_signed_be_loop; [lia|]. rewrite Z2Nat.id by lia. unfold fits in H. lia.
Qed.

(** *** rounding in read_decimal *)
Lemma excess_go_hit f a p k : a < 10 ^ (p + k) -> excess_go (S f) a p k = k.
Proof. intros H. cbn [excess_go]. destruct (a <? 10 ^ (p + k)) eqn:E; [reflexivity|lia]. Qed.

Lemma excess_go_bound f : forall a p k d, 0 <= k <= d -> a < 10 ^ (p + d) -> (Z.to_nat (d - k) < f)%nat ->
  k <= excess_go f a p k <= d.
Proof.
  induction f as [|f IH]; intros a p k d Hk Ha Hf; [lia|].
  cbn [excess_go]. destruct (a <? 10 ^ (p + k)) eqn:E; [lia|].
  assert (k <> d) by (intros ->; lia).
  specialize (IH a p (k + 1) d ltac:(lia) Ha ltac:(lia)). lia.
Qed.

Lemma excess_digits_bound v d p : 0 <= v < 10 ^ p -> 0 <= d -> 0 <= p ->
  0 <= excess_digits (v * 10 ^ d) p <= d.
Proof.
  intros Hv Hd Hp. unfold excess_digits.
  pose proof (pow10_gt0 d Hd) as H10. pose proof (pow10_gt0 p Hp) as H10p.
  destruct (Z.eq_dec v 0) as [->|Hnz].
  - rewrite Z.mul_0_l. replace (Z.to_nat (Z.log2 0) + 2)%nat with (S (S (Z.to_nat (Z.log2 0)))) by lia.
    rewrite excess_go_hit; [lia|]. rewrite Z.add_0_r. lia.
  - apply excess_go_bound; [lia| |].
    + rewrite Z.pow_add_r by lia. nia.
    + assert (d <= Z.log2 (v * 10 ^ d)); [|lia].
      apply Z.log2_le_pow2; [nia|].
      assert (2 ^ d <= 10 ^ d) by (apply Z.pow_le_mono_l; lia). nia.
Qed.

Lemma round_exact a k : 0 <= k -> a mod 10 ^ k = 0 -> round_half_even a k * 10 ^ k = a.
Proof.
  intros Hk Hm. unfold round_half_even. destruct (k <=? 0) eqn:E.
  - replace k with 0 by lia. change (10 ^ 0) with 1. lia.
  - pose proof (pow10_gt0 k Hk) as H10. cbv zeta. rewrite Hm.
    destruct ((10 ^ k <? 2 * 0) || (10 ^ k =? 2 * 0) && Z.odd (a / 10 ^ k)) eqn:C; [lia|].
    set (D := 10 ^ k) in *. clearbody D. lia.
Qed.

(** reading back an integer of the form  +-(v * 10^d)  with v < 10^precision is exact *)
Lemma read_decimal_exact precision scale bs v d :
  1 <= precision -> 0 <= v < 10 ^ precision -> 0 <= d ->
  Z.abs (from_be_signed bs) = v * 10 ^ d ->
  exists c k, read_decimal precision scale bs = Ok (c, k - scale) /\ 0 <= k <= d /\
              c * 10 ^ k = from_be_signed bs.
Proof.
  intros Hp Hv Hd Ha. unfold read_decimal. destruct (precision <? 1) eqn:E; [lia|].
  cbv zeta. rewrite Ha. set (k := excess_digits (v * 10 ^ d) precision).
  pose proof (excess_digits_bound v d precision Hv Hd ltac:(lia)) as Hk. fold k in Hk.
  exists (Z.sgn (from_be_signed bs) * round_half_even (v * 10 ^ d) k), k.
  split; [reflexivity|]. split; [exact Hk|].
  rewrite <- Z.mul_assoc. rewrite round_exact; [rewrite <- Ha; rewrite Z.mul_comm; apply Z.abs_sgn|lia|].
  replace d with ((d - k) + k) by lia. rewrite Z.pow_add_r by lia.
  rewrite Z.mul_assoc. apply Z.mod_mul. pose proof (pow10_gt0 k ltac:(lia)). lia.
Qed.

(** numeric equality with the datum *)
Lemma dec_eq_of_unscaled c k scale sv exp :
  0 <= k -> 0 <= exp + scale -> c * 10 ^ k = sv * 10 ^ (exp + scale) ->
  dec_eq (c, k - scale) (sv, exp).
Proof.
  intros Hk He H. unfold dec_eq. cbn [fst snd]. set (m := Z.min (k - scale) exp).
  set (A := k - scale - m). set (B := exp - m). set (s := scale + m).
  assert (HA : 0 <= A) by lia. assert (HB : 0 <= B) by lia. assert (Hs : 0 <= s) by lia.
  replace k with (A + s) in H by lia. replace (exp + scale) with (B + s) in H by lia.
  rewrite !Z.pow_add_r in H by lia. pose proof (pow10_gt0 s Hs).
  apply (Z.mul_cancel_r _ _ (10 ^ s)); lia.
Qed.

(* ------------------------------------------------------------------ *)
Lemma write_fixed_ok size bs : len bs = size -> write_fixed size bs = Ok bs.
Proof. intros H. unfold write_fixed. destruct (len bs =? size) eqn:E; [reflexivity|lia]. Qed.

Lemma write_fixed_err size bs : len bs <> size -> write_fixed size bs = Err.
Proof. intros H. unfold write_fixed. destruct (len bs =? size) eqn:E; [lia|reflexivity]. Qed.

(** the unscaled integer the fixed path computes (digits padded with zeros) is the same number *)
Lemma fixed_unscaled scale ds exp : 0 <= exp + scale ->
  digits_val (if exp + scale >? 0 then ds ++ repeat 0 (Z.to_nat (exp + scale)) else ds) = unscaled scale ds exp.
Proof. intros H. rewrite digits_val_pad. unfold unscaled. f_equal. f_equal. lia. Qed.

Lemma prepare_fixed_unfold precision scale size sign ds exp :
  len ds <= precision -> 0 <= exp + scale ->
  prepare_fixed_decimal precision scale size sign ds exp =
  let u := unscaled scale ds exp in
  if bit_length u + 1 >? size * 8 then Err else Ok (fixed_core size (sign && negb (u =? 0)) u).
Proof.
  intros Hp Hs. unfold prepare_fixed_decimal.
  destruct (len ds >? precision) eqn:E1; [lia|].
  destruct (- exp >? scale) eqn:E2; [lia|].
  cbv zeta. rewrite fixed_unscaled by lia. reflexivity.
Qed.

Lemma prepare_fixed_errs precision scale size sign ds exp :
  (precision < len ds -> prepare_fixed_decimal precision scale size sign ds exp = Err) /\
  (exp + scale < 0 -> prepare_fixed_decimal precision scale size sign ds exp = Err).
Proof.
  split; intros H; unfold prepare_fixed_decimal.
  - destruct (len ds >? precision) eqn:E1; [reflexivity|lia].
  - destruct (len ds >? precision) eqn:E1; [reflexivity|].
    destruct (- exp >? scale) eqn:E2; [reflexivity|lia].
Qed.

(** what a correct fixed encoding of [su] in [size] bytes is *)
Definition fixed_encoding (size su : Z) (bs : bytes) : Prop :=
  bs = be_loop (Z.to_nat size) su /\ len bs = size /\ Forall is_byte bs /\ from_be_signed bs = su.

Lemma fixed_encoding_be_loop size su : 0 <= size -> fits size su ->
  fixed_encoding size su (be_loop (Z.to_nat size) su).
Proof.
  intros Hs Hf. unfold fixed_encoding. split; [reflexivity|].
  split; [rewrite be_loop_len; lia|]. split; [apply be_loop_bytes|].
  apply from_be_signed_fixed; [lia|left; exact Hf].
Qed.

(** **** prepare_fixed_decimal + write_fixed: full statement *)
Theorem decimal_fixed_ok precision scale size sign ds exp :
  Forall is_digit ds -> 0 <= size ->
  let su := signed sign (unscaled scale ds exp) in
  (len ds <= precision -> 0 <= exp + scale -> fits size su ->
     exists bs, write_fixed_decimal precision scale size sign ds exp = Ok bs /\ fixed_encoding size su bs) /\
  (len ds <= precision -> 0 <= exp + scale -> ~ fits size su ->
     write_fixed_decimal precision scale size sign ds exp = Err) /\
  (precision < len ds -> write_fixed_decimal precision scale size sign ds exp = Err) /\
  (exp + scale < 0 -> write_fixed_decimal precision scale size sign ds exp = Err).
Proof.
  intros Hd Hsz su. pose proof (unscaled_nonneg scale ds exp Hd) as Hu.
  unfold write_fixed_decimal.
  split; [|split; [|split]].
  - intros Hp Hs Hf. rewrite prepare_fixed_unfold by assumption. cbv zeta.
    set (u := unscaled scale ds exp) in *.
    assert (Hlt : u < 2 ^ (8 * size - 1)) by (unfold fits, su, signed in Hf; destruct sign; lia).
    apply (bits_req_fits size u Hu) in Hlt.
    destruct (bit_length u + 1 >? size * 8) eqn:E; [lia|].
    exists (be_loop (Z.to_nat size) su). cbn [bind].
    assert (C : fixed_core size (sign && negb (u =? 0)) u = be_loop (Z.to_nat size) su).
    { unfold su, signed. destruct sign; cbn [andb].
      - destruct (u =? 0) eqn:Z0; cbn [negb].
        + pose proof (bit_length_nonneg u). replace u with 0 by lia.
          rewrite fixed_core_pos_fits by (rewrite ?bit_length_0; lia). reflexivity.
        + apply fixed_core_neg_fits; lia.
      - apply fixed_core_pos_fits; lia. }
    rewrite C. pose proof (fixed_encoding_be_loop size su Hsz Hf) as F.
    split; [apply write_fixed_ok, F|exact F].
  - intros Hp Hs Hf. rewrite prepare_fixed_unfold by assumption. cbv zeta.
    set (u := unscaled scale ds exp) in *.
    assert (Hge : ~ u < 2 ^ (8 * size - 1)) by (unfold fits, su, signed in Hf; destruct sign; lia).
    rewrite <- (bits_req_fits size u Hu) in Hge.
    destruct (bit_length u + 1 >? size * 8) eqn:E; [reflexivity|lia].
  - intros H. rewrite (proj1 (prepare_fixed_errs precision scale size sign ds exp) H). reflexivity.
  - intros H. rewrite (proj2 (prepare_fixed_errs precision scale size sign ds exp) H). reflexivity.
Qed.

(** the one representable value the function refuses, -2^(8 size - 1), cannot arise from a
    schema that passed parse_schema (precision <= floor(log10 2 * (8 size - 1)), i.e. 10^precision <= 2^(8 size - 1)) *)
Lemma pow2_mod5 n : 0 <= n -> 2 ^ n mod 5 <> 0.
Proof.
  intros H. pattern n. apply natlike_ind; [cbn; lia| |exact H].
  intros x Hx IH. rewrite Z.pow_succ_r by lia. lia.
Qed.

Lemma min_value_unreachable precision scale size ds exp :
  Forall is_digit ds -> len ds <= precision -> 0 <= exp + scale -> 0 < size ->
  10 ^ precision <= 2 ^ (8 * size - 1) ->
  unscaled scale ds exp <> 2 ^ (8 * size - 1).
Proof.
  intros Hd Hp Hs Hsz Hmax E. unfold unscaled in E.
  pose proof (digits_val_range ds Hd) as Hv.
  assert (10 ^ len ds <= 10 ^ precision) by (apply Z.pow_le_mono_r; lia).
  destruct (Z.eq_dec (exp + scale) 0) as [Z0|NZ].
  - rewrite Z0 in E. change (10 ^ 0) with 1 in E. lia.
  - apply (pow2_mod5 (8 * size - 1)); [lia|]. rewrite <- E.
    replace (exp + scale) with (1 + (exp + scale - 1)) by lia. rewrite Z.pow_add_r by lia.
    change (10 ^ 1) with (2 * 5).
    replace (digits_val ds * (2 * 5 * 10 ^ (exp + scale - 1))) with ((digits_val ds * 2 * 10 ^ (exp + scale - 1)) * 5) by lia.
    apply Z.mod_mul. lia.
Qed.

(** **** never altered *)
Lemma abs_signed sign u : 0 <= u -> Z.abs (signed sign u) = u.
Proof. unfold signed; destruct sign; lia. Qed.

Lemma signed_mul sign v p : signed sign (v * p) = signed sign v * p.
Proof. unfold signed; destruct sign; lia. Qed.

Lemma read_back precision scale sign ds exp bs :
  Forall is_digit ds -> 1 <= precision -> len ds <= precision -> 0 <= exp + scale ->
  from_be_signed bs = signed sign (unscaled scale ds exp) ->
  exists d, read_decimal precision scale bs = Ok d /\ dec_eq d (dec_of_tuple sign ds exp).
Proof.
  intros Hd Hp Hl Hs Hb.
  pose proof (digits_val_range ds Hd) as Hv.
  assert (10 ^ len ds <= 10 ^ precision) by (apply Z.pow_le_mono_r; lia).
  destruct (read_decimal_exact precision scale bs (digits_val ds) (exp + scale)) as (c & k & R & Hk & Hc); try lia.
  { rewrite Hb. rewrite abs_signed by (apply unscaled_nonneg; exact Hd). reflexivity. }
  exists (c, k - scale). split; [exact R|].
  unfold dec_of_tuple. apply dec_eq_of_unscaled; try lia.
  rewrite Hc, Hb. unfold unscaled. rewrite signed_mul. reflexivity.
Qed.

Theorem bytes_never_altered precision scale sign ds exp bs :
  Forall is_digit ds -> 1 <= precision ->
  write_bytes_decimal precision scale sign ds exp = Ok bs ->
  len ds <= precision /\ 0 <= exp + scale /\
  exists d, read_decimal precision scale bs = Ok d /\ dec_eq d (dec_of_tuple sign ds exp).
Proof.
  intros Hd Hp W. unfold write_bytes_decimal in W.
  destruct (decimal_bytes_ok precision scale sign ds exp Hd) as (A & B & C).
  destruct (Z_lt_le_dec precision (len ds)) as [L|L]; [rewrite (B L) in W; discriminate|].
  destruct (Z_lt_le_dec (exp + scale) 0) as [L2|L2]; [rewrite (C L2) in W; discriminate|].
  split; [exact L|]. split; [exact L2|].
  destruct (A L L2) as (A1 & _ & _ & _ & A5). rewrite A1 in W. injection W as <-.
  apply read_back; assumption.
Qed.

Theorem fixed_never_altered precision scale size sign ds exp bs :
  Forall is_digit ds -> 1 <= precision -> 0 <= size ->
  write_fixed_decimal precision scale size sign ds exp = Ok bs ->
  len ds <= precision /\ 0 <= exp + scale /\ fits size (signed sign (unscaled scale ds exp)) /\ len bs = size /\
  exists d, read_decimal precision scale bs = Ok d /\ dec_eq d (dec_of_tuple sign ds exp).
Proof.
  intros Hd Hp Hsz W.
  destruct (decimal_fixed_ok precision scale size sign ds exp Hd Hsz) as (A & B & C & D).
  destruct (Z_lt_le_dec precision (len ds)) as [L|L]; [rewrite (C L) in W; discriminate|].
  destruct (Z_lt_le_dec (exp + scale) 0) as [L2|L2]; [rewrite (D L2) in W; discriminate|].
  assert (F : fits size (signed sign (unscaled scale ds exp))).
  { destruct (Z_lt_le_dec (- 2 ^ (8 * size - 1)) (signed sign (unscaled scale ds exp))) as [F1|F1];
    [destruct (Z_lt_le_dec (signed sign (unscaled scale ds exp)) (2 ^ (8 * size - 1))) as [F2|F2]|].
    - unfold fits; lia.
    - rewrite (B L L2) in W; [discriminate|unfold fits; lia].
    - rewrite (B L L2) in W; [discriminate|unfold fits; lia]. }
  destruct (A L L2 F) as (bs' & W' & E1 & E2 & E3 & E4). rewrite W' in W. injection W as <-.
  split; [exact L|]. split; [exact L2|]. split; [exact F|]. split; [exact E2|].
  apply read_back; assumption.
Qed.

(* ------------------------------------------------------------------ *)
(** *** uuid: canonical string and back *)
Lemma range_check (P : Z -> bool) (N : nat) :
  forallb (fun i => P (Z.of_nat i)) (seq 0 N) = true -> forall z, 0 <= z < Z.of_nat N -> P z = true.
Proof.
  intros H z Hz. rewrite forallb_forall in H. specialize (H (Z.to_nat z)).
  rewrite Z2Nat.id in H by lia. apply H. apply in_seq. lia.
Qed.

Lemma hex_byte_roundtrip b : is_byte b ->
  16 * hexval (hexdigit (b / 16)) + hexval (hexdigit (b mod 16)) = b.
Proof.
  intros H. apply Z.eqb_eq.
  apply (range_check (fun b => 16 * hexval (hexdigit (b / 16)) + hexval (hexdigit (b mod 16)) =? b) 256);
  [vm_compute; reflexivity|exact H].
Qed.

Lemma hexdigit_hi_not_hyphen b : is_byte b -> Ascii.eqb (hexdigit (b / 16)) "-" = false.
Proof.
  intros H. apply negb_true_iff.
  apply (range_check (fun b => negb (Ascii.eqb (hexdigit (b / 16)) "-")) 256); [vm_compute; reflexivity|exact H].
Qed.

Lemma hexdigit_lo_not_hyphen b : is_byte b -> Ascii.eqb (hexdigit (b mod 16)) "-" = false.
Proof.
  intros H. apply negb_true_iff.
  apply (range_check (fun b => negb (Ascii.eqb (hexdigit (b mod 16)) "-")) 256); [vm_compute; reflexivity|exact H].
Qed.

Lemma drop_hyphens_tohex l : Forall is_byte l -> drop_hyphens (tohex l) = tohex l.
Proof.
  induction 1 as [|b l Hb Hl IH]; [reflexivity|].
  cbn [tohex drop_hyphens]. rewrite hexdigit_hi_not_hyphen, hexdigit_lo_not_hyphen, IH by assumption. reflexivity.
Qed.

Lemma hx_tohex l : Forall is_byte l -> hx (tohex l) = l.
Proof.
  induction 1 as [|b l Hb Hl IH]; [reflexivity|].
  cbn [tohex hx]. rewrite hex_byte_roundtrip, IH by assumption. reflexivity.
Qed.

Lemma drop_hyphens_app s1 s2 : drop_hyphens (s1 ++ s2) = (drop_hyphens s1 ++ drop_hyphens s2)%string.
Proof.
  induction s1 as [|c s1 IH]; [reflexivity|].
  cbn [append drop_hyphens]. destruct (Ascii.eqb c "-"); [exact IH|cbn [append]; f_equal; exact IH].
Qed.

Lemma tohex_app l1 l2 : tohex (l1 ++ l2) = (tohex l1 ++ tohex l2)%string.
Proof. induction l1 as [|b l1 IH]; [reflexivity|]. cbn [app tohex append]. rewrite IH. reflexivity. Qed.

Lemma Forall_firstn {A} (P : A -> Prop) n : forall l, Forall P l -> Forall P (firstn n l).
Proof. induction n; intros l H; [constructor|]. destruct H; cbn [firstn]; constructor; auto. Qed.

Lemma Forall_skipn {A} (P : A -> Prop) n : forall l, Forall P l -> Forall P (skipn n l).
Proof. induction n; intros l H; [exact H|]. destruct H; cbn [skipn]; [constructor|auto]. Qed.

Theorem uuid_roundtrip n : uuid_parse (uuid_str n) = n mod 2 ^ 128.
Proof.
  unfold uuid_parse, uuid_str. set (b := be_loop 16 n).
  assert (Hb : Forall is_byte b) by apply be_loop_bytes.
  rewrite !drop_hyphens_app.
  change (drop_hyphens "-") with EmptyString. cbn [append].
  rewrite !drop_hyphens_tohex by (repeat first [apply Forall_firstn|apply Forall_skipn]; exact Hb).
  rewrite <- !tohex_app.
  assert (E : firstn 4 b ++ firstn 2 (skipn 4 b) ++ firstn 2 (skipn 6 b) ++ firstn 2 (skipn 8 b) ++ skipn 10 b = b).
  { subst b. reflexivity. }
  rewrite E, hx_tohex by exact Hb. subst b. rewrite be_value_be_loop. reflexivity.
Qed.

