(** The binary decoder of model/Codec.v depends on the erased schema only (aliases, defaults,
    enum default, annotations are never looked at); one inlining step (a reference replaced by
    its definition from the table) does not change what is decoded. *)
From Coq Require Import Lia ZifyBool String.
From FA Require Import model.Base model.Varint model.Value model.Schema model.Utf8 model.Codec
     model.Json model.Parse model.SchemaSpec model.Bridge
     proofs.VarintProofs proofs.CodecProofs.
Open Scope Z_scope.

(** ---- helpers ---- *)
Lemma nthZ_map {A B} (g : A -> B) (l : list A) : forall i, nthZ (map g l) i = option_map g (nthZ l i).
Proof.
  induction l as [|x l IH]; intros i; cbn [map nthZ]; [reflexivity|].
  destruct (i =? 0); [reflexivity|]. destruct (i <? 0); [reflexivity|apply IH].
Qed.

Lemma lookup_erase e n : lookup (erase_env e) n = option_map erase_schema (lookup e n).
Proof.
  induction e as [|[k s] e IH]; cbn [erase_env map lookup fst snd]; [reflexivity|].
  destruct (bytes_eqb k n); [reflexivity|exact IH].
Qed.

Lemma fields_map rec (h : schema -> schema) fs bs :
  fields rec (map (fun f => mkField (fname f) (h (ftype f)) None []) fs) bs = fields (fun s => rec (h s)) fs bs.
Proof.
  revert bs. induction fs as [|fd fs IH]; intros bs; cbn [map fields ftype]; [reflexivity|].
  destruct (rec (h (ftype fd)) bs) as [[a r]| |]; cbn [bind]; [|reflexivity..]. now rewrite IH.
Qed.

Lemma mono_bind {A B} (r1 r2 : bytes -> res (A * bytes)) (g : A * bytes -> res (B * bytes)) :
  mono r1 r2 -> mono (fun bs => bind (r1 bs) g) (fun bs => bind (r2 bs) g).
Proof. intros H bs x E. destruct (r1 bs) as [y| |] eqn:E1; cbn [bind] in E; try discriminate E. now rewrite (H _ _ E1). Qed.

(** ---- forward: what decodes under the schema decodes, with the same fuel, under its erasure ---- *)
Theorem dec_erase_fwd : forall f e s, mono (dec f e s) (dec f (erase_env e) (erase_schema s)).
Proof.
  induction f as [|f IH]; intros e s bs x H; [discriminate H|].
  destruct s; cbn [erase_schema]; try exact H.
  - (* array *)
    cbn [dec] in *. inv_bind H. injection H as <-.
    now rewrite (blocks_mono _ _ (IH e s) (S f) (S f) ltac:(lia) _ _ E).
  - (* map *)
    cbn [dec] in *. inv_bind H. injection H as <-.
    now rewrite (blocks_mono _ _ (map_item_mono _ _ (IH e s)) (S f) (S f) ltac:(lia) _ _ E).
  - (* union *)
    cbn [dec] in *. inv_bind H. cbn [bind]. rewrite nthZ_map.
    destruct (nthZ bs0 z) as [s0|]; [|discriminate H]. cbn [option_map]. inv_bind H. injection H as <-.
    now rewrite (IH _ _ _ _ E0).
  - (* record *)
    cbn [dec] in *. inv_bind H. injection H as <-. rewrite fields_map.
    now rewrite (fields_mono (dec f e) (fun s => dec f (erase_env e) (erase_schema s)) (IH e) fs _ _ E).
  - (* reference *)
    cbn [dec] in *. rewrite lookup_erase. destruct (lookup e n) as [d|]; [|discriminate H]. cbn [option_map].
    now apply IH.
  - (* annotation *)
    cbn [dec] in H. apply dec_fuel_S. now apply IH.
Qed.

(** ---- backward: with more fuel (annotations cost one unit each) ---- *)
Fixpoint chain (s : schema) : nat := match s with SAnnot _ x => S (chain x) | _ => O end.
Fixpoint peel (s : schema) : schema := match s with SAnnot _ x => peel x | _ => s end.

(* no node carries more than [a] nested annotations *)
Fixpoint achk (a : nat) (s : schema) : bool :=
  match s with
  | SAnnot _ x => Nat.leb (chain s) a && achk a x
  | SArray x | SMap x => achk a x
  | SUnion l => forallb (achk a) l
  | SRecord _ _ fs => forallb (fun f => achk a (ftype f)) fs
  | _ => true
  end.

Lemma achk_peel a s : achk a s = true -> (chain s <= a)%nat /\ achk a (peel s) = true.
Proof.
  induction s; try (intros H; split; [cbn; lia|exact H]).
  intros H. cbn [achk] in H. apply Bool.andb_true_iff in H. destruct H as [H1 H2].
  apply Nat.leb_le in H1. split; [exact H1|]. cbn [peel]. now apply IHs.
Qed.

Lemma peel_dec e s : forall m b0, dec (chain s + m) e s b0 = dec m e (peel s) b0.
Proof. induction s; intros m b0; try reflexivity. cbn [chain peel plus dec]. apply IHs. Qed.

Lemma peel_erase s : erase_schema s = erase_schema (peel s).
Proof. induction s; try reflexivity. exact IHs. Qed.

Lemma peel_not_annot s lt x : peel s <> SAnnot lt x.
Proof. induction s; cbn [peel]; try discriminate. exact IHs. Qed.

Theorem dec_erase_bwd a : forall f e s,
  achk a s = true -> (forall n d, lookup e n = Some d -> achk a d = true) ->
  mono (dec f (erase_env e) (erase_schema s)) (dec (f * S a) e s).
Proof.
  induction f as [|f IH]; intros e s A AE bs x H; [discriminate H|].
  destruct (achk_peel _ _ A) as [CH AP]. rewrite peel_erase in H.
  apply (dec_fuel_mono (chain s + S (f * S a)) (S f * S a) e s ltac:(cbn; lia)).
  rewrite peel_dec. pose proof (peel_not_annot s) as NA.
  remember (peel s) as c eqn:EC. clear EC s A CH.
  assert (LE : (S f <= S (f * S a))%nat) by lia.
  destruct c; cbn [erase_schema] in H; try exact H; try (cbn [dec] in *; exact H).
  - cbn [achk] in AP. cbn [dec] in *. inv_bind H. injection H as <-.
    now rewrite (blocks_mono _ _ (IH e c AP AE) (S f) (S (f * S a)) LE _ _ E).
  - cbn [achk] in AP. cbn [dec] in *. inv_bind H. injection H as <-.
    now rewrite (blocks_mono _ _ (map_item_mono _ _ (IH e c AP AE)) (S f) (S (f * S a)) LE _ _ E).
  - cbn [achk] in AP. cbn [dec] in *. inv_bind H. cbn [bind]. rewrite nthZ_map in H.
    destruct (nthZ bs0 z) as [s0|] eqn:N; [|discriminate H]. cbn [option_map] in H. inv_bind H. injection H as <-.
    assert (A0 : achk a s0 = true).
    { rewrite forallb_forall in AP. apply AP. clear - N. revert z N. induction bs0 as [|y l IHl]; intros z N; [discriminate N|].
      cbn [nthZ] in N. destruct (z =? 0); [injection N as ->; now left|]. destruct (z <? 0); [discriminate N|]. right. eauto. }
    now rewrite (IH e s0 A0 AE _ _ E0).
  - cbn [achk] in AP. cbn [dec] in *. inv_bind H. injection H as <-. rewrite fields_map in E.
    assert (FM : forall fs0, forallb (fun f0 => achk a (ftype f0)) fs0 = true ->
                 mono (fields (fun s => dec f (erase_env e) (erase_schema s)) fs0) (fields (dec (f * S a) e) fs0)).
    { induction fs0 as [|fd fs0 IHf]; intros AF bs1 x1 H1; cbn [fields] in *; [exact H1|].
      cbn [forallb] in AF. apply Bool.andb_true_iff in AF. destruct AF as [AF1 AF2].
      inv_bind H1. inv_bind H1. injection H1 as <-. rewrite (IH e _ AF1 AE _ _ E0). cbn [bind].
      now rewrite (IHf AF2 _ _ E1). }
    now rewrite (FM fs AP _ _ E).
  - cbn [dec] in *. rewrite lookup_erase in H. destruct (lookup e n) as [d|] eqn:L; [|discriminate H].
    cbn [option_map] in H. exact (IH e d (AE _ _ L) AE _ _ H).
  - exfalso. eapply NA. reflexivity.
Qed.

(** ---- one inlining step: a reference and its definition decode alike ---- *)
(* [sim k e s1 s2]: whatever s1 decodes, s2 decodes with k more units of fuel *)
Definition sim (k : nat) (e : env) (s1 s2 : schema) : Prop := forall f, mono (dec f e s1) (dec (f + k) e s2).

Lemma sim_refl e s : sim 0 e s s.
Proof. intros f bs x H. now rewrite Nat.add_0_r. Qed.

Lemma sim_weaken k k' e s1 s2 : (k <= k')%nat -> sim k e s1 s2 -> sim k' e s1 s2.
Proof. intros L S f bs x H. apply (dec_fuel_mono (f + k) (f + k') e s2 ltac:(lia)). now apply S. Qed.

Lemma sim_ref_def e n d : lookup e n = Some d -> sim 0 e (SRef n) d /\ sim 1 e d (SRef n).
Proof.
  intros L. split; intros f bs x H.
  - destruct f as [|f]; [discriminate H|]. cbn [dec] in H. rewrite L in H. rewrite Nat.add_0_r. now apply dec_fuel_S.
  - rewrite Nat.add_1_r. cbn [dec]. now rewrite L.
Qed.

Lemma sim_array k e s1 s2 : sim k e s1 s2 -> sim k e (SArray s1) (SArray s2).
Proof.
  intros S f bs x H. destruct f as [|f]; [discriminate H|]. cbn [plus dec] in *. inv_bind H. injection H as <-.
  now rewrite (blocks_mono _ _ (S f) (Datatypes.S f) (Datatypes.S (f + k)) ltac:(lia) _ _ E).
Qed.

Lemma sim_map k e s1 s2 : sim k e s1 s2 -> sim k e (SMap s1) (SMap s2).
Proof.
  intros S f bs x H. destruct f as [|f]; [discriminate H|]. cbn [plus dec] in *. inv_bind H. injection H as <-.
  now rewrite (blocks_mono _ _ (map_item_mono _ _ (S f)) (Datatypes.S f) (Datatypes.S (f + k)) ltac:(lia) _ _ E).
Qed.

Lemma sim_annot k e lt s1 s2 : sim k e s1 s2 -> sim k e (SAnnot lt s1) (SAnnot lt s2).
Proof. intros S f bs x H. destruct f as [|f]; [discriminate H|]. cbn [plus dec] in *. now apply S. Qed.

Lemma sim_union k e l1 l2 : Forall2 (sim k e) l1 l2 -> sim k e (SUnion l1) (SUnion l2).
Proof.
  intros F f bs x H. destruct f as [|f]; [discriminate H|]. cbn [plus dec] in *. inv_bind H. cbn [bind].
  destruct (nthZ l1 z) as [s1|] eqn:N; [|discriminate H].
  assert (X : exists s2, nthZ l2 z = Some s2 /\ sim k e s1 s2).
  { clear - F N. revert z N. induction F as [|a b l1 l2 Hab F IHF]; intros z N; [discriminate N|].
    cbn [nthZ] in *. destruct (z =? 0); [injection N as <-; eauto|]. destruct (z <? 0); [discriminate N|]. eauto. }
  destruct X as (s2 & N2 & S12). rewrite N2. inv_bind H. injection H as <-. now rewrite (S12 _ _ _ E0).
Qed.

Lemma sim_record k e n al fs1 fs2 :
  Forall2 (fun a b => sim k e (ftype a) (ftype b)) fs1 fs2 -> sim k e (SRecord n al fs1) (SRecord n al fs2).
Proof.
  intros F f bs x H. destruct f as [|f]; [discriminate H|]. cbn [plus dec] in *. inv_bind H. injection H as <-.
  assert (X : forall bs x, fields (dec f e) fs1 bs = Ok x -> fields (dec (f + k) e) fs2 bs = Ok x).
  { clear - F. induction F as [|a b l1 l2 Hab F IHF]; intros bs x H; cbn [fields] in *; [exact H|].
    inv_bind H. inv_bind H. injection H as <-. rewrite (Hab _ _ _ E). cbn [bind]. now rewrite (IHF _ _ E0). }
  now rewrite (X _ _ E).
Qed.

(** two (schema, table) pairs with the same erasure decode alike (fuel: one unit per annotation) *)
Theorem dec_same_erasure a f e1 s1 e2 s2 :
  erase_schema s1 = erase_schema s2 -> erase_env e1 = erase_env e2 ->
  achk a s2 = true -> (forall n d, lookup e2 n = Some d -> achk a d = true) ->
  mono (dec f e1 s1) (dec (f * S a) e2 s2).
Proof.
  intros ES EE A AE bs x H. apply dec_erase_fwd in H. rewrite ES, EE in H.
  exact (dec_erase_bwd a f e2 s2 A AE _ _ H).
Qed.
